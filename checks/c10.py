#!/usr/bin/env python3
"""C10 UDP: proofs (Properties_C10.v) + correspondence of Model/Udp.v with src/unix/udp.c and
the udp entry checks of src/uv-common.c of the current tree, over real loopback sockets with
sendmsg/sendmmsg/recvmsg/recvmmsg wrapped (harness/c10_udp.c).  The answers the wrappers
actually gave are read back from the implementation's trace and are the model's oracle."""
import json, os, sys
sys.path.insert(0, os.path.join(os.path.dirname(os.path.abspath(__file__)), "..", "lib"))
import vf

WRAPS = ["sendmsg", "sendmmsg", "recvmsg", "recvmmsg"]
KEY_SKIP = "try_send2_skips_after_first_chunk"
ECANCELED = -125
EINTR, EAGAIN, ENOBUFS, EPERM, EMSGSIZE, ECONNREFUSED, ENOMEM = 4, 11, 105, 1, 90, 111, 12
CHUNK, FREE, PARTIAL = 8, 16, 2

# --------------------------------------------------------------------------
# case construction
# --------------------------------------------------------------------------
def mk_case(fam=4, conn=0, mm=0, allocs=(), splan=(), rplan=(), ops=(), behs=(), rbehs=(), pat=None):
    """pat: the byte every uv_udp_send_t is pre-filled with (0: 0x00, 1: 0x5A, 2: 0xFF)."""
    if pat is None:
        pat = (len(ops) + len(splan) + fam) % 3
    return "%d %d %d %d ; %s ; %s ; %s ; %s ; %s ; %s" % (
        fam, conn, mm, pat, " ".join(str(a) for a in allocs), " ".join(splan), " ".join(rplan),
        " ".join(ops), " | ".join(behs), " | ".join(rbehs))


def small_len(rng):
    return rng.choice([0, 1, 5, 6, 6, 7, 10, 10, 16, 33, 100, 100, 512, 1400])


def any_len(rng):
    r = rng.random()
    if r < 0.90:
        return small_len(rng)
    if r < 0.97:
        return rng.choice([9000, 30000, 65507])
    return 66000          # the kernel itself answers EMSGSIZE


def err_plan(rng):
    return rng.choice(["e%d" % EAGAIN, "e%d" % EAGAIN, "e%d" % ENOBUFS, "e%d" % EINTR, "e%d" % EINTR,
                       "e%d" % EPERM, "e%d" % EMSGSIZE, "e%d" % ENOMEM, "e%d" % ECONNREFUSED])


def send_plan(rng, n, p_fault):
    out = []
    for _ in range(n):
        r = rng.random()
        if r < p_fault:
            out.append(err_plan(rng))
        elif r < 1.6 * p_fault:
            out.append("t%d" % rng.choice([1, 1, 2, 3, 5, 10, 19, 20]))
        else:
            out.append("p")
    return out


IOV_COUNTS = [1023, 1024, 1025, 1030, 1500, 2048]


def nb_of(rng, p_big=0.02):
    """suffix giving the number of buffers of a datagram: mostly none (1 + len % 6), sometimes
    small explicit, rarely around IOV_MAX (1024)"""
    r = rng.random()
    if r < p_big:
        return rng.choice(IOV_COUNTS)
    if r < 0.15:
        return rng.choice([1, 2, 4, 5, 7, 16, 100])
    return None


def with_nb(tok, nb):
    return tok if nb is None else "%s,%d" % (tok, nb)


def iov_len(rng, nb):
    """length of a datagram of nb one-byte and zero-byte buffers"""
    return rng.choice([0, 1, 7, 100, nb - 1, nb, nb + 3, 3000])


def iov_cases(rng, n):
    """Datagrams of 1023 .. 2048 buffers through uv_udp_send, uv_udp_try_send and
    uv_udp_try_send2, on the sendmsg path (alone) and the sendmmsg path (in a batch, first /
    in the middle / last, also beyond the 20-message chunk); the kernel answers by itself."""
    out = []
    for i in range(n):
        fam, conn = rng.choice([4, 6]), rng.choice([0, 1])
        ad = 0 if conn else rng.choice([1, 2])
        nb = IOV_COUNTS[i % len(IOV_COUNTS)]
        big = "%d" % iov_len(rng, nb)
        kind = i // len(IOV_COUNTS) % 6
        plan, behs = [], []
        if kind == 0:          # uv_udp_send alone: sendmsg
            ops = ["s%s,%d,%d" % (big, ad, nb), "g", "R", "g"]
        elif kind == 1:        # uv_udp_try_send
            ops = ["t%s,%d,%d" % (big, ad, nb), "g", "t5,%d" % ad, "g"]
        elif kind == 2:        # queued behind EAGAIN: sendmmsg, the long one somewhere in the batch
            k, pos = rng.choice([2, 3, 5, 21, 25]), None
            pos = rng.randrange(k)
            plan = ["e11"]
            ops = [("s%s,%d,%d" % (big, ad, nb)) if j == pos else "s%d,%d" % (small_len(rng), ad) for j in range(k)]
            ops += ["g", "R", "g", "R", "g"]
            behs = ["g"] * k
        elif kind == 3:        # try_send2 batch of one: sendmsg path
            ops = ["u0,%d,%s:%d" % (ad, big, nb), "g"]
        else:                  # try_send2 batch: sendmmsg path
            k = rng.choice([2, 3, 19, 20, 21, 40]) if kind == 4 else rng.choice([2, 5, 22])
            pos = rng.choice([0, k - 1, rng.randrange(k)])
            items = [("%s:%d" % (big, nb)) if j == pos else "%d" % small_len(rng) for j in range(k)]
            if kind == 5 and k > 2:          # two long ones
                items[rng.randrange(k)] = "%d:%d" % (iov_len(rng, 1025), rng.choice(IOV_COUNTS))
            ops = ["u0,%d,%s" % (ad, ",".join(items)), "g"]
        ops += ["R", "x", "R", "g"]
        out.append(mk_case(fam, conn, 0, [], plan, [], ops, behs, pat=rng.choice([0, 1, 2])))
    return out


def addr_of(rng, conn, p_wrong=0.04):
    """0 = NULL (connected handle), 1 / 2 = the two plain sockets."""
    wrong = rng.random() < p_wrong
    if bool(conn) != wrong:
        return 0
    return rng.choice([1, 1, 2])


def addr2_of(rng, conn):
    """address argument of a try_send2 batch; 3 = destinations 1 and 2 alternating"""
    if conn:
        return rng.choice([0] * 8 + [1, 2, 3])      # Linux honours an explicit address on a connected socket
    return rng.choice([1, 1, 2, 3, 3] + ([0] if rng.random() < 0.05 else []))


def try2_cases(rng, quick):
    """uv_udp_try_send2 with batches 1..64 and 41, 50, 100."""
    out = []
    counts = list(range(0, 65)) + [41, 50, 100, 100, 21, 39, 40, 60, 61, 80]
    for cnt in counts:
        for variant in range(4 if quick else 12):
            fam, conn = rng.choice([4, 6]), rng.choice([0, 1])
            big = rng.random() < 0.1 and cnt <= 24
            lens = [(any_len(rng) if big else small_len(rng)) for _ in range(cnt)]
            if variant == 0:
                plan = []
            else:
                k = rng.randint(0, max(0, (cnt - 1) // 20 + 1))
                plan = ["p"] * k
                r = rng.random()
                if r < 0.35:
                    plan += ["t%d" % rng.randint(1, 20)]
                    if rng.random() < 0.7:
                        plan += [err_plan(rng)]
                elif r < 0.8:
                    plan += [err_plan(rng)] * rng.choice([1, 1, 2])
                    if rng.random() < 0.3:
                        plan += ["t%d" % rng.randint(1, 20)]
                else:
                    plan = send_plan(rng, 8, 0.3)
            ops = ["u%s" % ",".join(str(x) for x in [rng.choice([0] * 30 + [1]), addr2_of(rng, conn)] + lens), "g"]
            r = rng.random()
            if r < 0.3:
                ops += ["t%d,%d" % (small_len(rng), addr_of(rng, conn)), "g"]
            elif r < 0.5:
                ops += ["u0,%d,%s" % (addr2_of(rng, conn), ",".join(str(small_len(rng)) for _ in range(rng.randint(1, 45)))), "g"]
            elif r < 0.7:
                ops += ["s%d,%d" % (small_len(rng), addr_of(rng, conn)), "g", "R", "g"]
            ops += ["x", "R", "g"]
            out.append(mk_case(fam, conn, 0, [], plan, [], ops))
    return out


def cb_ops(rng, conn, may_close=True):
    ops = []
    for _ in range(rng.choice([0, 0, 1, 1, 2, 3])):
        r = rng.random()
        if r < 0.40:
            ops.append("s%d,%d" % (small_len(rng), addr_of(rng, conn)))
        elif r < 0.55:
            ops.append("t%d,%d" % (small_len(rng), addr_of(rng, conn)))
        elif r < 0.65:
            ops.append("u0,%d,%s" % (addr2_of(rng, conn), ",".join(str(small_len(rng)) for _ in range(rng.randint(1, 30)))))
        elif r < 0.9:
            ops.append("g")
        elif r < 0.93 and may_close:
            ops.append("x")
        elif r < 0.96:
            ops.append("q")
        else:
            ops.append("p")
    return ops + ["g"]


def queue_cases(rng, n):
    """uv_udp_send under back-pressure: forced EAGAIN then POLLOUT, errors, batches beyond
    20 queued requests, callbacks that send again, close with sends queued."""
    out = []
    for _ in range(n):
        fam, conn = rng.choice([4, 6]), rng.choice([0, 1])
        style = rng.random()
        conn0 = conn
        nsend = rng.choice([1, 2, 3, 5, 8, 19, 20, 21, 22, 40, 41, 45])
        ops = []
        if style < 0.35:
            plan = ["e%d" % rng.choice([EAGAIN, ENOBUFS])] * rng.choice([1, 1, 2, 3]) + send_plan(rng, 12, 0.25)
        elif style < 0.7:
            plan = send_plan(rng, 14, 0.3)
        else:
            plan = []
        for i in range(nsend):
            ops.append(with_nb("s%d,%d" % (any_len(rng) if rng.random() < 0.2 else small_len(rng), addr_of(rng, conn)),
                               nb_of(rng)))
            r = rng.random()
            if r < 0.15:
                ops.append("g")
            elif r < 0.22:
                ops.append("R")
            elif r < 0.26:
                ops.append("t%d,%d" % (small_len(rng), addr_of(rng, conn)))
            elif r < 0.29:
                ops.append("u0,%d,%d,%d" % (addr2_of(rng, conn), small_len(rng), small_len(rng)))
            elif r < 0.34 and not conn:
                conn = rng.choice([1, 2])            # connect with sends possibly queued
                ops.append("c%d" % conn)
            elif r < 0.37 and conn:
                conn = 0
                ops.append("d")
        ops.append("g")
        close_early = rng.random() < 0.3
        for _ in range(rng.choice([0, 1, 1, 2, 3]) if close_early else rng.choice([2, 3, 4, 6])):
            ops += ["R", "g"]
            if rng.random() < 0.2:
                ops.append("s%d,%d" % (small_len(rng), addr_of(rng, conn)))
        ops += ["x", "g", "R", "g"]
        behs = [" ".join(cb_ops(rng, conn)) for _ in range(rng.choice([0, 2, 6, 12]))]
        out.append(mk_case(fam, conn0, 0, [], plan, [], ops, behs))
    return out


def io_both_cases(rng, n):
    """One poll event that is readable and writable: requests queued behind a scripted EAGAIN (POLLOUT
    armed), receiving started and a datagram injected, then uv_run; the recv callback of that event
    closes the handle / stops receiving / sends / does nothing.  The status rule decides (UV_ECANCELED
    for requests not handed to the OS when the handle is closed first)."""
    out = []
    for i in range(n):
        fam, conn, mm = rng.choice([4, 6]), rng.choice([0, 1]), rng.choice([0, 1])
        ad = 0 if conn else rng.choice([1, 2])
        k = rng.choice([1, 2, 3, 5, 21, 24])
        plan = ["e%d" % rng.choice([EAGAIN, ENOBUFS])] + (send_plan(rng, 4, 0.3) if rng.random() < 0.3 else [])
        ops = ["p"] if rng.random() < 0.5 else []
        ops += ["s%d,%d" % (small_len(rng), ad) for _ in range(k)]
        if "p" not in ops:
            ops.append("p")
        ninj = rng.choice([1, 1, 2, 3, 25])
        ops += ["g", "i" + ",".join(str(small_len(rng)) for _ in range(ninj)), "R", "g", "R", "g", "x", "R", "g"]
        what = ["x", "x", "x g", "q", "q p", "", "s%d,%d g" % (small_len(rng), ad), "g x"][i % 8]
        pos = rng.choice([0, 0, 0, 1, 2]) if ninj > 1 else 0
        rb = [""] * pos + [what]
        if rng.random() < 0.3:
            rb += ["g", "x"]
        allocs = [rng.choice([65536, 131072, 20 * 65536])] * 40 if mm else [rng.choice([100, 1500, 65536])] * 40
        behs = [" ".join(cb_ops(rng, conn)) for _ in range(rng.choice([0, 0, 3]))]
        out.append(mk_case(fam, conn, mm, allocs, plan, [], ops, behs, rb))
    return out


ALLOC_SIZES = [1, 2, 5, 6, 7, 64, 100, 1500, 65535, 65536, 65537, 100000, 131072, 200000,
               5 * 65536, 19 * 65536, 20 * 65536, 20 * 65536 + 5, 21 * 65536]


def recv_cases(rng, n):
    out = []
    for _ in range(n):
        fam, conn, mm = rng.choice([4, 6]), rng.choice([0, 1]), rng.choice([0, 1])
        ops = ["p"]
        ninj = 0
        allocs = []
        style = rng.random()
        for _ in range(rng.choice([1, 2, 3, 5])):
            k = rng.choice([0, 1, 2, 3, 5, 19, 20, 21, 25, 33, 40, 45])
            if ninj + k > 120:
                k = 0
            if k:
                heavy = rng.random() < 0.1
                lens = []
                for _ in range(k):
                    lens.append(rng.choice([9000, 20000, 60000]) if heavy and len(lens) < 3 else small_len(rng))
                ops.append("i" + ",".join(str(x) for x in lens))
                ninj += k
            ops += ["R", "g"]
            r = rng.random()
            if r < 0.1:
                ops += ["q", "g", "p"]
            elif r < 0.2:
                ops.append("s%d,%d" % (small_len(rng), addr_of(rng, conn)))
        ops += ["R", "x", "R", "g"]
        # what alloc_cb hands out
        nal = rng.choice([3, 10, 40, 80, 200])
        if style < 0.15:
            pool = ALLOC_SIZES                        # anything, also < 64 KiB with recvmmsg
        elif mm:
            pool = [s for s in ALLOC_SIZES if s >= 65536]
        else:
            pool = [s for s in ALLOC_SIZES if s <= 200000]
        fixed = rng.choice(pool)
        for _ in range(nal):
            allocs.append(fixed if rng.random() < 0.6 else rng.choice(pool))
            if rng.random() < 0.02:
                allocs.append(0)
        rplan = []
        for _ in range(rng.choice([0, 0, 4, 10])):
            r = rng.random()
            rplan.append("e%d" % rng.choice([EAGAIN, EINTR, EINTR, ENOMEM, ECONNREFUSED]) if r < 0.3
                         else ("t%d" % rng.randint(1, 20) if r < 0.5 else "p"))
        rb = []
        for _ in range(rng.choice([0, 0, 4, 30])):
            r = rng.random()
            if r < 0.6:
                rb.append("")
            elif r < 0.75:
                rb.append("g")
            elif r < 0.85:
                rb.append("s%d,%d g" % (small_len(rng), addr_of(rng, conn)))
            elif r < 0.90:
                rb.append("q")
            elif r < 0.94:
                rb.append("q p")
            elif r < 0.97:
                rb.append("x")
            else:
                rb.append("t%d,%d" % (small_len(rng), addr_of(rng, conn)))
        behs = [" ".join(cb_ops(rng, conn)) for _ in range(rng.choice([0, 0, 3]))]
        out.append(mk_case(fam, conn, mm, allocs, send_plan(rng, 4, 0.2) if rng.random() < 0.3 else [],
                           rplan, ops, behs, rb))
    return out


def dest_cases(rng, n):
    """Destinations: request structures pre-filled with a byte pattern and reused across sends to
    different destinations, connect / disconnect between them, NULL address on a connected handle."""
    out = []
    for _ in range(n):
        fam, conn = rng.choice([4, 6]), rng.choice([0, 0, 1])
        conn0 = conn
        ops = []
        plan = send_plan(rng, 10, 0.15) if rng.random() < 0.4 else []
        for _ in range(rng.randint(3, 14)):
            r = rng.random()
            if r < 0.45:
                ops.append(with_nb("s%d,%d" % (small_len(rng), addr_of(rng, conn, 0.02)), nb_of(rng)))
                if rng.random() < 0.6:
                    ops.append("R")
            elif r < 0.55:
                ops.append(with_nb("t%d,%d" % (small_len(rng), addr_of(rng, conn, 0.02)), nb_of(rng)))
            elif r < 0.65:
                ops.append("u0,%d,%s" % (addr2_of(rng, conn), ",".join(str(small_len(rng)) for _ in range(rng.randint(1, 25)))))
            elif r < 0.85:
                if conn:
                    ops.append("d")
                    conn = 0
                else:
                    conn = rng.choice([1, 2])
                    ops.append("c%d" % conn)
            else:
                ops += ["R", "g"]
        ops += ["R", "g", "R", "x", "R", "g"]
        behs = [" ".join(cb_ops(rng, conn, may_close=False)) for _ in range(rng.choice([0, 0, 4]))]
        out.append(mk_case(fam, conn0, 0, [], plan, [], ops, behs, pat=rng.choice([0, 1, 2])))
    return out


WITNESS = mk_case(4, 0, 0, [], [], [], ["u0,1," + ",".join(["10"] * 50), "g", "x", "R"])

FIXED_CASES = [
    WITNESS,
    mk_case(6, 1, 0, [], [], [], ["u0,0," + ",".join(["7"] * 41), "g", "x", "R"]),
    mk_case(4, 1, 0, [], [], [], ["u0,0," + ",".join(["12"] * 100), "g", "x", "R"]),
    mk_case(4, 0, 0, [], ["p", "t3", "e11"], [], ["u0,3," + ",".join(["9"] * 50), "g", "x", "R"]),
    # a request used for an unconnected send to destination 2, the handle then connects to
    # destination 1 and the same request (not cleared) carries a send with a NULL address
    mk_case(4, 0, 0, [], [], [], ["s9,2", "R", "c1", "s9,0", "R", "g", "x", "R"], pat=0),
    mk_case(6, 0, 0, [], [], [], ["s9,2", "R", "c1", "s9,0", "s7,0", "R", "d", "s8,1", "R", "g", "x", "R"], pat=1),
    mk_case(4, 0, 0, [], ["e11"], [], ["s9,1", "s9,2", "R", "c2", "s9,0", "s9,0", "R", "g", "x", "R"], ["s5,0"], pat=2),
    # more than IOV_MAX buffers: the kernel answers EMSGSIZE, nothing is sent; exactly 1024 go out
    mk_case(4, 0, 0, [], [], [], ["s1025,1,1025", "g", "R", "g", "s1024,1,1024", "R", "g", "t1030,1,1030", "t1024,2,1024",
                                  "u0,1,1500:1500", "u0,1,7,8:1025,9", "u0,1,7:1024,1025:1025,9", "g", "x", "R"], ["g", "g"], pat=0),
    mk_case(6, 1, 0, [], ["e11"], [], ["s6,0", "s100,0,2048", "s7,0", "g", "R", "g", "R", "g", "x", "R"], ["g", "g", "g"], pat=1),
    # one poll event readable and writable, the recv callback closes the handle: the queued requests
    # are cancelled, uv__udp_io does not touch the closed handle's send queue
    mk_case(4, 0, 0, [1500] * 8, ["e11"], [], ["p", "s8,1", "s9,1", "s10,1", "g", "i7", "R", "g", "R", "g"], ["g", "g", "g"], ["x g"], pat=0),
    mk_case(6, 1, 1, [131072] * 8, ["e105"], [], ["s8,0", "s9,0", "p", "g", "i7,8,9", "R", "g", "R", "g"], ["g", "g"], ["", "x", "g"], pat=1),
    mk_case(4, 0, 0, [1500] * 8, ["e11"], [], ["p", "s8,2", "s9,1", "g", "i7", "R", "g", "x", "R", "g"], ["g", "g"], ["q g"], pat=2),
    # requests full of 0x5A / 0xFF on a connected handle
    mk_case(4, 1, 0, [], [], [], ["s9,0", "s9,0", "R", "g", "x", "R"], pat=1),
    mk_case(6, 1, 0, [], ["e11"], [], ["s9,0", "s9,0", "s9,0", "R", "g", "x", "R"], pat=2),
    # 45 queued sends behind a forced EAGAIN, POLLOUT later
    mk_case(4, 0, 0, [], ["e11"], [], ["s8,1"] * 45 + ["g", "R", "g", "R", "g", "x", "R", "g"], ["g"] * 45),
    # close with sends queued
    mk_case(6, 0, 0, [], ["e11", "e105"], [], ["s8,1", "s9,1", "s0,1", "g", "R", "g", "x", "g", "R", "g"], ["g", "g", "g"]),
    # error on the second queued request
    mk_case(4, 1, 0, [], ["e11", "t1", "e1"], [], ["s8,0", "s9,0", "s10,0", "g", "R", "g", "R", "g", "x", "R"], ["g s4,0", "g", "g", "g"]),
    # receive, both modes, odd buffer sizes
    mk_case(4, 0, 0, [1] * 40, [], [], ["p", "i10,0,100", "R", "g", "x", "R"]),
    mk_case(4, 0, 1, [20 * 65536] * 5, [], [], ["p", "i" + ",".join(["10"] * 45), "R", "R", "g", "x", "R"]),
    mk_case(6, 1, 1, [65536] * 40, [], ["e4", "p", "e12"], ["p", "i5,6,7", "R", "R", "g", "x", "R"]),
    # recvmmsg with a buffer below 64 KiB: zero chunks, the budget is never used up (DESIGN 3.15)
    mk_case(4, 0, 1, [100] * 10, [], [], ["p", "i5,6,7", "R", "g", "x", "R"]),
    # uv_udp_recv_stop inside a chunk callback: no UV_UDP_MMSG_FREE (DESIGN 3.15)
    mk_case(4, 0, 1, [131072] * 4, [], [], ["p", "i5,6", "R", "g", "p", "R", "x", "R"], [], ["q"]),
]


# --------------------------------------------------------------------------
# implementation trace -> oracle of the model
# --------------------------------------------------------------------------
def model_case(case, impl_line):
    runs, sa, ra = [], [], []
    for t in impl_line.split():
        if t[0] == "R":
            runs.append(t)
        elif t[0] in "mM":
            sa.append(t.split("=", 1)[1])
        elif t[0] in "vV":
            ra.append(t.split("=", 1)[1])
    f = case.split(";")
    ops = []
    for t in f[4].split():
        if t == "R":
            ops.append(runs.pop(0) if runs else "R00")
        else:
            ops.append(t)
    f[4] = " " + " ".join(ops) + " "
    return ";".join(f) + " ; " + " ".join(sa) + " ; " + " ".join(ra)


# --------------------------------------------------------------------------
# the property, decided on the implementation's own trace
# --------------------------------------------------------------------------
def udp_monitor(case, line):
    """Returns a list of (key, text); key None = plain violation."""
    bad = []
    owed = {}            # id -> (seq, len), submission order
    done = set()
    handed = []
    errs = {}
    closed = closedcb = False
    buf = None           # [b, chunks_seen, stopped, alloc_len]
    nbuf = 0
    pend = []            # messages the kernel returned and recv_cb has not delivered yet
    pend_stop = False    # uv_udp_recv_stop ran inside a chunk callback since
    nextmsg = 0
    toks = line.split()
    if not toks or toks[0] == "BADCASE":
        return [(None, "harness rejected the case")]
    if toks[-1].startswith("!") or "HANG" in toks:
        bad.append((None, "the library did not come back from the case (%s)" % toks[-1]))
    asked = {}                                 # seq -> address the application gave (0 = NULL)
    peer = 1 if case.split(";")[0].split()[1] == "1" else 0
    expect = {1: [], 2: []}                    # what each plain socket must receive, in order
    rec = {}                                   # what each plain socket did receive
    DEST = {0: "the connected peer", 1: "destination 1", 2: "destination 2"}

    def seqname(x):
        sq, _, nm = x.partition("@")
        return int(sq), nm

    def hand(seqs):
        for s in seqs:
            w = asked.get(s, 0)
            to = w if w else peer
            if to in expect:
                expect[to].append(s)
            else:
                bad.append((None, "datagram %d was handed to the OS although it has no destination" % s))
            if s < 0:
                bad.append((None, "a datagram the application never submitted was handed to the OS"))
            if handed and s <= handed[-1]:
                bad.append((None, "datagram %d handed to the OS after %d (twice or out of order)" % (s, handed[-1])))
            handed.append(s)

    for t in toks:
        c, a = t[0], t[1:]
        if c == "S":
            l, ret = a.split("=")
            i, sq, ln = [int(x) for x in l.split(",")]
            if int(ret) == 0:
                if i in owed or i in done:
                    bad.append((None, "request id %d reused" % i))
                owed[i] = (sq, ln)
        elif c == "A":
            sq0, cnt, ad = [int(x) for x in a.split(",")]
            for k in range(cnt):
                asked[sq0 + k] = (1 + (sq0 + k) % 2) if ad == 3 else ad
        elif c == "C":
            d, ret = a.split("=")
            if int(ret) == 0:
                peer = int(d)
        elif c == "D":
            if int(a.split("=")[1]) == 0:
                peer = 0
        elif c == "m":
            sq, ans = a.split("=")
            sq = seqname(sq)[0]
            if ans[0] != "E":
                hand([sq])
            elif int(ans[1:]) not in (EINTR, EAGAIN, ENOBUFS):
                errs[sq] = -int(ans[1:])
        elif c == "M":
            l, ans = a.split("=")
            seqs = [seqname(x)[0] for x in l.split(".")] if l else []
            if ans[0] != "E":
                if int(ans) > len(seqs):
                    bad.append((None, "sendmmsg wrapper answered more than vlen"))
                hand(seqs[:int(ans)])
            elif int(ans[1:]) not in (EINTR, EAGAIN, ENOBUFS) and seqs:
                errs[seqs[0]] = -int(ans[1:])
        elif c == "c":
            i, status = [int(x) for x in a.split(",")]
            if closedcb:
                bad.append((None, "send callback after close_cb"))
            if i not in owed:
                bad.append((None, "send callback for request %d which is not pending (callback count != 1)" % i))
                continue
            sq, ln = owed.pop(i)
            done.add(i)
            if sq in handed:
                if status != 0:
                    bad.append((None, "request %d was handed to the OS but its status is %d" % (i, status)))
            elif status == 0:
                bad.append((None, "request %d reported status 0 but its datagram %d was never handed to the OS" % (i, sq)))
            elif not (errs.get(sq) == status or (status == ECANCELED and closed)):
                bad.append((None, "request %d reported status %d; OS error %s, closed=%s%s"
                            % (i, status, errs.get(sq), closed,
                               " (not handed to the OS when the handle was closed: UV_ECANCELED expected)" if closed else "")))
        elif c == "g":
            size, count, act = [int(x) for x in a.split(",")]
            if count != len(owed) or size != sum(v[1] for v in owed.values()):
                bad.append((None, "getters say size=%d count=%d but %d requests / %d bytes are owed a callback"
                            % (size, count, len(owed), sum(v[1] for v in owed.values()))))
        elif c == "T":
            l, ret = a.split("=")
            sq, ln = [int(x) for x in l.split(",")]
            ret = int(ret)
            if ret >= 0 and (not handed or handed[-1] != sq or ret != ln):
                bad.append((None, "try_send returned %d for datagram %d (%d bytes) which was not handed over" % (ret, sq, ln)))
            if ret < 0 and sq in handed:
                bad.append((None, "try_send returned %d although datagram %d was handed over" % (ret, sq)))
        elif c == "U":
            l, ret = a.split("=")
            sq0, cnt = [int(x) for x in l.split(",")]
            ret = int(ret)
            mine = [s for s in handed if sq0 <= s < sq0 + cnt]
            want = list(range(sq0, sq0 + max(ret, 0)))
            if mine != want:
                # any other deviation for a batch > 20 still shows as a disagreement with the model
                skipped = cnt > 20 and ret > 0
                bad.append((KEY_SKIP if skipped else None,
                            "uv_udp_try_send2 of %d datagrams returned %d but datagrams %s were handed to the OS"
                            % (cnt, ret, compress([s - sq0 for s in mine]))))
        elif c == "X":
            closed = True
        elif c == "Z":
            closedcb = True
            if owed:
                bad.append((None, "close_cb ran with %d send requests still owed a callback" % len(owed)))
        elif c == "a":
            b, ln = [int(x) for x in a.split(",")]
            if buf is not None and not buf[2]:
                bad.append((None, "alloc_cb called while buffer %d was not handed back" % buf[0]))
            if buf is not None and buf[2]:
                pend, pend_stop = [], False     # left behind with the abandoned buffer (DESIGN 3.15)
            if b < nbuf:
                bad.append((None, "buffer id reused"))
            nbuf = b + 1
            buf = [b, False, False, ln]
        elif c in "vV":
            ans = a.split("=", 1)[1]
            if pend and not pend_stop:
                bad.append((None, "%d received datagrams were never delivered" % len(pend)))
            pend, pend_stop = [], False
            if ans[0] != "E" and ans != "0":
                for m in ans.split("/"):
                    i, ln, tr = [int(x) for x in m.split(":")]
                    if i != nextmsg:
                        bad.append((None, "harness numbering of received datagrams broke"))
                    nextmsg = i + 1
                    pend.append((i, ln, tr))
        elif c == "r":
            b, part, nread, msg, flags, addr, ok = a.split(",")
            b, nread, flags = int(b), int(nread), int(flags)
            if buf is None or buf[0] != b or part == "?":
                bad.append((None, "recv_cb with a buffer that is not the one alloc_cb handed out"))
                continue
            if msg != "-":
                if not pend or pend[0][0] != int(msg):
                    bad.append((None, "datagram %s delivered twice or out of order" % msg))
                else:
                    i, ln, tr = pend.pop(0)
                    if nread != ln or bool(flags & PARTIAL) != bool(tr):
                        bad.append((None, "datagram %d delivered with nread=%d flags=%d, kernel said len=%d trunc=%d"
                                    % (i, nread, flags, ln, tr)))
                if addr != "p" or ok != "1":
                    bad.append((None, "datagram %s delivered with wrong sender address or payload" % msg))
            elif addr != "-":
                bad.append((None, "recv_cb without a datagram but with an address"))
            if part == "w":
                if flags & CHUNK:
                    bad.append((None, "whole buffer passed with UV_UDP_MMSG_CHUNK"))
                if buf[1] and not (flags & FREE):
                    bad.append((None, "buffer %d handed back without UV_UDP_MMSG_FREE after chunk callbacks" % b))
                if pend and not buf[2]:
                    bad.append((None, "buffer %d handed back with %d datagrams undelivered" % (b, len(pend))))
                buf = None
            else:
                if not (flags & CHUNK):
                    bad.append((None, "chunk callback without UV_UDP_MMSG_CHUNK"))
                buf[1] = True
        elif c == "Q":
            if buf is not None and buf[1]:
                buf[2] = True
                pend_stop = True
        elif c in "WY":
            rec[1 if c == "W" else 2] = a.split(".") if a else []
    for who in (1, 2):
        if who not in rec:
            continue
        exp = [str(x) for x in expect[who]]
        other = [str(x) for x in expect[3 - who]]
        for x in rec[who]:
            if "/" in x:
                sq, ln = x.split("/")
                bad.insert(0, (None, "datagram %s was reported handed over (status 0 / counted as sent) but destination %d "
                                     "received %s bytes of it, not the bytes of all its buffers" % (sq, who, ln)))
        if rec[who] != exp:
            stray = [x for x in rec[who] if x in other and x not in exp]
            if stray:
                sq = int(stray[0])
                bad.insert(0, (None, "datagram %d for %s arrived at destination %d"
                               % (sq, ("destination %d" % asked[sq]) if asked.get(sq) else
                                  "the connected peer (destination %d)" % (3 - who), who)))
            else:
                bad.append((None, "destination %d received %s but %s were handed to the OS for it (lost, duplicated or reordered)"
                            % (who, compress_s(rec[who]), compress(expect[who]))))
    if buf is not None and not buf[2]:
        bad.append((None, "buffer %d from alloc_cb was never handed back" % buf[0]))
    if closedcb and owed:
        bad.append((None, "requests without a callback at the end"))
    return bad


def compress(l):
    out, i = [], 0
    while i < len(l):
        j = i
        while j + 1 < len(l) and l[j + 1] == l[j] + 1:
            j += 1
        out.append("%d-%d" % (l[i], l[j]) if j > i else "%d" % l[i])
        i = j + 1
    return "[" + ",".join(out) + "]"


def compress_s(l):
    try:
        return compress([int(x) for x in l])
    except ValueError:
        return "[" + ",".join(l) + "]"


def main():
    chk = vf.Check("C10")
    thorough = chk.tier == "thorough"
    assume_known = os.environ.get("C10_ASSUME_KNOWN") == "1"    # test aid, see notes/C10.md
    chk.prove()
    try:
        lib = vf.build_libuv(chk.scratch, "ndebug")
        exe = vf.cc_harness(chk.scratch, "c10_udp", ["c10_udp.c"], lib=lib, wraps=WRAPS)
        model = vf.model_bin("C10")
    except vf.BuildError as e:
        chk.violation("build failed: %s" % str(e)[:300], {"kind": "build", "log": str(e)}, found_input=False)
        chk.finish(rule="build failed")

    full = {}        # case -> implementation trace with the A annotations (what the application asked for)

    def monitor(case, line):
        for key, text in udp_monitor(case, full.get(case, line)):
            if key is not None:
                f = chk.match_known(key)
                if f is None and assume_known:
                    f = {"key": key, "what": "(assumed known for a test run) " + text}
                if f is not None:
                    chk.known_hit(f)
                    continue
            return text
        return None

    def run(name, cases, shards=8):
        a, rc, err = vf.run_lines([exe], cases, shards=shards)
        if len(a) != len(cases) or (rc != 0 and not any("!" in l or "HANG" in l for l in a)):
            chk.violation("%s: harness failed (exit %s): %s" % (name, rc, (err or "")[-300:]),
                          {"kind": "harness", "obligation": name, "stderr": (err or "")[-2000:]}, found_input=False)
            return [], []
        for c, l in zip(cases, a):
            full[c] = l
        a = [" ".join(t for t in l.split() if t[0] != "A") for l in a]
        mc = [model_case(c, l) for c, l in zip(cases, a)]
        b, rc2, err2 = vf.run_lines([model], mc, shards=shards)
        verdicts = [l.rsplit(" ", 1)[-1] if l else "" for l in b]
        b = [l.rsplit(" ", 1)[0] if l else l for l in b]
        for c, v, l in zip(cases, verdicts, b):
            if v != "A1":
                chk.violation("%s: the extracted Coq monitors reject a trace of the model (contradicts C10_send_monitor_accepts / C10_recv_buffers_returned)" % name,
                              {"kind": "model", "case": c, "model": l}, found_input=False)
                break
        vf.diff_cases(chk, name, cases, a, b, monitor)
        return a, b

    if chk.replay:
        rp = json.load(open(chk.replay))
        cases = [rp["case"]] if "case" in rp else []
        a, b = run("replay", cases, shards=1)
        for x, y in zip(a, b):
            print("impl : " + x)
            print("model: " + y)
        chk.finish(rule="replay of one case")

    corpus = []
    cp = os.path.join(vf.VERIF, "corpus", "C10", "cases.txt")
    if os.path.exists(cp):
        corpus = [l.rstrip("\n") for l in open(cp) if l.strip() and not l.startswith("#")]
    fixed = FIXED_CASES + corpus
    a, _ = run("udp.c = Model/Udp.v (fixed cases and corpus)", fixed, shards=1)
    if a:
        chk.sample({"case": WITNESS[:120] + "...", "impl": a[0][:300]})

    t2 = try2_cases(chk.rng, not thorough)
    a, _ = run("uv_udp_try_send2 batches = Model/Udp.v", t2)
    qc = queue_cases(chk.rng, 12000 if thorough else 1500)
    a, _ = run("uv_udp_send queue = Model/Udp.v", qc)
    if a:
        chk.sample({"case": qc[0][:300], "impl": a[0][:300]})
    ic = iov_cases(chk.rng, 1800 if thorough else 360)
    a, _ = run("udp datagrams of ~IOV_MAX buffers = Model/Udp.v", ic)
    if a:
        chk.sample({"case": ic[0][:200], "impl": a[0][:300]})
    bc = io_both_cases(chk.rng, 4000 if thorough else 600)
    a, _ = run("udp readable+writable event, callback closes = Model/Udp.v", bc)
    if a:
        chk.sample({"case": bc[0][:300], "impl": a[0][:300]})
    dc = dest_cases(chk.rng, 8000 if thorough else 1000)
    a, _ = run("udp destinations = Model/Udp.v", dc)
    if a:
        chk.sample({"case": dc[0][:300], "impl": a[0][:300]})
    rc = recv_cases(chk.rng, 10000 if thorough else 1000)
    a, _ = run("udp receive = Model/Udp.v", rc)
    if a:
        chk.sample({"case": rc[0][:300], "impl": a[0][:300]})

    chk.finish(
        level="proof",
        rule="scripts of uv_udp_send/try_send/try_send2/recv_start/recv_stop/close/uv_run(NOWAIT) steps with scripted "
             "callbacks on loopback sockets (IPv4/IPv6, connected or not, with and without UV_UDP_RECVMMSG); "
             "wrapped sendmsg/sendmmsg/recvmsg/recvmmsg forced to partial results, EAGAIN/ENOBUFS/EINTR and hard "
             "errors; the whole event trace (system calls with the datagrams offered, return values, callbacks, "
             "getters, buffers) is compared with the extracted model fed with the recorded kernel answers; "
             "a case is non-trivial when its (case, implementation trace) pair is distinct",
        trusted=["Coq 8.16.1 kernel (coqc)", "ExtrOcamlBasic extraction + OCaml 4.13.1 + zarith glue (ocaml/zutil.ml, drv_c10.ml)",
                 "harness/c10_udp.c (wrappers, plain socket, payload bookkeeping), checks/c10.py (generators, monitor)",
                 "Linux loopback delivers datagrams synchronously, in order and without loss below the socket buffer size (checked: W token)",
                 "gcc 12"])


if __name__ == "__main__":
    main()
