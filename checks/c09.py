#!/usr/bin/env python3
"""C09 uv_async_send: proofs (Properties_C09.v) + correspondence of Model/Async.v with
src/unix/async.c of the current tree under a serialising scheduler (harness/c09_async.c).

Every case is run on the real library; the thread ids the harness actually ran are then
fed to the extracted model, which must reproduce every step record (label reached, set of
runnable threads, pending/busy of every handle, eventfd counter, callbacks) and the final
verdict and counters.  The monitor decides from the implementation's trace alone whether
the property is violated."""
import os, re, sys
sys.path.insert(0, os.path.join(os.path.dirname(os.path.abspath(__file__)), "..", "lib"))
import vf

EFD_MAX = 2**64 - 2
WRAPS = ["read", "write", "epoll_pwait", "sched_yield"]


# --------------------------------------------------------------------------
# cases
# --------------------------------------------------------------------------
def fmt_case(hooks, n, e0, lscript, senders, beh, sig, sched, nullmask=0):
    """nullmask: bit k set = handle k is created with a NULL callback (a pure waker)."""
    return "%d ; 1 ; %s ; %d ; %s ; %s ; %s ; %s ; %s" % (
        hooks, ("%d:%d" % (n, nullmask)) if nullmask else str(n), e0, " ".join(lscript), " | ".join(" ".join(map(str, s)) for s in senders),
        " | ".join(" ".join(map(str, b)) for b in beh),
        ("%d,%d" % sig) if sig else "-", " ".join(map(str, sched)))


def gen_sched(rng, nthreads, length=260):
    style = rng.random()
    out = []
    if style < 0.25:
        out = [rng.randrange(nthreads) for _ in range(length)]
    elif style < 0.75:
        # runs of one thread, short and long
        while len(out) < length:
            t = rng.randrange(nthreads)
            out += [t] * rng.choice([1, 1, 2, 3, 4, 6, 9])
    elif style < 0.9:
        # eager loop
        out = [0 if rng.random() < 0.6 else rng.randrange(nthreads) for _ in range(length)]
    else:
        # senders first, loop late
        out = [rng.randrange(1, nthreads) if rng.random() < 0.85 else 0 for _ in range(length)]
    return out[:length]


def gen_case(rng, hooks):
    n = rng.choice([1, 1, 2, 2, 3])
    ns = rng.randint(1, 4)
    senders = [[rng.randrange(n) for _ in range(rng.randint(1, 4))] for _ in range(ns)]
    sig = None
    if rng.random() < 0.35:
        senders.append([rng.randrange(n) for _ in range(rng.randint(1, 2))])
        st = len(senders)
        sig = (st, rng.choice([t for t in range(0, st)]))
    r = rng.random()
    e0 = 0 if r < 0.8 else rng.choice([1, 2, 3]) if r < 0.88 else rng.choice([EFD_MAX, EFD_MAX - 1, EFD_MAX - 2])
    ls = []
    closable = list(range(n))
    rng.shuffle(closable)
    stops = False
    for _ in range(rng.randint(0, 3)):
        if rng.random() < 0.12:
            ls.append("S")                         # uv_stop() between two runs
            stops = True
        ls.append(rng.choice(["R", "R", "R", "N"]))
        if closable and rng.random() < 0.45:
            ls.append("C%d" % closable.pop())
    if rng.random() < 0.08:
        ls.append("C%d" % rng.randrange(n))       # possibly a second close of the same handle: skipped
    beh = []
    for _ in range(6):
        if rng.random() < 0.7:
            beh.append([])
        else:
            ops = []
            for _ in range(rng.randint(1, 2)):
                if rng.random() < 0.35:
                    ops.append("s")                # uv_stop() from the callback
                    stops = True
                else:
                    ops.append(rng.randrange(n))
            beh.append(ops)
    if rng.random() < 0.9:
        ls.append("D")
        if stops:                                  # uv_run returns early after uv_stop(): run again
            ls += [rng.choice(["D", "R", "N"]), "D", "D", "D"]
    else:
        ls += [rng.choice(["R", "N"]) for _ in range(rng.randint(1, 3))]
    nullmask = 0
    if rng.random() < 0.4:                         # some handles are pure wakers (NULL callback)
        nullmask = rng.randrange(1, 1 << n)
    return fmt_case(hooks, n, e0, ls, senders, beh, sig, gen_sched(rng, len(senders) + 1), nullmask)


# small configurations whose schedules are enumerated (bounded number of preemptions)
ENUM_CONFIGS = [
    # n, e0, lscript, senders, beh
    (1, 0, ["D"], [[0], [0]], [[]]),
    (1, 0, ["D"], [[0, 0]], [[]]),
    (2, 0, ["D"], [[0, 1], [1]], [[]]),
    (1, 0, ["R", "C0", "D"], [[0, 0]], [[]]),
    (2, 0, ["D"], [[0], [1]], [[1], [0]]),
    (1, EFD_MAX, ["D"], [[0], [0]], [[]]),
    # the first callback calls uv_stop() while a send is outstanding on the other handle
    (2, 0, ["D", "D"], [[0], [1]], [["s"]]),
    (2, 0, ["D", "N", "R"], [[1, 0]], [["s"], ["s"]]),
    # handles created with a NULL callback: two sends on the waker, mixed with an ordinary handle
    (1, 0, ["D"], [[0, 0]], [[]], 1),
    (2, 0, ["D"], [[0, 1], [0]], [[]], 1),
    (2, 0, ["R", "D"], [[1, 1, 0]], [[]], 2),
    # two senders overlapping inside uv_async_send on one handle, then uv_close
    (1, 0, ["C0", "D"], [[0], [0]], [[]], 0, 6000),
]


def enumerate_schedules(model, hooks, cfg, k, limit):
    n, e0, ls, senders, beh = cfg[:5]
    nullmask = cfg[5] if len(cfg) > 5 else 0
    if len(cfg) > 6:
        limit = max(limit, cfg[6])
    spec = fmt_case(hooks, n, e0, ls, senders, beh, None, [], nullmask) + " ; %d ; %d" % (k, limit)
    out, rc, err = vf.run_lines([model, "enum"], [spec])
    scheds = [l for l in out if l != "."]
    return [fmt_case(hooks, n, e0, ls, senders, beh, None, s.split(), nullmask) for s in scheds]


# --------------------------------------------------------------------------
# trace handling
# --------------------------------------------------------------------------
def parse_case(case):
    f = [x.strip() for x in case.split(";")]
    senders = [[int(x) for x in s.split()] for s in f[5].split("|")]
    nf = f[2].split(":")
    return {"hooks": f[0] == "1", "n": int(nf[0]), "nullmask": int(nf[1]) if len(nf) > 1 else 0,
            "e0": int(f[3]), "lscript": f[4].split(),
            "senders": senders, "sig": f[7]}


def tids_of(line):
    return [t.split(".")[0] for t in line.split() if t[0].isdigit()]


def model_input(case, impl_line):
    f = case.split(";")
    return ";".join(f[:8]) + "; " + " ".join(tids_of(impl_line))


def monitor(case, line):
    """The property, decided on the implementation's own trace."""
    c = parse_case(case)
    n = c["n"]
    toks = line.split()
    begun = [0] * n
    cbs = [0] * n
    close_ret = [False] * n
    close_cb = [False] * n
    nxt = [0] * (len(c["senders"]) + 2)
    cur = {}
    in_busy = {}
    for t in toks:
        if not t[0].isdigit():
            continue
        p = t.split(".")
        tid, label, evs = int(p[0]), p[1], p[5] if len(p) > 5 else "-"
        if tid > 0:
            if label == "B":
                h = c["senders"][tid - 1][nxt[tid]]
                nxt[tid] += 1
                cur[tid] = h
                begun[h] += 1
            # between busy++ and busy-- (hook points 2, W, 3; without hooks only W is visible)
            if label in ("2", "W", "3") and tid in cur:
                in_busy[tid] = cur[tid]
            elif label in ("A", "B", "1"):
                in_busy.pop(tid, None)
            if label == "W" and tid in cur and close_ret[cur[tid]]:
                return "a send on handle %d reached the eventfd write after uv_close(%d) had returned" % (cur[tid], cur[tid])
        if evs != "-":
            for e in evs.split("+"):
                if e[0] == "c":
                    h = int(e[1:].split("=")[0])
                    cbs[h] += 1
                    if close_cb[h] or "!afterclose" in e:
                        return "async_cb of handle %d ran after its close_cb" % h
                    if close_ret[h]:
                        return "async_cb of handle %d ran after uv_close(%d) returned" % (h, h)
                    if cbs[h] > begun[h]:
                        return "async_cb of handle %d ran %d times after %d sends" % (h, cbs[h], begun[h])
                elif e[0] == "k":
                    h, b = e[1:].split("=")
                    close_ret[int(h)] = True
                    inside = sorted(t2 for t2, hh in in_busy.items() if hh == int(h))
                    if inside:
                        return ("uv_close(%s) returned while sender %s is still inside uv_async_send(%s), between "
                                "its busy increment and decrement (busy field reads %s)"
                                % (h, ",".join(map(str, inside)), h, b))
                    if int(b) != 0:
                        return "uv_close(%s) returned while a sender was inside uv_async_send (busy=%s)" % (h, b)
                elif e[0] == "x":
                    close_cb[int(e[1:])] = True
                elif e.startswith("w?"):
                    return "unexpected result of the eventfd write: %s" % e
    m = re.search(r" Q\.(\w+)(.*)$", line)
    if not m:
        return None
    verdict, rest = m.group(1), m.group(2)
    if verdict == "lostreg":
        return "the loop sleeps in epoll_pwait although the eventfd is readable"
    if verdict in ("spin", "stuck"):
        return "deadlock (%s): nobody can run and the loop thread has not finished" % verdict
    if verdict == "blocked":
        last_obs = None
        for t in toks:
            if t[0].isdigit():
                p = t.split(".")
                if len(p) > 4:
                    last_obs = (p[3], p[4])
        for hm in re.finditer(r"h(\d+)=(\d+)/(\d+)/(\d+)/(\d+)/(\w)", rest):
            h, pub, seen, ncb, nb, stt = hm.groups()
            null = (c["nullmask"] >> int(h)) & 1
            if stt == "o" and int(seen) < int(pub):
                if null:
                    return ("lost wake-up: all sends returned and the loop is blocked in epoll_pwait, but the loop "
                            "consumed the pending flag of handle %s (created with a NULL callback) for only %s of %s "
                            "sends" % (h, seen, pub))
                return ("lost wake-up: all sends returned and the loop is blocked in epoll_pwait, but the last "
                        "callback of handle %s saw %s of %s published" % (h, seen, pub))
            # the wake invariant, on what the implementation shows: blocked with the eventfd empty
            if stt == "o" and last_obs and last_obs[1] == "0":
                ob = last_obs[0].split(",")
                if int(h) < len(ob) and ob[int(h)][0] == "1":
                    return ("the loop is blocked in epoll_pwait with the eventfd counter 0 while handle %s has "
                            "pending = 1: no later uv_async_send on it can wake the loop" % h)
    return None


def observable_trace(case, line):
    """API-level events of an implementation trace, for the trace-inclusion acceptor
    (modelrun_c09 accepts): send begun / returned, callbacks, uv_close returned, close_cb,
    final verdict."""
    c = parse_case(case)
    nxt, toks = {}, []
    for t in line.split():
        if t[0].isdigit():
            p = t.split(".")
            tid, label, evs = int(p[0]), p[1], p[5] if len(p) > 5 else "-"
            if evs != "-":
                for e in evs.split("+"):
                    if e[0] == "c":
                        toks.append(e.split("!")[0])
                    elif e[0] == "k":
                        toks.append(e.split("=")[0])
                    elif e[0] == "x":
                        toks.append(e)
            if tid > 0 and label == "B":
                i = nxt.get(tid, 0)
                nxt[tid] = i + 1
                toks.append("b%d:%d" % (tid, c["senders"][tid - 1][i]))
            if tid > 0 and label == "A":
                toks.append("r%d" % tid)
        elif t.startswith("Q."):
            toks.append("q" + t[2:])
    return toks


def trace_included(model, case, line):
    """Is the implementation's observable trace a trace of the model (any interleaving of
    the model's atomic steps)?  Used as the diagnostic when lock-step comparison fails."""
    inp = ";".join(case.split(";")[:8]) + "; " + " ".join(observable_trace(case, line))
    try:
        out, rc, err = vf.run_lines([model, "accepts"], [inp], timeout=120)
        return out[0] if out else "error"
    except Exception as e:       # noqa
        return "error: %s" % e


def late_touch(case, line):
    """Informational: a sender is still inside uv_async_send on a handle whose close_cb
    has already run (DESIGN: user-lifetime issue, not part of the property)."""
    c = parse_case(case)
    nxt, cur, closed = {}, {}, set()
    for t in line.split():
        if not t[0].isdigit():
            continue
        p = t.split(".")
        tid, label, evs = int(p[0]), p[1], p[5] if len(p) > 5 else "-"
        if tid > 0 and label == "B":
            i = nxt.get(tid, 0)
            nxt[tid] = i + 1
            cur[tid] = c["senders"][tid - 1][i]
        if tid > 0 and label in ("2", "3", "W") and cur.get(tid) in closed:
            return True
        if evs != "-":
            for e in evs.split("+"):
                if e[0] == "x":
                    closed.add(int(e[1:]))
    return False


MODEL_BIN = [None]
PROBE_REPORTED = [False]



# --------------------------------------------------------------------------
# fork family (harness/c09_fork.c, modelrun_c09 fork)
# --------------------------------------------------------------------------
def gen_fork_case(rng):
    n = rng.choice([1, 1, 2, 3])
    pre = []
    for _ in range(rng.choice([0, 0, 1, 2, 3])):
        pre.append(rng.choice(["ps%d" % rng.randrange(n), "pt%d" % rng.randrange(n), "pr"]))
    post = []
    where = rng.random()
    for _ in range(rng.randint(1, 9)):
        who = "c" if where < 0.4 else "p" if where < 0.5 else rng.choice("pc")
        kind = rng.choice(["s", "s", "t", "r"])
        post.append(who + kind + ("" if kind == "r" else str(rng.randrange(n))))
    tail = rng.choice([["pr", "cr", "pr", "cr"], ["cr", "pr", "cr", "pr"], ["pr", "pr", "cr", "cr"]])
    return "%d ; %s" % (n, " ".join(pre + ["F"] + post + tail))


def fork_cases_exhaustive(length):
    """Every sequence of [length] operations after the fork over one handle, with and without
    a send pending at fork time, both orders of the final runs."""
    toks = ["ps0", "cs0", "ct0", "pr", "cr"]
    out = []

    def rec(seq):
        if len(seq) == length:
            for pre in ([], ["ps0"]):
                for tail in (["pr", "cr"], ["cr", "pr"]):
                    out.append("1 ; " + " ".join(pre + ["F"] + seq + tail))
            return
        for t in toks:
            rec(seq + [t])
    rec([])
    return out


def fork_monitor(case, line):
    """Each process sees its own callbacks and none without a send of its own; the child's
    wake-up descriptor is a new open file."""
    toks = line.split()
    begun = {"p": {}, "c": {}}
    ncb = {"p": {}, "c": {}}
    ran_after_send = {"p": True, "c": True}
    for t in toks:
        if t.startswith("F:"):
            rc = t.split(":")[1]
            if rc != "0":
                return "uv_loop_fork failed in the child (%s)" % rc
            begun["c"], ncb["c"] = {}, {}
            continue
        if t[0] in "pc" and len(t) > 1 and t[1] in "st" and ":" in t:
            h = int(t[2:].split(":")[0])
            begun[t[0]][h] = begun[t[0]].get(h, 0) + 1
            ran_after_send[t[0]] = False
        elif t[0] in "pc" and t[1:3] == "r:":
            ran_after_send[t[0]] = True
            evs = t.split(":")[1]
            if evs != "-":
                for e in evs.split("+"):
                    h = int(e[1:].split("=")[0])
                    ncb[t[0]][h] = ncb[t[0]].get(h, 0) + 1
                    if ncb[t[0]][h] > begun[t[0]].get(h, 0):
                        return ("%s: async_cb of handle %d ran without a send of its own in this process%s"
                                % ("child" if t[0] == "c" else "parent", h,
                                   " (uv_loop_fork left the parent's wake-up state in place)" if " fresh=0" in line else ""))
    stale = ("after uv_loop_fork the child's wake-up descriptor is still the parent's open file (writing it in "
             "the child made the parent's eventfd readable)") if " fresh=0" in line else None
    m = re.search(r" P((?: h\d+=\d+/\d+/\d+)+)(?: C((?: h\d+=\d+/\d+/\d+)+))?", line)
    if m:
        for who, part in (("c", m.group(2)), ("p", m.group(1))):
            if not part or not ran_after_send[who]:
                continue
            for hm in re.finditer(r"h(\d+)=(\d+)/(\d+)/(\d+)", part):
                h, pub, seen, cbs = [int(x) for x in hm.groups()]
                if seen < pub:
                    return ("lost wake-up in the %s: its loop ran after its last send but the last callback of "
                            "handle %d saw %d of %d published%s"
                            % ("child" if who == "c" else "parent", h, seen, pub, ("; " + stale) if stale else ""))
    return stale


def run_fork_batch(chk, name, harness, model, cases):
    impl, rc, err = vf.run_lines([harness], cases, shards=16, timeout=900)
    mod, rc2, err2 = vf.run_lines([model, "fork"], cases, shards=8, timeout=900)
    errors = []
    if len(impl) != len(cases) or len(mod) != len(cases):
        return 0, ["%s: harness/model printed %d/%d lines for %d cases" % (name, len(impl), len(mod), len(cases))]
    bad, nerr = [], 0
    for c, a, b in zip(cases, impl, mod):
        if a.startswith("PROBE-FAIL"):
            if not PROBE_REPORTED[0]:
                PROBE_REPORTED[0] = True
                chk.violation("%s: a refused/closed uv_poll_init() took the async wake-up descriptor out of the "
                              "loop's epoll set: %s" % (name, a[11:]),
                              {"kind": "monitor", "obligation": name, "case": c, "impl": a, "family": "fork"},
                              found_input=True)
            continue
        if a.startswith("ERR"):
            nerr += 1
            if nerr <= 2:
                again, _, _ = vf.run_lines([harness], [c], timeout=120)
                if again and again[0] == a:
                    chk.violation("%s: the run fails reproducibly (%s)" % (name, a),
                                  {"kind": "crash", "obligation": name, "case": c, "impl": a, "family": "fork"},
                                  found_input=True)
                else:
                    errors.append("%s: %s on case %s" % (name, a, c))
            continue
        chk.count(name, c + "=>" + a)
        why = fork_monitor(c, a)
        differ = vf.canon(a) != vf.canon(b)
        if differ:
            chk.cov["disagreements_checked"] += 1
        if differ or why:
            bad.append((0 if why else 1, len(a), c, a, b, why, differ))
    bad.sort(key=lambda x: (x[0], x[1]))
    for _, _, c, a, b, why, differ in bad[:3]:
        if differ:
            chk.violation("%s: implementation and model disagree%s" % (name, (": " + why) if why else ""),
                          {"kind": "correspondence", "obligation": name, "case": c, "impl": a, "model": b,
                           "monitor": why, "first_difference": first_diff(a, b), "family": "fork"},
                          found_input=why is not None)
        else:
            chk.violation("%s: trace violates the property: %s" % (name, why),
                          {"kind": "monitor", "obligation": name, "case": c, "impl": a, "family": "fork"},
                          found_input=True)
    chk.corr(name, len(cases))
    chk.cov.setdefault("disagreeing_cases", {})[name] = len(bad)
    return len(bad), errors

# --------------------------------------------------------------------------
def run_batch(chk, name, harness, model, cases, shards=16):
    """Run harness + model on the cases; returns (nbad, errors)."""
    impl, rc, err = vf.run_lines([harness], cases, shards=shards, timeout=900)
    if len(impl) != len(cases):
        return 0, ["%s: harness printed %d lines for %d cases (%s)" % (name, len(impl), len(cases), (err or "")[-300:])]
    errors = []
    good_cases, good_impl = [], []
    nerr = 0
    for c, a in zip(cases, impl):
        if a.startswith("PROBE-FAIL"):
            if not PROBE_REPORTED[0]:
                PROBE_REPORTED[0] = True
                chk.violation("%s: a refused/closed uv_poll_init() took the async wake-up descriptor out of the "
                              "loop's epoll set, no later uv_async_send() can wake the loop: %s" % (name, a[11:]),
                              {"kind": "monitor", "obligation": name, "case": c, "impl": a}, found_input=True)
            continue
        if a.startswith("ERR"):
            nerr += 1
            if nerr > 2:
                continue
            # run it again alone: reproducible -> a failing input, else a harness problem
            again, _, _ = vf.run_lines([harness], [c], timeout=120)
            if again and again[0] == a and ("signal" in a or "stepbound" in a):
                chk.violation("%s: the run fails reproducibly (%s)%s" % (name, a,
                              ": the schedule does not terminate within the step bound" if "stepbound" in a else ""),
                              {"kind": "crash", "obligation": name, "case": c, "impl": a}, found_input=True)
            else:
                errors.append("%s: %s on case %s" % (name, a, c))
        else:
            good_cases.append(c)
            good_impl.append(a)
    if nerr:
        chk.cov.setdefault("harness_err_lines", {})[name] = nerr
    minput = [model_input(c, a) for c, a in zip(good_cases, good_impl)]
    mod, rc2, err2 = vf.run_lines([model, "run"], minput, shards=8, timeout=900)
    nbad = diff_batch(chk, name, good_cases, good_impl, mod)
    return nbad, errors


def diff_batch(chk, name, cases, impl, mod, max_report=3):
    """Like vf.diff_cases, but failing inputs (monitor verdicts) are reported before mere
    disagreements, shortest trace first."""
    if len(impl) != len(cases) or len(mod) != len(cases):
        chk.violation("%s: harness/model produced %d/%d lines for %d cases" % (name, len(impl), len(mod), len(cases)),
                      {"kind": "correspondence", "obligation": name}, found_input=False)
        return 1
    bad = []
    for c, a, b in zip(cases, impl, mod):
        chk.count(name, c + "=>" + a)
        if late_touch(c, a):
            chk.cov["late_sender_after_close_cb_observed"] = chk.cov.get("late_sender_after_close_cb_observed", 0) + 1
        why = monitor(c, a)
        differ = vf.canon(a) != vf.canon(b)
        if differ:
            chk.cov["disagreements_checked"] += 1
        if differ or why:
            bad.append((0 if why else 1, len(a), c, a, b, why, differ))
    bad.sort(key=lambda x: (x[0], x[1]))
    for _, _, c, a, b, why, differ in bad[:max_report]:
        if differ:
            incl = trace_included(MODEL_BIN[0], c, a) if MODEL_BIN[0] else "not-run"
            chk.violation("%s: implementation and model disagree in lock-step (trace inclusion: %s)%s"
                          % (name, incl, (": " + why) if why else ""),
                          {"kind": "correspondence", "obligation": name, "case": c, "impl": a, "model": b,
                           "monitor": why, "first_difference": first_diff(a, b),
                           "observable_trace_is_a_model_trace": incl}, found_input=why is not None)
        else:
            chk.violation("%s: trace violates the property: %s" % (name, why),
                          {"kind": "monitor", "obligation": name, "case": c, "impl": a}, found_input=True)
    chk.corr(name, len(cases))
    chk.cov.setdefault("disagreeing_cases", {})[name] = len(bad)
    return len(bad)


def first_diff(a, b):
    ta, tb = a.split(), b.split()
    for i, (x, y) in enumerate(zip(ta, tb)):
        if x != y:
            return {"step": i, "impl": x, "model": y}
    return {"step": min(len(ta), len(tb)), "impl": "(length %d)" % len(ta), "model": "(length %d)" % len(tb)}


def main():
    chk = vf.Check("C09")
    thorough = chk.tier == "thorough"
    chk.prove()
    try:
        lib = vf.build_libuv(chk.scratch, "ndebug")
        harness = vf.cc_harness(chk.scratch, "c09_async", ["c09_async.c"], lib=lib, wraps=WRAPS)
        hfork = vf.cc_harness(chk.scratch, "c09_fork", ["c09_fork.c"], lib=lib)
        model = vf.model_bin("C09")
    except vf.BuildError as e:
        chk.violation("build failed: %s" % str(e)[:300], {"kind": "build", "log": str(e)}, found_input=False)
        chk.finish(rule="build failed")
    MODEL_BIN[0] = model
    src = open(os.path.join(vf.REPO, "src", "unix", "async.c")).read()
    have_hooks = "UV__VERIF_POINT" in src
    modes = [1, 0] if have_hooks else [0]
    chk.cov["hooks_in_tree"] = have_hooks

    if chk.replay:
        import json
        rp = json.load(open(chk.replay))
        cases = [rp["case"]]
        if rp.get("family") == "fork":
            nbad, errors = run_fork_batch(chk, "replay (fork family)", hfork, model, cases)
        else:
            nbad, errors = run_batch(chk, "replay", harness, model, cases, shards=1)
        chk.finish(rule="replay of one case")

    errors = []
    nbad_total = 0
    # (a) corpus
    corpus_path = os.path.join(vf.VERIF, "corpus", "C09", "cases.txt")
    corpus = []
    if os.path.exists(corpus_path):
        for l in open(corpus_path):
            l = l.rstrip("\n")
            if l and not l.startswith("#") and (have_hooks or l.lstrip().startswith("0")):
                corpus.append(l)
    # (b) enumerated schedules of small configurations
    enum_cases = []
    for hk in modes:
        for cfg in ENUM_CONFIGS:
            k = (3 if thorough else 2) if hk else (4 if thorough else 3)
            enum_cases += enumerate_schedules(model, hk, cfg, k, 60000 if thorough else 3000)
    # (c) random cases
    nrand = 40000 if thorough else 6000
    rnd = []
    for i in range(nrand):
        rnd.append(gen_case(chk.rng, modes[i % len(modes)] if chk.rng.random() < 0.85 else modes[-1]))
    for name, cases in (("corpus", corpus), ("enumerated schedules", enum_cases), ("random schedules", rnd)):
        if not cases:
            continue
        nbad, errs = run_batch(chk, "async.c = Model/Async.v (%s)" % name, harness, model, cases)
        nbad_total += nbad
        errors += errs
        chk.cov.setdefault("cases", {})[name] = len(cases)
    if rnd:
        chk.sample({"case": rnd[0]})

    # (c') fork family: parent and child both keep using their loops after uv_loop_fork
    fcorpus_path = os.path.join(vf.VERIF, "corpus", "C09", "fork.txt")
    fcases = [l.rstrip("\n") for l in open(fcorpus_path) if l.strip() and not l.startswith("#")] \
        if os.path.exists(fcorpus_path) else []
    fcases += fork_cases_exhaustive(5 if thorough else 4)
    fcases += [gen_fork_case(chk.rng) for _ in range(8000 if thorough else 1500)]
    nbad, errs = run_fork_batch(chk, "async.c = Model/Async.v (fork family)", hfork, model, fcases)
    nbad_total += nbad
    errors += errs
    chk.cov.setdefault("cases", {})["fork family"] = len(fcases)
    chk.sample({"fork_case": fcases[-1]})

    # (d) a disagreement without a failing input: look for one among more schedules
    if nbad_total and not any(v[2] for v in chk.violations):
        extra = [gen_case(chk.rng, modes[0]) for _ in range(6000)]
        impl, rc, err = vf.run_lines([harness], extra, shards=16, timeout=900)
        for c, a in zip(extra, impl):
            if a.startswith("ERR"):
                continue
            why = monitor(c, a)
            if why:
                chk.violation("search after a disagreement found a failing input: %s" % why,
                              {"kind": "monitor", "case": c, "impl": a}, found_input=True)
                break

    chk.violations.sort(key=lambda v: not v[2])      # failing inputs first
    if errors:
        for e in errors[:5]:
            print("HARNESS-ERROR: " + e[:600])
        chk.scratch.cleanup()
        sys.exit(2)

    chk.finish(
        level="proof",
        rule="schedules of 1-4 sender threads (+ optional SIGUSR2-handler send nested on any thread) against the "
             "loop thread (uv_run ONCE/DEFAULT, uv_close between runs and inside callbacks), 1-3 handles, eventfd "
             "counter preset to 0/small/saturated; schedule points: UV__VERIF_POINT hooks (when the tree has them), "
             "eventfd read/write, epoll_pwait, sched_yield in uv__async_spin; random preference lists + all schedules "
             "with a bounded number of preemptions for 6 small configurations; compared step by step with the "
             "model run on the same thread order",
        trusted=["Coq 8.16.1 kernel (coqc)", "ExtrOcamlBasic extraction + OCaml 4.13.1 (ocaml/zutil.ml, drv_c09.ml)",
                 "harness/c09_async.c (serialising scheduler, wrappers), checks/c09.py (generator, monitor)",
                 "gcc 12, glibc pthreads/futex/eventfd/epoll of the running kernel",
                 "sequential consistency of the C11 atomics in async.c (assumed, see notes/C09.md)"],
        explanation="partial: the model interleaves atomic steps sequentially consistently; the relaxed load in "
                    "uv_async_send and hardware reordering are not modelled")


if __name__ == "__main__":
    main()
