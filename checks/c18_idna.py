#!/usr/bin/env python3
"""C18, idna.c part: proofs (Properties_C18_idna.v) + correspondence of
Model/Idna.v and Model/Wtf8.v with src/idna.c of the current tree.

run(chk, lib, thorough) does the correspondence work for an existing vf.Check and a
built libuv.a (the combined C18 check calls it); main() is the stand-alone entry."""
import os, sys
sys.path.insert(0, os.path.join(os.path.dirname(os.path.abspath(__file__)), "..", "lib"))
import vf

UINT_MAX = 2**32 - 1
EINVAL, E2BIG, ENOBUFS = -22, -7, -105
# The three defects this check found (keys utf8_decode_accepts_illformed, utf16_to_wtf8_enobufs_length,
# wtf8_to_utf16_assert_10ffff) are repaired in /repo (a779eb0, 0064931, 8661803) and in the model; their
# witnesses are regression cases in corpus/C18/idna*.txt and are plain violations if they come back.

# ---------------------------------------------------------------------------
# independent references (written from the standards, not from idna.c)
# ---------------------------------------------------------------------------
# Unicode 15 table 3-7: (lead lo, lead hi, [(lo, hi) of each following byte])
TABLE_3_7 = [
    (0x00, 0x7F, []),
    (0xC2, 0xDF, [(0x80, 0xBF)]),
    (0xE0, 0xE0, [(0xA0, 0xBF), (0x80, 0xBF)]),
    (0xE1, 0xEC, [(0x80, 0xBF), (0x80, 0xBF)]),
    (0xED, 0xED, [(0x80, 0x9F), (0x80, 0xBF)]),
    (0xEE, 0xEF, [(0x80, 0xBF), (0x80, 0xBF)]),
    (0xF0, 0xF0, [(0x90, 0xBF), (0x80, 0xBF), (0x80, 0xBF)]),
    (0xF1, 0xF3, [(0x80, 0xBF), (0x80, 0xBF), (0x80, 0xBF)]),
    (0xF4, 0xF4, [(0x80, 0x8F), (0x80, 0xBF), (0x80, 0xBF)]),
]


def utf8_row(b):
    for lo, hi, tail in TABLE_3_7:
        if lo <= b <= hi:
            return tail
    return None


def utf8_first(bs):
    """(scalar, length) of the well-formed sequence bs starts with, else None."""
    if not bs:
        return None
    tail = utf8_row(bs[0])
    if tail is None or len(bs) < 1 + len(tail):
        return None
    for (lo, hi), b in zip(tail, bs[1:]):
        if not lo <= b <= hi:
            return None
    n = len(tail)
    if n == 0:
        return bs[0], 1
    v = bs[0] & (0x1F if n == 1 else 0x0F if n == 2 else 0x07)
    for b in bs[1:1 + n]:
        v = (v << 6) | (b & 0x3F)
    return v, 1 + n


def utf8_state(prefix):
    """'acc' a well-formed sequence is a prefix of it; 'rej' none can be; 'open' otherwise."""
    if not prefix:
        return "open"
    tail = utf8_row(prefix[0])
    if tail is None:
        return "rej"
    for (lo, hi), b in zip(tail, prefix[1:]):
        if not lo <= b <= hi:
            return "rej"
    return "acc" if len(prefix) >= 1 + len(tail) else "open"


def count_wellformed(prefix, k, alpha):
    st = utf8_state(prefix)
    if st == "acc":
        return len(alpha) ** k
    if st == "rej" or k == 0:
        return 0
    return sum(count_wellformed(prefix + [b], k - 1, alpha) for b in alpha)


def utf8_encode(cp):
    if cp < 0x80:
        return [cp]
    if cp < 0x800:
        return [0xC0 | cp >> 6, 0x80 | cp & 63]
    if cp < 0x10000:
        return [0xE0 | cp >> 12, 0x80 | (cp >> 6) & 63, 0x80 | cp & 63]
    return [0xF0 | cp >> 18, 0x80 | (cp >> 12) & 63, 0x80 | (cp >> 6) & 63, 0x80 | cp & 63]


# RFC 3492 section 5 parameters, 6.1 adapt, 6.3 encode, 6.2 decode
BASE, TMIN, TMAX, SKEW, DAMP, INITIAL_BIAS, INITIAL_N = 36, 1, 26, 38, 700, 72, 128


class Overflow(Exception):
    pass


def adapt(delta, numpoints, firsttime):
    delta = delta // DAMP if firsttime else delta // 2
    delta += delta // numpoints
    k = 0
    while delta > ((BASE - TMIN) * TMAX) // 2:
        delta //= BASE - TMIN
        k += BASE
    return k + ((BASE - TMIN + 1) * delta) // (delta + SKEW)


def digit(d):
    return ord("a") + d if d < 26 else ord("0") + d - 26


def punycode_encode(cps, maxint=UINT_MAX):
    n, delta, bias = INITIAL_N, 0, INITIAL_BIAS
    out = [c for c in cps if c < 0x80]
    h = b = len(out)
    if b > 0:
        out.append(ord("-"))
    while h < len(cps):
        m = min(c for c in cps if c >= n)
        delta += (m - n) * (h + 1)
        if delta > maxint:
            raise Overflow()
        n = m
        for c in cps:
            if c < n:
                delta += 1
                if delta > maxint:
                    raise Overflow()
            if c == n:
                q = delta
                k = BASE
                while True:
                    t = TMIN if k <= bias else TMAX if k >= bias + TMAX else k - bias
                    if q < t:
                        break
                    out.append(digit(t + (q - t) % (BASE - t)))
                    q = (q - t) // (BASE - t)
                    k += BASE
                out.append(digit(q))
                bias = adapt(delta, h + 1, h == b)
                delta = 0
                h += 1
        delta += 1
        n += 1
    return out


def punycode_decode(bs):
    n, i, bias = INITIAL_N, 0, INITIAL_BIAS
    out = []
    d = max([j for j, c in enumerate(bs) if c == ord("-")], default=-1)
    if d > 0:
        out = list(bs[:d])
    pos = d + 1 if d > 0 else (1 if d == 0 else 0)
    while pos < len(bs):
        oldi, w, k = i, 1, BASE
        while True:
            c = bs[pos]
            pos += 1
            dg = c - ord("a") if ord("a") <= c <= ord("z") else c - ord("0") + 26
            i += dg * w
            t = TMIN if k <= bias else TMAX if k >= bias + TMAX else k - bias
            if dg < t:
                break
            w *= BASE - t
            k += BASE
        bias = adapt(i - oldi, len(out) + 1, oldi == 0)
        n += i // (len(out) + 1)
        i %= len(out) + 1
        out.insert(i, n)
        i += 1
    return out


DOTS = (0x2E, 0x3002, 0xFF0E, 0xFF61)


def toascii_ref(bs, cap):
    """What uv__idna_toascii must return: (rc, bytes incl. NUL | None)."""
    if not bs:
        return EINVAL, None
    out, label, i = [], [], 0

    def flush():
        if any(c >= 0x80 for c in label):
            out.extend(b"xn--")
            out.extend(punycode_encode(label))
        else:
            out.extend(label)
    try:
        while i < len(bs):
            r = utf8_first(bs[i:i + 4])
            if r is None:
                return EINVAL, None
            cp, n = r
            i += n
            if cp in DOTS:
                flush()
                out.append(0x2E)
                label = []
            else:
                label.append(cp)
        if label:
            flush()
    except Overflow:
        return E2BIG, None
    out.append(0)
    if len(out) > cap:
        return EINVAL, None
    return len(out), out


def wellformed_utf8(bs):
    i = 0
    while i < len(bs):
        r = utf8_first(bs[i:i + 4])
        if r is None:
            return False
        i += r[1]
    return True


def wtf8_ref(units):
    """generalised UTF-8 of the code points of a potentially ill-formed UTF-16 string"""
    out, i = [], 0
    while i < len(units):
        u = units[i]
        if 0xD800 <= u <= 0xDBFF and i + 1 < len(units) and 0xDC00 <= units[i + 1] <= 0xDFFF:
            out += utf8_encode(0x10000 + ((u - 0xD800) << 10) + (units[i + 1] - 0xDC00))
            i += 2
        else:
            out += utf8_encode(u)
            i += 1
    return out


def selftest():
    """the references against Python's own codecs (a broken reference is a harness error)"""
    for s in ["bücher", "mañana", "他们为什么不说中文", "💩", "a", "-> $1.00 <-", "ü", "Hello-Another-Way-それぞれの場所"]:
        cps = [ord(c) for c in s]
        enc = bytes(punycode_encode(cps))
        if enc != s.encode("punycode") or punycode_decode(list(enc)) != cps:
            raise RuntimeError("punycode reference broken on %r" % s)
        bs = list(s.encode("utf-8"))
        j, got = 0, []
        while j < len(bs):
            cp, n = utf8_first(bs[j:j + 4])
            got.append(cp)
            j += n
        if got != cps or sum((utf8_encode(c) for c in cps), []) != bs:
            raise RuntimeError("utf-8 reference broken on %r" % s)
    for bad in [b"\xc0\x80", b"\xed\xa0\x80", b"\xf4\x90\x80\x80", b"\xe4AA", b"\xf1\x80\x80", b"\x80"]:
        if utf8_first(list(bad)) is not None:
            raise RuntimeError("utf-8 reference accepts %r" % bad)
        try:
            bad.decode("utf-8")
            raise RuntimeError("python accepts %r" % bad)
        except UnicodeDecodeError:
            pass


# ---------------------------------------------------------------------------
# comparison; a monitor returns (key, reason): key None = plain violation, a key would name a defect that is
# modelled faithfully and listed in known_findings.json (none at present: the three found so far are repaired)
# ---------------------------------------------------------------------------
class Cmp:
    def __init__(self, chk):
        self.chk = chk
        self.reported = set()
        self.pending = {}        # key -> (reason, replay) first example of a modelled defect
        self.counts = {}

    def diff(self, name, mode, cases, a, b, monitor, max_report=3, refine=None, search=None):
        chk = self.chk
        if len(a) != len(cases) or len(b) != len(cases):
            chk.violation("%s: harness/model produced %d/%d lines for %d cases" % (name, len(a), len(b), len(cases)),
                          {"kind": "correspondence", "obligation": name, "mode": mode}, found_input=False)
            return
        nbad = 0
        for c, x, y in zip(cases, a, b):
            chk.count(name, c + "=>" + x)
            if vf.canon(x) != vf.canon(y):
                chk.cov["disagreements_checked"] += 1
                nbad += 1
                if nbad <= max_report:
                    rmode, rmon = mode, monitor
                    if refine:                       # a hashed block: find one concrete case inside it
                        got = refine(c)
                        if got:
                            rmode, c, x, y, rmon = got
                    r = rmon(c, x) if rmon else None
                    if r is None and search:         # no verdict on this input: look at its neighbours
                        got = search(rmode, c)
                        if got:
                            rmode, c, x, y, r = got
                    reason = r[1] if r else None
                    if (rmode, c) in self.reported:  # the search led to an input that is reported already
                        nbad -= 1
                        continue
                    self.reported.add((rmode, c))
                    chk.violation("%s: implementation and model disagree%s" % (name, (": " + reason) if reason else ""),
                                  {"kind": "correspondence", "obligation": name, "mode": rmode, "case": c,
                                   "impl": x, "model": y, "monitor": reason}, found_input=reason is not None)
            elif monitor:
                r = monitor(c, x)
                if r:
                    key, reason = r
                    self.counts[key] = self.counts.get(key, 0) + 1
                    if key is None:
                        nbad += 1
                        if nbad <= max_report:
                            chk.violation("%s: trace violates the property: %s" % (name, reason),
                                          {"kind": "monitor", "obligation": name, "mode": mode, "case": c, "impl": x},
                                          found_input=True)
                    elif key not in self.pending:
                        self.pending[key] = (reason, {"kind": "monitor", "obligation": name, "mode": mode,
                                                      "case": c, "impl": x, "known_key": key})
        chk.corr(name, len(cases))

    def settle(self):
        for key, (reason, replay) in self.pending.items():
            f = self.chk.match_known(key)
            if f:
                self.chk.known_hit(f)
            else:
                self.chk.violation("%s [modelled defect %s, %d cases; not listed in known_findings.json]"
                                   % (reason, key, self.counts.get(key, 0)), replay, found_input=True)


def hexs(bs):
    return "".join("%02x" % b for b in bs) if bs else "-"


def unhex(s):
    return [] if s == "-" else [int(s[i:i + 2], 16) for i in range(0, len(s), 2)]


def hex4(us):
    return "".join("%04x" % u for u in us) if us else "-"


# ---------------------------------------------------------------------------
# monitors (decide from the implementation's own output)
# ---------------------------------------------------------------------------
def mon_u8(case, line):
    bs = unhex(case)
    code, used = [int(x) for x in line.split()]
    if not 1 <= used <= len(bs):
        return None, "uv__utf8_decode1 on %s moved the pointer by %d of %d bytes (read past pe)" % (case, used, len(bs))
    r = utf8_first(bs)
    if r is None:
        if code != UINT_MAX:
            return None, "ill-formed UTF-8 accepted: uv__utf8_decode1(%s) = U+%04X, %d bytes" % (case, code, used)
    elif (code, used) != r:
        return None, "well-formed %s decoded to %s/%d bytes, not U+%04X/%d" % (case, code, used, r[0], r[1])
    return None


def mon_u8blk(case, line):
    pre, k, alpha = case.split()
    alpha = list(range(256)) if alpha == "*" else unhex(alpha)
    want = count_wellformed(unhex(pre), int(k), alpha)
    got = int(line.split()[2])
    if got > want:
        return None, "ill-formed UTF-8 accepted: %d of the sequences %s+%s bytes are accepted, %d are well-formed" \
            % (got, pre, k, want)
    if got < want:
        return None, "well-formed UTF-8 rejected: %d of the sequences %s+%s bytes accepted, %d are well-formed" \
            % (got, pre, k, want)
    return None


def split_labels(cps, seps):
    out, cur = [], []
    for c in cps:
        if c in seps:
            out.append(cur)
            cur = []
        else:
            cur.append(c)
    out.append(cur)
    return out


def utf8_all(bs):
    """code points of a well-formed string, else None"""
    cps, i = [], 0
    while i < len(bs):
        r = utf8_first(bs[i:i + 4])
        if r is None:
            return None
        cps.append(r[0])
        i += r[1]
    return cps


def idna_labels_verdict(bs, cap, rc, buf):
    """Verdict on one successful call (rc >= 0), label by label, from the input, the destination size and
    the destination bytes alone: NUL-terminated inside the buffer, as many labels as the input has, a label
    with a non-ASCII code point -> "xn--" + RFC 3492 encoding, an all-ASCII label unchanged."""
    hx = hexs(bs)
    if rc > cap or rc < 1 or len(buf) < rc or buf[rc - 1] != 0:
        return "uv__idna_toascii(%s, cap %d) = %d but the destination is not NUL-terminated at %d (%s)" % (
            hx, cap, rc, rc - 1, hexs(buf))
    if len(buf) != rc:
        return "uv__idna_toascii(%s, cap %d) = %d but %d bytes were stored (%s)" % (hx, cap, rc, len(buf), hexs(buf))
    cps = utf8_all(bs)
    if cps is None:
        return "ill-formed UTF-8 accepted: uv__idna_toascii(%s) = %d \"%s\"" % (
            hx, rc, "".join(chr(c) for c in buf[:-1]))
    inl = split_labels(cps, DOTS)
    outl = split_labels(buf[:rc - 1], (0x2E,))
    # an ASCII label may itself not contain '.', so the label counts must agree
    if len(inl) != len(outl):
        return "uv__idna_toascii(%s) = \"%s\": %d labels in, %d labels out" % (
            hx, "".join(chr(c) for c in buf[:-1]), len(inl), len(outl))
    for k, (li, lo) in enumerate(zip(inl, outl)):
        txt = "".join(chr(c) for c in lo)
        if any(c >= 0x80 for c in li):
            if lo[:4] != list(b"xn--"):
                return "uv__idna_toascii(%s, cap %d) = %d \"%s\": label %d has a non-ASCII code point but its " \
                    "output \"%s\" does not start with \"xn--\"" % (
                        hx, cap, rc, "".join(chr(c) for c in buf[:-1]), k, txt)
            try:
                want = punycode_encode(li)
            except Overflow:
                return "uv__idna_toascii(%s) converted label %d whose deltas overflow 32 bits" % (hx, k)
            if lo[4:] != want:
                return "uv__idna_toascii(%s): label %d is \"%s\", RFC 3492 gives \"xn--%s\"" % (
                    hx, k, txt, "".join(chr(c) for c in want))
        elif lo != li:
            return "uv__idna_toascii(%s): all-ASCII label %d came out as \"%s\"" % (hx, k, txt)
    return None


def mon_idna(case, line):
    cap, hx = case.split()
    cap, bs = int(cap), unhex(hx)
    f = line.split()
    rc, out, g = int(f[0]), unhex(f[1]), f[2]
    if g != "g0":
        return None, "uv__idna_toascii wrote outside the destination (cap %d, input %s)" % (cap, hx)
    if rc >= 0:
        v = idna_labels_verdict(bs, cap, rc, out)
        if v:
            return None, v
    want_rc, want = toascii_ref(bs, cap)
    if rc != want_rc:
        if want_rc >= 0:
            return None, "uv__idna_toascii(%s, cap %d) = %d although the result (%d bytes with NUL) fits" % (
                hx, cap, rc, want_rc)
        if rc >= 0:
            return None, "uv__idna_toascii(%s, cap %d) = %d \"%s\": must fail with %d (the full result does " \
                "not fit / is not defined), not return a shortened or altered name" % (
                    hx, cap, rc, "".join(chr(c) for c in out[:-1]), want_rc)
        return None, "uv__idna_toascii(%s, cap %d) = %d, reference says %d" % (hx, cap, rc, want_rc)
    if rc >= 0 and out != want:
        return None, "uv__idna_toascii(%s) wrote %s, RFC 3492 reference %s" % (hx, hexs(out), hexs(want))
    return None


def mon_w16(case, line):
    mode, cap, us = case.split()
    cap = int(cap)
    units = [] if us == "-" else [int(us[i:i + 4], 16) for i in range(0, len(us), 4)]
    if mode == "Z" and 0 in units:
        units = units[:units.index(0)]
    ref = wtf8_ref(units)
    f = dict(x.split("=", 1) for x in line.split())
    if int(f["len"]) != len(ref):
        return None, "uv_utf16_length_as_wtf8(%s) = %s, exact length %d" % (us, f["len"], len(ref))
    rc, tl, bts = f["alloc"].split(",")
    if (int(rc), int(tl), unhex(bts)) != (0, len(ref), ref + [0]):
        return None, "uv_utf16_to_wtf8(%s) allocated %s, expected %s" % (us, f["alloc"], hexs(ref + [0]))
    rc, tl = f["null"].split(",")
    if (int(rc), int(tl)) != (0, len(ref)):
        return None, "uv_utf16_to_wtf8(%s, NULL) = %s, exact length %d" % (us, f["null"], len(ref))
    rc, tl, bts, g = f["buf"].split(",")
    rc, tl, bts = int(rc), int(tl), unhex(bts)
    if g != "g0":
        return None, "uv_utf16_to_wtf8(%s) wrote outside a buffer of %d+1 bytes" % (us, cap)
    if cap >= len(ref):
        want = ref + [0] + [0xAA] * (cap - len(ref))
        if (rc, tl, bts) != (0, len(ref), want):
            return None, "uv_utf16_to_wtf8(%s) into %d bytes: %s" % (us, cap, f["buf"])
    else:
        if rc != ENOBUFS or bts != ref[:cap] + [0]:
            return None, "uv_utf16_to_wtf8(%s) into %d bytes: %s, expected UV_ENOBUFS and %s" % (
                us, cap, f["buf"], hexs(ref[:cap] + [0]))
        if tl != len(ref):
            return None, "uv_utf16_to_wtf8(%s) into a buffer of %d bytes returns UV_ENOBUFS with length %d, " \
                "the exact length is %d" % (us, cap, tl, len(ref))
    if 0 not in units:
        wl, bu, g = f["back"].split(",")
        if g != "g0":
            return None, "uv_wtf8_to_utf16 wrote outside %s units" % wl
        if int(wl) != len(units) + 1 or bu != hex4(units + [0]):
            return None, "round trip of %s gives %s (%s units)" % (us, bu, wl)
    return None


def mon_w8(case, line):
    f = line.split()
    if f[2] != "g0":
        return None, "uv_wtf8_to_utf16(%s) wrote outside the %s units uv_wtf8_length_as_utf16 announced" % (case, f[0])
    if int(f[0]) >= 0:
        n = 0 if f[1] == "-" else len(f[1]) // 4
        if n != int(f[0]) or not f[1].endswith("0000"):
            return None, "uv_wtf8_length_as_utf16(%s) = %s but %d units stored" % (case, f[0], n)
    return None


# ---------------------------------------------------------------------------
# case generators
# ---------------------------------------------------------------------------
BOUND_BYTES = [0x00, 0x01, 0x2D, 0x2E, 0x41, 0x7F, 0x80, 0x81, 0x8F, 0x90, 0x9F, 0xA0, 0xBF, 0xC0, 0xC1, 0xC2,
               0xDF, 0xE0, 0xE1, 0xEC, 0xED, 0xEE, 0xEF, 0xF0, 0xF1, 0xF3, 0xF4, 0xF5, 0xF7, 0xF8, 0xFF]
BOUND_SCALARS = [0, 1, 0x2D, 0x2E, 0x41, 0x7A, 0x7F, 0x80, 0x81, 0xDF, 0xFF, 0x100, 0x7FF, 0x800, 0x801, 0xFFF, 0x1000,
                 0x3002, 0xD7FF, 0xE000, 0xFF0E, 0xFF61, 0xFFFD, 0xFFFF, 0x10000, 0x10001, 0x1F4A9, 0x3FFFF,
                 0x40000, 0xFFFFF, 0x100000, 0x10FFFE, 0x10FFFF]
BOUND_UNITS = [0x0001, 0x0041, 0x007F, 0x0080, 0x00E9, 0x07FF, 0x0800, 0x20AC, 0xD7FF, 0xD800, 0xD801, 0xDBFE,
               0xDBFF, 0xDC00, 0xDC01, 0xDFFE, 0xDFFF, 0xE000, 0xFFFD, 0xFFFE, 0xFFFF]


def boundary_wellformed():
    """every well-formed sequence whose bytes are all boundary bytes"""
    out = []
    for b in BOUND_BYTES:
        tail = utf8_row(b)
        if tail is None:
            continue
        seqs = [[b]]
        for lo, hi in tail:
            seqs = [s + [c] for s in seqs for c in BOUND_BYTES if lo <= c <= hi]
        out += seqs
    return out


def corpus_lines(name):
    p = os.path.join(vf.VERIF, "corpus", "C18", name)
    if not os.path.exists(p):
        return []
    return [l.strip() for l in open(p) if l.strip() and not l.startswith("#")]


def u8_cases(rng, thorough):
    blocks = []
    for b in range(256):
        for k in (0, 1, 2):
            blocks.append("%02x %d *" % (b, k))
    blocks.append("- 1 *")
    ab = hexs(BOUND_BYTES)
    for b1 in BOUND_BYTES:
        for b2 in BOUND_BYTES:
            blocks.append("%02x%02x 2 %s" % (b1, b2, ab))
    if thorough:
        for b1 in range(0xC0, 0x100):
            for b2 in BOUND_BYTES:
                blocks.append("%02x%02x 2 *" % (b1, b2))
    blocks = [b for k in range(vf.JOBS) for b in blocks[k::vf.JOBS]]
    lines = corpus_lines("idna_u8.txt") + ["e44141", "f18080", "e480", "f180", "f0908080", "f48fbfbf", "f4908080", "eda080", "c080", "c3"]
    for s in boundary_wellformed():
        lines.append(hexs(s))
        for cut in range(1, len(s)):
            lines.append(hexs(s[:cut]))                     # truncated at the end of input
            for nxt in (0x41, 0x2E, 0x80, 0xC3):
                lines.append(hexs(s[:cut] + [nxt]))        # truncated, then something else
        for nxt in (0x00, 0x41, 0x80, 0xBF, 0xE4):
            lines.append(hexs(s + [nxt]))
            lines.append(hexs(s + [nxt, nxt]))
            lines.append(hexs(s + [nxt, 0x41, nxt]))
    for _ in range(20000 if thorough else 3000):
        n = rng.randint(1, 7)
        lines.append(hexs([rng.choice(BOUND_BYTES) if rng.random() < 0.7 else rng.randrange(256) for _ in range(n)]))
    return blocks, lines


POOLS = [list(range(0x61, 0x7B)) + list(range(0x30, 0x3A)) + [0x2D], list(range(0xC0, 0x100)), list(range(0x3B1, 0x3CA)),
         list(range(0x4E00, 0x4E40)), [0x1F4A9, 0x1F600, 0x10348, 0x2F800], BOUND_SCALARS]


def rand_label(rng, maxlen=12):
    pools = [POOLS[0]] + [rng.choice(POOLS) for _ in range(rng.randint(0, 2))]
    return [rng.choice(rng.choice(pools)) for _ in range(rng.randint(0, maxlen))]


def rand_host(rng):
    out = []
    for i in range(rng.randint(1, 4)):
        if i:
            out.append(rng.choice(DOTS) if rng.random() < 0.3 else 0x2E)
        out += [c for c in rand_label(rng) if c not in DOTS and c != 0]
    if rng.random() < 0.15:
        out.append(0x2E)
    return out


def pick_cap(rng, bs):
    r = rng.random()
    if r < 0.4:
        return 256
    _, ref = toascii_ref(bs, 10**6)
    need = len(ref) if ref else 8
    if r < 0.8:
        return max(0, need + rng.choice([-3, -2, -1, -1, 0, 0, 1, 2]))
    return rng.randint(0, need + 2)


def idna_cap_sweep(thorough):
    """Inputs with a non-ASCII label whose Punycode body is short (1-3 digits, some longer), last or in the
    middle, after ASCII labels of several lengths: every destination size from 0 to the full length + 2, i.e.
    every number of bytes (0..4 and more) left at the moment the "xn--" prefix is due."""
    asc = lambda n: [0x61 + (i * 7) % 26 for i in range(n)]
    long_pre = []                      # 253 bytes of ASCII labels, the last one ending in '.'
    for n in (63, 63, 63, 60):
        long_pre += asc(n) + [0x2E]
    pres = [[], asc(1) + [0x2E], asc(2) + [0x2E] + asc(2) + [0x2E], asc(5) + [0x3002], [0x2E], long_pre]
    labs = [[0x80], [0x81], [0xA1], [0xE9], [0xFF], [0x100], [0x3B1], [0x61, 0xE9], [0x4E2D], [0x1F4A9],
            [0xA1, 0xA1]]
    sufs = [[], [0x2E], [0x2E] + asc(3)]
    out = []
    for pre in pres:
        for lab in labs:
            for suf in sufs:
                if len(pre) > 100 and (suf or (not thorough and lab not in ([0x80], [0xA1], [0x100], [0x61, 0xE9]))):
                    continue
                bs = sum((utf8_encode(c) for c in pre + lab + suf), [])
                _, ref = toascii_ref(bs, 10 ** 6)
                full = len(ref)
                caps = range(0, full + 3) if full < 40 else list(range(full - 12, full + 3)) + [256]
                out += ["%d %s" % (cap, hexs(bs)) for cap in caps]
    return out


def idna_cases(rng, thorough):
    blocks = []
    step = 4096

    def dense(lo):     # ranges holding every boundary of the encodings and of the dot/surrogate tests
        return lo < 0x4000 or 0xD000 <= lo < 0x11000 or 0x1F000 <= lo < 0x20000 or lo >= 0x10F000
    for i, lo in enumerate(range(0, 0x110000, step)):
        if thorough or dense(lo) or i % 4 == 1:
            blocks.append("%d %d 32 - -" % (lo, lo + step))              # the scalar value alone
        if thorough or i % 16 == 0 or lo >= 0x10F000:
            blocks.append("%d %d 64 61 2d62" % (lo, lo + step))         # "a" <scalar> "-b"
            blocks.append("%d %d 7 - -" % (lo, lo + step))               # destination too small for most
            blocks.append("%d %d 40 c3a9 2ee4b8ad" % (lo, lo + step))   # "é" <scalar> ".中"
    blocks = [b for k in range(vf.JOBS) for b in blocks[k::vf.JOBS]]     # spread the slow ones over the shards
    lines = []
    lines += corpus_lines("idna.txt")
    lines += idna_cap_sweep(thorough)
    scal = set(BOUND_SCALARS) | {c + d for c in BOUND_SCALARS for d in (-1, 1)}
    scal |= set(range(0, 0x110000, 7 if thorough else 53))
    for cp in sorted(c for c in scal if 0 <= c < 0x110000 and not 0xD800 <= c <= 0xDFFF):
        bs = utf8_encode(cp)
        lines.append("%d %s" % (rng.choice([0, 1, 4, 5, 6, 7, 8, 9, 10, 11, 12, 32, 256]), hexs(bs)))
    for _ in range(40000 if thorough else 6000):
        bs = sum((utf8_encode(c) for c in rand_host(rng)), [])
        if not bs:
            bs = [0x61]
        r = rng.random()
        if r < 0.25:                                                      # damage the UTF-8
            i = rng.randrange(len(bs))
            m = rng.random()
            if m < 0.3:
                bs = bs[:i] + [rng.choice(BOUND_BYTES[6:])] + bs[i + 1:]
            elif m < 0.5:
                bs = bs[:i] + [rng.choice(BOUND_BYTES[6:])] + bs[i:]
            elif m < 0.7:
                bs = bs[:i] + bs[i + 1:] or [0x80]
            else:
                bs = bs[:max(1, i)]
        lines.append("%d %s" % (pick_cap(rng, bs), hexs(bs)))
    # labels long enough for the 32-bit overflow test (UV_E2BIG) and just below it
    for nasc, cp in [(4400, 0x10FFFF), (3900, 0x10FFFF), (3853, 0x10FFFF), (3854, 0x10FFFF), (3855, 0x10FFFF),
                     (5000, 0xE9), (4368, 0xF0087), (300, 0x10FFFF)]:
        bs = [0x61] * nasc + utf8_encode(cp)
        lines.append("8192 %s" % hexs(bs))
        lines.append("8192 %s" % hexs(utf8_encode(cp) + [0x62] * nasc + utf8_encode(cp - 1)))
    return blocks, lines


def w16_cases(rng, thorough):
    lines = corpus_lines("idna_w16.txt")
    for u in range(0x10000):
        lines.append("L %d %04x" % (u % 5, u))
    for u in list(range(1, 0x10000, 61)) + BOUND_UNITS:
        lines.append("Z %d %04x" % (u % 4, u))
    for a in BOUND_UNITS + [0]:
        for b in BOUND_UNITS + [0]:
            need = len(wtf8_ref([a, b]))
            for cap in range(0, need + 2):
                lines.append("L %d %04x%04x" % (cap, a, b))
                if a and b:
                    lines.append("Z %d %04x%04x" % (cap, a, b))
    lines += ["L 0 -", "Z 0 -", "L 3 -", "Z 3 -"]
    for _ in range(60000 if thorough else 8000):
        n = rng.randint(0, 10)
        us = [rng.choice(BOUND_UNITS) if rng.random() < 0.7 else rng.randrange(1, 0x10000) for _ in range(n)]
        if rng.random() < 0.05 and us:
            us[rng.randrange(len(us))] = 0
        need = len(wtf8_ref(us))
        cap = rng.choice([need, need, need + 1, max(0, need - 1), rng.randint(0, need + 2)])
        lines.append("%s %d %s" % ("Z" if rng.random() < 0.4 else "L", cap, hex4(us)))
    w8 = ["-"]
    for a in range(1, 256):
        w8.append("%02x" % a)
        for b in range(1, 256):
            w8.append("%02x%02x" % (a, b))
    bb = [b for b in BOUND_BYTES if b]
    for a in bb:
        for b in bb:
            for c in bb:
                w8.append("%02x%02x%02x" % (a, b, c))
                if a >= 0xF0:
                    for d in bb:
                        w8.append("%02x%02x%02x%02x" % (a, b, c, d))
    for _ in range(20000 if thorough else 3000):
        n = rng.randint(1, 9)
        w8.append(hexs([rng.choice(bb) if rng.random() < 0.6 else rng.randrange(1, 256) for _ in range(n)]))
    return lines, w8


EAI_NONAME_UV = -3008


def gai_cases(rng, thorough):
    """host names for the public uv_getaddrinfo: the IDN corpus, ASCII-only, mixed labels, names whose xn-- form is
    shorter / equal / longer than their UTF-8 bytes, 63-byte labels, 253-byte names, names whose converted form
    does not fit the 256-byte scratch buffer, ill-formed UTF-8"""
    names = []
    for l in corpus_lines("idna.txt"):
        names.append(unhex(l.split()[1]))
    U = lambda t: list(t.encode("utf-8"))
    names += [U("\u00fc.de"), U("\u00fc"), U("a.\u00fc"), U("example.com"), U("b\u00fccher.example"),
              U("\u4e2d\u6587\u4e2d\u6587\u4e2d\u6587\u4e2d\u6587\u4e2d\u6587.cn"), U("\U0001f4a9.la"),
              U("ma\u00f1ana\u3002com"), U("x" * 63 + ".com"), U("\u00e9" + "a" * 58), U("\u00e9" + "a" * 59),
              U(".".join(["a" * 63, "b" * 63, "c" * 63, "d" * 61])), U(".".join(["a" * 63] * 3 + ["\u00fc" * 20])),
              U(".".join(["a" * 63, "b" * 63, "c" * 63, "d" * 57]) + ".\u00a1"),
              U("a" * 255), U("a" * 256), U("a" * 300), U("\u00fc" * 120), U("\u4e2d" * 90),
              [0xE4, 0x41, 0x41, 0x2E, 0x63, 0x6F, 0x6D], [0x78, 0x2E, 0xF1, 0x80, 0x80], [0x80], [0xC3]]
    for _ in range(6000 if thorough else 1200):
        bs = [b for b in sum((utf8_encode(c) for c in rand_host(rng)), []) if b] or [0x61]
        if rng.random() < 0.15:
            i = rng.randrange(len(bs))
            bs = bs[:i] + [rng.choice(BOUND_BYTES[6:])] + bs[i + 1:]
        names.append(bs)
    for _ in range(600 if thorough else 150):                 # long names around the 253/255 byte limits
        labs = []
        while sum(len(x) + 1 for x in labs) < rng.choice([200, 240, 250, 254, 260]):
            n = rng.choice([1, 5, 20, 62, 63])
            pool = POOLS[0] if rng.random() < 0.8 else rng.choice(POOLS[1:5])
            labs.append(sum((utf8_encode(rng.choice(pool)) for _ in range(n)), []))
        names.append([b for b in sum(([0x2E] + x for x in labs), [])[1:] if b] or [0x61])
    return [hexs(bs) for bs in names if bs and 0 not in bs]


def mon_gai(case, line):
    bs = unhex(case)
    f = line.split()
    rc, called, node = int(f[0]), int(f[1]), unhex(f[2])
    want_rc, want = toascii_ref(bs, 256)
    if want_rc < 0:
        if called or rc != want_rc:
            return None, "uv_getaddrinfo(%s) must return %d without calling getaddrinfo(); it returned %d%s" % (
                case[:80], want_rc, rc, " after handing the resolver \"%s\"" % "".join(map(chr, node)) if called else "")
        return None
    if not called:
        return None, "uv_getaddrinfo(%s) = %d without calling getaddrinfo()" % (case[:80], rc)
    if node != want[:-1]:
        return None, "uv_getaddrinfo(%s) handed the resolver \"%s\" (%d bytes), the converted name is \"%s\" (%d)%s" % (
            case[:80], "".join(map(chr, node))[:90], len(node), "".join(map(chr, want[:-1]))[:90], len(want) - 1,
            ": not NUL-terminated" if node[:len(want) - 1] == want[:-1] or 0x23 in node else "")
    if rc != EAI_NONAME_UV:
        return None, "uv_getaddrinfo(%s) = %d, the resolver answered EAI_NONAME" % (case[:80], rc)
    return None


# ---------------------------------------------------------------------------
def run(chk, lib, thorough):
    """correspondence of Model/Idna.v + Model/Wtf8.v with the functions of src/idna.c in [lib]"""
    selftest()
    try:
        h = vf.cc_harness(chk.scratch, "c18_idna", ["c18_idna.c"], lib=lib)
        hdbg = vf.cc_harness(chk.scratch, "c18_idna_dbg", ["c18_idna.c", os.path.join(vf.REPO, "src", "idna.c")],
                             lib=lib, flavour="debug")
        hgai = vf.cc_harness(chk.scratch, "c18_idna_gai", ["c18_idna_gai.c"], lib=lib)
        model = vf.model_bin("C18_IDNA")
    except vf.BuildError as e:
        chk.violation("build failed: %s" % str(e)[:300], {"kind": "build", "log": str(e)}, found_input=False)
        return
    cmp = Cmp(chk)

    def pair(mode, cases):
        a, _, _ = vf.run_lines([h, mode], cases, shards=vf.JOBS)
        b, _, _ = vf.run_lines([model, mode], cases, shards=vf.JOBS)
        return a, b

    def refine_u8(block):
        """first sequence of a disagreeing u8blk block on which the two sides differ"""
        pre, k, alpha = block.split()
        alpha = list(range(256)) if alpha == "*" else unhex(alpha)
        seqs = [unhex(pre)]
        for _ in range(int(k)):
            seqs = [q + [c] for q in seqs for c in alpha]
        cases = [hexs(q) for q in seqs]
        a, b = pair("u8", cases)
        for c, x, y in zip(cases, a, b):
            if vf.canon(x) != vf.canon(y):
                return "u8", c, x, y, mon_u8
        return None

    def refine_idna(block):
        """bisect a disagreeing idnablk block down to one scalar value"""
        lo, hi, cap, pre, suf = block.split()
        lo, hi = int(lo), int(hi)
        while hi - lo > 1:
            mid = (lo + hi) // 2
            cs = ["%d %d %s %s %s" % (lo, mid, cap, pre, suf)]
            a, b = pair("idnablk", cs)
            if a and b and vf.canon(a[0]) != vf.canon(b[0]):
                hi = mid
            else:
                lo = mid
        case = "%s %s" % (cap, hexs(unhex(pre) + utf8_encode(lo) + unhex(suf)))
        a, b = pair("idna", [case])
        if a and b and vf.canon(a[0]) != vf.canon(b[0]):
            return "idna", case, a[0], b[0], mon_idna
        return None

    def search_idna(mode, case):
        """the same host name with every destination size 0..full+2: first one the monitor rejects"""
        if mode != "idna":
            return None
        bs = unhex(case.split()[1])
        _, ref = toascii_ref(bs, 10 ** 6)
        full = len(ref) if ref else len(bs) + 8
        cases = ["%d %s" % (cap, hexs(bs)) for cap in range(0, full + 3)]
        a, b = pair("idna", cases)
        for c, x, y in zip(cases, a, b):
            r = mon_idna(c, x)
            if r:
                return "idna", c, x, y, r
        return None

    def both(name, mode, cases, monitor, shards=vf.JOBS, refine=None, search=None):
        a, rc, err = vf.run_lines([h, mode], cases, shards=shards)
        b, rc2, err2 = vf.run_lines([model, mode], cases, shards=shards)
        if rc != 0:
            chk.violation("%s: the harness on the real library died (exit %s): %s" % (name, rc, (err or "")[-300:]),
                          {"kind": "crash", "obligation": name, "mode": mode}, found_input=False)
        cmp.diff(name, mode, cases, a, b, monitor, refine=refine, search=search)
        return a

    # (a) UTF-8 decoder
    blocks, lines = u8_cases(chk.rng, thorough)
    a = both("uv__utf8_decode1 = Model/Idna.v utf8_decode1", "u8", lines, mon_u8)
    chk.sample({"utf8_case": lines[0], "impl": a[0] if a else None})
    both("uv__utf8_decode1 = Model/Idna.v utf8_decode1 (exhaustive blocks)", "u8blk", blocks, mon_u8blk,
         refine=refine_u8)
    chk.cov["utf8_sequences_enumerated"] = sum(
        (256 if c.split()[2] == "*" else len(c.split()[2]) // 2) ** int(c.split()[1]) for c in blocks)

    # (b) IDNA
    blocks, lines = idna_cases(chk.rng, thorough)
    both("uv__idna_toascii = Model/Idna.v idna_toascii (all scalar values, blocks)", "idnablk", blocks, None,
         refine=refine_idna, search=search_idna)
    a = both("uv__idna_toascii = Model/Idna.v idna_toascii", "idna", lines, mon_idna, search=search_idna)
    chk.cov["idna_scalars_enumerated_alone"] = sum(
        int(c.split()[1]) - int(c.split()[0]) for c in blocks if c.endswith(" 32 - -"))
    chk.cov["idna_e2big_seen"] = sum(1 for x in a if x.startswith("-7 "))
    chk.cov["idna_converted_seen"] = sum(1 for x in a if " 786e2d2d" in x)
    chk.sample({"idna_case": lines[-1][:120], "impl": a[-1][:120] if a else None})

    # (c) UTF-16 <-> WTF-8
    w16, w8 = w16_cases(chk.rng, thorough)
    a = both("uv_utf16_to_wtf8/uv_utf16_length_as_wtf8/uv_wtf8_* = Model/Wtf8.v", "w16", w16, mon_w16)
    chk.sample({"utf16_case": w16[-1], "impl": a[-1][:160] if a else None})
    both("uv_wtf8_length_as_utf16/uv_wtf8_to_utf16 = Model/Wtf8.v", "w8", w8, mon_w8)

    # (d) the asserts of uv_wtf8_to_utf16 (assert-enabled build of idna.c, one process per input)
    ainputs = [hexs(utf8_encode(c)) for c in (0x41, 0xFFFF, 0x10000, 0x10FFFE, 0x10FFFF)] + ["41f48fbfbf42"]
    mo, _, _ = vf.run_lines([model, "w8assert"], ainputs)
    for inp, m in zip(ainputs, mo):
        r = vf.sh([hdbg, "w8abort"], input=inp + "\n")
        aborted = r.returncode != 0
        chk.count("asserts of uv_wtf8_to_utf16", inp + "=>" + str(aborted))
        if aborted != (m == "assert"):
            chk.violation("uv_wtf8_to_utf16(%s) in an assert-enabled build %s, the model says %s%s"
                          % (inp, "aborts" if aborted else "returns", m,
                             " (an assert fails on input that uv_wtf8_length_as_utf16 accepted)" if aborted else ""),
                          {"kind": "correspondence", "obligation": "asserts of uv_wtf8_to_utf16", "mode": "w8abort",
                           "case": inp, "impl": r.stdout[-300:], "model": m}, found_input=aborted)
    chk.corr("asserts of uv_wtf8_to_utf16", len(ainputs))

    # (f) the glue in the public uv_getaddrinfo(): what the resolver is handed = the model's conversion into 256 bytes
    names = gai_cases(chk.rng, thorough)
    ga, rc, err = vf.run_lines([hgai], names, shards=vf.JOBS)
    if rc != 0:
        chk.violation("uv_getaddrinfo harness died (exit %s): %s" % (rc, (err or "")[-300:]),
                      {"kind": "crash", "obligation": "uv_getaddrinfo glue", "mode": "gai"}, found_input=False)
    gm, _, _ = vf.run_lines([model, "idna"], ["256 " + n for n in names], shards=vf.JOBS)
    gexp = []
    for m in gm:                                  # model line "<rc> <hex dest> g0" -> what the harness must print
        f = m.split()
        mrc, mbuf = int(f[0]), unhex(f[1])
        gexp.append("%d 0 -" % mrc if mrc < 0 else "%d 1 %s" % (EAI_NONAME_UV, hexs(mbuf[:-1])))
    cmp.diff("uv_getaddrinfo hands the resolver Model/Idna.v idna_toascii(name, 256)", "gai", names, ga, gexp, mon_gai)
    conv = [(len(unhex(n)), len(unhex(x.split()[2]))) for n, x in zip(names, ga) if x.split()[1] == "1" and
            any(b >= 0x80 for b in unhex(n))]
    chk.cov["gai_names"] = len(names)
    chk.cov["gai_converted_shorter_equal_longer"] = [sum(1 for a, b in conv if b < a), sum(1 for a, b in conv if b == a),
                                                     sum(1 for a, b in conv if b > a)]
    chk.cov["gai_rejected_without_resolver_call"] = sum(1 for x in ga if x.split()[1] == "0")

    # (e) the design-time probe, replayed on the real library
    probe = "256 " + hexs(list(b"\xe4AA.com"))
    a, _, _ = vf.run_lines([h, "idna"], [probe])
    chk.cov["probe_E4_41_41_dot_com"] = a[0] if a else None
    cmp.settle()


RULE = ("UTF-8: every byte sequence of length 1..3 (each length separately, because the decoder switches on the "
        "distance to the end), 4-byte sequences over 31 boundary bytes, every truncation/extension of every "
        "well-formed boundary sequence, random strings; IDNA: Unicode scalar values alone in hashed blocks, model vs. "
        "library (thorough: every one; quick: every one below U+4000, in U+D000..U+10FFF, U+1F000..U+1FFFF and above "
        "U+10F000, a quarter of the other 4096-blocks) and embedded in context for a sample, explicit sampled scalars and random/damaged host names "
        "with random destination sizes three-way against a Python RFC 3492 reference, labels around the 32-bit "
        "overflow bound; UTF-16: every single unit, all pairs of boundary units with every destination size, random "
        "sequences, both counted and NUL-terminated; WTF-8 decoding of all 1-2 byte strings and boundary 3-4 byte "
        "strings; guard bytes around every destination; a case is non-trivial when (case, implementation output) "
        "is distinct")
TRUSTED = ["Coq 8.16.1 kernel (coqc)", "ExtrOcamlBasic extraction + OCaml 4.13.1 (ocaml/zutil.ml, drv_c18_idna.ml)",
           "harness/c18_idna.c, checks/c18_idna.py (generators, monitors, Python references for table 3-7 and RFC 3492)",
           "gcc 12"]


def main():
    chk = vf.Check("C18")
    thorough = chk.tier == "thorough"
    chk.prove()
    try:
        lib = vf.build_libuv(chk.scratch, "ndebug")
    except vf.BuildError as e:
        chk.violation("build failed: %s" % str(e)[:300], {"kind": "build", "log": str(e)}, found_input=False)
        chk.finish(rule="build failed")
    if chk.replay:
        replay(chk, lib)
    else:
        run(chk, lib, thorough)
    chk.finish(level="proof", rule=RULE, trusted=TRUSTED)


def replay(chk, lib):
    """bin/check ... --replay file: re-run the recorded case on the current tree"""
    import json
    rp = json.load(open(chk.replay))
    mode, case = rp.get("mode"), rp.get("case")
    if not mode or case is None:
        print("replay file has no case (proof/build obligation): %s" % rp.get("what"))
        return
    h = vf.cc_harness(chk.scratch, "c18_idna", ["c18_idna.c"], lib=lib)
    model = vf.model_bin("C18_IDNA")
    if mode == "w8abort":
        hd = vf.cc_harness(chk.scratch, "c18_idna_dbg", ["c18_idna.c", os.path.join(vf.REPO, "src", "idna.c")],
                           lib=lib, flavour="debug")
        r = vf.sh([hd, "w8abort"], input=case + "\n")
        print("case %s: exit %d %s" % (case, r.returncode, r.stdout.strip()[-200:]))
        if r.returncode != 0:
            chk.violation("uv_wtf8_to_utf16(%s) aborts in an assert-enabled build" % case, rp)
        return
    if mode == "gai":
        hg = vf.cc_harness(chk.scratch, "c18_idna_gai", ["c18_idna_gai.c"], lib=lib)
        a, _, _ = vf.run_lines([hg], [case])
        r = mon_gai(case, a[0]) if a else None
        print("case  gai %s\nimpl  %s\nmonitor %s" % (case[:200], a[0][:300] if a else None, r[1] if r else "ok"))
        if r:
            chk.violation("replay still fails: %s" % r[1], rp)
        return
    a, _, _ = vf.run_lines([h, mode], [case])
    b, _, _ = vf.run_lines([model, mode], [case])
    mon = {"u8": mon_u8, "u8blk": mon_u8blk, "idna": mon_idna, "w16": mon_w16, "w8": mon_w8}.get(mode)
    r = mon(case, a[0]) if mon and a else None
    print("case  %s %s\nimpl  %s\nmodel %s\nmonitor %s" % (mode, case[:200], a[0][:300] if a else None,
                                                           b[0][:300] if b else None, r[1] if r else "ok"))
    if (a and b and vf.canon(a[0]) != vf.canon(b[0])) or r:
        chk.violation("replay still fails: %s" % (r[1] if r else "implementation and model disagree"), rp)


if __name__ == "__main__":
    main()
