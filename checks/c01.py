#!/usr/bin/env python3
"""C01 loop liveness: proofs (Properties_C01.v) + correspondence of Model/LoopCore.v with the
real loop (uv-common.h macros, core.c, loop-watcher.c, async.c, threadpool completion)."""
import os, sys
sys.path.insert(0, os.path.dirname(os.path.abspath(__file__)))
import loopcore_common as lc
import vf


def pred_alive(nact_flags, nreq, flags):
    closing_pending = any(f[2] == "1" and f[3] == "0" for f in flags)
    return nact_flags > 0 or nreq > 0 or closing_pending


KF_CLOSE_BATCH = "loop_alive_false_inside_close_cb_batch"
KF_STALE_RUN = "uv_run_default_stale_result_after_stop_in_initial_timer_pass"


def monitor(case, line):
    """None, or a reason.  A reason starting with 'KNOWN:' names a known finding."""
    toks = line.split()
    in_close_phase = False
    for k, tok in enumerate(toks):
        if tok[0] == "c":
            in_close_phase = tok.startswith("c6,")
        elif tok[0] in "wu":
            in_close_phase = False
        if tok[0] != "o":
            continue
        nact, nreq, flags = lc.parse_obs(tok)
        cnt = sum(1 for f in flags if f[0] == "1" and f[1] == "1" and f[2] == "0")
        if nact != cnt:
            return "active_handles=%d but %d handles are active, referenced and not closing (%s)" % (nact, cnt, tok)
        want = pred_alive(cnt, nreq, flags)
        if k + 1 < len(toks) and toks[k + 1][0] == "l":
            if (toks[k + 1] == "l1") != want:
                if in_close_phase and want and cnt == 0 and nreq == 0:
                    return "KNOWN:" + KF_CLOSE_BATCH
                return "uv_loop_alive()=%s but outstanding-work predicate is %s at %s" % (toks[k + 1][1], want, tok)
        if k + 1 < len(toks) and toks[k + 1][0] == "z":
            busy = nreq > 0 or any(f[3] == "0" for f in flags)
            if (toks[k + 1] == "z-16") != busy:
                return "uv_loop_close()=%s but busy=%s at %s" % (toks[k + 1][1:], busy, tok)
        if k > 0 and toks[k - 1][0] == "u":
            if (toks[k - 1] == "u1") != want:
                j = k - 2
                while j >= 0 and toks[j][0] not in "gw":
                    j -= 1
                if toks[k - 1] == "u1" and not want and j >= 0 and toks[j].startswith("g0"):
                    return "KNOWN:" + KF_STALE_RUN
                return "uv_run() returned %s but outstanding-work predicate is %s at %s" % (toks[k - 1][1], want, tok)
    return None


def main():
    chk = vf.Check("C01")
    chk.prove()
    try:
        lib, h, m = lc.build(chk)
    except vf.BuildError as e:
        chk.violation("build failed: %s" % str(e)[:300], {"kind": "build", "log": str(e)}, found_input=False)
        chk.finish(rule="build failed")
    n = 200000 if chk.tier == "thorough" else 2500
    corpus_f = os.path.join(vf.VERIF, "corpus", "C01", "cases.txt")
    corpus = [l.rstrip("\n") for l in open(corpus_f)] if os.path.exists(corpus_f) else []
    cases = corpus + [lc.gen_case(chk.rng, "mixed") for _ in range(n)]
    a, b = lc.run_both(h, m, cases)
    vf.diff_cases(chk, "loop core = Model/LoopCore.v", cases, a, b, monitor)
    chk.sample({"case": cases[len(corpus)], "impl": a[len(corpus)] if len(a) > len(corpus) else None})
    chk.cov["callbacks_observed"] = sum(l.count(" c") for l in a)
    chk.cov["uv_run_calls"] = sum(l.count(" u") for l in a)
    chk.finish(
        level="proof",
        rule="random programs over timer/idle/prepare/check/async handles and work requests, operations "
             "issued at top level and from inside every kind of callback, all three run modes, metrics on/off, "
             "virtual clock; compared event by event (return codes, callbacks with uv_now, uv_loop_alive at "
             "every callback entry, counters and flags, poll timeouts, uv_run and uv_loop_close results); "
             "distinct = distinct (case, implementation trace)",
        trusted=["Coq 8.16.1 kernel", "extraction (ExtrOcamlBasic) + ocaml/drv_loopcore.ml", "harness/loopcore.c "
                 "(virtual clock through --wrap=clock_gettime,epoll_pwait)", "checks/c01.py monitor"])


if __name__ == "__main__":
    main()
