#!/usr/bin/env python3
"""C01 loop liveness: proofs (Properties_C01.v) + correspondence of Model/LoopCore.v with the
real loop (uv-common.h macros, core.c, loop-watcher.c, async.c, threadpool completion)."""
import os, sys
sys.path.insert(0, os.path.dirname(os.path.abspath(__file__)))
import loopcore_common as lc
import vf


def pred_alive(nact_flags, nreq, flags):
    closing_pending = any(f[2] == "1" and f[3] == "0" for f in flags)
    return nact_flags > 0 or nreq > 0 or closing_pending


KF_CLOSE_BATCH = "loop_alive_false_inside_close_cb_batch"
KF_PENDING = "loop_alive_true_with_only_pending_queue"


def monitor(case, line):
    """None, or a reason.  A reason starting with 'KNOWN:' names a known finding."""
    toks = line.split()
    in_close_phase = False
    for k, tok in enumerate(toks):
        if tok[0] == "c":
            in_close_phase = tok.startswith("c6,")
        elif tok[0] in "wu":
            in_close_phase = False
        if tok == "!drainhang":
            return ("after uv_close() on every handle uv_run(UV_RUN_DEFAULT) did not return within 4000 poll phases: "
                    "the loop stays alive (or a closed handle keeps firing)")
        if tok.startswith("!reqs"):
            n, lo, hi = tok[5:].split(",")
            return ("loop counts %s active request(s) but the requests whose completion is outstanding number between "
                    "%s and %s (submitted with a callback that has not run, or without one and not yet through a poll "
                    "phase)" % (n, lo, hi))
        if tok[0] != "o":
            continue
        nact, nreq, flags = lc.parse_obs(tok)
        cnt = sum(1 for f in flags if f[0] == "1" and f[1] == "1" and f[2] == "0")
        if nact != cnt:
            return "active_handles=%d but %d handles are active, referenced and not closing (%s)" % (nact, cnt, tok)
        want = pred_alive(cnt, nreq, flags)
        if k + 1 < len(toks) and toks[k + 1][0] == "l":
            if (toks[k + 1] == "l1") != want:
                if in_close_phase and want and cnt == 0 and nreq == 0:
                    return "KNOWN:" + KF_CLOSE_BATCH
                return "uv_loop_alive()=%s but outstanding-work predicate is %s at %s" % (toks[k + 1][1], want, tok)
        if k + 1 < len(toks) and toks[k + 1][0] == "z":
            busy = nreq > 0 or any(f[3] == "0" for f in flags)
            if (toks[k + 1] == "z-16") != busy:
                return "uv_loop_close()=%s but busy=%s at %s" % (toks[k + 1][1:], busy, tok)
        if k > 0 and toks[k - 1][0] == "u":
            if (toks[k - 1] == "u1") != want:
                return "uv_run() returned %s but outstanding-work predicate is %s at %s" % (toks[k - 1][1], want, tok)
    return None


def all_kinds_monitor(case, line):
    """The liveness predicate on the observations of the C02 lifecycle harness (all 13 handle kinds,
    requests in flight): see checks/c02.py liveness_traces for the token format."""
    if "ABORT" in line:
        return None
    toks = line.split()
    last_u, prev = None, None
    for tok in toks:
        if tok[0] == "u" and tok[1:].lstrip("-").isdigit():
            last_u = tok
            continue
        if tok[0] == "z" and tok[1:].lstrip("-").isdigit():
            if prev is not None:
                nreq, groups = prev
                busy = nreq > 0 or any(g[4] == "0" for g in groups)
                if (tok == "z-16") != busy:
                    return "uv_loop_close()=%s but busy=%s" % (tok[1:], busy)
            continue
        if tok[0] != "o" or ";" not in tok:
            continue
        head, rest = tok[1:].split(";", 1)
        f = head.split(",")
        if len(f) < 6:
            continue
        nact, nreq, alive, pending, batch, clnn = [int(x) for x in f[:6]]
        groups = [rest[i:i + 5] for i in range(0, len(rest) - len(rest) % 5, 5)]
        cnt = sum(1 for g in groups if g[1] == "1" and g[2] == "1" and g[3] == "0")
        if nact != cnt:
            return "active_handles=%d but %d handles are active, referenced and not closing (%s)" % (nact, cnt, tok)
        closing_pending = any(g[3] == "1" and g[4] == "0" for g in groups) or clnn == 1
        want = cnt > 0 or nreq > 0 or closing_pending
        verdict = None
        if bool(alive) != want:
            if not alive and batch:
                verdict = "KNOWN:" + KF_CLOSE_BATCH
            elif alive and pending:
                verdict = "KNOWN:" + KF_PENDING
            else:
                return "uv_loop_alive()=%d but the outstanding-work predicate is %s at %s" % (alive, want, tok)
        if last_u is not None:
            r = last_u != "u0"
            if r != bool(alive):
                return "uv_run() returned %s but uv_loop_alive() right after it is %d (%s)" % (last_u[1:], alive, tok)
            last_u = None
        prev = (nreq, groups)
        if verdict:
            return verdict
    return None


def main():
    chk = vf.Check("C01")
    chk.prove()
    try:
        lib, h, m = lc.build(chk)
    except vf.BuildError as e:
        chk.violation("build failed: %s" % str(e)[:300], {"kind": "build", "log": str(e)}, found_input=False)
        chk.finish(rule="build failed")
    n = 200000 if chk.tier == "thorough" else 2500
    corpus_f = os.path.join(vf.VERIF, "corpus", "C01", "cases.txt")
    corpus = [l.rstrip("\n") for l in open(corpus_f)] if os.path.exists(corpus_f) else []
    cases = corpus + [lc.gen_case(chk.rng, "mixed") for _ in range(n)]
    a, b = lc.run_both(h, m, cases)
    vf.diff_cases(chk, "loop core = Model/LoopCore.v", cases, a, b, monitor)
    chk.sample({"case": cases[len(corpus)], "impl": a[len(corpus)] if len(a) > len(corpus) else None})
    # uv_close() with a NULL callback (monitor only: the model's close always has a callback): the same scripts with
    # some closes turned into NULL-callback closes and more uv_loop_close attempts; the harness learns that such a
    # close is done from libuv's CLOSED flag, the liveness / uv_loop_close rules are those of monitor().
    def nullcb_case(rng):
        c = lc.gen_case(rng, "mixed")
        head, ops, behs = c.split(" ; ", 2)
        def tweak(tokens):
            out = []
            for t in tokens.split():
                if t[0] == "C" and rng.random() < 0.6:
                    t = "K" + t[1:]
                out.append(t)
                if t[0] in "CK" and rng.random() < 0.5:
                    out += ["O", "Z"]          # uv_loop_close while the close is still pending
            return " ".join(out)
        return " ; ".join([head, tweak(ops), " | ".join(tweak(b) for b in behs.split(" | "))])
    ncases = [nullcb_case(chk.rng) for _ in range(20000 if chk.tier == "thorough" else 600)]
    na, nrc, nerr = vf.run_lines([h], ncases, shards=8, timeout=300)
    nbad = 0
    for c, l in zip(ncases, na):
        chk.count("NULL-callback closes (monitor)", c + "=>" + l)
        v = monitor(c, lc.merge_polls(l)) if not l.endswith(("!timeout", "!notrun")) else "the implementation hangs on this case"
        if v and not v.startswith("KNOWN:") and nbad < 3:
            nbad += 1
            chk.violation("loop core, closes with a NULL callback: trace violates the property: %s" % v,
                          {"kind": "monitor", "case": c, "impl": l}, found_input=True)
    chk.cov["null_callback_close_cases"] = len(ncases)
    # all handle kinds: the liveness predicate on the C02 lifecycle harness's observations (monitor only)
    try:
        sys.path.insert(0, os.path.dirname(os.path.abspath(__file__)))
        import c02
        pairs = c02.liveness_traces(chk, lib, chk.tier == "thorough", n=None if chk.tier == "thorough" else 800)
        nobs, nb = 0, 0
        reported = 0
        for sc, tr in pairs:
            nobs += tr.count(" o") + tr.startswith("o")
            chk.count("all-kinds liveness", sc + "=>" + tr)
            v = all_kinds_monitor(sc, tr)
            if v and v.startswith("KNOWN:"):
                f = chk.match_known(v[6:])
                if f is not None:
                    chk.known_hit(f)
                    v = None
                else:
                    v = "unlisted finding " + v[6:]
            if v:
                nb += 1
                if reported < 3:
                    reported += 1
                    chk.violation("liveness predicate over all handle kinds: " + v,
                                  {"kind": "monitor", "obligation": "all-kinds liveness", "case": sc, "impl": tr},
                                  found_input=True)
        chk.cov["all_kinds_liveness"] = {"scripts": len(pairs), "observations": nobs, "violating_scripts": nb}
        chk.corr("liveness predicate on all 13 handle kinds (monitor only, harness/c02_life.c)", len(pairs))
    except vf.BuildError as e:
        chk.violation("lifecycle harness does not build: %s" % str(e)[:200], {"kind": "build", "log": str(e)},
                      found_input=False)
    chk.cov["callbacks_observed"] = sum(l.count(" c") for l in a)
    chk.cov["uv_run_calls"] = sum(l.count(" u") for l in a)
    chk.finish(
        level="proof",
        rule="random programs over timer/idle/prepare/check/async handles and work requests, operations "
             "issued at top level and from inside every kind of callback, all three run modes, metrics on/off, "
             "virtual clock; compared event by event (return codes, callbacks with uv_now, uv_loop_alive at "
             "every callback entry, counters and flags, poll timeouts, uv_run and uv_loop_close results); "
             "distinct = distinct (case, implementation trace)",
        trusted=["Coq 8.16.1 kernel", "extraction (ExtrOcamlBasic) + ocaml/drv_loopcore.ml", "harness/loopcore.c "
                 "(virtual clock through --wrap=clock_gettime,epoll_pwait)", "checks/c01.py monitor"])


if __name__ == "__main__":
    main()
