#!/usr/bin/env python3
"""C16 resource exhaustion / interrupted system calls.

  proofs          coq/Properties/Properties_C16.v  (error-path models in Model/Faults.v)
  part A (unit)   the modelled entry points under sequential oracles: real libuv (asan
                  flavour, harness/c16_faults.c) vs. the extracted model, result + ledger delta
                  + the sequence of allocation / system-call points
  part B (enum)   fault enumeration on a catalogue of scenarios: a fault-free run numbers every
                  allocation and every wrapped system call, then one run per occurrence and
                  applicable errno, EINTR storms, pairs (thorough); every run in a forked child.
"""
import collections, os, re, subprocess, sys, json
sys.path.insert(0, os.path.join(os.path.dirname(os.path.abspath(__file__)), "..", "lib"))
import vf

WRAPS = ("socket socketpair accept4 connect pipe2 eventfd epoll_create1 epoll_ctl epoll_pwait open64 "
         "dup2 dup3 inotify_init1 inotify_add_watch read readv write writev sendmsg recvmsg sendmmsg "
         "recvmmsg pread64 pwrite64 fork waitpid ioctl mmap64 opendir scandir64 getifaddrs fdopen "
         "nanosleep poll sendfile64 pthread_create syscall abort").split()

ALLOCS = {"malloc", "calloc", "realloc"}
# which errnos of the statement a call can really return (man pages); I = EINTR storm;
# a:n = only on a non-blocking descriptor, a:s = only on a socket, a:!w = not on the loop's
# own wake-up channels (EAGAIN there means "a wake-up is already pending", which an injected
# answer cannot emulate)
APPL = {
    "malloc": ["ENOMEM"], "calloc": ["ENOMEM"], "realloc": ["ENOMEM"],
    "socket": ["EMFILE", "ENFILE", "ENOBUFS", "ENOMEM"],
    "socketpair": ["EMFILE", "ENFILE"],
    "accept4": ["I", "EAGAIN:n", "EMFILE", "ENFILE", "ENOBUFS", "ENOMEM"],
    "connect": ["I", "EAGAIN"],
    "pipe2": ["EMFILE", "ENFILE"],
    "eventfd": ["EMFILE", "ENFILE", "ENOMEM"],
    "epoll_create1": ["EMFILE", "ENFILE", "ENOMEM"],
    "epoll_ctl_add": ["ENOMEM", "ENOSPC"], "epoll_ctl_mod": ["ENOMEM"], "epoll_ctl_del": ["ENOMEM"],
    "epoll_pwait": ["I"],
    "open": ["I", "EMFILE", "ENFILE", "ENOMEM"],
    "inotify_init1": ["EMFILE", "ENFILE", "ENOMEM"],
    "inotify_add_watch": ["ENOMEM", "ENOSPC"],
    "read": ["I", "EAGAIN:n"], "readv": ["I", "EAGAIN:n"],
    "write": ["I", "EAGAIN:n!w", "ENOBUFS:s"], "writev": ["I", "EAGAIN:n!w", "ENOBUFS:s"],
    "sendmsg": ["I", "EAGAIN:n", "ENOBUFS", "ENOMEM"], "sendmmsg": ["I", "EAGAIN:n", "ENOBUFS", "ENOMEM"],
    "recvmsg": ["I", "EAGAIN:n", "ENOMEM"], "recvmmsg": ["I", "EAGAIN:n", "ENOMEM"],
    "pread": ["I"], "pwrite": ["I"],
    "fork": ["EAGAIN", "ENOMEM"], "waitpid": ["I"], "ioctl": ["I"], "mmap": ["ENOMEM"],
    "opendir": ["EMFILE", "ENFILE", "ENOMEM"], "scandir": ["ENOMEM"],
    "getifaddrs": ["ENOMEM", "ENOBUFS", "EMFILE"], "fdopen": ["ENOMEM"],
    "nanosleep": ["I"], "poll": ["I", "ENOMEM"], "sendfile": ["I", "EAGAIN"],
    "pthread_create": ["EAGAIN"], "close": ["I"], "statx": ["ENOMEM"],
    "iou_setup": ["ENOMEM", "EMFILE", "ENFILE"], "iou_enter": ["I"], "iou_register": ["ENOMEM"],
    "getrandom": ["I"], "copy_file_range": ["ENOMEM"],
}

SCENARIOS = ["loop", "default_loop", "basic", "tcp", "tcp_big", "pipe", "pipe_big", "tcp_refused", "tcp_many", "tcp_shed", "connect_fail", "udp",
             "fs_sync", "fs_async", "fs_event", "fs_poll", "spawn", "spawn_fail", "spawn_many", "signal", "signal_close",
             "dns", "os", "work", "pool:1", "pool:4", "pool:5", "pool:8", "pool:12", "pool:128", "pairs", "ipc", "sysinfo"]
QUICK_SKIP_HEAVY = {"tcp_big", "pipe_big"}        # quick: sampled more thinly (hundreds of reads)
NOT_MODELLED = ["uv_interface_addresses", "uv_cpu_info", "uv_getnameinfo", "uv_fs_* worker-side operations",
                "uv_pipe_bind/uv_pipe_connect", "uv_tcp_* (bind/listen/connect)", "uv_udp_* except uv_udp_send",
                "uv_signal_start/stop", "uv_queue_work/uv_random", "uv_poll_*", "uv_pipe/uv_socketpair",
                "uv_os_* getters except uv_os_environ", "uv_dlopen", "IPC handle passing (uv__stream_queue_fd)"]

# abort sites: function names (from the debug info of the harness) -> site; the first five are
# the ones the property permits
SITES = {
    "maybe_resize": "maybe_resize",
    "uv__io_poll": "poller_register", "uv__epoll_ctl_flush": "poller_register",
    "uv__epoll_ctl_prep": "poller_register", "uv__io_check_fd": "poller_register",
    "timer_cb": "fs_poll_rearm", "poll_cb": "fs_poll_rearm",
    "uv__inotify_fork": "inotify_fork",
    "init_threads": "threadpool_start", "init_once": "threadpool_start",
    "uv__signal_global_reinit": "signal_global_init", "uv__signal_global_init": "signal_global_init",
    "uv__signal_block_and_lock": "signal_lock", "uv__signal_unlock_and_unblock": "signal_lock",
    "uv__async_send": "async_send", "uv__async_io": "async_io", "uv__signal_event": "signal_event",
    "uv__process_open_stream": "spawn_close", "uv__spawn_and_init_child": "spawn_read",
}
PERMITTED = {"maybe_resize", "poller_register", "fs_poll_rearm", "inotify_fork", "threadpool_start"}

KNOWN_TEXT = {
    "signal_global_init_aborts_on_pipe_failure":
        "the first uv_loop_init of a process runs uv__signal_global_reinit (src/unix/signal.c:100-108), which abort()s "
        "when pipe2 fails with EMFILE/ENFILE - not one of the permitted abort sites",
}
# repaired in /repo (uv_write2 f63c297, uv_os_environ 75025a4, uv_loop_init 9298bc0, uv_fs_poll_start 9bc8132): these are
# plain violations if they come back; their replays stay in corpus/C16 as regression cases


# --------------------------------------------------------------------------
def parse_out(line):
    parts = line.split("|")
    while len(parts) < 4:
        parts.append("")
    status, events, points, dg = parts[0], parts[1], parts[2], "|".join(parts[3:])
    return status, events.split(), points.split(), dg


def ev_map(events):
    m = collections.OrderedDict()
    for t in events:
        if "=" in t:
            k, v = t.split("=", 1)
        else:
            k, v = t, ""
        m.setdefault(k, []).append(v)
    return m


class Resolver:
    """abort pc -> site through addr2line on the (non-PIE) harness executable"""

    def __init__(self, exe):
        self.exe, self.cache = exe, {}

    def funcs(self, pc):
        if pc not in self.cache:
            r = vf.sh(["addr2line", "-f", "-i", "-e", self.exe, pc])
            lines = r.stdout.split("\n")
            self.cache[pc] = [lines[i] for i in range(0, len(lines) - 1, 2)]
        return self.cache[pc]

    def site(self, pc):
        fs = self.funcs(pc)
        for f in fs:
            if f in SITES:
                return SITES[f], fs
        return "other:" + (fs[0] if fs else "?"), fs


def abort_info(events):
    for t in events:
        if t.startswith("ABORT:pc="):
            m = re.match(r"ABORT:pc=(0x[0-9a-f]+):api=([^:]*):last=(.*)", t)
            if m:
                return m.group(1), m.group(2), m.group(3)
    return None, None, None


# --------------------------------------------------------------------------
# part A: unit correspondence
# --------------------------------------------------------------------------
UNITS = [
    # (harness scenario, report name, model case head, compare points as prefix only)
    ("u_write2:6", "write2", "write2 6 0 1", False),
    ("u_write2:2", "write2", "write2 2 0 1", False),
    ("u_write2:1", "write2", "write2 1 0 1", False),
    ("u_udp_send:6", "udp_send", "udp_send 6 1 0 0", False),
    ("u_udp_send:1", "udp_send", "udp_send 1 1 0 0", False),
    ("u_fs_poll_start", "fs_poll_start", "fs_poll_start 0 0", False),
    ("u_os_environ", "os_environ", "os_environ 1 0 1 1", False),
    ("u_fs_event_start:0", "fs_event_start", "fs_event_start 0 0 0", False),
    ("u_fs_event_start:1", "fs_event_start", "fs_event_start 1 0 0", False),
    ("u_fs_event_start:2", "fs_event_start", "fs_event_start 1 1 0", False),
    ("u_getaddrinfo", "getaddrinfo", "getaddrinfo 1", False),
    ("u_fs_path:0", "fs_stat", "fs_stat 1", False),
    ("u_fs_path:1", "fs_rename", "fs_rename 1", False),
    ("u_spawn:10", "spawn", "spawn 1 1 1 0 0 0 0 0 0 0 0", False),
    ("u_spawn:3", "spawn", "spawn 1 1 1 0", False),
    ("u_accept", "accept", "accept", False),
    ("u_async", "async_send", "async_send", False),
    ("u_close", "close", "close", False),
    ("u_loop_init", "loop_init", "loop_init 1", False),
    ("u_async_io", "async_io", "async_io", True),
    ("u_signal_event", "signal_event", "signal_event", True),
]
ALPHA = ["ENOMEM", "EMFILE", "EAGAIN", "i"]


def unit_plans(rng, n, thorough):
    """sequential oracles for a call that asks about n points when nothing fails"""
    plans = [[]]
    span = n + 3
    for p in range(span):
        for a in ALPHA:
            plans.append(["o"] * p + [a])
        for k in (2, 3, 20):
            plans.append(["o"] * p + ["i"] * k)
            plans.append(["o"] * p + ["i"] * k + ["EMFILE"])
    pairs = []
    for p in range(span):
        for q in range(p + 1, span + 2):
            for a in ALPHA:
                for b in ALPHA:
                    pairs.append(["o"] * p + [a] + ["o"] * (q - p - 1) + [b])
    if not thorough and len(pairs) > 160:
        pairs = rng.sample(pairs, 160)
    plans += pairs
    for _ in range(200 if thorough else 30):
        ln = rng.randint(1, span + 2)
        plans.append([rng.choice(["o", "o", "o"] + ALPHA) for _ in range(ln)])
    return plans


def unit_impl_line(name, out, resolver, prefix_only):
    """canonical line of the implementation + the answers its points consumed"""
    status, events, points, dg = parse_out(out)
    pts, allocs, syss = [], [], []
    for p in points:
        m = re.match(r"M\.([a-z0-9_]+)(?::[a-z]+)?@[^=]*(?:=(\w+))?$", p)
        if not m:
            continue
        nm, an = m.group(1), m.group(2)
        pts.append(nm)
        if nm in ALLOCS:
            allocs.append("0" if an else "1")
        else:
            syss.append("o" if not an else ("i" if an == "EINTR" else an))
    joined = " ".join(events)
    fields = {}
    m = re.search(r"U:%s rc=(\S+)((?: d[a-z]=-?\d+)*)" % re.escape(name), joined)
    if status == "ABORT":
        pc, api, last = abort_info(events)
        site, _ = resolver.site(pc) if pc else ("?", [])
        rc = "ABORT:%s:%s" % (site, "permitted" if site in PERMITTED else "unpermitted")
    elif status != "EXIT0" and not m:
        rc = status
    elif m:
        rc = m.group(1)
        for kv in m.group(2).split():
            k, v = kv.split("=")
            fields[k] = v
    else:
        rc = "NOREPORT"
    cb = "-"
    for t in events:
        if t.startswith("cb.") and not t.startswith("cb.work0"):
            cb = t.split("=", 1)[1]
            break
    m2 = re.search(r" count=(\d+)", joined)
    if m2:
        cb = "#" + m2.group(1)
    return {"rc": rc, "fields": fields, "cb": cb, "pts": pts, "allocs": "".join(allocs) or "-",
            "syss": ",".join(syss) or "-", "status": status, "digest": dg, "events": joined}


RETRY_UNITS = {"write2", "udp_send", "accept", "async_send", "async_io", "signal_event", "close"}


def unit_monitor(name, case, impl):
    """property verdict on the implementation's own unit trace (None = no violation seen)"""
    plan = case.split("seq:", 1)[1].split(",") if "seq:" in case else []
    only_intr = plan and all(a in ("o", "i") for a in plan)
    realistic = all(a in ("o", "i", "ENOMEM") for a in plan)
    if name in RETRY_UNITS and only_intr and (impl["rc"] == "EINTR" or impl["cb"] == "EINTR"):
        return "an interrupted call surfaced as UV_EINTR from a retry loop"
    if only_intr and impl["rc"].startswith("ABORT"):
        return "abort() after nothing but interrupted calls"
    if impl["rc"].startswith("E") and impl["rc"] != "EXIT0":
        for k, what in (("dr", "active_reqs"), ("dh", "active_handles")):
            if impl["fields"].get(k, "0") != "0":
                return "the call failed with %s and left %s changed by %s" % (impl["rc"], what, impl["fields"][k])
        if impl["fields"].get("dm", "0") != "0":
            return "the call failed with %s and left %s block(s) of libuv's allocator behind" % (impl["rc"], impl["fields"]["dm"])
        if impl["fields"].get("dw", "0") != "0":
            return "the call failed with %s and changed the number of kernel inotify watches by %s" % (impl["rc"], impl["fields"]["dw"])
        if name in ("udp_send", "getaddrinfo", "fs_stat", "fs_rename", "accept", "write2", "fs_poll_start", "os_environ") and \
                impl["fields"].get("df", "0") != "0":
            return "the call failed with %s and left descriptors behind (df=%s)" % (impl["rc"], impl["fields"].get("df"))
        if name == "loop_init" and impl["fields"].get("df", "0") not in ("0", "2"):
            return "uv_loop_init failed with %s and left descriptors behind (df=%s)" % (impl["rc"], impl["fields"].get("df"))
    if impl["status"] == "EXIT0" and name == "os_environ" and (" live=0" not in impl["events"] or " lsan=0" not in impl["events"]):
        return "blocks still live after uv_os_environ / uv_os_free_environ"
    if realistic and impl["status"] in ("ASAN", "ASSERT") :
        return "%s: %s" % (impl["status"], impl["digest"][:160])
    if impl["rc"].startswith("ABORT") and impl["rc"].endswith(":unpermitted") and realistic:
        return "abort() at a site the property does not permit: " + impl["rc"]
    if " fdleak=" in impl["events"] and " fdleak=0" not in impl["events"] and impl["status"] == "EXIT0" and " loop_close=0" in impl["events"]:
        return "descriptors left open after the loop was closed"
    return None


def unit_compare(impl, model_line, prefix_only):
    mm = dict(kv.split("=", 1) for kv in model_line.split() if "=" in kv)
    mrc = mm.get("rc", "?")
    mpts = [p for p in mm.get("pts", "").split(",") if p]
    diffs = []
    irc = impl["rc"]
    if mrc.startswith("ABORT") or irc.startswith("ABORT"):
        if mrc != irc:
            diffs.append("result %s vs model %s" % (irc, mrc))
    elif int(mm.get("dd", "0")) > 0 and impl["status"] == "ASAN" and "heap-use-after-free" in impl["digest"]:
        pass        # the model's dangling block is ASan's use-after-free
    else:
        if mrc != irc:
            diffs.append("result %s vs model %s" % (irc, mrc))
        for k in ("dr", "dh", "dq", "dm", "df", "dw"):
            if k in impl["fields"] and impl["fields"][k] != mm.get(k):
                diffs.append("%s %s vs model %s" % (k, impl["fields"][k], mm.get(k)))
        if mm.get("cb", "-") != "-" and mm["cb"] != impl["cb"]:
            diffs.append("callback %s vs model %s" % (impl["cb"], mm["cb"]))
    ip = impl["pts"]
    if prefix_only:
        ip = [p for p in ip if p == "read"][:len(mpts)]
    if ip != mpts:
        diffs.append("points %s vs model %s" % (",".join(ip), ",".join(mpts)))
    return diffs


# --------------------------------------------------------------------------
# part B: enumeration
# --------------------------------------------------------------------------
def fault_points(points):
    """[(cls, name, idx, attr, api)] from the record of a fault-free run"""
    cnt, out = collections.Counter(), []
    for p in points:
        m = re.match(r"([MW])\.([a-z0-9_]+)(?::([a-z]+))?@(\S*)$", p)
        if not m:
            continue
        cls, nm, attr, api = m.group(1), m.group(2), m.group(3) or "", m.group(4)
        out.append((cls, nm, cnt[(cls, nm)], attr, api))
        cnt[(cls, nm)] += 1
    return out


def kinds_for(nm, attr):
    res = []
    for k in APPL.get(nm, []):
        if ":" in k:
            e, cond = k.split(":")
            ok = True
            neg = False
            for c in cond:
                if c == "!":
                    neg = True
                    continue
                has = c in attr
                if neg:
                    ok = ok and not has
                    neg = False
                else:
                    ok = ok and has
            if not ok:
                continue
            res.append(e)
        else:
            res.append(k)
    return res


def single_plans(pts, rng, thorough, thin):
    """one plan per occurrence and applicable answer; in the quick tier long runs of the same
    point (hundreds of reads of a bulk transfer) are sampled: first 3, last 2, some in between"""
    by = collections.defaultdict(list)
    for cls, nm, idx, attr, api in pts:
        by[(cls, nm)].append((idx, attr, api))
    plans = []
    for (cls, nm), occ in sorted(by.items()):
        lim = 6 if thin else 12
        if not thorough and len(occ) > lim:
            mid = occ[3:-2]
            keep = occ[:3] + rng.sample(mid, min(len(mid), lim - 5)) + occ[-2:]
        else:
            keep = occ
        for idx, attr, api in keep:
            for k in kinds_for(nm, attr):
                if k == "I":
                    plans.append(("at:%s.%s#%d=I1" % (cls, nm, idx), nm, "EINTR", api))
                else:
                    plans.append(("at:%s.%s#%d=%s" % (cls, nm, idx, k), nm, k, api))
    return plans


ERRLIKE = re.compile(r"^(E[A-Z0-9_]+|UNKNOWN|EOF)")


def monitor(scen, plan, kind, ref, out, resolver):
    """None when the run satisfies the property, else (key, text)"""
    status, events, points, dg = parse_out(out)
    m = ev_map(events)
    ra = [t for t in events if t.startswith("RETRYARGS:")] or re.findall(r"RETRYARGS:\w+:[0-9a-f]+->[0-9a-f]+", dg)
    if ra:
        nm_, chg = ra[0].split(":")[1], ra[0].split(":")[2]
        return ("retry_args", "an interrupted %s() was retried with different arguments (same descriptor/buffer, length/flags %s)%s" %
                (nm_, chg.replace("->", " -> 0x").join(["0x", ""]) if "->" in chg else chg,
                 "" if status == "EXIT0" else "; the run then ended with %s" % status))
    if status == "ABORT":
        pc, api, last = abort_info(events)
        site, fs = resolver.site(pc) if pc else ("?", [])
        if site in PERMITTED:
            return ("PERMITTED:" + site, "")
        return ("abort_at_" + site, "abort() in %s during %s after %s" % ("<-".join(fs[:3]), api, last))
    if status == "SPIN":
        sp = [t for t in events if t.startswith("SPIN:")]
        return ("spin", "the run made more than 60000 allocation/system calls without finishing (%s): the loop spins" % (sp[0] if sp else "?"))
    if status != "EXIT0":
        top = ""
        fm = re.findall(r"#\d+ 0x[0-9a-f]+ in (\w+) (\S*/src/\S+)", dg)
        if fm:
            top = "%s %s" % fm[0]
        head = dg.split("~")[0][:160]
        return ("%s_%s" % (status.lower(), fm[0][0] if fm else "harness"), "%s %s [%s]" % (status, head, top))
    probs = []
    for k, vs in m.items():
        for v in vs:
            if "!r" in v or "!h" in v:
                probs.append(("acct", "%s=%s: a failed call changed the request/handle counters" % (k, v)))
            if "!q" in v:
                probs.append(("acct", "%s=%s: a failed call left a handle linked in loop->handle_queue (uv_walk sees it, uv_loop_close stays UV_EBUSY "
                              "until somebody closes a handle the caller never got)" % (k, v)))
            if "!w" in v:
                probs.append(("acct", "%s=%s: a failed call changed the number of kernel inotify watches" % (k, v)))
    for k in m:
        if k == "CAP":
            probs.append(("spin", "uv_run(UV_RUN_ONCE) returned 5000 times without any progress (%s callback(s) still outstanding): "
                          "the loop busy-spins" % m[k][0]))
        elif k.startswith("WATCHDOG") or k == "stall":
            probs.append(("no_completion", "%s=%s: the loop did not run to completion" % (k, m[k][0])))
    if "loop_init" in m and m["loop_init"][0] == "0":
        if m.get("alive", ["?"])[0] != "0" or m.get("reqs", ["?"])[0] != "0" or m.get("loop_close", ["?"])[0] != "0":
            probs.append(("loop_not_closable", "alive=%s reqs=%s loop_close=%s after closing every handle" %
                          (m.get("alive", ["?"])[0], m.get("reqs", ["?"])[0], m.get("loop_close", ["?"])[0])))
    if m.get("watches_end", ["0"])[0] != "0":
        probs.append(("watch_leak", "%s kernel inotify watch(es) left after every handle was stopped and closed" % m["watches_end"][0]))
    if m.get("fdleak", ["0"])[0] != "0":
        probs.append(("fdleak", "descriptors left open: %s" % m["fdleak"][0]))
    if m.get("fdlost", ["0"])[0] != "0":
        probs.append(("fdlost", "descriptors of the baseline were closed: %s" % m["fdlost"][0]))
    if int(m.get("live", ["0"])[0]) > int(ref.get("live", ["0"])[0]):
        probs.append(("memleak", "%s blocks from libuv's allocator still live" % m["live"][0]))
    if m.get("lsan", ["0"])[0] != "0":
        probs.append(("lsan", "LeakSanitizer: " + dg[:200]))
    # outcome clause
    fired = m.get("fired", ["0"])[0] != "0"
    devs, lost, extra = [], [], []
    skip = {"fired", "live", "fdleak", "fdlost", "lsan", "alive", "reqs", "loop_close", "watches_end"}
    for k, vs in m.items():
        if k in skip or k.startswith("WATCHDOG") or k in ("CAP", "stall") or k.startswith("info."):
            continue
        rv = ref.get(k, [])
        for i, v in enumerate(vs):
            if i >= len(rv):
                extra.append((k, v))
            elif v.split("!")[0] != rv[i]:
                devs.append((k, v.split("!")[0], rv[i]))
    for k, rv in ref.items():
        if k in skip or k.startswith("info."):
            continue
        if len(m.get(k, [])) < len(rv):
            lost.append(k)
    errvals = [v for _, v, _ in devs if ERRLIKE.match(v)] + [v for _, v in extra if ERRLIKE.match(v)]
    for k, v, r in devs:
        if not ERRLIKE.match(v) and not errvals:       # after a reported error later values are consequences
            probs.append(("wrong_value", "%s=%s where the fault-free run has %s (not an error code)" % (k, v, r)))
    if scen == "default_loop":
        if "BROKEN" in m.get("default_loop_retry", []):
            probs.append(("acct", "uv_default_loop() failed once and keeps failing after the fault is over"))
        for k_ in ("timer_fired", "default_loop_close"):
            want_ = "1" if k_ == "timer_fired" else "0"
            if any(v_ != want_ for v_ in m.get(k_, [])):
                probs.append(("loop_not_closable", "after a failed uv_default_loop() the default loop does not work: %s=%s" % (k_, m.get(k_))))
    if scen.startswith("pool:") and "info.workers" in m:
        # the worker table: UV_THREADPOOL_SIZE threads, or the 4 static slots when its allocation failed
        want = int(scen.split(":")[1])
        table_failed = want > 4 and plan.split(";")[0] == "at:M.malloc#0=ENOMEM"
        got = int(m["info.workers"][0])
        if got != (4 if table_failed else want):
            probs.append(("pool_size", "%d worker threads were started with UV_THREADPOOL_SIZE=%d%s" %
                          (got, want, " although the allocation of the thread table failed (only the 4 static slots exist)" if table_failed else "")))
    if kind == "EINTR" and scen == "signal_close" and re.match(r"at:M\.write#", plan):
        for k in ("info.signal_delivered", "info.signal_delivered2"):
            if m.get(k) != ref.get(k):
                probs.append(("eintr_not_transparent", "%s=%s where the fault-free run has %s: an interrupted write in the signal "
                              "handler lost the signal" % (k, m.get(k), ref.get(k))))
    if kind == "EINTR":
        bad = [v for v in errvals if v != "EINTR"]
        if bad and not any(p[0] in ("acct",) for p in probs):
            probs.append(("eintr_not_transparent", "an EINTR storm surfaced as %s" % ",".join(sorted(set(bad)))))
        # UV_EINTR is an admissible report only where libuv deliberately does not restart the call
        # (open(), file reads: uv__fs_work's retry_on_eintr); everywhere else the call sits in a
        # do/while (errno == EINTR) loop and must be transparent
        pm = re.match(r"at:[MW]\.([a-z0-9_]+)#", plan)
        pname = pm.group(1) if pm else ""
        surf = [(k, v) for k, v, _ in devs if v == "EINTR"] + [(k, v) for k, v in extra if v == "EINTR"]
        if surf and ";" not in plan and not (pname == "open" or (pname in ("read", "pread", "readv") and surf[0][0].lstrip("cb.").startswith("fs_"))):
            probs.append(("eintr_not_transparent", "EINTR on %s surfaced as %s=EINTR" % (pname, surf[0][0])))
    if (lost or extra) and not errvals and not probs:
        probs.append(("lost_event", "events differ from the fault-free run without any error being reported: "
                      "missing %s extra %s" % (lost[:4], extra[:4])))
    if not probs:
        return None
    prio = ["acct", "watch_leak", "pool_size", "spin", "loop_not_closable", "no_completion", "eintr_not_transparent", "wrong_value", "lost_event",
            "fdleak", "fdlost", "memleak", "lsan"]
    probs.sort(key=lambda p_: (prio.index(p_[0]) if p_[0] in prio else len(prio), p_[1]))
    return (probs[0][0], "; ".join(t for _, t in probs[:3]))


def classify_known(scen, plan, key, text, out):
    """map a monitor verdict to the documented finding that is still open"""
    if key == "abort_at_signal_global_init":
        return "signal_global_init_aborts_on_pipe_failure"
    return None


# --------------------------------------------------------------------------
# part C: interrupted blocking poll on a virtual clock (harness/c16_poll.c)
# --------------------------------------------------------------------------
# (the early wake-up io_poll_eintr_retry_subtracts_elapsed_twice was repaired by /repo c841fbc: a plain violation if it
# returns; its replays stay in corpus/C16/poll.txt)


def poll_cases(rng, thorough):
    cases = []
    for mode in ("once", "default"):
        for metrics in (0, 1):
            for T in (1, 7, 200, 1000):
                half = max(T // 2, 1)
                scripts = [[], ["t"], ["i0"], ["i1"], ["i%d" % half], ["i%d" % (T - 1)], ["i%d" % T], ["i%d" % (T + 50)],
                           ["e0"], ["e1"], ["e%d" % half], ["i0", "e1"], ["i1", "e1"], ["i%d" % half, "e0"]]
                scripts += [["f0"], ["f1"], ["f%d" % half], ["f1", "t"], ["f1", "f0", "t"], ["i1", "f1"], ["i%d" % half, "f0", "t"],
                            ["f1", "i0"], ["f1", "e0"], ["f0"] * 50, ["i0", "f1", "f0", "f0", "i0"]]
                for k in (1, 3, 50):
                    scripts.append(["i0"] * k)
                    scripts.append(["i1"] * k)
                    scripts.append(["i%d" % max(T // (k + 1), 1)] * k)
                    scripts.append(["i0"] * k + ["i%d" % half])
                    scripts.append(["i%d" % half] + ["i0"] * k)
                    scripts.append(["i%d" % rng.randint(0, max(T // k, 1)) for _ in range(k)])
                    scripts.append(["i0"] * k + ["e1"])
                for _ in range(40 if thorough else 6):
                    n = rng.randint(1, 8)
                    scripts.append([rng.choice(["i0", "i1", "i%d" % rng.randint(0, T), "i%d" % half, "t", "e%d" % rng.randint(0, T), "f0", "f%d" % rng.randint(0, T)])
                                    for _ in range(n)])
                for sc in scripts:
                    cases.append("%s %d %d ; %s" % (mode, metrics, T, " ".join(sc)))
    # every script of length <= 3 over a small alphabet
    alpha = ["i0", "i1", "i5", "i10", "t", "e1", "f1"]
    for mode in ("once",):
        for metrics in (0, 1):
            for a in alpha:
                for b in alpha + [None]:
                    for c in (alpha + [None]) if b else [None]:
                        sc = [x for x in (a, b, c) if x]
                        cases.append("%s %d 10 ; %s" % (mode, metrics, " ".join(sc)))
    return cases


def poll_parse(line):
    """-> due, runs: [ {phases: [ {given, calls: [(t, now, ans)], blocked} ], fired_at, uv_now, ret, ret_at} ]"""
    toks = line.split()
    due, runs, cur, ph = None, [], None, None
    for t in toks:
        if t.startswith("due="):
            due = int(t[4:])
        elif t == "R":
            cur = {"phases": [], "fired": None, "ret": None, "async": 0}
            runs.append(cur)
        elif cur is None:
            continue
        elif t[0] == "P" and t[1:].lstrip("-").isdigit():
            ph = {"given": int(t[1:]), "calls": [], "blocked": None, "hung": False}
            cur["phases"].append(ph)
        elif t[0] == "w" and ph is not None:
            m = re.match(r"w(-?\d+)@(-?\d+):(\w*)$", t)
            if m:
                ph["calls"].append((int(m.group(1)), int(m.group(2)), m.group(3)))
        elif t == "H" and ph is not None:
            ph["hung"] = True
        elif t[0] == "Q" and ph is not None:
            ph["blocked"] = int(t[1:])
            ph = None
        elif t.startswith("T@"):
            a, b = t[2:].split(",")
            cur["fired"] = (int(a), int(b))
        elif t.startswith("A@"):
            cur["async"] += 1
        elif t[0] == "r" and "@" in t:
            cur["ret"] = (int(t[1:].split("@")[0]), int(t.split("@")[1]))
    return due, runs


def poll_monitor(case, line):
    """None, or (key, text): 'late' = blocked beyond the timeout / timer late, 'early' = woke up before the timeout
    without any event (uv_run(UV_RUN_ONCE) then returns with the due timer not fired)"""
    due, runs = poll_parse(line)
    if due is None or not runs or "end fired=1" not in line:
        if " H " in line:
            return None
        return ("late", "the timer callback never ran: %s" % line[:200])
    early = None
    for r in runs:
        for ph in r["phases"]:
            if ph["hung"] or not ph["calls"]:
                continue
            g, base = ph["given"], ph["calls"][0][1]
            if g >= 0 and ph["blocked"] is not None and ph["blocked"] > g:
                return ("late", "one uv__io_poll call blocked %d ms with a timeout of %d" % (ph["blocked"], g))
            seen_full = False
            for (t, now, ans) in ph["calls"]:
                if seen_full and t != 0:
                    return ("late", "after a completely filled batch uv__io_poll polled again with timeout %d instead of 0 "
                            "(entry timeout %d): the loop blocks although callbacks have run" % (t, g))
                if ans.startswith("f"):
                    seen_full = True
            for (t, now, ans) in ph["calls"]:
                if g >= 0 and (t < 0 or t > g - (now - base)):
                    return ("late", "epoll_pwait was given %d ms after %d of %d ms had elapsed" % (t, now - base, g))
            quiet = not any(a.startswith("e") or a.startswith("f") for _, _, a in ph["calls"])
            if g > 0 and ph["blocked"] is not None and ph["blocked"] < g and quiet and not r["async"]:
                early = "uv__io_poll(%d) returned after %d ms without events (calls %s)" % (
                    g, ph["blocked"], ",".join("%d@%d" % (t, n - base) for t, n, _ in ph["calls"]))
        if r["fired"]:
            at, now = r["fired"]
            if at > due:
                return ("late", "the %d ms timer fired at %d ms on the virtual clock" % (due, at))
            if now != at:
                return ("late", "uv_now() was %d when the timer fired at %d" % (now, at))
    if early:
        return ("early", early + (": uv_run(UV_RUN_ONCE) returned before the timer was due" if case.startswith("once") else ""))
    return None


def poll_model_cases(case, line):
    """one model case per uv__io_poll call of the implementation's trace + the impl line to compare"""
    metrics = case.split()[1]
    due, runs = poll_parse(line)
    out = []
    for r in runs:
        for ph in r["phases"]:
            if ph["hung"] or not ph["calls"] or ph["blocked"] is None:
                continue
            base = ph["calls"][0][1]
            answers = ",".join(a for _, _, a in ph["calls"])
            impl = "P%d calls=%s Q%d" % (ph["given"], ",".join("w%d@%d" % (t, n - base) for t, n, _ in ph["calls"]), ph["blocked"])
            out.append(("io_poll %s %d ; - ; %s" % (metrics, ph["given"], answers or "-"), impl))
    return out


_reported = set()


def report(chk, key, text, replay):
    kk = replay.get("known_key")
    f = chk.match_known(kk) if kk else None
    if f is not None:
        chk.known_hit(f)
        f.setdefault("example", replay)
        return
    if kk:
        # a documented defect that is not listed in known_findings.json: one report per key
        if kk in _reported:
            return
        _reported.add(kk)
        chk.violation("unlisted finding %s: %s" % (kk, KNOWN_TEXT.get(kk) or text), replay)
        return
    chk.violation("%s: %s" % (key, text), replay)


def main():
    chk = vf.Check("C16")
    thorough = chk.tier == "thorough"
    chk.prove()
    try:
        lib = vf.build_libuv(chk.scratch, "asan")
        exe = vf.cc_harness(chk.scratch, "c16_faults", ["c16_faults.c"], lib=lib, flavour="asan",
                            wraps=WRAPS, extra=["-no-pie"])
        hpoll = vf.cc_harness(chk.scratch, "c16_poll", ["c16_poll.c"], lib=lib, flavour="asan",
                              wraps=["clock_gettime", "epoll_pwait", "uv__io_poll"])
        model = vf.model_bin("C16")
    except vf.BuildError as e:
        chk.violation("build failed: %s" % str(e)[:300], {"kind": "build", "log": str(e)}, found_input=False)
        chk.finish(rule="build failed")
    wdir = os.path.join(chk.scratch.dir, "w")
    os.makedirs(wdir, exist_ok=True)
    env = dict(os.environ)
    env.update({"C16_DIR": wdir, "ASAN_OPTIONS": "exitcode=98:detect_leaks=1:abort_on_error=0:handle_abort=0",
                "UBSAN_OPTIONS": "print_stacktrace=1", "HOME": os.environ.get("HOME", "/root")})
    resolver = Resolver(exe)
    def run(cases):
        """round-robin over JOBS forking servers (slow cases are spread evenly)"""
        import concurrent.futures
        n = max(1, min(vf.JOBS, len(cases)))
        parts = [cases[i::n] for i in range(n)]
        with concurrent.futures.ThreadPoolExecutor(n) as ex:
            res = list(ex.map(lambda part: vf.run_lines([exe], part, 3000, env, 1)[0], parts))
        out = [""] * len(cases)
        for i, r in enumerate(res):
            for j, line in enumerate(r):
                if i + j * n < len(cases):
                    out[i + j * n] = line
        return out

    run_once = run

    def run(cases):
        """a verdict that depends on the wall-clock watchdog (WATCHDOG, HANG) must repeat"""
        def shaky(o):
            # wall clock (watchdog, hang) or the environment (ephemeral ports exhausted by the parallel runs)
            h = o.split("|M.")[0]
            return "WATCHDOG" in h or o.startswith("HANG") or o == "" or "=EADDRINUSE" in h or "=EADDRNOTAVAIL" in h
        outs = run_once(cases)
        idx = [i for i, o in enumerate(outs) if shaky(o)]
        if idx:
            again = run_once([cases[i] for i in idx])
            for i, a in zip(idx, again):
                if not shaky(a):
                    outs[i] = a
        return outs

    if chk.replay:
        rp = json.load(open(chk.replay))
        case = rp.get("case")
        if case:
            o = run([case])
            print("replay %s\n -> %s" % (case, o[0][:3000] if o else "no output"))
        chk.finish(rule="replay")

    # ---------------- part A ----------------
    base = run(["%s seq:o" % u[0] for u in UNITS])
    cases, meta = [], []
    for (scen, name, head, pre), b in zip(UNITS, base):
        impl0 = unit_impl_line(name, b, resolver, pre)
        n = len(impl0["pts"]) if not pre else 2
        for pl in unit_plans(chk.rng, n, thorough):
            cases.append("%s seq:%s" % (scen, ",".join(pl) if pl else "o"))
            meta.append((scen, name, head, pre))
    cpath = os.path.join(vf.VERIF, "corpus", "C16", "unit.txt")
    if os.path.exists(cpath):
        byscen = {u[0]: u for u in UNITS}
        for ln in open(cpath):
            ln = ln.strip()
            if ln and not ln.startswith("#") and ln.split()[0] in byscen:
                cases.insert(0, ln)
                meta.insert(0, byscen[ln.split()[0]])
    outs = run(cases)
    mcases, impls = [], []
    for c, o, (scen, name, head, pre) in zip(cases, outs, meta):
        impl = unit_impl_line(name, o, resolver, pre)
        impls.append(impl)
        if pre:
            rd = []
            for p in parse_out(o)[2]:
                mm = re.match(r"M\.read(?::[a-z]+)?@[^=]*(?:=(\w+))?$", p)
                if mm:
                    rd.append("o" if not mm.group(1) else ("i" if mm.group(1) == "EINTR" else mm.group(1)))
            mcases.append("%s ; - ; %s" % (head, ",".join(rd) or "-"))
        else:
            mcases.append("%s ; %s ; %s" % (head, impl["allocs"], impl["syss"]))
    mouts, rc, err = vf.run_lines([model], mcases, shards=4)
    nbad = 0
    if len(mouts) != len(cases) or len(outs) != len(cases):
        chk.violation("unit correspondence: harness/model produced %d/%d lines for %d cases" %
                      (len(outs), len(mouts), len(cases)), {"kind": "correspondence"}, found_input=False)
    else:
        for c, o, impl, mc, mo, (scen, name, head, pre) in zip(cases, outs, impls, mcases, mouts, meta):
            chk.count("unit", c + "=>" + impl["rc"] + impl["events"][:80])
            diffs = unit_compare(impl, mo, pre)
            kk = "signal_global_init_aborts_on_pipe_failure" if impl["rc"] == "ABORT:signal_global_init:unpermitted" else None
            if kk:
                report(chk, kk, "", {"kind": "known", "case": c, "impl": o[:1500], "model": mo, "known_key": kk})
            if diffs:
                chk.cov["disagreements_checked"] += 1
                nbad += 1
                # does the implementation's own trace violate the property?
                reason = unit_monitor(name, c, impl)
                if nbad <= 4:
                    chk.violation("unit correspondence %s: implementation and model disagree: %s%s" %
                                  (name, "; ".join(diffs[:3]), ("; " + reason) if reason else ""),
                                  {"kind": "correspondence", "obligation": "Model/Faults.v = " + name, "case": c,
                                   "impl": o[:2000], "model_case": mc, "model": mo, "monitor": reason},
                                  found_input=reason is not None)
        chk.corr("unit: modelled entry points under sequential oracles", len(cases))
    chk.sample({"unit_case": cases[3] if len(cases) > 3 else "", "impl": outs[3][:300] if len(outs) > 3 else "",
                "model": mouts[3] if len(mouts) > 3 else ""})

    # ---------------- part C ----------------
    pcases = []
    cpath = os.path.join(vf.VERIF, "corpus", "C16", "poll.txt")
    if os.path.exists(cpath):
        pcases += [ln.strip() for ln in open(cpath) if ln.strip() and not ln.startswith("#")]
    pcases += poll_cases(chk.rng, thorough)
    penv = dict(env)
    penv["ASAN_OPTIONS"] = "detect_leaks=0:abort_on_error=0"
    pouts, prc, perr = vf.run_lines([hpoll], pcases, timeout=600, env=penv, shards=8)
    if len(pouts) != len(pcases):
        chk.violation("poll: harness produced %d lines for %d cases" % (len(pouts), len(pcases)),
                      {"kind": "harness", "log": (perr or "")[-1500:]}, found_input=False)
    else:
        mc, mi, owner = [], [], []
        nlate = 0
        for c, o in zip(pcases, pouts):
            chk.count("poll", c + "=>" + o)
            v = poll_monitor(c, o)
            if v is not None:
                nlate += 1
                if nlate <= 3:
                    chk.violation("poll: %s" % v[1], {"kind": "monitor", "obligation": "uv__io_poll timeout loop",
                                                       "case": c, "impl": o[:1500]})
            for m_case, m_impl in poll_model_cases(c, o):
                mc.append(m_case)
                mi.append(m_impl)
                owner.append((c, o))
        mo, _, _ = vf.run_lines([model], mc, shards=4)
        nb = 0
        if len(mo) != len(mc):
            chk.violation("poll: model produced %d lines for %d cases" % (len(mo), len(mc)), {"kind": "correspondence"}, found_input=False)
        else:
            for m_case, m_impl, m_out, (c, o) in zip(mc, mi, mo, owner):
                mm = m_out.split(" end=")[0]
                if vf.canon(mm) != vf.canon(m_impl):
                    nb += 1
                    chk.cov["disagreements_checked"] += 1
                    if nb <= 3:
                        v = poll_monitor(c, o)
                        chk.violation("poll correspondence: uv__io_poll and Model/Faults.v io_poll disagree: %s vs model %s%s" %
                                      (m_impl, mm, ("; " + v[1]) if v else ""),
                                      {"kind": "correspondence", "obligation": "Model/Faults.v io_poll = uv__io_poll timeout loop",
                                       "case": c, "impl": o[:1500], "model_case": m_case, "model": m_out},
                                      found_input=v is not None)
        chk.corr("poll: scripted EINTR / event / timeout answers of a blocking epoll_pwait on a virtual clock", len(pcases))
        chk.cov["poll_phases_compared_with_model"] = len(mc)
        chk.sample({"poll_case": pcases[min(20, len(pcases) - 1)], "impl": pouts[min(20, len(pouts) - 1)][:300]})

    # ---------------- part B ----------------
    refs, refpts = {}, {}
    rec = run(["%s -" % s for s in SCENARIOS] * 2)
    unstable = []
    for i, s in enumerate(SCENARIOS):
        st, ev1, p1, dg1 = parse_out(rec[i])
        st2, ev2, p2, dg2 = parse_out(rec[i + len(SCENARIOS)])
        if st != "EXIT0":
            chk.violation("scenario %s does not run fault-free: %s %s" % (s, st, dg1[:200]),
                          {"kind": "harness", "case": "%s -" % s, "impl": rec[i][:2000]}, found_input=False)
            continue
        refs[s] = ev_map(ev1)
        refpts[s] = fault_points(p1)
        r0 = monitor(s, "-", "none", refs[s], rec[i], resolver)
        if r0 is not None:
            chk.violation("scenario %s: the fault-free run itself fails the checks: %s" % (s, r0[1]),
                          {"kind": "harness", "case": "%s -" % s, "impl": rec[i][:2000]}, found_input=False)
        m2 = ev_map(ev2)
        if {k: v for k, v in m2.items()} != {k: v for k, v in refs[s].items()}:
            unstable.append(s)
    if unstable:
        chk.cov["unstable_reference_scenarios"] = unstable
    plans = []
    for s in SCENARIOS:
        if s not in refs:
            continue
        pts_ = refpts[s]
        if s.startswith("pool:") and not thorough:
            # quick tier: the faults of the start-up itself (the first uv_queue_work); the rest of these runs is scenario "work"
            pts_ = [p_ for p_ in pts_ if p_[0] == "M" and p_[4] == "queue_work"]
        for (pl, nm, kind, api) in single_plans(pts_, chk.rng, thorough, s in QUICK_SKIP_HEAVY or s.startswith("pool:")):
            plans.append((s, pl, kind, api, nm))
    # --- fault-sequence shapes beyond single faults ---------------------------------------------
    repeat_of = {}
    for s_ in refs:
        occ = collections.defaultdict(list)
        for cls, nm, idx, attr, api in refpts[s_]:
            occ[(cls, nm)].append((idx, attr, api))
        # (1) a full signal pipe: EAGAIN forced on the write() inside uv__signal_handler
        if s_ == "signal_close":
            g = [idx for idx, attr, api in occ[("M", "write")] if "g" in attr]
            for idx in g:
                plans.append((s_, "at:M.write#%d=EAGAIN!" % idx, "EAGAIN", "raise", "write"))
            if len(g) > 1:
                plans.append((s_, ";".join("at:M.write#%d=EAGAIN!" % i for i in g[:4]), "EAGAIN", "raise", "write"))
        # (2) the process at its descriptor limit from one call on (EMFILE for as long as nothing is closed)
        lim_names = ["accept4"] + (["socket", "open", "pipe2", "eventfd"] if (thorough or s_ in ("tcp_shed", "tcp_many", "pairs", "spawn", "fs_sync")) else [])
        for nm in lim_names:
            for idx, attr, api in occ[("M", nm)][:(3 if nm == "accept4" else 1)]:
                if nm == "accept4" or api != "loop_init":
                    plans.append((s_, "at:M.%s#%d=LIMIT" % (nm, idx), "EMFILE", api, nm))
        # (3) the same site failing again after k successful calls
        for nm, errs in (("accept4", ("EMFILE", "ENFILE")), ("socket", ("EMFILE",)), ("open", ("EMFILE",)),
                         ("pipe2", ("EMFILE",)), ("eventfd", ("EMFILE",))):
            o_ = [x for x in occ[("M", nm)] if x[2] != "loop_init"]
            firsts = o_[:(3 if nm == "accept4" else 1)]
            if nm != "accept4" and not (thorough or s_ in ("tcp_many", "fs_sync", "pairs", "udp", "basic")):
                continue
            for idx, attr, api in firsts:
                for k in (1, 2, 3):
                    j = idx + 1 + k
                    if nm != "accept4" and j > o_[-1][0]:
                        continue
                    for e in errs:
                        a1, a2 = "at:M.%s#%d=%s" % (nm, idx, e), "at:M.%s#%d=%s" % (nm, j, e)
                        plans.append((s_, a1 + ";" + a2, "pair", api, nm))
                        if nm == "accept4":      # elsewhere the first failure shifts which call the second index denotes
                            repeat_of[(s_, a1 + ";" + a2)] = (a1, a2)
                        for single in (a1, a2):
                            if not any(p_[0] == s_ and p_[1] == single for p_ in plans):
                                plans.append((s_, single, e, api, nm))
    cpath = os.path.join(vf.VERIF, "corpus", "C16", "cases.txt")
    if os.path.exists(cpath):
        corp = []
        for ln in open(cpath):
            ln = ln.strip()
            if ln and not ln.startswith("#") and ln.split()[0] in refs:
                sc, pl = ln.split()[:2]
                m_ = re.match(r"at:[MW]\.([a-z0-9_]+)#\d+=(\w+)", pl)
                kd = "EINTR" if (m_ and m_.group(2).startswith("I")) else (m_.group(2) if m_ else "none")
                corp.append((sc, pl, kd, "corpus", m_.group(1) if m_ else ""))
        have = set((a, b) for a, b, _, _, _ in plans)
        plans = [c_ for c_ in corp if (c_[0], c_[1]) not in have] + plans
    if thorough:
        # pairs for the small scenarios
        for s in ("loop", "basic", "pairs", "signal", "work", "fs_event", "fs_poll", "spawn", "udp", "ipc", "dns"):
            if s not in refs:
                continue
            sp = single_plans(refpts[s], chk.rng, False, True)
            pr = [(a, b) for i, a in enumerate(sp) for b in sp[i + 1:] if a[0] != b[0]]
            for a, b in chk.rng.sample(pr, min(len(pr), 1500)):
                plans.append((s, a[0] + ";" + b[0], "EINTR" if a[2] == b[2] == "EINTR" else "pair", a[3], a[1]))
    cases = ["%s %s" % (s, pl) for s, pl, _, _, _ in plans]
    outs = run(cases)
    # EINTR storms (3, 50) where a single EINTR was absorbed by a retry loop (otherwise a storm on a
    # call that is not retried is just many independent faults)
    storm = []
    for (s, pl, kind, api, nm), o in zip(plans, outs):
        if kind == "EINTR" and pl.endswith("=I1") and ";" not in pl and o.startswith("EXIT0") and " fired=1 " in o:
            st_, ev_, _, _ = parse_out(o)
            if not any(t.endswith("=EINTR") for t in ev_):
                for k in (3, 50):
                    storm.append((s, pl[:-1] + str(k), "EINTR", api, nm))
    plans += storm
    souts = run(["%s %s" % (s, pl) for s, pl, _, _, _ in storm])
    cases += ["%s %s" % (s, pl) for s, pl, _, _, _ in storm]
    outs += souts
    # the same system-call faults with an allocator whose free() modifies errno: the code that is reported must not change
    clob_scen = None if thorough else {"fs_sync", "fs_async", "sysinfo", "os", "spawn", "fs_event", "fs_poll", "dns", "pipe", "udp", "ipc"}
    clob = [(i_, p_) for i_, p_ in enumerate(plans)
            if ";" not in p_[1] and p_[4] not in ALLOCS and p_[2] not in ("EINTR", "pair") and "!" not in p_[1] and "LIMIT" not in p_[1]
            and (clob_scen is None or p_[0] in clob_scen)]
    couts = run(["%s clobber;%s" % (p_[0], p_[1]) for _, p_ in clob])
    clob_bad = []
    for (i_, p_), co in zip(clob, couts):
        plain = outs[i_]
        if not (co.startswith("EXIT0") and plain.startswith("EXIT0")):
            if co.split("|")[0] != plain.split("|")[0]:
                clob_bad.append((p_, "status %s instead of %s" % (co.split("|")[0], plain.split("|")[0]), co))
            continue
        m1, m2 = ev_map(parse_out(plain)[1]), ev_map(parse_out(co)[1])
        for k_, vs_ in m2.items():
            for j_, v_ in enumerate(vs_):
                pv = m1.get(k_, [])
                if v_.split("!")[0] == "EBADF" and (j_ >= len(pv) or pv[j_].split("!")[0] != "EBADF"):
                    clob_bad.append((p_, "%s=EBADF where the same fault with a well-behaved free() gives %s" % (k_, pv[j_] if j_ < len(pv) else "nothing"), co))
    for p_, why, co in clob_bad[:3]:
        chk.violation("errno clobbered by the allocator's free(): %s %s: the injected %s is reported as something else (%s)" %
                      (p_[0], p_[1], p_[2], why),
                      {"kind": "monitor", "case": "%s clobber;%s" % (p_[0], p_[1]), "impl": co[:2000]})
    chk.corr("enumeration again with an errno-clobbering free()", len(clob))
    if os.environ.get("C16_DUMP"):
        with open(os.environ["C16_DUMP"], "w") as f:
            for s_ in SCENARIOS:
                if s_ in refs:
                    f.write("REF %s %s\n" % (s_, json.dumps(refs[s_])))
            for c_, o_ in zip(cases, outs):
                f.write("%s => %s\n" % (c_, o_))
    stats = collections.Counter()
    byapi = collections.Counter()
    findings = collections.OrderedDict()
    if len(outs) != len(cases):
        chk.violation("enumeration: harness produced %d lines for %d cases" % (len(outs), len(cases)),
                      {"kind": "harness"}, found_input=False)
        outs = outs + ["HARNESS||||"] * (len(cases) - len(outs))
    rerun = []
    for (s, pl, kind, api, nm), c, o in zip(plans, cases, outs):
        if o.startswith("HANG"):
            rerun.append((s, pl, kind, api, nm, c))
    if rerun:
        again = run([r[5] for r in rerun])
        redo = {r[5]: a for r, a in zip(rerun, again)}
    else:
        redo = {}
    for (s, pl, kind, api, nm), c, o in zip(plans, cases, outs):
        if c in redo:
            if not redo[c].startswith("HANG"):
                o = redo[c]
        chk.count("enum", c + "=>" + o.split("|")[1][:400] if "|" in o else o[:100])
        fired = " fired=0" not in o
        stats["runs"] += 1
        stats["fired" if fired else "not_reached"] += 1
        stats["kind:" + kind] += 1
        byapi[api] += 1
        v = monitor(s, pl, kind, refs[s], o, resolver)
        if v is None:
            stats["ok"] += 1
            if fired and o.split("|")[1].split(" alive=")[0] == " ".join("%s=%s" % (k, x) for k, vs in refs[s].items() for x in vs).split(" alive=")[0]:
                stats["transparent"] += 1
            continue
        key, text = v
        if key.startswith("PERMITTED:"):
            stats["permitted_abort:" + key[10:]] += 1
            continue
        kk = classify_known(s, pl, key, text, o)
        fkey = kk or ("%s:%s" % (key, api))
        findings.setdefault(fkey, []).append((c, key, text, o))
    # a fault repeated at the same site must be handled like each of its occurrences alone: no error value
    # that neither single-fault run (nor the fault-free run) shows
    by_case = {c_: o_ for c_, o_ in zip(cases, outs)}

    def errvals_of(sc, out):
        st_, ev_, _, _ = parse_out(out)
        vals = set()
        for k_, vs_ in ev_map(ev_).items():
            for i_, v_ in enumerate(vs_):
                v_ = v_.split("!")[0]
                if ERRLIKE.match(v_) and v_ not in refs[sc].get(k_, []):
                    vals.add((k_, v_))
        return vals
    for (sc, pl), (a1, a2) in repeat_of.items():
        o_r, o_1, o_2 = by_case.get("%s %s" % (sc, pl)), by_case.get("%s %s" % (sc, a1)), by_case.get("%s %s" % (sc, a2))
        if not (o_r and o_1 and o_2) or not (o_r.startswith("EXIT0") and o_1.startswith("EXIT0") and o_2.startswith("EXIT0")):
            continue
        if " fired=2 " not in o_r:
            continue
        new = errvals_of(sc, o_r) - errvals_of(sc, o_1) - errvals_of(sc, o_2)
        stats["repeat_checked"] += 1
        if new:
            k_, v_ = sorted(new)[0]
            findings.setdefault("repeat_handled_differently:%s" % pl.split("#")[0], []).append(
                ("%s %s" % (sc, pl), "repeat", "the second failure at the same site is handled differently from the first: %s=%s appears, "
                 "which neither failure alone (%s / %s) produces" % (k_, v_, a1, a2), o_r))
    for fkey, lst in findings.items():
        c, key, text, o = lst[0]
        stats["finding:" + fkey] = len(lst)
        report(chk, key, text + " (%d runs)" % len(lst),
               {"kind": "monitor", "case": c, "impl": o[:3000], "known_key": fkey if fkey in KNOWN_TEXT else None,
                "all_cases": [x[0] for x in lst[:40]]})
    chk.corr("enumeration: single faults / EINTR storms%s on %d scenarios" % (" / pairs" if thorough else "", len(refs)), len(cases))
    chk.cov["enumeration"] = dict(stats)
    chk.cov["fault_points_by_api"] = dict(byapi.most_common(60))
    chk.cov["scenarios"] = list(refs)
    chk.cov["covered_by_enumeration_only"] = NOT_MODELLED
    chk.sample({"enum_case": cases[0] if cases else "", "impl": outs[0][:300] if outs else ""})
    chk.finish(
        level="proof",
        rule="unit: every sequential oracle with one fault at each position (ENOMEM/EMFILE/EAGAIN/EINTR, EINTR runs of "
             "2,3,20), sampled pairs and random oracles, result + ledger delta + point sequence compared with the "
             "extracted model; enumeration: per scenario every allocation / wrapped system call occurrence of the "
             "fault-free run failing once with each errno it can return, EINTR storms of 1,3,50 (long runs of one "
             "point sampled in the quick tier), pairs in the thorough tier; a case is non-trivial when its "
             "(case, trace) pair is distinct",
        trusted=["Coq 8.16.1 kernel (coqc)", "ExtrOcamlBasic extraction + OCaml 4.13.1 + zarith glue (ocaml/zutil.ml, drv_c16.ml)",
                 "harness/c16_fault.h, c16_faults.c, c16_scenarios.h, checks/c16.py (applicability table APPL, monitor)",
                 "gcc 12 -fsanitize=address,undefined, LeakSanitizer, addr2line", "Linux kernel of the sandbox"],
        explanation="memory corruption is ASan's verdict; leaks are the harness allocator's ledger and LSan; descriptor leaks "
                    "are /proc/self/fd against the baseline after uv_library_shutdown()")


if __name__ == "__main__":
    main()
