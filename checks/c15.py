#!/usr/bin/env python3
"""C15 descriptor hygiene: proofs (Properties_C15.v) + correspondence of Model/FdLedger.v with
the descriptor-creating and -closing calls of the freshly built libuv (harness/c15_fd.c:
--wrap of every descriptor-creating libc entry libuv imports, close via syscall, table scans),
with EMFILE/ENFILE/ENOMEM injected at every creation index of every scenario."""
import os, re, sys
sys.path.insert(0, os.path.join(os.path.dirname(os.path.abspath(__file__)), "..", "lib"))
import vf

WRAPS = ("socket socketpair accept4 pipe2 eventfd epoll_create1 open64 dup2 dup3 fcntl64 "
         "inotify_init1 recvmsg syscall fclose closedir mkstemp64 pthread_mutex_init "
         "pthread_rwlock_init").split()
# descriptor-creating entry points libuv may import; anything in this list that shows up in
# `nm -u libuv.a` must be wrapped (checked on every run)
CREATORS = set("socket socketpair accept accept4 pipe pipe2 eventfd epoll_create epoll_create1 open "
               "open64 openat openat64 creat creat64 dup dup2 dup3 inotify_init inotify_init1 "
               "recvmsg mkstemp mkstemp64 mkostemp mkostemp64 signalfd timerfd_create memfd_create "
               "fcntl fcntl64 syscall kqueue socket pidfd_open".split())
PAIR = ("pipe2", "socketpair")

# ---------------------------------------------------------------------------
# scenarios (script language of harness/c15_fd.c)
# ---------------------------------------------------------------------------
SCENARIOS = {
    "loop": "Li Lc",
    "loop_twice": "Li Lc Li Lc",
    "loop_nofd1": "N1 Li Li Lc", "loop_nofd2": "N2 Li Li Lc",
    "loop_nofd3": "N3 Li Li Lc", "loop_nofd4": "N4 Li Li Lc",
    "loop_busy": "Li ai0 Lc X0 R Lc",
    "tcp_accept": "Li ti0:4 tb0 tl0 ti1:0 tc1:0 R ti2:0 A0:2 X0 X1 X2 R Lc",
    "tcp_lazy": "Li ti0:0 tl0 ti1:0 tb1 ti2:0 tc2:x R X0 X1 X2 R Lc",
    "tcp_fail": "Li ti0:4 tb0:x ti1:6 tc1:x R X0 X1 R Lc",
    "tcp_accept_busy": "Li ti0:4 tb0 tl0 ti1:4 tc1:0 R ti2:4 A0:2 X0 X1 X2 R Lc",
    "tcp_unaccepted": "Li ti0:4 tb0 tl0 ti1:0 tc1:0 R X0 X1 R Lc",
    "tcp_open": "Li ti0:0 to0:ns X0 R Lc",
    # uv_*_open: the descriptor belongs to the handle only if the call returned 0.  Failing opens:
    # remembered TCP_NODELAY / keepalive that cannot be applied (AF_UNIX socket, pipe), descriptors of the
    # wrong kind, closed numbers, a descriptor another handle of the loop watches (UV_EEXIST); the caller's
    # descriptor must still be open and the same file after uv_close(handle) and a loop run
    "open_fail_nodelay": "Li ti0:0 tn0 to0:nx X0 R Lc",
    "open_fail_keepalive": "Li ti0:0 tk0 to0:nx go3 X0 R gc3 Lc",
    "open_fail_pipefd": "Li ti0:0 tn0 to0:np ti1:0 to1:np X0 X1 R Lc",
    "open_ok_unix": "Li ti0:0 to0:nx pi1:0 po1:nx X0 X1 R Lc",
    "open_wrong_kind": "Li ui0:0 uo0:np pi1:0 po1:f77 ti2:0 to2:f78 ui3:0 uo3:nx X0 X1 X2 X3 R Lc",
    "open_eexist": "Li ti0:4 tb0 tl0 ti1:0 to1:w0 pi2:0 po2:w0 ui3:0 uo3:w0 X1 X2 X3 R X0 R Lc",
    # a pipe server's connection uv_accept()ed into a tcp handle whose remembered TCP_NODELAY cannot be
    # applied: uv_accept fails and closes the connection; the caller then opens a file (same number) and
    # only afterwards closes the client handle
    "accept_fail_nodelay": "Li pi0:0 pb0 pl0 pi1:0 pc1:0 R ti2:0 tn2 A0:2 go5 X2 R gc5 X0 X1 R Lc",
    "accept_fail_keepalive": "Li pi0:0 pb0 pl0 pi1:0 pc1:0 R ti2:0 tk2 A0:2 gm5 X2 R gu5 X0 X1 R Lc",
    "pipe_accept": "Li pi0:0 pb0 pl0 pi1:0 pc1:0 R pi2:0 A0:2 X0 X1 X2 R Lc",
    "pipe_fail": "Li pi0:0 pb0:x pi1:0 pc1:x R pb1 X0 X1 R Lc",
    "pipe_stdio": "Li pi0:0 po0:f0 pi1:0 po1:f1 pi2:0 po2:f2 X0 X1 X2 R Lc",
    "pipe_pair": "Li gp0:1 pi0:0 po0:g0 pi1:0 po1:g1 X0 X1 R Lc",
    "pair_user": "gp0:1 gs2:3 gu0 gc1 gu2 gc3",
    "udp": "Li ui0:4 ub0 ui1:0 ub1 ui2:0 uc2 ui3:0 us3 ui4:6 X0 X1 X2 X3 X4 R Lc",
    "udp_fail": "Li ui0:0 ub0:x X0 R Lc",
    "udp_open": "Li ui0:0 uo0:nu X0 R Lc",
    "poll": "Li oi0:np os0 oi1:f0 X0 X1 R Lc",
    "misc_handles": "Li ai0 si1 ss1 mi2 ms2 ii3 is3 fi4 fs4 R X0 X1 X2 X3 X4 R Lc",
    "fs_event": "Li ei0 es0 ei1 es1 X0 X1 R Lc",
    "fs_files": "Li go0 gx1 gm2 gc0 gc2 Lc",
    "fs_noloop": "go0 gm1 gu0 gc1",
    "temp_files": "Li tm tf Lc",
    "spawn": "Li pi0:0 pi1:0 sp2:p0,p1,h:ok R X0 X1 X2 R Lc",
    "spawn_enoent": "Li pi0:0 sp1:i,p0,h:ne X0 X1 R Lc",
    "spawn_plain": "Li sp0:i,i,i:ok R X0 R Lc",
    "spawn_hold": "Li ti0:4 ui1:4 go0 gp1:2 ei3 es3 sp4:h,h,h:ok R X0 X1 X3 X4 R gc0 gu1 gu2 Lc",
    "ipc_pass": "Li gs0:1 pi0:1 po0:g0 pi1:1 po1:g1 ti2:4 w20:2 rs1:1 R ti3:0 A1:3 X0 X1 X2 X3 R Lc",
    "ipc_unclaimed": "Li gs0:1 pi0:1 po0:g0 pi1:1 po1:g1 ti2:4 ui4:4 w20:2 rs1:1 R X0 X1 X2 X4 R Lc",
    "sqpoll": "Li Lq Lz R Lc",
    # asynchronous uv_fs_open on an SQPOLL loop (UV_USE_IO_URING=1): the kernel opens the file from an SQE
    # (uv__iou_fs_open sets O_CLOEXEC in the SQE, linux.c:974); FD_CLOEXEC is read in the callback, the
    # table scan sees the descriptor appear, a spawned helper reports what it inherited
    "ring_open": "Li Lq Lz R ga0:c R ga1:p R ga2:d R ga3:P R sp4:i,i,i:ok R X4 R gc0 gc1 gc2 gc3 Lc",
    "ring_open_first": "Li Lq ga0:c R sp1:h0,h1,h2:ok R X1 R gu0 Lc",
    # the same requests on a loop without the ring: thread-pool route through open()
    "pool_open_async": "Li ga0:c R ga1:d R ga2:P R sp3:i,i,i:ok R X3 R gc0 gc1 gc2 Lc",
    # regression case of /repo c6159bf: uv_close of a uv_udp_t wrapping descriptor 0 must not close it
    "udp_stdio": "D0 Li ui0:0 uo0:f0 X0 R Lc",
    # child-side descriptor shuffling of uv__process_child_init: swap, 2>&1, slots fed from lower
    # descriptors (temporary F_DUPFD_CLOEXEC copies), stdio_count 5..9; the child reports what it holds
    "spawn_swap": "Li sp0:h1,h0,h2:ok R X0 R Lc",
    "spawn_2to1": "Li sp0:h0,h1,h1:ok R X0 R Lc",
    "spawn_low5": "Li sp0:h0,h1,h2,i,h1:ok R X0 R Lc",
    "spawn_low7": "Li pi0:0 sp1:h2,p0,h0,h1,i,h2,h0:ok R X0 X1 R Lc",
    "spawn_low9": "Li sp0:h0,h1,h2,h0,h1,h2,i,i,h0:ok R X0 R Lc",
    # mixed stdio containers; uv_spawn fails during stdio setup - by UV_EINVAL (CREATE_PIPE with a handle
    # that is not a pipe, t<k>) or, through the fault generator, at each socketpair/pipe2 - after
    # UV_INHERIT_STREAM (s<k>) / UV_INHERIT_FD entries: their descriptors are not uv_spawn's to close
    "spawn_mixed_einval": "Li ti0:4 pi1:0 sp2:s0,p1,t0:ok X0 X1 X2 R Lc",
    "spawn_mixed_einval2": "Li gp0:1 pi0:0 po0:g0 ti1:4 pi2:0 sp3:h2,s0,s1,p2,i,t1:ok go5 X0 X1 X2 X3 R gc5 gu1 Lc",
    "spawn_mixed_ok": "Li ti0:4 pi1:0 pi2:0 sp3:s0,h1,p1,i,p2,s0:ok R X0 X1 X2 X3 R Lc",
    "spawn_mixed_pipe_stream": "Li gs0:1 pi0:0 po0:g0 pi1:0 pi2:0 sp3:p1,s0,h2,p2:ok R X0 X1 X2 X3 R gu1 Lc",
    # several descriptors in one SCM_RIGHTS message, without and with an allocation failure in
    # uv__stream_queue_fd (first uv__malloc of the queue / the uv__realloc that grows it)
    "ipc_raw4": "Li gs0:1 pi1:1 po1:g1 gw0:4 rs1:1 R X1 R gu0 Lc",
    "ipc_raw4_oom": "Li gs0:1 pi1:1 po1:g1 gw0:4 rs1:1 O1 R X1 R gu0 Lc",
    "ipc_raw3_claim_oom": "Li gs0:1 pi1:1 po1:g1 gw0:3 rs1:1 O1 R ti2:0 A1:2 X1 X2 R gu0 Lc",
    "ipc_raw11": "Li gs0:1 pi1:1 po1:g1 gw0:11 rs1:1 R ti2:0 A1:2 ti3:0 A1:3 X1 X2 X3 R gu0 Lc",
    "ipc_raw11_oom_grow": "Li gs0:1 pi1:1 po1:g1 gw0:11 rs1:1 O2 R X1 R gu0 Lc",
    # uv__stream_open fails for the second stdio container (its pipe handle is already open):
    # regression case of /repo 4ad4719 (double close)
    "spawn_busy_stream": "Li gp0:1 pi0:0 pi1:0 po1:g0 sp2:p0,p1,h:ok R X0 X1 X2 R gu1 Lc",
    "iou_lazy_off": "Li Lz R Lc",
}
EXTRA = {}


def random_scenarios(rng, n):
    """Independent blocks in random order, random handle slots."""
    blocks = [
        lambda a, b, c: "ti%d:4 tb%d tl%d ti%d:0 tc%d:%d R ti%d:0 A%d:%d X%d X%d X%d R" % (a, a, a, b, b, a, c, a, c, a, b, c),
        lambda a, b, c: "pi%d:0 pb%d pl%d pi%d:0 pc%d:%d R X%d X%d R" % (a, a, a, b, b, a, a, b),
        lambda a, b, c: "ui%d:4 ub%d ui%d:0 us%d X%d X%d R" % (a, a, b, b, a, b),
        lambda a, b, c: "ei%d es%d X%d R" % (a, a, a),
        lambda a, b, c: "ti%d:6 ti%d:0 tb%d:x X%d X%d R" % (a, b, b, a, b),
        lambda a, b, c: "pi%d:0 pi%d:0 sp%d:p%d,p%d,h:%s R X%d X%d X%d R" % (a, b, c, a, b, rng.choice(["ok", "ne"]), a, b, c),
        lambda a, b, c: "go%d gm%d gc%d gu%d" % (a, b, a, b),
        lambda a, b, c: "gs%d:%d pi%d:0 po%d:g%d gu%d X%d R" % (a, b, c, c, a, b, c),
        lambda a, b, c: "ai%d si%d ss%d X%d X%d R" % (a, b, b, a, b),
        lambda a, b, c: "tm",
    ]
    out = []
    for i in range(n):
        toks = ["Li"]
        for j in range(rng.randint(2, 4)):
            blk = rng.choice(blocks)
            toks.append(blk(3 * j, 3 * j + 1, 3 * j + 2))
        toks.append("Lc")
        if rng.random() < 0.3:
            toks += ["Li", "Lc"]
        out.append(("rnd%d" % i, " ".join(toks)))
    return out


# ---------------------------------------------------------------------------
# harness line -> structure
# ---------------------------------------------------------------------------
def parse_impl(line):
    """-> (initial [(fd,cx)], ops [(events, optoken, rc)], final [(fd,cx)], ncreate) or None"""
    toks = line.split()
    if not toks or not toks[0].startswith("I"):
        return None
    init = [tuple(int(x) for x in t.split(":")) for t in toks[0][1:].split(",") if t]
    ops, cur, final = [], None, None
    for t in toks[1:]:
        if t == "{":
            cur = []
        elif t.startswith("}"):
            body = t[1:]
            op, _, rc = body.rpartition("=")
            ops.append((cur or [], op, rc))
            cur = None
        elif t.startswith("T") and cur is None:
            final = [tuple(int(x) for x in u.split(":")) for u in t[1:].split(",") if u]
        elif cur is not None:
            cur.append(t)
        else:
            return None
    if final is None:
        return None
    return init, ops, final


def attempts(events):
    """creation attempts in order: (kind, cx, [fds] or None, failclass)"""
    out, i = [], 0
    while i < len(events):
        t = events[i]
        if t[0] == "+":
            kind, rest = t[1:].split(".", 1)
            cx, fd = rest.split("=")
            fd = fd.split("/")[0]
            fds = [int(fd)]
            if kind in PAIR and i + 1 < len(events) and events[i + 1].startswith("+" + kind + "."):
                fds.append(int(events[i + 1].split("=")[1].split("/")[0]))
                i += 1
            out.append((kind, int(cx), fds, None))
        elif t[0] == "-" and len(t) > 1:
            kind, cx, cls = t[1:].split(".")
            out.append((kind, int(cx), None, cls))
        i += 1
    return out


def rc_class(op, rc):
    if rc == "skip":
        return None
    try:
        v = int(rc)
    except ValueError:
        return "r?"
    if v == 0:
        return "r0"
    if op == "Lc" and v == -16:
        return "r2"
    return "r1"


def model_input(parsed, fixed=1):
    """The model's program and oracle, from what the harness did and what the kernel answered."""
    init, ops, final = parsed
    mops, pseudo, orc = [], [], []
    for events, op, rc in ops:
        for kind, cx, fds, cls in attempts(events):
            orc.append("a" if fds is not None else cls)
        if op == "DIED":
            continue
        if op == "-" or rc == "skip":
            # operations without a model counterpart must not touch descriptors;
            # temp-file readers (uv_cpu_info) are sequences of open/close
            n = sum(1 for k in attempts(events) if k[0] == "open")
            for _ in range(n):
                mops.append("sl"); pseudo.append(True)
            continue
        for t in events:
            if re.match(r"^Z[01]$", t):      # the first uv_fs_* request of the loop: lazy SQPOLL ring
                mops.append("Lz:" + t[1]); pseudo.append(True)
        if op == "ru":
            i = 0
            while i < len(events):
                t = events[i]
                if t[0] == "K":
                    h = t[1:]
                    # one uv__server_io: a single accept, or the EMFILE trick's accept loop
                    j, acc = i + 1, []
                    while j < len(events):
                        u = events[j]
                        if u.startswith("+accept") or u.startswith("-accept"):
                            acc.append(u)
                            if len(acc) == 1 and not u.endswith(".e"):
                                j += 1
                                break
                            if len(acc) > 1 and u[0] == "-":
                                j += 1
                                break
                        elif u[0] == "K" and u[1:] != h:
                            break
                        j += 1
                    mops.append("sv:%s:%d" % (h, len(acc) + 2)); pseudo.append(True)
                    i = j
                    continue
                if t[0] == "M":
                    h, n, j = t[1:], 0, i + 1
                    while j < len(events) and events[j].startswith("+cmsg"):
                        n += 1; j += 1
                    # descriptors closed at once: uv__stream_queue_fd could not allocate (recorded answer)
                    drop, k2 = 0, j
                    while k2 < len(events) and (events[k2] == "Q" or re.match(r"^x\d+$", events[k2])):
                        drop += events[k2] != "Q"; k2 += 1
                    mops.append("rf:%s:%d:%d" % (h, n, n - min(drop, n))); pseudo.append(True)
                    i = j
                    continue
                i += 1
        mops.append(op); pseudo.append(False)
    fds = ",".join("%d:%d" % (fd, cx) for fd, cx in init)
    return "%d ; %s ; %s ; %s" % (fixed, fds, " ".join(mops), "".join(orc)), pseudo


class Renamer:
    def __init__(self):
        self.map, self.n = {}, 0

    def create(self, fd):
        self.n += 1
        self.map[fd] = "#%d" % self.n
        return self.map[fd]

    def use(self, fd):
        return self.map.get(fd, "u%d" % fd)

    def close(self, fd):
        return self.map.pop(fd, "u%d" % fd)


def canon_events(events, rn):
    out, closes = [], []

    def flush():
        if closes:
            out.extend(sorted(closes)); closes.clear()
    for t in events:
        m = re.match(r"^(x|xbad|xforeign|xlost|cbad|c)(\d+)$", t)
        if m:
            # whose descriptor was closed is the monitor's business; the model predicts *that* it is closed
            kind = "x" if m.group(1) == "xforeign" else m.group(1)
            closes.append(kind + rn.close(int(m.group(2))))
            continue
        if t[0] in "KMCQZ" or re.match(r"^[ka]\d+$", t):
            continue
        flush()
        if t[0] == "+":
            kind, rest = t[1:].split(".", 1)
            cx, fd = rest.split("=")
            fd = fd.split("/")[0]
            if kind in ("late", "mkstemp"):
                kind = "mkostemp"
            out.append("+%s.%s=%s" % (kind, cx, rn.create(int(fd))))
        else:
            out.append(t)
    flush()
    return out


def canon_impl(parsed):
    init, ops, final = parsed
    rn, out, carry = Renamer(), [], []
    for events, op, rc in ops:
        ev = canon_events(events, rn)
        if op == "-" or rc == "skip":
            carry += ev          # no model operation of its own: belongs to the next one
            continue
        cls = rc_class(op, rc)
        out.append(" ".join(carry + ev + [cls]) + " |")
        carry = []
    if carry:
        out.append(" ".join(carry) + " |")
    out.append("T " + " ".join("%s:%d" % (rn.use(fd), cx) for fd, cx in final))
    return " ".join(out)


def canon_model(line, pseudo):
    toks = line.split()
    if not toks or toks[0] == "MODEL-ERROR" or "T" not in toks:
        return "MODEL: " + line[:200]
    ti = toks.index("T")
    rn, out, cur, k = Renamer(), [], [], 0
    for t in toks[:ti]:
        if re.match(r"^r\d+$", t):
            if k < len(pseudo) and pseudo[k]:
                k += 1          # events of kernel-driven steps belong to the enclosing call
                continue
            k += 1
            ev = canon_events(cur, rn)
            out.append(" ".join(ev + [t]) + " |")
            cur = []
        else:
            cur.append(t)
    if cur:
        out.append(" ".join(canon_events(cur, rn)) + " |")
    tab = []
    for t in toks[ti + 1:]:
        fd, cls, cx = t.split(":")
        tab.append("%s:%s" % (rn.use(int(fd)), cx))
    out.append("T " + " ".join(tab))
    return " ".join(out)


# ---------------------------------------------------------------------------
# monitor: the property itself, on the implementation's own log
# ---------------------------------------------------------------------------
def monitor_line(line):
    if line.startswith("CRASH"):
        return "worker died (%s)" % line
    p = parse_impl(line)
    if p is None:
        return "unparsable harness output"
    init, ops, final = p
    made = {}            # fd -> (kind, op index, op, rc) of libuv-created descriptors still open
    user = set(fd for fd, _ in init)
    given_open = set()
    lockpipe = None
    last_close_ok = None
    known = None
    htype = {}
    for idx, (events, op, rc) in enumerate(ops):
        for kind, cx, fds, cls in attempts(events):
            if fds is not None and cx != 1:
                return "descriptor %s created by %s without close-on-exec (in %s)" % (fds, kind, op)
        for t in events:
            if t.startswith("!died"):
                sig, _, step = t[5:].partition(":")
                what = {"6": "abort()", "11": "segmentation fault", "14": "no progress for 60 s"}.get(sig, "signal " + sig)
                done = [o for _, o, _ in ops[:idx] if o not in ("-", "DIED")]
                return "libuv terminated the process (%s) inside script step '%s', after %s" % \
                    (what, step, " ".join(done[-6:]) or "nothing")
            if t.startswith("!stolen"):
                return "uv_spawn closed descriptor %s, which was only passed to it with UV_INHERIT_FD/" \
                       "UV_INHERIT_STREAM (in %s)" % (t[7:], op)
            if t.startswith("!changed"):
                return "descriptor %s refers to a different file after %s (closed behind its owner's back " \
                       "and the number reused)" % (t[8:], op)
            if t.startswith("!nocx"):
                return "descriptor %s created by libuv is open without FD_CLOEXEC when %s returns" % (t[5:], op)
            if t.startswith("!"):
                return "harness anomaly %s in %s" % (t, op)
            if t.startswith("xforeign"):
                return "libuv closed descriptor %s which it does not own (in %s)" % (t[8:], op)
            if t.startswith("cbad"):
                return "the caller's descriptor %s was already closed when the caller closed it (in %s)" % (t[4:], op)
            if t.startswith("xbad"):
                return "libuv closed descriptor number %s which is not open (double close, in %s)" % (t[4:], op)
            if t.startswith("xlost"):
                return "descriptor %s disappeared without a close (in %s)" % (t[5:], op)
            if t[0] == "C":
                got, _, want = t[1:].partition("/")
                got, want = got.split(","), want.split(",")
                if got != want:
                    return "spawned child inherited descriptors %s, expected only its stdio %s" % (got, want)
            m = re.match(r"^[xc](\d+)$", t)
            if m:
                made.pop(int(m.group(1)), None)
                given_open.discard(int(m.group(1)))
        for kind, cx, fds, cls in attempts(events):
            if fds is None:
                continue
            if cx != 1:
                return "descriptor %s created by %s without close-on-exec (in %s)" % (fds, kind, op)
            for fd in fds:
                made[fd] = (kind, idx, op, rc)
            if op.startswith("Li") and kind == "pipe2" and lockpipe is None and len(fds) == 2:
                lockpipe = tuple(fds)     # the first pipe of the first initialisation that got this far
        if op.startswith("hi:"):
            htype[op.split(":")[1]] = op.split(":")[2]
        if op.startswith("Li") and rc == "0":
            htype = {}
        if op.startswith("ua:"):
            user.add(int(op.split(":")[1]))
        if op.startswith("uf:"):
            user.discard(int(op.split(":")[1]))
        if op.startswith("op:") and rc == "0" and op.split(":")[2][0] == "f":
            fd = int(op.split(":")[2][1:])
            if fd > 2 or ("u" in op):      # ownership moved to the handle (stdio stays the caller's)
                pass
        if op.startswith("g1:") or op.startswith("g2:"):
            for kind, cx, fds, cls in attempts(events):
                for fd in fds or []:
                    given_open.add(fd)
        if op.startswith("op:") and rc == "0" and op.split(":")[2][0] == "g":
            pass
        if op == "Lc":
            last_close_ok = (rc == "0", idx)
    # table after a successful uv_loop_close as last loop operation
    if last_close_ok and last_close_ok[0] and not any(o.startswith("Li") for _, o, _ in ops[last_close_ok[1] + 1:]):
        finalset = set(fd for fd, _ in final)
        leaked = []
        for fd, (kind, idx, op, rc) in sorted(made.items()):
            if fd not in finalset:
                continue
            if lockpipe and fd in lockpipe:
                continue
            if fd in given_open:
                continue
            leaked.append((fd, kind, op, rc))
        if leaked:
            return "after uv_loop_close()==0 the process still holds %s" % \
                ", ".join("%d (%s from %s)" % (fd, k, o) for fd, k, o, r in leaked)
        # handed to a handle and closed by it: user descriptors > 2 that were adopted
        adopted = set()
        for events, op, rc in ops:
            if op.startswith("op:") and rc == "0" and op.split(":")[2][0] == "f":
                adopted.add(int(op.split(":")[2][1:]))
        for fd in user:
            if fd not in finalset and not (fd in adopted and fd > 2):
                return "descriptor %d held before uv_loop_init() is gone after uv_loop_close()" % fd
        for fd in finalset:
            if fd not in user and fd not in made:
                return "descriptor %d appeared" % fd
    return known


# ---------------------------------------------------------------------------
def main():
    chk = vf.Check("C15")
    thorough = chk.tier == "thorough"
    chk.prove()
    try:
        lib = vf.build_libuv(chk.scratch, "ndebug")
        exe = vf.cc_harness(chk.scratch, "c15_fd", ["c15_fd.c"], lib=lib, wraps=WRAPS)
        model = vf.model_bin("C15")
    except vf.BuildError as e:
        chk.violation("build failed: %s" % str(e)[:300], {"kind": "build", "log": str(e)}, found_input=False)
        chk.finish(rule="build failed")
    # every descriptor-creating import of the fresh library must be wrapped
    r = vf.sh("nm -u %s | awk '$1==\"U\"{print $2}' | sort -u" % lib, shell=True)
    imports = set(r.stdout.split())
    unwrapped = sorted((imports & CREATORS) - set(WRAPS))
    chk.cov["creating_imports"] = sorted(imports & CREATORS)
    if unwrapped:
        chk.violation("libuv imports descriptor-creating calls the harness does not wrap: %s" % unwrapped,
                      {"kind": "harness", "imports": unwrapped}, found_input=False)
    ddir = os.path.join(chk.scratch.dir, "d")
    os.makedirs(ddir, exist_ok=True)
    env = dict(os.environ, UV_USE_IO_URING="1", UV_THREADPOOL_SIZE="1")

    def run_impl(scripts):
        out, rc, err = vf.run_lines([exe, ddir], scripts, shards=vf.JOBS, env=env, timeout=900)
        return out

    if chk.replay:
        import json
        rp = json.load(open(chk.replay))
        scripts = [rp.get("case", "Li Lc")]
        named = [("replay", scripts[0])]
    else:
        named = list(SCENARIOS.items()) + random_scenarios(chk.rng, 40 if thorough else 10)
        corpus = os.path.join(vf.VERIF, "corpus", "C15", "scripts.txt")
        if os.path.exists(corpus):
            named += [("corpus%d" % i, l.strip()) for i, l in enumerate(open(corpus)) if l.strip() and l[0] != "#"]
    base = [s for _, s in named]
    base_out = run_impl(base)
    if len(base_out) != len(base):
        chk.violation("harness produced %d lines for %d scripts" % (len(base_out), len(base)),
                      {"kind": "harness", "out": base_out[-3:]}, found_input=False)
        chk.finish(rule="harness failed")
    # second round: fail the k-th creation, for every k of every scenario
    cases = list(base)
    origin = {s: n for n, s in named}
    kinds_hit = {}
    for (name, s), line in zip(named, base_out):
        p = parse_impl(line)
        if p is None:
            continue
        # index of the process-wide lock pipe: its failure is abort() (DESIGN section 3 item 23, C16)
        k, skip = 0, set()
        seen_lock = False
        for events, op, rc in p[1]:
            for kind, cx, fds, cls in attempts(events):
                if kind in ("late", "cmsg", "ringopen"):
                    continue
                k += 1
                if op.startswith("Li") and kind == "pipe2" and not seen_lock:
                    skip.add(k); seen_lock = True
                kinds_hit[kind] = kinds_hit.get(kind, 0) + 1
        errs = ["e", "n", "m"] if (thorough or name in ("loop", "tcp_accept", "spawn", "ipc_pass")) else \
            [chk.rng.choice(["e", "e", "n", "m"])]
        for i in range(1, k + 1):
            if i in skip:
                continue
            for e in errs:
                c = "F%d%s %s" % (i, e, s)
                cases.append(c)
                origin[c] = name
    impl = base_out + run_impl(cases[len(base):])
    raw = dict(zip(cases, impl))
    # The model variant is fixed: the code as it is (m_fixed = true, after /repo 9298bc0 and 4ad4719).
    # A tree in which the backend_fd leak or the spawn double close is back disagrees with it and
    # fails the monitor: a plain VIOLATION with the failing script.
    fixed = 1
    chk.cov["model_variant"] = "current code (run true)"
    minputs, pseudos, icanon = [], [], []
    for c, line in zip(cases, impl):
        p = parse_impl(line)
        if p is None:
            minputs.append(""); pseudos.append([]); icanon.append("IMPL: " + line[:200])
            continue
        mi, ps = model_input(p, fixed)
        minputs.append(mi); pseudos.append(ps); icanon.append(canon_impl(p))
    mout, rc2, err2 = vf.run_lines([model], minputs, shards=8)
    if len(mout) != len(cases):
        mout = (mout + [""] * len(cases))[:len(cases)]
    mcanon = [canon_model(l, ps) for l, ps in zip(mout, pseudos)]

    def monitor(case, _):
        return monitor_line(raw[case])
    vf.diff_cases(chk, "descriptor ledger: libuv (wrapped creations/closes, table scans) = Model/FdLedger.v",
                  cases, icanon, mcanon, monitor)
    ring = [l for (n, _), l in zip(named, base_out) if n == "ring_open"]
    chk.cov["sqpoll_ring_available"] = bool(ring) and "+ringopen" in ring[0]
    chk.cov["ring_opens_observed"] = sum(l.count("+ringopen") for l in impl)
    chk.cov["scenarios"] = len(named)
    chk.cov["fault_cases"] = len(cases) - len(base)
    chk.cov["creation_kinds_exercised"] = kinds_hit
    chk.sample({"case": cases[1], "impl": raw[cases[1]][:300], "model_input": minputs[1][:300]})
    if len(cases) > len(base):
        chk.sample({"case": cases[len(base)], "impl": raw[cases[len(base)]][:300]})

    chk.finish(
        level="proof",
        rule="every scenario (loop alone, each handle type, accept/IPC passing, spawn, files, failing calls) "
             "without faults and with EMFILE/ENFILE/ENOMEM forced at each creation index; compared: per API "
             "call the sequence of creations (kind, CLOEXEC flag in the call), the closes (which creation), "
             "return class, final table; monitor: CLOEXEC on every creation and at every return, no close of a "
             "foreign/absent descriptor, child inherits only stdio, table after uv_loop_close = table before "
             "uv_loop_init + lock pipe",
        trusted=["Coq 8.16.1 kernel (coqc)", "ExtrOcamlBasic extraction + OCaml 4.13.1 (ocaml/zutil.ml, drv_c15.ml)",
                 "harness/c15_fd.c (wrappers, table scans), checks/c15.py (script generator, translation of the "
                 "harness log into the model's program/oracle, monitor)", "gcc 12, glibc 2.36, Linux descriptor semantics"],
        explanation="partial: atomicity of close-on-exec against a concurrent fork is a kernel guarantee of the "
                    "flags the wrappers verify in the call (SOCK_CLOEXEC, O_CLOEXEC, EFD_CLOEXEC, IN_CLOEXEC, "
                    "MSG_CMSG_CLOEXEC, EPOLL_CLOEXEC), not a theorem")


if __name__ == "__main__":
    main()
