#!/usr/bin/env python3
"""C02 close protocol: proofs (Properties_C02.v) + correspondence, under AddressSanitizer, of
  * Model/CloseProto.v with the close paths of the real library for every handle kind
    (harness/c02_life.c: every handle / request is its own heap block freed in its callback),
  * Model/LoopCore.v with the real loop for timer/idle/prepare/check/async (harness/loopcore.c).

Trace vocabulary of the lifecycle harness (one token per event):
  I<t>      handle created (t: m simple, s stream, u udp, g signal, f fs_poll); ids count from 0
  B<h>,<r>  handle h acquired resource r   E<h>,<r> gave it up
            (0 descriptor, 1 accepted_fd, 3 bound socket path, 4 inotify watch, 5 epoll registration,
             6 signal disposition)
  S<h>,<r>,<k>  request r accepted on h (k: 0 connect, 1 write, 2 shutdown, 3 udp send)
  y<r>,<st>     the write/send system call finished request r (oracle: from the --wrap'ed call)
  q<r>,<st>     request callback while the handle is not closing      (input, echoed by the model)
  x<r>,<st>     request callback while the handle is closing          (predicted by the model)
  h<h>          any other callback of handle h                        (input, echoed)
  b<h>          uv__write_callbacks / uv__udp_run_completed of h starts (inserted by translate();
                the q/x tokens of write and send requests that follow are predicted by the model)
  g<h>,<n>      caught-but-undispatched signals of closing handle h at the start of the closing phase
  F<h> T<h>     uv_fs_poll_start / stop     D<h>  the pool finished a stat of h (poll_cb ran)
  C<h>          uv_close(h)        K  closing phase of this iteration        c<h>  close_cb
  L<h>,<r>      resource r of h still present at close_cb
  { }           extent of a callback (what the program did inside it)
  .x            harness-only information   !x  the harness's lifecycle monitor saw a violation
"""
import os, re, sys
sys.path.insert(0, os.path.dirname(os.path.abspath(__file__)))
sys.path.insert(0, os.path.join(os.path.dirname(os.path.abspath(__file__)), "..", "lib"))
import vf
import loopcore_common as lc

ECANCELED = -125


# --------------------------------------------------------------------------
# scenario generator
# --------------------------------------------------------------------------
class Prog:
    def __init__(self, rng):
        self.rng = rng
        self.ops = []
        self.n = 0
        self.rid = 0
        self.bind = {}
        self.kinds = []
        self.hooks = []        # binding keys expected to fire once the loop runs
        self.closable = []
        self.blocked = False

    def init(self, k):
        self.ops.append("I" + k)
        self.kinds.append(k)
        self.closable.append(self.n)
        self.n += 1
        return self.n - 1

    def req(self):
        self.rid += 1
        return self.rid

    def add(self, *o):
        self.ops += list(o)

    def on(self, key, *o):
        self.bind.setdefault(key, []).extend(o)

    def text(self):
        return " ".join(self.ops) + " ; " + " | ".join("%s=%s" % (k, " ".join(v)) for k, v in self.bind.items())


def u_simple(p, kind=None):
    rng = p.rng
    kind = kind or rng.choice("tipcaoge")
    h = p.init(kind)
    st = rng.choice(["fresh", "active", "active", "poked", "poked", "stopped"])
    if st == "fresh":
        return
    if kind == "e" and rng.random() < 0.2:
        p.add("s%d,9" % h)            # uv_fs_event_start on a missing path: fails, the handle stays usable
        if rng.random() < 0.5:
            return
    if kind == "t":
        p.add("s%d,%d" % (h, 0 if st != "active" or rng.random() < 0.5 else 1))
    elif kind == "g":
        p.add("s%d,%d" % (h, rng.choice([1, 2])))
    else:
        p.add("s%d" % h)
    if st == "poked" and kind in "oeag":
        p.add("n%d" % h)
    if st == "stopped":
        p.add("t%d" % h)
    else:
        p.hooks.append("H%d" % h)


def u_proc(p):
    rng = p.rng
    v = rng.choice(["run", "killed", "exits"])
    h = p.init("y" if v == "exits" else "x")
    p.kinds[h] = "x"
    if v == "killed":
        p.add("X%d" % h)
    if v != "run":
        p.hooks.append("H%d" % h)


def stream_traffic(p, a, b):
    """a, b: the two ends of an established connection."""
    rng = p.rng
    st = rng.choice(["idle", "reading", "writes", "writes", "writes+shutdown", "writes+shutdown",
                     "small", "small+read", "shutdown", "peer-closed"])
    if st in ("reading", "small+read"):
        p.add("s%d" % b)
        p.hooks.append("H%d" % b)
    if st in ("writes", "writes+shutdown"):
        r = p.req()
        p.add("w%d,%d,%d" % (a, r, 8192))
        p.hooks.append("Q%d" % r)
        for _ in range(rng.randint(1, 3)):
            r = p.req()
            p.add("w%d,%d,%d" % (a, r, rng.choice([1, 64])))
            p.hooks.append("Q%d" % r)
    if st in ("small", "small+read"):
        for _ in range(rng.randint(1, 3)):
            r = p.req()
            p.add("w%d,%d,1" % (a, r))
            p.hooks.append("Q%d" % r)
    if st in ("writes+shutdown", "shutdown"):
        r = p.req()
        p.add("d%d,%d" % (a, r))
        p.hooks.append("Q%d" % r)
    if st == "peer-closed":
        p.add("C%d" % b, "R2")
        r = p.req()
        p.add("w%d,%d,64" % (a, r), "R2")
        r = p.req()
        p.add("w%d,%d,64" % (a, r))
        p.hooks.append("Q%d" % r)


def u_tcp(p):
    rng = p.rng
    v = rng.choice(["pair", "pair", "pair", "pending-connect", "pending-connect-raw", "unaccepted", "fresh",
                    "listening", "close-in-connect-cb", "connect-refused", "delayed-error"])
    if v == "fresh":
        h = p.init("T")
        if rng.random() < 0.5:
            p.add("p%d" % h)          # uv_tcp_open with a closed descriptor: fails, the handle must still close
        return
    if v == "pending-connect-raw":
        c = p.init("T")
        r = p.req()
        p.add("j%d,%d" % (c, r))
        p.hooks.append("Q%d" % r)
        if rng.random() < 0.5:
            r = p.req()
            p.add("w%d,%d,8" % (c, r))
            p.hooks.append("Q%d" % r)
        if rng.random() < 0.5:
            p.add("R2")
        return
    srv = p.init("T")
    p.add("l%d" % srv)
    if v == "listening":
        return
    cli = p.init("T")
    r = p.req()
    if v == "delayed-error":
        # bind to a port in use: uv_tcp_connect defers EADDRINUSE to the next tick
        p.add("K%d,%d,%d" % (cli, srv, r))
        p.hooks.append("Q%d" % r)
        if rng.random() < 0.5:
            r2 = p.req()
            p.add("w%d,%d,8" % (cli, r2))
            p.hooks.append("Q%d" % r2)
        return
    if v == "connect-refused":
        # the listener is gone: the connect fails in the loop and cancels the writes queued behind it
        p.add("C%d" % srv, "R2", "k%d,%d,%d" % (cli, srv, r))
        p.hooks.append("Q%d" % r)
        for _ in range(rng.randint(0, 2)):
            r2 = p.req()
            p.add("w%d,%d,8" % (cli, r2))
            p.hooks.append("Q%d" % r2)
        return
    if v == "pending-connect":
        p.add("k%d,%d,%d" % (cli, srv, r))
        p.hooks.append("Q%d" % r)
        if rng.random() < 0.5:
            r2 = p.req()
            p.add("w%d,%d,8" % (cli, r2))
        return
    if v == "unaccepted":
        p.add("k%d,%d,%d" % (cli, srv, r), "R2", "R2", "R2")
        return
    acc = p.init("T")
    p.on("H%d" % srv, "a%d,%d" % (srv, acc))
    if v == "close-in-connect-cb":
        p.on("Q%d" % r, "C%d" % cli)
    p.add("k%d,%d,%d" % (cli, srv, r), "R2", "R2", "R2")
    if v == "pair":
        if rng.random() < 0.5:
            stream_traffic(p, cli, acc)
        else:
            stream_traffic(p, acc, cli)


def u_pipe(p):
    rng = p.rng
    v = rng.choice(["pair", "pair", "pair", "listen", "listen+connect", "listen+pending", "fresh", "connect-enoent",
                    "longname", "longname", "rw-event", "rw-event", "connect-no-socket", "connect-no-socket"])
    if v == "fresh":
        h = p.init("P")
        if rng.random() < 0.5:
            p.add("p%d" % h)
        return
    if v == "pair":
        a = p.init("P")
        b = p.init("P")
        p.add("O%d,%d" % (a, b))
        stream_traffic(p, a, b)
        return
    if v == "connect-no-socket":
        # uv_pipe_connect fails before a socket exists (empty name / socket() = EMFILE): the watcher without
        # descriptor waits on the pending queue for the deferred callback; closed in the same tick or later
        h = p.init("P")
        r = p.req()
        p.add("m%d,%d,%d" % (h, r, rng.choice([0, 1])))
        p.hooks.append("Q%d" % r)
        return
    if v == "longname":
        # names around sizeof(sun_path) = 108: what uv__pipe_close unlinks must be what was bound
        h = p.init("P")
        p.add("L%d,%d,%d,%d" % (h, rng.choice([100, 107, 108, 109, 200]), rng.choice([0, 0, 1]),
                                rng.choice([0, 1])))
        return
    if v == "rw-event":
        # writes queued, then one poll event that is readable and writable; close from read_cb
        h = p.init("P")
        p.add("o%d" % h, "s%d" % h)
        for k in range(rng.randint(1, 3)):
            r = p.req()
            p.add("w%d,%d,%d" % (h, r, 4096 if k == 0 else rng.choice([1, 64])))
            p.hooks.append("Q%d" % r)
        if rng.random() < 0.4:
            r = p.req()
            p.add("d%d,%d" % (h, r))
            p.hooks.append("Q%d" % r)
        p.add("e%d" % h, "v%d" % h)
        p.hooks.append("H%d" % h)
        if rng.random() < 0.7:
            p.on("H%d" % h, "C%d" % h)
        return
    srv = p.init("P")
    p.add("l%d" % srv)
    if v == "listen":
        return
    cli = p.init("P")
    r = p.req()
    if v == "connect-enoent":
        p.add("C%d" % srv, "k%d,%d,%d" % (cli, srv, r))
        p.hooks.append("Q%d" % r)
        return
    if v == "listen+pending":
        p.add("k%d,%d,%d" % (cli, srv, r))
        p.hooks.append("Q%d" % r)
        return
    acc = p.init("P")
    if rng.random() < 0.7:
        p.on("H%d" % srv, "a%d,%d" % (srv, acc))
    p.add("k%d,%d,%d" % (cli, srv, r), "R2", "R2")
    if rng.random() < 0.5:
        stream_traffic(p, cli, acc)


def u_udp(p):
    rng = p.rng
    v = rng.choice(["fresh", "bound", "recv", "blocked", "blocked", "blocked", "sent", "to-peer",
                    "rw-event", "rw-event"])
    h = p.init("U")
    if v == "rw-event":
        # a send queued under EAGAIN, then one poll event that is readable and writable; close from recv_cb
        peer = p.init("U")
        p.add("b%d" % h, "s%d" % h, "z%d,1" % h)
        for _ in range(rng.randint(1, 3)):
            r = p.req()
            p.add("u%d,%d,-1" % (h, r))
            p.hooks.append("Q%d" % r)
        if rng.random() < 0.5:
            p.add("R2")
        r = p.req()
        p.add("u%d,%d,%d" % (peer, r, h))
        if rng.random() < 0.5:
            p.add("z%d,0" % h)
        p.hooks.append("H%d" % h)
        if rng.random() < 0.7:
            p.on("H%d" % h, "C%d" % h)
        return
    if v == "fresh":
        if rng.random() < 0.5:
            p.add("p%d" % h)
        return
    if v in ("bound", "recv"):
        p.add("b%d" % h)
        if v == "recv":
            p.add("s%d" % h)
        return
    if v == "blocked":
        p.add("Z1")
        for _ in range(rng.randint(1, 4)):
            r = p.req()
            p.add("u%d,%d,-1" % (h, r))
            p.hooks.append("Q%d" % r)
        if rng.random() < 0.4:
            p.add("R2")
        if rng.random() < 0.3:
            p.add("Z0")
        return
    if v == "sent":
        for _ in range(rng.randint(1, 3)):
            r = p.req()
            p.add("u%d,%d,-1" % (h, r))
            p.hooks.append("Q%d" % r)
        return
    peer = p.init("U")
    p.add("b%d" % peer, "s%d" % peer)
    p.hooks.append("H%d" % peer)
    for _ in range(rng.randint(1, 3)):
        r = p.req()
        p.add("u%d,%d,%d" % (h, r, peer))
        p.hooks.append("Q%d" % r)


def u_signal(p):
    rng = p.rng
    v = rng.choice(["raised", "requeue", "requeue", "two", "requeue-two", "requeue-restart", "requeue-restart"])
    n = rng.choice([1, 2])
    h = p.init("g")
    p.add("s%d,%d" % (h, n))
    p.hooks.append("H%d" % h)
    if v == "raised":
        p.add("G%d" % n)
    elif v == "requeue-restart":
        # caught, then stop + start on the other signal, then close: the message in the pipe still points
        # at the handle, close_cb has to wait for its dispatch
        c = p.init("c")
        p.add("s%d" % c)
        other = 3 - n
        p.on("H%d" % c, "G%d" % n, "t%d" % h, "s%d,%d" % (h, other), *( ["G%d" % other] if rng.random() < 0.5 else []),
             "C%d" % h)
        p.hooks.append("H%d" % c)
    elif v in ("requeue", "requeue-two"):
        c = p.init("c")
        p.add("s%d" % c)
        if v == "requeue-two":
            h2 = p.init("g")
            p.add("s%d,%d" % (h2, n))
            p.on("H%d" % c, "G%d" % n, "C%d" % h, "G%d" % n, "C%d" % h2)
        else:
            p.on("H%d" % c, "G%d" % n, "G%d" % n, "C%d" % h)
        p.hooks.append("H%d" % c)
    else:
        h2 = p.init("g")
        p.add("s%d,%d" % (h2, n), "G%d" % n)
        p.hooks.append("H%d" % h2)


def u_fspoll(p):
    rng = p.rng
    v = rng.choice(["fresh", "started", "started", "in-flight", "in-flight", "stopped", "stopped-in-flight",
                    "restart-in-flight", "restart"])
    h = p.init("f")
    if v == "fresh":
        return
    arg = rng.choice([0, 0, 1])
    if v in ("in-flight", "stopped-in-flight", "restart-in-flight"):
        p.add("Wb")
        p.blocked = True
    p.add("s%d,%d" % (h, arg))
    if arg == 0:
        p.hooks.append("H%d" % h)
    if v in ("stopped", "stopped-in-flight", "restart-in-flight", "restart"):
        p.add("t%d" % h)
    if v in ("restart-in-flight", "restart"):
        # stop + start while the first stat is in flight: the superseded context must not keep the
        # handle from closing (was finding fs_poll_close_cb_withheld_..., fixed in /repo 834ed95)
        p.add("s%d,%d" % (h, arg))
    if v == "started":
        p.add("R2", "R2")


def u_tty(p):
    """tty handles on pty slaves: uv_tty_set_mode NORMAL/RAW/IO in any order, closed in any mode; two alive at
    once (the process-wide reset registration belongs to the first that went raw)."""
    rng = p.rng
    hs = [p.init("Y") for _ in range(rng.choice([1, 1, 2]))]
    for _ in range(rng.randint(0, 5)):
        h = rng.choice(hs)
        p.add("M%d,%d" % (h, rng.choice([0, 1, 1, 2])))
    h = rng.choice(hs)
    r = rng.random()
    if r < 0.3:
        p.add("s%d" % h, "v%d" % h)
        p.hooks.append("H%d" % h)
    elif r < 0.6:
        for k in range(rng.randint(1, 2)):
            q = p.req()
            p.add("w%d,%d,%d" % (h, q, 64 if k == 0 else 1))
            p.hooks.append("Q%d" % q)
    if rng.random() < 0.5:
        p.on(rng.choice(p.hooks) if p.hooks else "K%d" % hs[0], "M%d,%d" % (rng.choice(hs), rng.choice([0, 1])))


UNITS = [(u_tty, 2), (u_simple, 6), (u_proc, 1), (u_tcp, 4), (u_pipe, 3), (u_udp, 3), (u_signal, 2), (u_fspoll, 2)]


def gen_case(rng, liveness=False):
    """liveness=True (C01, see liveness_traces): additionally uv_ref / uv_unref on every kind in every
    state (f<h> / g<h>), uv_loop_close attempts (Q), and not every handle is closed at the end."""
    p = Prog(rng)
    pool = [u for u, w in UNITS for _ in range(w)]
    nunits = rng.choice([1, 1, 2, 2, 3])
    for _ in range(nunits):
        u = rng.choice(pool)
        if u is u_simple and rng.random() < 0.3 and p.n < 30:
            # two of the same kind, both triggered: same phase / batch
            k = rng.choice("tipcaoe")
            u_simple(p, k)
            u_simple(p, k)
        else:
            u(p)
    hs = list(p.closable)
    rng.shuffle(hs)
    before, after = [], []
    for h in hs:
        r = rng.random()
        if r < 0.30:
            before.append(h)
        elif r < 0.50:
            after.append(h)
        elif r < 0.90 and p.hooks:
            # close from a callback: its own, or somebody else's
            own = [k for k in p.hooks if k == "H%d" % h]
            key = own[0] if own and rng.random() < 0.5 else rng.choice(p.hooks)
            p.on(key, "C%d" % h)
        elif p.n > 1:
            p.on("K%d" % rng.choice(hs), "C%d" % h)
    # initialisations that fail (they must leave no trace in the loop) and opens with a bad descriptor
    for _ in range(rng.choice([0, 0, 0, 1, 1, 2])):
        op = "i" + rng.choice(sorted(FAILED_INIT))
        if p.hooks and rng.random() < 0.3:
            p.on(rng.choice(p.hooks), op)
        else:
            p.ops.insert(rng.randint(0, len(p.ops)), op)
    if liveness:
        # ref / unref at random places after the handle exists: top level and inside callbacks
        for _ in range(rng.randint(0, 2 * p.n)):
            h = rng.randrange(p.n)
            op = rng.choice(["f%d", "g%d", "g%d"]) % h
            first = [i for i, o in enumerate(p.ops) if o[0] == "I"][h]
            if p.hooks and rng.random() < 0.3:
                p.on(rng.choice(p.hooks), op)
            else:
                p.ops.insert(rng.randint(first + 1, len(p.ops)), op)
        if rng.random() < 0.3:
            p.add("Q")
    for h in before:
        p.add("C%d" % h)
    for _ in range(rng.choice([1, 2, 3])):
        p.add("R2")
    if p.blocked and rng.random() < 0.8:
        p.add("Wu", "R2", "R2")
    for h in after:
        p.add("C%d" % h)
    p.add("R2")
    if liveness:
        for _ in range(rng.randint(0, p.n)):
            p.add(rng.choice(["f%d", "g%d"]) % rng.randrange(p.n))
        p.add("R2")
        if rng.random() < 0.5:
            p.add("Q")
    if rng.random() < (0.6 if liveness else 0.9):
        p.add("Z0")
        for h in range(p.n):
            p.add("C%d" % h)
        if liveness and rng.random() < 0.5:
            p.add("Q", "R2", "Q")
        p.add("Y")
        if liveness:
            p.add("Q")
    return p.text()


# --------------------------------------------------------------------------
# C01 (loop liveness) reuses the lifecycle harness in observation mode
# --------------------------------------------------------------------------
def liveness_traces(chk, lib, thorough=False, n=None):
    """Runs the scenario generator (all 13 handle kinds, requests in flight, closes from every position,
    uv_ref/uv_unref everywhere, uv_loop_close attempts) against harness/c02_life.c built with [lib]
    (path of a libuv.a produced by vf.build_libuv; flavour taken from its directory name) with C02_OBS=1
    and returns [(script, trace line)].  Reports nothing itself.

    Observation token (no blanks inside), emitted after every top-level operation, at the entry of every
    user callback (right after its h/q/x/c token, before '{') and after every uv_run() return:
      o<active_handles>,<active_reqs.count>,<uv_loop_alive()>,<pending_queue non-empty>,<in close batch>,
       <loop->closing_handles != NULL>;<k><active><ref><closing><closed>...
    one 5-character group per handle the harness knows, creation order, k in t i p c a o g T P U x e f;
    a handle whose close_cb ran or whose init failed is <k>0011 (its memory is gone: not queried).
    u<r>  result of a uv_run() (NOWAIT; also each run of the drain loop Y);  z<code>  uv_loop_close() (Q
    in the script, and once at the very end after the harness closed everything).  All other tokens are
    the C02 trace (see module docstring)."""
    flavour = "asan" if "lib_asan" in lib else ("ndebug" if "lib_ndebug" in lib else "debug")
    exe = vf.cc_harness(chk.scratch, "c02_life_obs_" + flavour, ["c02_life.c"], lib=lib, flavour=flavour,
                        wraps=["write", "writev", "sendmsg", "sendmmsg", "socket"])
    env = dict(os.environ)
    env["C02_SCRATCH"] = chk.scratch.dir
    env["C02_OBS"] = "1"
    env["ASAN_OPTIONS"] = "detect_leaks=0:abort_on_error=0:exitcode=66"
    if n is None:
        n = 20000 if thorough else 1500
    rng = __import__("random").Random(chk.seed * 7919 + 101)
    corpus_f = os.path.join(vf.VERIF, "corpus", "C02", "cases.txt")
    corpus = [l.rstrip("\n") for l in open(corpus_f) if l.strip() and not l.startswith("#")] \
        if os.path.exists(corpus_f) else []
    cases = corpus + [gen_case(rng, liveness=True) for _ in range(n)]
    out, rc, err = vf.run_lines([exe], cases, shards=min(vf.JOBS, 16), timeout=900, env=env)
    if len(out) != len(cases):
        return []
    return list(zip(cases, out))


# --------------------------------------------------------------------------
# harness trace -> (model input, expected model output)
# --------------------------------------------------------------------------
def translate(line, late_d):
    """late_d: place a stat completion that had no user callback (and is not followed, in pool
    order, by one that had) at the end (True) or at the start (False) of its poll phase.
    Returns (model_case, expected, ambiguous).

    The pool has one thread, so stats complete -- and their poll_cb run, inside uv__work_done --
    in submission order: a completion without user callback that was submitted before one with a
    user callback is placed right before that callback."""
    top, behs, exp = [], [], []
    depth = 0
    cur = None
    fp_active = {}
    fp_inflight, fp_wait, fp_now = [], [], []      # handle ids, pool (FIFO) order
    kinds = []
    last_h = None
    ambiguous = False
    reqs = {}
    in_batch = None
    keep_batch = False

    def emit(tok, is_input=True):
        exp.append(tok)
        if is_input:
            (top if depth == 0 else behs[cur]).append(tok)

    toks = line.split()
    for pos, tok in enumerate(toks):
        c = tok[0]
        if tok.startswith("ABORT") or c == "!":
            continue
        if c == ".":
            if tok == ".W":
                fp_wait += fp_inflight
                fp_inflight = []
            elif tok == ".P":
                in_batch = None
                fp_now, fp_wait = fp_wait, []
                if fp_now and not late_d:
                    # the prefix that is not followed by a completion with a user callback
                    withcb = set()
                    d = 0
                    for t in toks[pos + 1:]:
                        if t == "{":
                            d += 1
                        elif t == "}":
                            d -= 1
                        elif t in ("K", ".E") and d == 0:
                            break
                        elif t[0] == "h" and d == 0 and t[1:].isdigit():
                            withcb.add(int(t[1:]))
                    while fp_now and not any(x in withcb for x in fp_now):
                        ambiguous = True
                        emit("D%d" % fp_now.pop(0))
            elif tok == ".E" and depth == 0:
                # the poll phase is over: every completed stat has had its poll_cb
                while fp_now:
                    ambiguous = True
                    emit("D%d" % fp_now.pop(0))
            continue
        if c == "{":
            depth += 1
            continue
        if c == "}":
            depth -= 1
            if depth == 0 and last_h is not None and fp_now and fp_now[0] == last_h:
                fp_now.pop(0)
                emit("D%d" % last_h)
            last_h = None if depth == 0 else last_h
            continue
        if c in "hqxc":
            if depth == 0:
                if c == "h" and int(tok[1:]) in fp_now:
                    # poll_cb of everything submitted before it has run already; only the newest
                    # context of a handle (the last entry for it) calls the user back
                    x = int(tok[1:])
                    last = len(fp_now) - 1 - fp_now[::-1].index(x)
                    for _ in range(last):
                        emit("D%d" % fp_now.pop(0))
                behs.append([])
                cur = len(behs) - 1
                last_h = int(tok[1:]) if c == "h" else None
                if c in "qx":
                    r, st = map(int, tok[1:].split(","))
                    hh, kk = reqs.get(r, (None, None))
                    if kk in (1, 3):
                        # a write / send callback: delivered by a batch (uv__write_callbacks,
                        # uv__udp_run_completed, the flush after a failed connect, or the closing phase)
                        if c == "q" and in_batch != hh:
                            exp.append("b%d" % hh)
                            top.append("b%d" % hh)
                        if c == "q":
                            in_batch = hh
                        exp.append(tok)
                        keep_batch = True
                    elif c == "q":
                        emit(tok)
                        if kk == 0 and st < 0:
                            in_batch = hh
                            keep_batch = True
                    else:
                        exp.append(tok)
                        keep_batch = True
                else:
                    emit(tok, is_input=(c == "h"))
            else:
                exp.append(tok)      # nested callback: flagged by the monitor
            if not keep_batch:
                in_batch = None
            keep_batch = False
            continue
        if c == "L":
            exp.append(tok)
            continue
        if c == "K" and depth == 0:
            while fp_now:
                ambiguous = True
                emit("D%d" % fp_now.pop(0))
        if c == "I":
            kinds.append(tok[1])
        if c == "S":
            hh, r, kk = map(int, tok[1:].split(","))
            reqs[r] = (hh, kk)
        if depth == 0:
            in_batch = None
        if c == "F":
            h = int(tok[1:])
            if not fp_active.get(h):
                fp_active[h] = True
                fp_inflight.append(h)
        if c == "T":
            fp_active[int(tok[1:])] = False
        if c == "C":
            fp_active[int(tok[1:])] = False
        emit(tok)
    case = " ".join(top) + " ; " + " | ".join(" ".join(b) for b in behs)
    return case, " ".join(exp), ambiguous


# --------------------------------------------------------------------------
# monitor: the property itself, decided on the implementation's trace
# --------------------------------------------------------------------------
FAILED_INIT = {
    "T4": "uv_tcp_init_ex(AF_INET), socket() = EMFILE", "T6": "uv_tcp_init_ex(AF_INET6), socket() = EMFILE",
    "Tf": "uv_tcp_init_ex, invalid flags", "Td": "uv_tcp_init_ex, invalid domain",
    "U4": "uv_udp_init_ex(AF_INET), socket() = EMFILE", "Uf": "uv_udp_init_ex, invalid flags",
    "oc": "uv_poll_init, closed descriptor", "or": "uv_poll_init, regular file (EPERM)",
    "oe": "uv_poll_init, descriptor already watched", "yc": "uv_tty_init, closed descriptor",
    "yf": "uv_tty_init, not a tty",
}

BANG = {
    "!reentrant-callback-inside-uv_close": "a callback ran inside uv_close()",
    "!nested-callback": "a callback ran inside another API call made from a callback",
}


def monitor(case, line):
    toks = line.split()
    closing, closed, owner, done, delivered = set(), set(), {}, {}, {}
    kinds = []

    for tok in toks:
        c = tok[0]
        if tok.startswith("ABORT"):
            return "the run aborted: " + tok[6:200]
        if c == "!":
            m = re.match(r"!(late|reqlate|twice|closetwice|owed|never-closed|never-called|fdleak|loop_close|sockleft)(-?\d+)", tok)
            if tok in BANG:
                return BANG[tok]
            if tok.startswith("!failed-init-linked"):
                return "handle whose initialisation failed (%s) is still linked in the loop (visited by uv_walk / " \
                       "keeps uv_loop_close busy)" % FAILED_INIT.get(tok[19:], tok[19:])
            if tok.startswith("!walk-unknown"):
                return "uv_walk visits %s handle(s) that are not live handles of the program" % tok[13:]
            if tok.startswith("!walk-missing"):
                return "uv_walk does not visit %s live handle(s)" % tok[13:]
            if m:
                what = {"late": "callback for handle %s after its close_cb",
                        "reqlate": "callback of request %s after the close_cb of its handle",
                        "twice": "request %s had its callback twice",
                        "closetwice": "close_cb of handle %s ran twice",
                        "owed": "request %s still owed its callback at the close_cb of its handle",
                        "never-closed": "handle %s never got its close_cb although the loop drained",
                        "never-called": "request %s never got its callback although the loop drained",
                        "fdleak": "%s descriptors left open after every handle was closed and the loop closed",
                        "loop_close": "uv_loop_close() = %s after every handle was closed",
                        "sockleft": "%s socket file(s) created by uv_pipe_bind left in the directory after every "
                                    "pipe handle had its close_cb"}[m.group(1)]
                return what % m.group(2)
            return "lifecycle monitor: " + tok
        if c == "I":
            kinds.append(tok[1])
        elif c == "S":
            h, r, k = map(int, tok[1:].split(","))
            owner[r] = h
        elif c == "y":
            r, st = map(int, tok[1:].split(","))
            done[r] = st
        elif c == "C":
            closing.add(int(tok[1:]))
        elif c in "qx":
            r, st = map(int, tok[1:].split(","))
            if r in delivered:
                return "request %d had its callback twice" % r
            delivered[r] = st
            h = owner.get(r)
            if h in closed:
                return "callback of request %d after the close_cb of handle %d" % (r, h)
            if c == "x":
                if r in done:
                    want = done[r] if (kinds[h] != "u" or done[r] < 0) else 0
                    if st != want:
                        return "request %d finished with %d at the system call but its callback got %d" % (r, done[r], st)
                elif st != ECANCELED:
                    return "request %d had not completed when its handle was closed but its callback got %d, not UV_ECANCELED" % (r, st)
        elif c == "h":
            if int(tok[1:]) in closed:
                return "callback for handle %s after its close_cb" % tok[1:]
        elif c == "c":
            h = int(tok[1:])
            if h in closed:
                return "close_cb of handle %d ran twice" % h
            if h not in closing:
                return "close_cb of handle %d without uv_close" % h
            closed.add(h)
            for r, hh in owner.items():
                if hh == h and r not in delivered:
                    return "request %d still owed its callback at the close_cb of handle %d" % (r, h)
        elif c == "L":
            h, res = tok[1:].split(",")
            name = {"0": "descriptor", "1": "accepted descriptor", "3": "bound socket file", "4": "inotify watch",
                    "5": "epoll registration", "6": "signal disposition",
                    "7": "process-wide uv_tty_reset_mode() registration (descriptor number remembered after close: "
                         "uv_tty_reset_mode() fails or rewrites the termios of whatever reuses the number)"}.get(res, res)
            return "%s of handle %s still present at its close_cb" % (name, h)
        elif tok == ".Y0":
            owed = sorted(closing - closed)
            if owed:
                return "uv_run() returned 0 but handle %d never got its close_cb" % owed[0]
    return None


# --------------------------------------------------------------------------
# LoopCore part: the five simple kinds against Model/LoopCore.v
# --------------------------------------------------------------------------
def lc_monitor(case, line):
    closed = set()
    for tok in line.split():
        if tok.startswith("ABORT"):
            return "the run aborted: " + tok[6:200]
        if tok[0] == "c":
            tag, i, _ = tok[1:].split(",")
            if tag == "6":
                if i in closed:
                    return "close_cb of handle %s ran twice" % i
                closed.add(i)
            elif tag != "5" and i in closed:
                return "callback (kind %s) for handle %s after its close_cb" % (tag, i)
    return None


def gen_lc_case(rng):
    """lc.gen_case with more closes, closes inside callbacks, and a final drain."""
    base = lc.gen_case(rng, "mixed")
    hd, ops, behs = base.split(";")
    nh = ops.count(" I") + (1 if ops.strip().startswith("I") else 0)
    behl = [b.strip() for b in behs.split("|")]
    for k in range(len(behl)):
        if rng.random() < 0.35 and nh:
            behl[k] = (behl[k] + " C%d" % rng.randrange(nh)).strip()
    return "%s; %s ; %s" % (hd, ops.strip(), " | ".join(behl))


# --------------------------------------------------------------------------
def main():
    chk = vf.Check("C02")
    chk.prove()
    try:
        lib = vf.build_libuv(chk.scratch, "asan")
        life = vf.cc_harness(chk.scratch, "c02_life", ["c02_life.c"], lib=lib, flavour="asan",
                             wraps=["write", "writev", "sendmsg", "sendmmsg", "socket"])
        # harness/loopcore.c breaks an endless poll by returning 0 from epoll_pwait(-1), which the
        # assert in uv__io_poll rejects: same sanitizers, asserts off, for this harness only
        class Sub:
            dir = os.path.join(chk.scratch.dir, "nd")
        lib_nd = vf.build_libuv(Sub, "asan", extra=["-DNDEBUG"])
        lcore = vf.cc_harness(Sub, "loopcore_asan", ["loopcore.c"], lib=lib_nd, flavour="asan",
                              wraps=["clock_gettime", "epoll_pwait"], extra=["-DNDEBUG"])
        model = vf.model_bin("C02")
        lcmodel = vf.model_bin("LOOPCORE")
    except vf.BuildError as e:
        chk.violation("build failed: %s" % str(e)[:300], {"kind": "build", "log": str(e)}, found_input=False)
        chk.finish(rule="build failed")
    env = dict(os.environ)
    env["C02_SCRATCH"] = chk.scratch.dir
    env["ASAN_OPTIONS"] = "detect_leaks=0:abort_on_error=0:exitcode=66"
    env["UBSAN_OPTIONS"] = "print_stacktrace=0"
    thorough = chk.tier == "thorough"

    # ---- lifecycle harness against Model/CloseProto.v
    corpus_f = os.path.join(vf.VERIF, "corpus", "C02", "cases.txt")
    corpus = [l.rstrip("\n") for l in open(corpus_f) if l.strip() and not l.startswith("#")] \
        if os.path.exists(corpus_f) else []
    n = 40000 if thorough else 700
    cases = corpus + [gen_case(chk.rng) for _ in range(n)]
    impl, rc, err = vf.run_lines([life], cases, shards=min(vf.JOBS, 16), timeout=900, env=env)
    name = "close paths of every handle kind = Model/CloseProto.v"
    if len(impl) != len(cases):
        chk.violation("%s: harness produced %d lines for %d cases" % (name, len(impl), len(cases)),
                      {"kind": "harness", "stderr": (err or "")[-2000:]}, found_input=False)
    else:
        tr = [translate(l, True) for l in impl]
        mout, _, _ = vf.run_lines([model], [t[0] for t in tr], shards=8, timeout=300)
        retry = [i for i, t in enumerate(tr) if t[2] and i < len(mout) and vf.canon(mout[i]) != vf.canon(t[1])]
        if retry:
            tr2 = [translate(impl[i], False) for i in retry]
            m2, _, _ = vf.run_lines([model], [t[0] for t in tr2], timeout=300)
            for i, t, o in zip(retry, tr2, m2):
                if vf.canon(o) == vf.canon(t[1]):
                    tr[i], mout[i] = t, o
        # diff_cases compares its 2nd and 3rd argument and hands (case, 2nd) to the monitor: give it the
        # canonical projection of the implementation trace, and let the monitor see the full trace
        exp = [t[1] for t in tr]
        full = {}
        shown = []
        for c, l, e in zip(cases, impl, exp):
            key = "%s  ==>  %s" % (c, l)
            shown.append(key)
            full[key] = l
        vf.diff_cases(chk, name, shown, exp, mout, lambda c, a: monitor(c, full[c]))
        chk.sample({"case": cases[len(corpus)], "impl": impl[len(corpus)]})
        chk.cov["close_callbacks_observed"] = sum(len(re.findall(r"(?:^| )c\d+", l)) for l in impl)
        chk.cov["cancelled_request_callbacks_observed"] = sum(l.count(",-125") for l in impl)
        chk.cov["signal_requeues_observed"] = sum(len(re.findall(r"g\d+,[1-9]", l)) for l in impl)
        chk.cov["fs_poll_stat_completions_observed"] = sum(e.count(" D") for e in exp)
        chk.cov["aborted_runs"] = sum(1 for l in impl if "ABORT" in l)
        chk.cov["tty_handles_on_a_pty"] = sum(1 for c, l in zip(cases, impl) for t in c.split(";")[0].split()
                                              if t == "IY") - sum(l.count(".nopty") for l in impl)
        chk.cov["tty_skipped_no_pty"] = sum(l.count(".nopty") for l in impl)
        chk.cov["tty_reset_checks_after_close"] = sum(l.count(" .tr") for l in impl)

    # ---- the five simple kinds against Model/LoopCore.v, same library
    m = 20000 if thorough else 400
    lcases = [gen_lc_case(chk.rng) for _ in range(m)]
    a, _, _ = vf.run_lines([lcore], lcases, shards=8, timeout=600, env=env)
    b, _, _ = vf.run_lines([lcmodel], lcases, shards=8, timeout=600)
    a = [lc.merge_polls(x) for x in a]
    b = [lc.merge_polls(x) for x in b]
    vf.diff_cases(chk, "close of timer/idle/prepare/check/async = Model/LoopCore.v (asan)", lcases, a, b, lc_monitor)

    chk.finish(
        level="proof",
        rule="scenario programs over all 13 handle kinds (timer idle prepare check async poll signal tcp pipe udp "
             "process fs_event fs_poll) in the states of the property (never started, active, inside own callback, "
             "queued writes, pending connect, pending shutdown, queued UDP sends under forced EAGAIN, fs_poll stat "
             "held in the pool, caught-but-undispatched signals), uv_close issued outside the loop, in the handle's "
             "own callback, in another handle's / request's / close callback of the same phase; AddressSanitizer "
             "build, every handle and request an individual heap block freed in its callback; compared token by "
             "token with the extracted model (which predicts every cancellation and close callback, its status, "
             "order and phase); distinct = distinct (case, implementation trace)",
        trusted=["Coq 8.16.1 kernel", "extraction (ExtrOcamlBasic) + ocaml/drv_c02.ml, ocaml/drv_loopcore.ml",
                 "harness/c02_life.c (lifecycle monitor, --wrap=write,writev,sendmsg,sendmmsg, /proc/self/fd, "
                 "fdinfo), harness/loopcore.c", "checks/c02.py (translate, monitor)", "gcc AddressSanitizer/UBSan",
                 "Linux kernel behaviour enters only as recorded oracle (system-call results, event arrival)"],
        explanation="memory non-access after close_cb is AddressSanitizer's verdict on the runs, not a theorem")


if __name__ == "__main__":
    main()
