#!/usr/bin/env python3
"""C04 timers: proofs (Properties_C04.v) + correspondence of Model/Heap.v with
src/heap-inl.h and of Model/Timer.v with src/timer.c of the current tree."""
import os, sys
sys.path.insert(0, os.path.join(os.path.dirname(os.path.abspath(__file__)), "..", "lib"))
import vf

U64 = 2**64


def heap_cases_exhaustive(maxlen, keys, maxlive):
    """All operation sequences of exactly maxlen steps (every prefix is checked
    because the dump is printed after every step)."""
    out = []

    def rec(seq, live, nxt):
        if len(seq) == maxlen:
            out.append(" ".join(seq))
            return
        if len(live) < maxlive:
            for k in keys:
                rec(seq + ["i%d,%d" % (k, nxt)], live + [nxt], nxt + 1)
        for i in live:
            rec(seq + ["r%d" % i], [j for j in live if j != i], nxt)
    rec([], [], 0)
    return out


def heap_cases_random(rng, n, maxnodes):
    out = []
    for _ in range(n):
        live, seq, nxt = [], [], 0
        size = rng.choice([8, 20, 60, maxnodes])
        keyrange = rng.choice([2, 4, 16, 1000])
        for _ in range(rng.randint(5, 3 * size)):
            r = rng.random()
            if (r < 0.55 and len(live) < size) or not live:
                seq.append("i%d,%d" % (rng.randrange(keyrange), nxt))
                live.append(nxt)
                nxt += 1
            elif r < 0.9:
                i = rng.choice(live)
                live.remove(i)
                seq.append("r%d" % i)
            else:
                seq.append("q")
                # the harness/model decide which one goes; recompute from nothing: mark unknown
                live = None
                break
        out.append(" ".join(seq))
    return out


def heap_monitor(case, line):
    """Heap order / completeness / membership on the implementation's own dumps."""
    keys, live = {}, set()
    steps = line.split()
    ops = case.split()
    if len(steps) != len(ops):
        return "harness printed %d dumps for %d operations" % (len(steps), len(ops))
    for op, st in zip(ops, steps):
        if "!" in st:
            return "parent pointer inconsistent after %s" % op
        n, mn, dump = st.split(":")
        ids = [x for x in dump.split(",") if x != ""]
        if op[0] == "i":
            k, i = op[1:].split(",")
            keys[int(i)] = int(k)
            live.add(int(i))
        elif op[0] == "r":
            live.discard(int(op[1:]))
        elif op[0] == "q":
            if live:
                lo = min(keys[i] for i in live)
                # the removed one must have had a least key
                gone = live - set(int(x) for x in ids if x != "-")
                if len(gone) != 1 or keys[next(iter(gone))] != lo:
                    return "dequeue removed %s, not a least element" % sorted(gone)
                live -= gone
        if "-" in ids:
            return "hole in the tree after %s" % op
        got = [int(x) for x in ids]
        if int(n) != len(got) or set(got) != live or len(set(got)) != len(got):
            return "elements after %s are %s, expected %s" % (op, sorted(got), sorted(live))
        for j in range(1, len(got)):
            if keys[got[j]] < keys[got[(j - 1) // 2]]:
                return "heap order broken after %s: %s" % (op, got)
        if got and (mn == "-" or int(mn) != got[0]):
            return "heap_min is not the root after %s" % op
    return None


SPECIAL = [0, 0, 1, 1, 2, 3, 5, 10, 10, 100, 2**31 - 1, 2**31, 2**32, 2**63, U64 - 1, U64 - 2, U64 - 1000]


def timer_cases(rng, n):
    out = []
    for _ in range(n):
        nt = rng.randint(1, 5)
        t0 = rng.choice([0, 1000, 2**40])
        small = rng.random() < 0.7

        def val():
            if small:
                return rng.choice([0, 0, 1, 2, 3, 5, 7, 10, 10, 20])
            return rng.choice(SPECIAL)

        def one_op(top):
            i = rng.randrange(nt)
            r = rng.random()
            if r < 0.30:
                return "S%d,%d,%d,%d" % (i, rng.choice([1, 1, 2, 3, 0] if rng.random() < 0.1 else [1, 2, 3]),
                                         val(), rng.choice([0, 0, val()]))
            if r < 0.42:
                return "T%d" % i
            if r < 0.52:
                return "G%d" % i
            if r < 0.60:
                return "P%d,%d" % (i, val())
            if r < 0.65:
                return "C%d" % i
            if r < 0.75:
                return "D%d" % i
            if r < 0.80:
                return "N"
            if r < 0.83:
                return "J%d" % rng.choice([1, 2**31 - 1, 2**31, 2**32 - 1, 2**32, 2**32 + 1, 2**62])
            if top:
                return rng.choice(["A%d" % rng.choice([0, 1, 2, 3, 5, 10, 50]), "R", "R"])
            return "A%d" % rng.choice([0, 1, 3, 10])
        ops = ["I"] * nt
        for i in range(nt):
            if rng.random() < 0.8:
                ops.append("S%d,%d,%d,%d" % (i, rng.choice([1, 2, 3]), val(), rng.choice([0, 0, val()])))
        for _ in range(rng.randint(3, 25)):
            ops.append(one_op(True))
        ops += ["A%d" % rng.choice([1, 10, 100]), "R", "N"]
        behs = []
        for _ in range(rng.randint(0, 14)):
            behs.append(" ".join(one_op(False) for _ in range(rng.choice([0, 1, 1, 2, 3]))))
        out.append("%d ; %s ; %s" % (t0, " ".join(ops), " | ".join(behs)))
    return out


def timer_monitor(case, line):
    passctr, last, lastfire = None, None, None
    for ev in line.split():
        if ev[0] == "p":
            passctr, last = int(ev[1:]), None
        elif ev[0] == "a":
            passctr = None
        elif ev[0] == "n":
            if not -1 <= int(ev[1:]) <= 2**31 - 1:
                return "uv__next_timeout() = %s, outside [-1, INT_MAX] (the poll bound is clamped)" % ev[1:]
        elif ev[0] == "f":
            i, tok, now, due, seq, at, req = [int(x) for x in ev[1:].split(",")]
            if now < due:
                return "timer %d fired at uv_now=%d before its due time %d (armed at %d + %d)" % (i, now, due, at, req)
            if passctr is None:
                return "timer callback outside a timer pass"
            if seq >= passctr:
                return "timer %d armed during the pass fired in the same pass" % i
            if last is not None and not (last < (due, seq)):
                return "timers fired out of (due, start) order: %s then %s" % (last, (due, seq))
            last = (due, seq)
            lastfire = (i, now)
        elif ev[0] == "e":
            urep, rep, din, act, closing = [int(x) for x in ev[1:].split(",")]
            i, now = lastfire
            if closing:
                return "callback of timer %d ran although uv_close() had been called on it" % i
            if urep != rep:
                return "timer %d: repeat in force is %d but the user set %d" % (i, rep, urep)
            if rep != 0 and act:
                want = min(now + rep, U64 - 1) - now
                if din != want:
                    return ("timer %d re-armed at loop time %d with repeat %d: due in %d, expected %d"
                            % (i, now, rep, din, want))
            if rep == 0 and act:
                return "timer %d without repeat is active at its own callback entry" % i
    return None


def main():
    chk = vf.Check("C04")
    thorough = chk.tier == "thorough"
    chk.prove()
    try:
        lib = vf.build_libuv(chk.scratch, "ndebug")
        hheap = vf.cc_harness(chk.scratch, "c04_heap", ["c04_heap.c"], lib=None, libs=())
        htimer = vf.cc_harness(chk.scratch, "c04_timer", ["c04_timer.c"], lib=lib)
        model = vf.model_bin("C04")
    except vf.BuildError as e:
        chk.violation("build failed: %s" % str(e)[:300], {"kind": "build", "log": str(e)}, found_input=False)
        chk.finish(rule="build failed")

    # (a) heap
    ex = heap_cases_exhaustive(8 if thorough else 7, [0, 1, 2], 6)
    rnd = heap_cases_random(chk.rng, 20000 if thorough else 400, 300)
    corpus = [l.strip() for l in open(os.path.join(vf.VERIF, "corpus", "C04", "heap.txt"))] \
        if os.path.exists(os.path.join(vf.VERIF, "corpus", "C04", "heap.txt")) else []
    cases = corpus + ex + rnd
    a, rc, err = vf.run_lines([hheap], cases, shards=8)
    b, rc2, err2 = vf.run_lines([model, "heap"], cases, shards=8)
    vf.diff_cases(chk, "heap-inl.h = Model/Heap.v", cases, a, b, heap_monitor)
    chk.sample({"heap_case": rnd[0][:200], "impl": a[len(corpus) + len(ex)][:200]})
    chk.cov["heap_exhaustive_sequences"] = len(ex)

    # (b) timers
    tcorpus = [l.rstrip("\n") for l in open(os.path.join(vf.VERIF, "corpus", "C04", "timer.txt"))] \
        if os.path.exists(os.path.join(vf.VERIF, "corpus", "C04", "timer.txt")) else []
    tc = tcorpus + timer_cases(chk.rng, 250000 if thorough else 3000)
    a, rc, err = vf.run_lines([htimer], tc, shards=8)
    b, rc2, err2 = vf.run_lines([model, "timer"], tc, shards=8)
    vf.diff_cases(chk, "timer.c = Model/Timer.v", tc, a, b, timer_monitor)
    chk.sample({"timer_case": tc[len(tcorpus)], "impl": a[len(tcorpus)]})
    fires = sum(l.count(" f") + l.startswith("f") for l in a)
    chk.cov["timer_callbacks_observed"] = fires

    # (c) the same timers through the real loop (uv_run on a virtual clock with sub-millisecond offset): uv_now() never
    # decreases (uv_update_time included), timers armed in a pass wait for the next one, due timers fire in the
    # iteration in which they become due.  Harness, model and monitor are those of C01/C03.
    import loopcore_common as lc
    import c03
    try:
        llib, lh, lm = lc.build(chk)
        lcases = [lc.gen_case(chk.rng, "timers" if k % 4 else "huge") for k in range(60000 if thorough else 700)]
        la, lb = lc.run_both(lh, lm, lcases)
        vf.diff_cases(chk, "timers under uv_run = Model/LoopCore.v", lcases, la, lb, c03.monitor)
    except vf.BuildError as e:
        chk.violation("build failed: %s" % str(e)[:300], {"kind": "build", "log": str(e)}, found_input=False)

    chk.finish(
        level="proof",
        rule="heap: all op sequences (insert with 3 key values / remove any live node) of the stated length "
             "plus random sequences up to 300 nodes, compared after every step (level-order dump, min, count); "
             "timers: random API scripts with scripted callback behaviours on a virtual clock; a case is "
             "non-trivial when its (case, implementation trace) pair is distinct",
        trusted=["Coq 8.16.1 kernel (coqc)", "ExtrOcamlBasic extraction + OCaml 4.13.1 + zarith glue (ocaml/zutil.ml, drv_c04.ml)",
                 "harness/c04_heap.c, harness/c04_timer.c, checks/c04.py (generators, monitors)", "gcc 12"])


if __name__ == "__main__":
    main()
