#!/usr/bin/env python3
"""C06 stream reads: proofs (Properties_C06.v) + correspondence of Model/StreamRead.v with
the read path of src/unix/stream.c (and the per-descriptor part of uv__io_poll in
src/unix/linux.c) of the current tree: real libuv on a socketpair (uv_pipe_open, ipc=0/1)
and on a TCP loopback pair, read/recvmsg/epoll_pwait wrapped, the answers actually given
replayed into the extracted model."""
import concurrent.futures, json, os, sys
sys.path.insert(0, os.path.join(os.path.dirname(os.path.abspath(__file__)), "..", "lib"))
import vf

UV_EOF, UV_ENOBUFS = -4095, -105
# keys of the two defects repaired by /repo commit 34f0ffa (kept only to name a regression)
FIXED_IPC = "ipc_premature_eof_after_fd_message"
FIXED_NONIPC = "pipe_premature_eof_after_fd_message_nonipc"
HARNESS_ONLY = "WGHQUKMBVYODZENJ"


# --------------------------------------------------------------------------
# generator
# --------------------------------------------------------------------------
def gen_allocs(rng):
    r = rng.random()
    if r < 0.35:
        return [rng.choice([1, 2, 3, 7, 64, 65536])]
    if r < 0.55:
        return [rng.choice([1, 2, 3, 7])] * rng.choice([1, 2]) + [rng.choice([0, "n5", "n0", "k", "k", 65536, 7])]
    pool = rng.choice([[1, 2, 3, 7], [1, 2, 3, 7, 65536, 0, "n7", "k"], [3, 7, 64], [65536, 7], [2, 0], [1],
                       [4, "k"], [2, "k", "n0", 0]])
    return [rng.choice(pool) for _ in range(rng.randint(1, 5))]


def gen_case(rng, tcp=False):
    ipc = 0 if tcp else rng.choice([0, 0, 1, 1, 1])
    allocs = gen_allocs(rng)
    sizes = [a for a in allocs if isinstance(a, int) and a > 0] or [1]
    small = min(sizes)
    ops, behs, script = [], [], []
    peer_open, shut = True, False
    ops.append("S%d" % rng.choice([1, 2, 3]))
    shape = rng.random()

    def wsize():
        r = rng.random()
        a = rng.choice(sizes)
        if a > 1000:
            return rng.choice([1, 5, 100, 65535, 65536, 65537, 70000, 131072])
        if r < 0.25:
            return a * rng.choice([1, 2, 3, 5])
        if r < 0.45:
            return max(1, a * rng.choice([1, 2, 4]) + rng.choice([-1, 1]))
        if r < 0.6:
            return a * 32 + rng.choice([-1, 0, 1, 5])       # around the 32-iteration budget
        if r < 0.7:
            return a * 33 + rng.choice([0, 1, 40])
        return rng.choice([1, 2, 3, 4, 5, 10, 30, 100])

    def peer_op():
        nonlocal peer_open, shut
        if not peer_open:
            return None
        r = rng.random()
        if shut:
            if r < 0.5:
                peer_open = False
                return "q"
            return None
        if r < 0.55:
            return "w%d" % wsize()
        if r < 0.70 and ipc:
            return "g%d" % rng.choice([1, 1, 2, 3, 5, small, small + 1, small * 2])
        if r < 0.78:
            shut = True
            return "h"
        if r < 0.90:
            peer_open = False
            return "q"
        if r < (0.99 if tcp else 0.93):     # on tcp this is the only way to a real POLLHUP (reset)
            return "u%d" % rng.choice([1, 3])
        return "w%d" % wsize()

    def run_op():
        r = rng.random()
        if r < 0.80:
            return "R"
        if r < 0.84:
            return "R-1"                    # strip POLLIN: a bare POLLHUP/POLLERR is left (or nothing)
        if r < 0.88:
            return "R=%d" % rng.choice([16, 8, 24])
        if r < 0.92:
            return "R|%d" % rng.choice([16, 8, 1, 8192, 4, 2])
        if r < 0.96:
            return "R=%d" % rng.choice([1, 4, 5, 8192, 2, 17, 9, 25])
        return "R=0"

    n = rng.randint(4, 22)
    if rng.random() < 0.10:
        # our own writes fail (scripted EPIPE/ECONNRESET, or really: the peer did shutdown(SHUT_RD)) while
        # the read direction is healthy: the peer keeps sending, then closes; everything must arrive, then
        # UV_EOF, within the drain
        ops.append("w%d" % wsize())
        ops += ["R"] * rng.randint(0, 2)
        for _ in range(rng.randint(1, 3)):
            if rng.random() < 0.4 and not tcp:
                ops += ["d", "X0"]
            else:
                ops.append("X%d" % rng.choice([32, 32, 104, 5, 0]))
            ops += [rng.choice(["R", "w%d" % wsize(), "R"]) for _ in range(rng.randint(0, 3))]
        ops.append("w%d" % wsize())
        ops.append(rng.choice(["q", "q", "h", "R"]))
        ops += ["R"] * rng.randint(0, 2) + ["Z"]
        for _ in range(rng.choice([0, 0, 6])):
            behs.append(rng.choice(["", "", "", "T S2"]))
        return "%d ; %s ; %s ; %s ; %s" % (ipc, " ".join(ops), " | ".join(behs),
                                           " ".join(str(a) for a in allocs), "")
    if ipc and rng.random() < 0.25:
        # real kernel answers only: exact-fit buffers (1, 2, 4, 8), data-only messages in front of
        # descriptor-carrying ones, everything sent before the loop runs: several recvmsg per pass
        a = rng.choice([1, 2, 4, 8])
        total = 0
        msgs = []
        for _ in range(rng.randint(2, 7)):
            if rng.random() < 0.5:
                k = a * rng.choice([1, 1, 2, 3])
                msgs.append("w%d" % k)
            else:
                k = rng.choice([a, a, 1, 2 * a, a + 1])
                msgs.append("g%d" % k)
            total += k
        if not any(m[0] == "g" for m in msgs):
            msgs.append("g%d" % a); total += a
        tail = rng.choice([[], [], ["h"], ["q"]])
        ops = ["S%d" % rng.choice([1, 2, 3])] + msgs + tail + ["R"] * (total // (32 * a) + 3)
        return "1 ; %s ; %s ; %d ; " % (" ".join(ops), " | ".join(rng.choice(["", "", "", "T S1"])
                                                                  for _ in range(rng.choice([0, 0, 4]))), a)
    if shape < 0.14:
        # the handle stays polled (POLLOUT, a big write nobody reads) while not reading - after UV_EOF,
        # after uv_read_stop, after a read error - then the peer closes (reset: unread data) or hangs up
        how = rng.choice(["eof", "eof", "stop", "error", "stop_in_cb", "never"])
        if rng.random() < 0.3:
            ops.append("V")
        ops.append("w%d" % wsize())
        if how == "eof":
            ops.append("h"); shut = True
        ops += [run_op() for _ in range(rng.randint(2, 5))]
        if how == "stop":
            ops.append("T")
        elif how == "error":
            script += ["p"] * rng.choice([0, 1, 2]) + ["e%d" % rng.choice([104, 5, 110])]
            if "V" not in ops:
                ops.insert(1, "V")          # after the error the stream is no longer writable
            ops += ["w3", "R", "R"]
        elif how == "stop_in_cb":
            behs += [""] * rng.choice([0, 1, 2]) + ["T"]
        elif how == "never":
            ops[0] = "T"
        if "V" not in ops:
            ops.append("V")
        ops += [rng.choice(["R", "w%d" % wsize() if not shut else "R", "R"]) for _ in range(rng.randint(0, 3))]
        ops.append(rng.choice(["q", "q", "q", "h" if not shut else "q"]))
        peer_open = False
        ops += [run_op() for _ in range(rng.randint(2, 5))]
        if rng.random() < 0.3:
            ops += ["S%d" % rng.choice([1, 2, 3]), "R", "R"]
    elif shape < 0.26:
        # data, close, then run to the end: the plain "everything then EOF" shape
        for _ in range(rng.randint(1, 4)):
            o = peer_op()
            if o:
                ops.append(o)
        if peer_open:
            ops.append(rng.choice(["q", "h"]))
            peer_open = False
        ops += ["R"] * rng.randint(2, 6)
    else:
        for _ in range(n):
            r = rng.random()
            if r < 0.30:
                o = peer_op()
                if o:
                    ops.append(o)
            elif r < 0.78:
                ops.append(run_op())
            elif r < 0.86:
                ops.append("T")
            elif r < 0.95:
                ops.append("S%d" % rng.choice([1, 2, 3]))
            elif r < 0.965:
                ops.append("V")
            elif r < 0.98:
                ops.append("X%d" % rng.choice([32, 104, 0]))
            else:
                ops.append("C")
    ops += ["R"] * rng.choice([1, 2, 3, 5])
    if rng.random() < 0.6:
        ops.append("Z")
    # callback behaviours
    nb = rng.choice([0, 0, 3, 8, 40, 70])
    for _ in range(nb):
        r = rng.random()
        if r < 0.55:
            behs.append("")
        elif r < 0.70:
            behs.append("T")
        elif r < 0.82:
            behs.append("T S%d" % rng.choice([1, 2, 3]))
        elif r < 0.88:
            behs.append("S%d" % rng.choice([1, 2, 3]))
        elif r < 0.93:
            behs.append(rng.choice(["C", "T C", "C S1", "C T"]))
        else:
            behs.append(rng.choice(["T T", "S1 T S2", "T S1 T", "T S2 S3"]))
    # read()/recvmsg() answers
    ns = rng.choice([0, 0, 3, 8, 20, 45])
    for _ in range(ns):
        r = rng.random()
        a = rng.choice(sizes)
        if r < 0.40:
            script.append("n%d" % max(1, rng.choice([a, a - 1, a + 1, 1, 2, a // 2])))
        elif r < 0.55:
            script.append("a")
        elif r < 0.72:
            script.append("i")
        elif r < 0.80:
            script.append("e%d" % rng.choice([104, 5, 9, 110, 104]))
        elif r < 0.84:
            script.append(rng.choice(["e11", "e4"]))
        else:
            script.append("p")
    return "%d ; %s ; %s ; %s ; %s" % (ipc, " ".join(ops), " | ".join(behs),
                                       " ".join(str(a) for a in allocs), " ".join(script))


FIXED = [
    # item 20 (repaired by 34f0ffa): "A" + descriptor, "BBBB", close -> was "A", UV_EOF; now all data, EOF
    "1 ; S1 g1 w4 q R R S2 R R ; ; 65536 ; ",
    # the same on a pipe opened without ipc (read(2) also stops behind a descriptor-carrying message)
    "0 ; S1 g1 w4 q R R S2 R R ; ; 65536 ; ",
    # descriptor-carrying message last: nothing is behind it, EOF is right
    "1 ; S1 w4 g1 q R R R ; ; 65536 ; ",
    # 32-iteration budget with 1-byte buffers, POLLHUP pending all the time
    "0 ; S1 w40 q R R R R ; ; 1 ; ",
    "0 ; S1 w64 q R R R R ; ; 2 ; ",
    # exact fill of the buffer: not a partial read, no short-cut EOF
    "0 ; S1 w7 q R R R ; ; 7 ; ",
    "0 ; S1 w6 q R R R ; ; 7 ; ",
    # refusal variants, then data
    "0 ; S1 w5 R R R R q R R ; ; n5 0 n0 3 ; ",
    # stop / restart inside the callback, stale epoll registration afterwards
    "0 ; S1 w10 R R w5 h R R R R ; T | T S2 | S3 | ; 3 ; ",
    # close inside the callback in the middle of the loop
    "0 ; S1 w10 R R R ; | C ; 2 ; ",
    # EAGAIN / EINTR / error
    "0 ; S1 w10 R R R R S2 R ; ; 4 ; i i n2 a i e104 p",
    "1 ; S1 w10 R R R R S2 R ; ; 4 ; i i n2 a i e104 p",
    # read_start in the EOF callback, and in the error callback (EALREADY / ENOTCONN)
    "0 ; S1 w3 q R R R R ; | S2 | S3 ; 64 ; ",
    "0 ; S1 w3 R R R ; S2 | T S2 | ; 64 ; p e5",
    # bare POLLHUP / POLLERR merged into POLLIN, POLLOUT-only filtered away
    "0 ; S1 w3 q R-1 R=16 R=8 R=4 R R ; ; 2 ; ",
    # connection reset: data first, then the error
    "0 ; S1 u3 w5 q R R R R ; ; 5 ; ",
    # polled while not reading: UV_EOF / uv_read_stop / read error, a big write waits (POLLOUT), the peer
    # closes with that data unread (reset): uv__stream_io runs uv__read with read_cb set, READING clear
    "0 ; S1 w3 h R R R V R q R R R ; ; 64 ; ",
    "1 ; S1 w3 h R R R V R q R R R S2 R ; ; 64 ; ",
    "0 ; S1 w3 R R T V w5 q R R R ; ; 64 ; ",
    "0 ; S1 V w3 R R w3 R R q R R R ; ; 64 ; p e104",
    "0 ; S1 w3 h R R R V R=28 R=24 R=16 R=5 R ; ; 64 ; ",
    # several recvmsg in one pass, the first fills the buffer exactly with a descriptor-free chunk, the next
    # message carries a descriptor: control space must be offered again on every call
    "1 ; S1 w8 g1 R R ; ; 8 ; ",
    "1 ; S1 w4 g4 w4 g2 g4 R R R ; ; 4 ; ",
    "1 ; S1 w1 g1 w1 g1 g1 R R ; ; 1 ; ",
    "1 ; S1 w2 w2 g2 g2 q R R R ; ; 2 ; ",
    # refusal by leaving *buf untouched, in the 2nd/3rd iteration of a pass (the 1st read filled its buffer)
    "0 ; S1 w8 R R R ; ; 4 k ; ",
    "1 ; S1 w9 R R R R ; ; 3 3 k n0 0 ; ",
    "0 ; S1 w2 R R R ; ; k 2 ; ",
    # a write of ours fails while the read direction is healthy: nothing may be lost, EOF must come
    "0 ; S1 w5 R X32 w5 R w5 q Z ; ; 64 ; ",
    "0 ; S1 w5 X104 w7 h Z ; ; 3 ; ",
    "0 ; S1 w5 R d X0 R w5 q Z ; ; 64 ; ",
    "1 ; S1 g2 X32 w5 q Z ; ; 2 ; ",
    # 64 KiB buffers and more than one buffer of data
    "0 ; S1 w70000 w70000 q R R R R R ; ; 65536 ; ",
    "1 ; S1 w70000 g3 w70000 q R R R R R R ; ; 65536 ; ",
]


# tcp keeps the POLLHUP short-cut; a real POLLHUP needs a reset: the peer closes with unread data
TCP_FIXED = [
    "0 ; S1 u3 w40 q R R R R ; ; 7 ; ",
    "0 ; S1 u1 w7 q R R R ; ; 7 ; ",
    "0 ; S1 u1 w6 q R R R ; ; 7 ; ",
    "0 ; S1 u3 w64 q R R R R ; ; 2 ; ",
]


# --------------------------------------------------------------------------
# monitor: the property on the implementation's own trace
# --------------------------------------------------------------------------
def monitor(case, line, ipc, tcp=False):
    """None, or (None, reason) when the implementation's own trace violates the property"""
    if line.rstrip().endswith("HANG"):
        return (None, "the loop never came back: " + line[-200:])
    if line.startswith("DIED"):
        return (None, "the process died: " + line)
    trace = line.split(";")[0].split()
    # recvmsg on an IPC pipe must offer control space on every call (msg_controllen is value-result)
    secs = line.split(";")
    if len(secs) == 3:
        first = None
        for i, ent in enumerate(secs[2].split()):
            clen, cnn, iovlen, mflags, ctrunc = [int(x) for x in ent.split(",")]
            if first is None:
                first = clen
            if cnn != 1 or clen < 24 or clen != first or iovlen != 1 or mflags != 0:
                return (None, "recvmsg call #%d on the IPC pipe was offered msg_controllen=%d (first call: %d), "
                              "msg_control %s, msg_iovlen=%d, msg_flags=%d: no room for the descriptors of the "
                              "message" % (i + 1, clen, first, "set" if cnn else "NULL", iovlen, mflags))
            if ctrunc:
                return (None, "recvmsg call #%d returned MSG_CTRUNC: descriptors were discarded" % (i + 1))
    written = delivered = ksum = 0
    out = None                      # outstanding alloc result (id, len)
    quiet, why = True, "before uv_read_start"
    closing = False
    hup = hup_honest = False
    pend_m = pend_k = False
    last_k = None
    fd_msgs = []
    inbox = reset = peer_closed = peer_shut = False
    styles = case.split(";")[3].split() if case.count(";") >= 4 else []
    eof_ctx = None
    for ev in trace:
        k, a = ev[0], ev[1:]
        if k != "B" and k != "r":
            eof_ctx = None
        if k == "W":
            written = int(a)
        elif k == "G":
            # a descriptor-carrying message: the descriptors travel with its first segment, and
            # read/recvmsg stops behind the segment that carried them
            if int(a) > written:
                fd_msgs.append((written, int(a)))
            written = int(a)
        elif k == "D":
            # descriptors on the handle (accepted + queued) = descriptor-carrying messages whose first
            # byte the kernel has handed out
            exp = sum(1 for lo, hi in fd_msgs if lo < ksum)
            if int(a) != exp:
                return (None, "uv_pipe_pending_count() is %d, but %d descriptor-carrying message(s) have been "
                              "read (descriptors lost or duplicated)" % (int(a), exp))
        elif k == "H":
            peer_shut = True
        elif k in "UV":
            # tcp: data sent towards a peer that closes without reading it (before or after) resets
            # the connection, and the reset discards what the peer had not yet transmitted, so "what
            # the peer wrote" no longer bounds what can arrive; the peek at UV_EOF (B) still does
            inbox = True
            reset = tcp and peer_closed
        elif k == "Q":
            peer_closed = True
            reset = tcp and inbox
        elif k in "YOZ":
            pass
        elif k == "J":
            if a[0] == "r":
                return (None, "read()/recvmsg() was pointed at a buffer not obtained from the current alloc_cb "
                              "(%s)" % ("block %s, already handed back" % a[1:] if a[1:] != "-1" else "unknown memory"))
            blk, times = a[1:].split(",")
            return (None, "buffer %s handed back %s times" % (blk, times))
        elif k == "N":
            if int(a) == 0:
                inbox = True
                reset = tcp and peer_closed
        elif k == "E":
            # end of a drain (no script, no overrides): E<bytes still readable>,<ended idle>
            left, idle = [int(x) for x in a.split(",")]
            if idle and not quiet and not closing:
                if left > 0 or peer_closed or peer_shut:
                    what = []
                    if left > 0:
                        what.append("%d byte(s)" % left)
                    if peer_closed or peer_shut:
                        what.append("UV_EOF")
                    return (None, "reading handle never received %s although the peer wrote%s: uv_read_start "
                                  "is in force, nothing was reported, yet the loop runs idle"
                                  % (" / ".join(what), " and closed" if (peer_closed or peer_shut) else ""))
        elif k == "B":
            # n bytes were still readable when the UV_EOF callback just before ran
            if eof_ctx is not None:
                ebuf, ehonest, ek = eof_ctx
                if ebuf != "-":
                    return (None, "UV_EOF from a read that returned 0, yet %s bytes were readable" % a)
                if ek is None or not ek["short"]:
                    return (None, "UV_EOF reported with %s bytes still readable and without a short read "
                                  "before it" % a)
                if ehonest and not ek["capped"]:
                    if any(lo < ek["end"] <= hi for lo, hi in fd_msgs):
                        return (None, "UV_EOF reported with %s bytes still buffered behind a descriptor-"
                                      "carrying message (POLLHUP + short read): regression of fixed "
                                      "finding %s" % (a, FIXED_IPC if ipc else FIXED_NONIPC))
                    return (None, "UV_EOF reported with %s bytes still readable" % a)
        elif k == "M":
            pend_m = True
        elif k == "K":
            pend_k = True
        elif k == "P":
            hup = (int(a) & 16) != 0
            hup_honest = not pend_m
            pend_m = False
            last_k = None
        elif k == "s":
            if int(a) == 0:
                if closing:
                    return (None, "uv_read_start succeeded on a closing handle")
                quiet = False
        elif k == "t":
            quiet, why = True, "after uv_read_stop"
        elif k == "c":
            quiet, why, closing = True, "after uv_close", True
        elif k == "A":
            if a[:1] in "!?":
                return (None, "an alloc_cb buffer was never handed to a read callback")
            i, sug, base, ln = a.split(",")
            if styles and styles[int(i) % len(styles)] == "k" and (base != "0" or ln != "0"):
                return (None, "alloc_cb #%s found *buf not zeroed (base %s, len %s): an alloc_cb that refuses by "
                              "leaving *buf untouched makes libuv read into the previous buffer again"
                              % (i, "set" if base == "1" else "NULL", ln))
            if quiet:
                return (None, "alloc_cb called %s" % why)
            if out is not None:
                return (None, "alloc_cb called again while buffer %d was not handed back" % out[0])
            out = (int(i), int(ln) if base == "1" else 0)
        elif k == "k":
            ln, rest = a.split(":")
            ans, off = rest.split("@")
            n = int(ans[1:]) if ans[0] == "d" else 0
            if ans[0] == "d":
                ksum += n
            last_k = {"short": ans[0] == "d" and n < int(ln), "capped": pend_k, "end": int(off) + n}
            pend_k = False
        elif k == "r":
            tok, nread, buf, ch = a.split(":")
            nread = int(nread)
            off, ln = [int(x) for x in ch.split(",")]
            if quiet:
                return (None, "read callback (nread=%d) %s, without a new uv_read_start" % (nread, why))
            if buf == "?":
                return (None, "read callback got a buffer that alloc_cb did not return")
            if buf == "-":
                if out is not None:
                    return (None, "buffer %d dropped: read callback ran without it" % out[0])
                if nread != UV_EOF:
                    return (None, "read callback with nread=%d and no buffer" % nread)
            else:
                if out is None or int(buf) != out[0]:
                    return (None, "read callback got buffer %s, outstanding is %s" % (buf, out))
                if nread > out[1]:
                    return (None, "nread=%d exceeds the %d bytes alloc_cb provided" % (nread, out[1]))
                out = None
            if nread > 0:
                if off != delivered or ln != nread:
                    return (None, "delivered bytes are not the next bytes the peer wrote: expected offset %d, "
                                  "got the bytes at %d (lost, duplicated or reordered data)" % (delivered, off))
                delivered += nread
                if delivered > written:
                    return (None, "more bytes delivered than the peer wrote")
            elif nread == UV_EOF:
                eof_ctx = (buf, hup_honest, dict(last_k) if last_k else None)
                if delivered < written and not reset:
                    missing = written - delivered
                    if buf != "-":
                        return (None, "UV_EOF with %d bytes undelivered (read returned 0?)" % missing)
                    if last_k is None or not last_k["short"]:
                        return (None, "UV_EOF reported with %d bytes undelivered and without a short read "
                                      "before it" % missing)
                    injected = (not hup_honest) or last_k["capped"]
                    if not injected:
                        if any(lo < last_k["end"] <= hi for lo, hi in fd_msgs):
                            return (None, "UV_EOF reported with %d bytes still buffered behind a descriptor-"
                                          "carrying message (POLLHUP + short read): regression of fixed "
                                          "finding %s" % (missing, FIXED_IPC if ipc else FIXED_NONIPC))
                        return (None, "UV_EOF reported with %d bytes undelivered" % missing)
                quiet, why = True, "after UV_EOF"
            elif nread in (-4, -11):
                return (None, "EINTR/EAGAIN of read/recvmsg surfaced in the read callback as error %d" % nread)
            elif nread < 0 and nread != UV_ENOBUFS:
                quiet, why = True, "after the read error %d" % nread
        elif k == "!":
            return (None, "call through a NULL read_cb")
    if out is not None:
        return (None, "buffer %d was never handed to a read callback" % out[0])
    if ksum != delivered:
        return (None, "the kernel handed out %d bytes, %d were delivered" % (ksum, delivered))
    return None


# --------------------------------------------------------------------------
def model_input(case, impl_line, tcp):
    """the model gets the case plus the answers the wrappers actually gave"""
    parts = impl_line.split(";")
    if len(parts) != 3:
        return None
    c = case.split(";")
    toks = parts[0].split()
    polls = [t[1:] for t in toks if t[0] == "P"]
    wouts = [t[1:] for t in toks if t[0] == "O"]
    if len(wouts) != len(polls):
        return None
    drains = [int(t[1:]) for t in toks if t[0] == "Z"]
    ops, pi, zi = [], 0, 0
    for t in c[1].split():
        if t[0] in "STC":
            ops.append(t)
        elif t[0] == "X":
            ops.append("X")
        elif t[0] == "R" or t[0] == "Z":
            k = 1
            if t[0] == "Z":
                if zi >= len(drains):
                    return None
                k = drains[zi]
                zi += 1
            for _ in range(k):
                if pi >= len(polls):
                    return None
                ops.append("R%s,%s" % (polls[pi], wouts[pi]))
                pi += 1
    if pi != len(polls):
        return None
    hdr = "0 0" if tcp else "1 " + c[0].strip()
    return "%s ; %s ;%s;%s; %s" % (hdr, " ".join(ops), c[2], c[3], parts[1].strip())


def strip_harness_tokens(trace):
    return " ".join(t for t in trace.split() if t[0] not in HARNESS_ONLY)


def run_harness(cmd, cases, shards=12):
    """a case on which the harness hangs (it prints HANG and exits) or dies costs only that
    case: the rest of its shard is run in a fresh process"""
    n = max(1, (len(cases) + shards - 1) // shards)
    parts = [cases[i:i + n] for i in range(0, len(cases), n)]

    def one(part):
        out, hangs = [], 0
        while len(out) < len(part):
            if hangs >= 2:
                out += ["SKIP"] * (len(part) - len(out))
                break
            o, rc, err = vf.run_lines(cmd, part[len(out):], timeout=900)
            if len(o) >= len(part) - len(out):
                out += o[:len(part) - len(out)]
                break
            hangs += 1
            if o and o[-1].endswith("HANG"):
                out += o
            else:
                out += o + ["DIED rc=%s" % rc]
        return out
    with concurrent.futures.ThreadPoolExecutor(shards) as ex:
        res = list(ex.map(one, parts))
    return [l for r in res for l in r]


def run_mode(chk, name, harness_cmd, model, cases, tcp=False):
    a = run_harness(harness_cmd, cases)
    if len(a) != len(cases):
        chk.violation("%s: harness produced %d lines for %d cases" % (name, len(a), len(cases)),
                      {"kind": "correspondence", "obligation": name}, found_input=False)
        return None
    # a case for which no socket pair could be made says nothing about libuv: once more, alone
    for i, l in enumerate(a):
        if l.startswith("nosocket"):
            o, rc0, err0 = vf.run_lines(harness_cmd, [cases[i]], timeout=60)
            if o and not o[0].startswith("nosocket"):
                a[i] = o[0]
    nos = sum(1 for l in a if l.startswith("nosocket"))
    if nos:
        chk.violation("%s: harness error: no socket pair for %d cases (environment)" % (name, nos),
                      {"kind": "harness", "obligation": name}, found_input=False)
        a = [("SKIP" if l.startswith("nosocket") else l) for l in a]
    minp = [model_input(c, l, tcp) or "0 0 ; ; ; ; " for c, l in zip(cases, a)]
    b, rc2, err2 = vf.run_lines([model], minp, shards=12)
    if len(b) != len(cases):
        chk.violation("%s: model produced %d lines for %d cases %s" % (name, len(b), len(cases), (err2 or "")[-300:]),
                      {"kind": "correspondence", "obligation": name}, found_input=False)
        return None
    # the checker extracted from Spec/StreamReadSpec.v judges the implementation's traces
    cm, rc3, err3 = vf.run_lines([model, "mon"], [l.split(";")[0] if l != "SKIP" else "" for l in a], shards=12)
    if len(cm) != len(cases):
        chk.violation("%s: extracted monitor produced %d lines for %d traces" % (name, len(cm), len(cases)),
                      {"kind": "correspondence", "obligation": name}, found_input=False)
        return None
    COQ_PARTS = ["C06_stream_exact", "C06_alloc_paired", "C06_silent_until_restart", "C06_no_null_read_cb"]
    bad = []          # (has no failing input, what, replay)
    for c, al, bl, cv in zip(cases, a, b, cm):
        if al == "SKIP":
            continue
        impl_trace = al.split(";")[0]
        chk.count(name, c + "=>" + impl_trace)
        ipc = (not tcp) and c.split(";")[0].strip() == "1"
        verdict = monitor(c, al, ipc, tcp)
        if cv != "1111" and not (verdict and verdict[0] is None):
            # the Coq-defined checker rejects the trace (and the python monitor did not name it first)
            failed = [n for n, d in zip(COQ_PARTS, cv) if d == "0"] if len(cv) == 4 else [cv]
            verdict = (None, "the extracted checker rejects the implementation's trace: %s" % ", ".join(failed))
        chk.cov["coq_monitor_verdicts"] = chk.cov.get("coq_monitor_verdicts", 0) + 1
        if vf.canon(strip_harness_tokens(impl_trace)) != vf.canon(bl):
            chk.cov["disagreements_checked"] += 1
            reason = verdict[1] if verdict and verdict[0] is None else None
            bad.append((reason is None,
                        "%s: implementation and model disagree%s" % (name, (": " + reason) if reason else ""),
                        {"kind": "correspondence", "obligation": name, "case": c, "impl": al, "model": bl,
                         "model_input": model_input(c, al, tcp), "monitor": reason}))
        elif verdict:
            bad.append((False, "%s: trace violates the property: %s" % (name, verdict[1]),
                        {"kind": "monitor", "obligation": name, "case": c, "impl": al}))
    # report the shortest cases first, those with a failing input before the others
    bad.sort(key=lambda t: (t[0], len(t[2]["case"])))
    for nofail, what, rp in bad[:3]:
        chk.violation(what, rp, found_input=not nofail)
    if len(bad) > 3:
        chk.cov.setdefault("violations_not_reported", {})[name] = len(bad) - 3
    chk.corr(name, len(cases))
    return a


def shape_counts(traces):
    """how often the case splits of the proofs were exercised"""
    d = {"events_delivered_while_not_reading": 0, "polls_with_32_reads": 0, "synthetic_eof": 0, "real_eof": 0, "read_errors": 0, "enobufs": 0,
         "eagain_callbacks": 0, "calls_inside_callbacks": 0, "stale_poll_after_stop": 0,
         "exact_fill_reads": 0, "short_reads": 0, "bare_hup_or_err_polls": 0, "restart_after_eof": 0}
    for t in traces:
        reads_in_poll, in_cb, reading, after_eof, wout = 0, False, False, False, False
        for e in t:
            k = e[0]
            if k == "O":
                wout = e[1:] == "1"
            if k == "P":
                if wout and not reading and (int(e[1:]) & 28):
                    d["events_delivered_while_not_reading"] += 1
                if reads_in_poll >= 32:
                    d["polls_with_32_reads"] += 1
                reads_in_poll, in_cb = 0, False
                if int(e[1:]) != 0 and not reading:
                    d["stale_poll_after_stop"] += 1
                if int(e[1:]) in (8, 16, 24):
                    d["bare_hup_or_err_polls"] += 1
            elif k == "f":
                in_cb = False
            elif k == "r":
                in_cb = True
                _, nread, buf, _ = e[1:].split(":")
                nread = int(nread)
                if nread > 0:
                    reads_in_poll += 1
                elif nread == 0:
                    d["eagain_callbacks"] += 1
                elif nread == UV_EOF:
                    d["synthetic_eof" if buf == "-" else "real_eof"] += 1
                    reading, after_eof = False, True
                elif nread == UV_ENOBUFS:
                    d["enobufs"] += 1
                else:
                    d["read_errors"] += 1
                    reading = False
            elif k == "k" and ":d" in e:
                ln, rest = e[1:].split(":")
                n = int(rest.split("@")[0][1:])
                d["exact_fill_reads" if n == int(ln) else "short_reads"] += 1
            elif k in "stc":
                if in_cb:
                    d["calls_inside_callbacks"] += 1
                if k == "s" and e[1:] == "0":
                    if after_eof:
                        d["restart_after_eof"] += 1
                    reading, after_eof = True, False
                elif k in "tc":
                    reading = False
    return d


N_UNIX = "stream.c read path = Model/StreamRead.v (unix socketpair via uv_pipe_open, ipc 0/1)"
N_TCP = "stream.c read path = Model/StreamRead.v (tcp loopback via uv_tcp_open)"


def main():
    chk = vf.Check("C06")
    thorough = chk.tier == "thorough"
    chk.prove()
    try:
        lib = vf.build_libuv(chk.scratch, "ndebug")
        hs = vf.cc_harness(chk.scratch, "c06_read", ["c06_read.c"], lib=lib,
                           wraps=["read", "recvmsg", "epoll_pwait", "write", "writev", "sendmsg"])
        model = vf.model_bin("C06")
    except vf.BuildError as e:
        chk.violation("build failed: %s" % str(e)[:300], {"kind": "build", "log": str(e)}, found_input=False)
        chk.finish(rule="build failed")

    if chk.replay:
        rp = json.load(open(chk.replay))
        cases = [rp["case"]] if "case" in rp else []
        tcp = "tcp" in rp.get("obligation", "")
        out = run_mode(chk, "replay (%s)" % ("tcp" if tcp else "unix"), [hs, "tcp" if tcp else "unix"],
                       model, cases, tcp)
        if out:
            print("impl:  " + out[0])
        chk.finish(rule="replay of one recorded case")

    cpath = os.path.join(vf.VERIF, "corpus", "C06", "cases.txt")
    corpus = [l.rstrip("\n") for l in open(cpath) if l.strip() and not l.startswith("#")] \
        if os.path.exists(cpath) else []
    n = 200000 if thorough else 6000
    gen = [gen_case(chk.rng) for _ in range(n)]
    cases = FIXED + corpus + gen
    a = run_mode(chk, N_UNIX, [hs, "unix"], model, cases)
    if a:
        chk.sample({"case": gen[0][:300], "impl": a[len(FIXED) + len(corpus)][:400]})
        tr = [l.split(";")[0].split() for l in a]
        chk.cov["read_callbacks_observed"] = sum(1 for t in tr for e in t if e[0] == "r")
        chk.cov["alloc_callbacks_observed"] = sum(1 for t in tr for e in t if e[0] == "A")
        chk.cov["eof_callbacks_observed"] = sum(1 for t in tr for e in t if e[0] == "r" and ":-4095:" in e)
        chk.cov["syscall_answers_logged"] = sum(len(l.split(";")[1].split()) for l in a if l.count(";") == 2)
        chk.cov["poll_masks_seen"] = sorted({e for t in tr for e in t if e[0] == "P"})
        chk.cov["shape_counts"] = shape_counts(tr)
    tgen = [gen_case(chk.rng, tcp=True) for _ in range(40000 if thorough else 1500)]
    tfixed = [c for c in FIXED + corpus if c.split(";")[0].strip() == "0" and " g" not in c] + TCP_FIXED
    run_mode(chk, N_TCP, [hs, "tcp"], model, tfixed + tgen, tcp=True)

    chk.finish(
        level="proof",
        rule="random API scripts (uv_read_start/uv_read_stop/uv_close/uv_run(NOWAIT), at top level and from "
             "inside read callbacks) against a peer that writes a counter pattern in scripted chunks (plain and "
             "descriptor-carrying), half-closes, closes or resets; alloc_cb sizes 1,2,3,7,64,64Ki and refusals; "
             "read/recvmsg capped, EAGAIN, EINTR, errors injected; epoll masks recorded (and altered: bare "
             "POLLHUP/POLLERR, spurious POLLIN); the answers actually given are replayed into the extracted "
             "model; compared: every alloc/read callback (buffer identity, nread, peer offset of the bytes), "
             "system call positions, return codes, uv_is_readable/active/closing after every call",
        trusted=["Coq 8.16.1 kernel (coqc)",
                 "ExtrOcamlBasic extraction + OCaml 4.13.1 + zarith glue (ocaml/zutil.ml, drv_c06.ml)",
                 "harness/c06_read.c (read/recvmsg/epoll_pwait wrappers, peer, pattern check), "
                 "checks/c06.py (generator, monitor)",
                 "gcc 12, Linux AF_UNIX/TCP sockets, epoll"])


if __name__ == "__main__":
    main()
