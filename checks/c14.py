#!/usr/bin/env python3
"""C14 uv_poll / io watchers: proofs (Properties_C14.v) + correspondence of
Model/IoWatch.v with src/unix/{core,linux,poll}.c of the current tree, with and
without the io_uring control ring, + a monitor on the implementation's own trace."""
import os, re, sys
sys.path.insert(0, os.path.join(os.path.dirname(os.path.abspath(__file__)), "..", "lib"))
import vf

POLLIN, POLLPRI, POLLOUT, POLLERR, POLLHUP, POLLNVAL, POLLRDHUP = 1, 2, 4, 8, 16, 32, 0x2000
UV_EBADF = -9


def uv2poll(m):
    return (POLLIN if m & 1 else 0) | (POLLOUT if m & 2 else 0) | (POLLRDHUP if m & 4 else 0) | \
        (POLLPRI if m & 8 else 0)


def poll2uv(e):
    return (1 if e & POLLIN else 0) | (2 if e & POLLOUT else 0) | (4 if e & POLLRDHUP else 0) | \
        (8 if e & POLLPRI else 0)


# --------------------------------------------------------------------------
# generator
# --------------------------------------------------------------------------
def gen_case(rng, ring, strict):
    nsl = rng.randint(2, 6)
    kinds = "sssttttpqen"
    est_h = [0]
    # every non-empty combination of the four flags, each equally likely; 0 (= stop) now and then
    masks = list(range(1, 16)) * 2 + [0]

    def hsel():
        return rng.randrange(max(1, est_h[0] + (1 if rng.random() < 0.1 else 0)))

    def op(top):
        r = rng.random()
        sl = rng.randrange(nsl)
        if r < 0.22:
            return "S%d,%d" % (hsel(), rng.choice(masks))
        if r < 0.31:
            return "T%d,%d" % (hsel(), rng.randint(1, 15))
        if r < 0.39:
            return "C%d" % hsel()
        if r < 0.42:
            return "A%d" % hsel()
        if r < 0.45:
            return "F%d" % hsel()
        if r < 0.53:
            est_h[0] += 1
            return "I%d" % sl
        if r < 0.56:
            est_h[0] += 1
            return "J%d" % sl
        if r < 0.62:
            return "O%d,%s%s" % (sl, rng.choice(kinds), rng.choice(["", "", "", ",0", ",1", ",2"]))
        if r < 0.66:
            return "U%d,%d" % (sl, rng.randrange(nsl))
        if r < 0.74:
            return "X%d" % sl
        if r < 0.83:
            return "K%d" % sl
        if r < 0.86:
            return "D%d" % sl
        if r < 0.90:
            return "H%d" % sl
        if r < 0.905:
            return "G%d" % sl
        if r < 0.915:
            return "L%d" % sl
        if r < 0.93:
            return "B%d" % sl
        if r < 0.937:
            return "W%d" % sl
        if r < 0.955:
            return "Y%d,%d" % (rng.randrange(3), sl)
        return "R" if top else "K%d" % sl

    ops = []
    nopen = rng.randint(1, min(nsl, 4))
    low = rng.sample([0, 1, 2], 3)
    for i in range(nopen):
        ops.append("O%d,%s%s" % (i, rng.choice(kinds), (",%d" % low[i]) if i < 3 and rng.random() < 0.3 else ""))
    for i in range(nopen):
        if rng.random() < 0.85:
            if rng.random() < 0.15:
                ops.append("J%d" % i)
            else:
                ops.append("I%d" % i)
            ops.append("S%d,%d" % (est_h[0], rng.choice(masks[:-1])))
            est_h[0] += 1
        if rng.random() < 0.6:
            ops.append("K%d" % i)
        if rng.random() < 0.35:
            ops.append("B%d" % i)
        if rng.random() < 0.1:
            ops.append("W%d" % i)
    nrun = 0
    for _ in range(rng.randint(4, 26)):
        o = op(True)
        if o == "R":
            nrun += 1
            if nrun > 9:
                continue
        ops.append(o)
    ops.append("R")
    if rng.random() < 0.7:
        ops.append("R")
    behs = []
    for _ in range(rng.randint(0, 24)):
        behs.append(" ".join(op(False) for _ in range(rng.choice([0, 0, 1, 1, 2, 3, 4]))))
    return "%d %d ; %s ; %s" % (ring, strict, " ".join(ops), " | ".join(behs))


def sweep_cases():
    """All 15 non-empty flag sets as first mask, all 15 as second mask (225 pairs), with and
    without the ring, on a TCP loopback pair on which every condition is made true (data,
    urgent data, peer shutdown): poll handle start / restart with the other mask / stop /
    events arriving after the stop / restart / close; bare watcher start / partial stop."""
    out = []
    for ring in (1, 0):
        for m1 in range(1, 16):
            for m2 in range(1, 16):
                out.append("%d 0 ; O0,t I0 S0,%d K0 B0 R S0,%d R T0,0 B0 K0 R R S0,%d W0 R C0 B0 R ; "
                           % (ring, m1, m2, m1))
                out.append("%d 1 ; O0,t J0 S0,%d K0 B0 R T0,%d R W0 R S0,%d R C0 R ; " % (ring, m1, m2, m2))
    return out


def notify_cases():
    """A kernel notification file (POLLIN|POLLERR|POLLPRI on change) with every request mask."""
    out = []
    for ring in (1, 0):
        for m in range(1, 16):
            out.append("%d 0 ; O0,n I0 S0,%d R K0 R R K0 R T0,0 K0 R S0,%d K0 R C0 K0 R ; " % (ring, m, m))
    return out


def foreign_cases():
    """uv_pipe_open / uv_tcp_open / uv_udp_open / uv_poll_init on a descriptor that a poll
    handle (only initialised, started, stopped) or a stream-like watcher (registered, stopped)
    of the same loop holds; the first handle keeps its registration and its callbacks."""
    out = []
    for ring in (1, 0):
        for k in range(3):
            y = "Y%d,0" % k
            out.append("%d 0 ; O0,s I0 %s S0,3 %s I0 K0 R %s R T0,0 %s R S0,1 R %s R ; %s | %s" % (ring, y, y, y, y, y, y, y))
            out.append("%d 0 ; O0,t J0 %s S0,3 %s I0 K0 R %s R T0,2 %s R T0,1 %s R ; %s" % (ring, y, y, y, y, y, y))
            out.append("%d 0 ; O0,s O1,s I0 I1 S0,1 S1,3 K0 K1 R R ; %s Y%d,1 | %s Y%d,1" % (ring, y, k, y, k))
    return out


def lownum_cases():
    """The second-handle / foreign-open / stop / close scenarios with the watched descriptor
    moved (dup2) onto the numbers 0, 1 and 2: every guard must hold for every descriptor number."""
    out = []
    for ring in (1, 0):
        for n in (0, 1, 2):
            for kind in "st":
                o = "O0,%s,%d" % (kind, n)
                for k in range(3):
                    y = "Y%d,0" % k
                    out.append("%d 0 ; %s I0 %s S0,3 %s I0 K0 R %s I0 R R T0,0 %s R S0,1 R %s R ; %s I0 | %s" % (ring, o, y, y, y, y, y, y, y))
                    out.append("%d 0 ; %s J0 %s S0,3 %s I0 K0 R %s I0 R R T0,2 %s R T0,1 %s R ; %s I0" % (ring, o, y, y, y, y, y, y))
                # two poll handles on the number: the idle one is stopped / closed, the other keeps firing
                out.append("%d 0 ; %s I0 I0 S1,1 K0 R C0 R R T1,0 R ; " % (ring, o))
                out.append("%d 0 ; %s I0 I0 S1,1 K0 R T0,0 R R S0,1 R ; " % (ring, o))
                # close + re-open on the same low number inside a callback, dup kept elsewhere
                out.append("%d 1 ; %s O1,s I0 I1 S0,1 S1,1 K0 K1 R R R ; U0,2 C0 X0 %s K0 I0 S2,3 | " % (ring, o, o))
                out.append("%d 0 ; %s I0 S0,9 K0 R T0,0 U0,1 C0 X0 %s I0 S1,1 R K1 R R ; " % (ring, o, o))
    return out


def udp_cases():
    """A uv_udp_t (a watcher kind that owns and closes its descriptor) is closed while a dup of the
    descriptor is kept open; the number is re-used by a new poll handle; then the old open file
    description becomes ready through the dup's peer.  After uv_close nothing may be left in the
    kernel for the old description.  (The udp socket itself is never made readable while watched.)"""
    out = []
    for ring in (1, 0):
        for strict in (0, 1):
            for stop in ("", "T0,1 ", "T0,1 R "):
                for k2, m in (("s", 1), ("t", 9), ("e", 3)):
                    out.append("%d %d ; O0,d V0 S0,1 R %sU0,1 Q0,0 R O0,%s I0 S1,%d R K1 R K1 R ; " % (ring, strict, stop, k2, m))
                out.append("%d %d ; O0,d V0 S0,1 U0,1 R %sQ0,0 O0,d V0 S1,1 R K1 R R ; " % (ring, strict, stop))
    return out


def stale_case(rng, ring):
    """Stop, then close, while a dup keeps the open file description alive; the number is
    re-used by a new handle; then the OLD description becomes ready."""
    k1 = rng.choice("sstp")
    k2 = rng.choice("sste")
    first = rng.choice(["J0", "J0", "I0"])
    m1 = rng.choice([1, 3, 5, 9, 15]) if k1 != "p" else rng.choice([1, 5, 9])
    ops = ["O0,%s" % k1, first, "S0,%d" % m1]
    if rng.random() < 0.7:
        ops.append("K0")
    ops.append("R")
    if rng.random() < 0.8:
        ops.append("T0,15")                 # stopped before the close
        if rng.random() < 0.5:
            ops.append("R")
    ops += rng.choice([["U0,1", "C0", "X0"], ["C0", "U0,1", "X0"]])
    if rng.random() < 0.5:
        ops.append("R")
    ops += ["O0,%s" % k2, rng.choice(["I0", "I0", "J0"]), "S1,%d" % rng.choice([1, 3, 9]), "R"]
    ops += ["K1", "R", "R"]                 # the old description (through its dup) becomes ready
    if rng.random() < 0.5:
        ops += ["W1" if k1 in "st" else "K1", "R"]
    return "%d %d ; %s ; " % (ring, rng.choice([0, 1]), " ".join(ops))


# fixed scenarios (the regression cases of the two repaired defects are in corpus/C14/cases.txt)
FIXED = [
    # restart with another mask / stop / close from the callback of another handle of the batch
    ("1 1 ; O0,s O1,s O2,s I0 I1 I2 S0,1 S1,1 S2,3 K0 K1 K2 R R R ; S1,2 T2,0 | C0 | S2,1"),
    ("0 1 ; O0,s O1,s O2,s I0 I1 I2 S0,1 S1,1 S2,3 K0 K1 K2 R R R ; S1,2 T2,0 | C0 | S2,1"),
    # close + reopen with the same number inside a callback, new handle started in the batch
    ("1 1 ; O0,s O1,s I0 I1 S0,1 S1,1 K0 K1 R R R ; C1 X1 O1,s K1 I1 S2,1 | C0 X0 O0,s K0 I0 S3,3"),
    ("0 1 ; O0,s O1,s I0 I1 S0,1 S1,1 K0 K1 R R R ; C1 X1 O1,s K1 I1 S2,1 | C0 X0 O0,s K0 I0 S3,3"),
    # dup kept open elsewhere, handle closed, descriptor closed: nothing may stay in the kernel
    ("1 1 ; O0,s I0 S0,3 K0 U0,1 R C0 X0 R R O0,p I0 S1,1 R ; "),
    ("0 1 ; O0,s I0 S0,3 K0 U0,1 R C0 X0 R R O0,p I0 S1,1 R ; "),
    # hang-up / error translation, UV_EBADF stop on a pipe whose reader went away
    ("1 1 ; O0,q I0 S0,2 R H0 R R C0 R ; "),
    ("1 1 ; O0,s I0 S0,5 K0 R H0 R D0 R S0,2 R ; "),
    # bare watchers: partial stop -> MOD, stop to zero + start -> ADD/EEXIST/MOD, feed, close
    ("1 1 ; O0,s J0 S0,3 K0 R T0,2 R T0,1 R S0,1 R F0 R C0 R ; F0 | | T0,1"),
    ("0 1 ; O0,s J0 S0,3 K0 R T0,2 R T0,1 R S0,1 R F0 R C0 R ; F0 | | T0,1"),
]


# --------------------------------------------------------------------------
# trace handling
# --------------------------------------------------------------------------
def split_impl(line):
    """-> (ring flag, comparable line, full token list)"""
    toks = line.split()
    ringflag = None
    if toks and toks[0].startswith("ring="):
        ringflag = int(toks[0][5:])
        toks = toks[1:]
    # an open the kernel refused (answer -1) is an operation that was not performed
    comp = " ".join("-" if re.match(r"o\d+=-1$", t) else t.split("~")[0] for t in toks if t[0] != "~")
    return ringflag, comp, toks


def oracle_of(toks):
    fds, batches = [], []
    for t in toks:
        if t[0] == "o":
            fds.append(t.split("=")[1])
        elif t[0] == "P":
            body = t.split("~")[0][2:-1]
            b = body.split("|")[2]
            batches.append(",".join(x.replace(".", ":") for x in b.split(",") if x))
    return " ".join(fds), " / ".join(batches)


def parse_list(s, n):
    out = []
    for x in s.split(","):
        if x:
            out.append(tuple(int(v) for v in x.split(".")[:n]))
    return out


def monitor_tokens(toks):
    """Decide from the implementation's own trace whether the property is violated.
    Returns None or a reason."""
    H = {}              # h -> dict(fd, kind, closed, live(mask or None), epoch, pev (raw))
    npw = 0
    batch = {}          # fd -> events of the batch being dispatched
    expect = {}         # h -> fd : callbacks owed by the current batch
    complaints = []
    env_dirty = False   # a peer action since the batch was fetched: readiness may have changed

    def complain(kind, fd, h, text):
        complaints.append(text)

    def flush_expect():
        for h, fd in expect.items():
            complain("nofire", fd, h, "handle %d was started, its descriptor was reported ready for a "
                     "requested event by epoll_pwait, and no callback was made" % h)
        expect.clear()

    for t in toks:
        c = t[0]
        if c in "ij":
            m = re.match(r"[ij](\d+)=(-?\d+)@(\d+)$", t)
            h, rc, fd = int(m.group(1)), int(m.group(2)), int(m.group(3))
            if rc == 0:
                H[h] = dict(fd=fd, kind=c, closed=False, live=None, epoch=None, pev=0)
        elif c == "s":
            m = re.match(r"s(\d+),(\d+)=(-?\d+)$", t)
            h, mk, rc = int(m.group(1)), int(m.group(2)), int(m.group(3))
            x = H.get(h)
            if x is None:
                continue
            if x["kind"] == "i":
                if rc == 0:
                    x["live"] = mk if mk else None
                    x["epoch"] = npw
                    for j in [j for j, fd in expect.items() if fd == x["fd"]]:
                        del expect[j]
            else:
                x["pev"] |= uv2poll(mk)
        elif c == "t":
            m = re.match(r"t(\d+),(\d+)$", t)
            h, mk = int(m.group(1)), int(m.group(2))
            x = H.get(h)
            if x is None:
                continue
            if x["kind"] == "i":
                x["live"] = None
                for j in [j for j, fd in expect.items() if fd == x["fd"]]:
                    del expect[j]
            else:
                x["pev"] &= ~uv2poll(mk)
        elif c == "z":
            h = int(t[1:])
            x = H.get(h)
            if x is None:
                continue
            x["closed"] = True
            x["live"] = None
            x["pev"] = 0
            for j in [j for j, fd in expect.items() if fd == x["fd"]]:
                del expect[j]
        elif c == "c":
            body, _, rv = t[1:].partition("~")
            h, st, ev = [int(v) for v in body.split(",")]
            rvp = rv.split(",") if rv else []
            rev = int(rvp[0]) if rvp else None
            if rev is not None and rev < 0:
                rev = None                   # a notification file: poll(2) would consume the event
            fdvalid = (len(rvp) > 1 and rvp[1] == "1")
            x = H.get(h)
            if x is None or x["closed"]:
                return "poll callback for handle %d after uv_close() returned" % h
            if x["live"] is None:
                return "poll callback for handle %d after uv_poll_stop() returned (or before any start)" % h
            if not (x["epoch"] < npw):
                return ("poll callback for handle %d from a batch that epoll_pwait returned before the "
                        "handle was started (old event delivered to a new/restarted handle)" % h)
            expect.pop(h, None)
            rep = batch.get(x["fd"])
            if rep is None:
                return "poll callback for handle %d although epoll_pwait reported nothing for its descriptor" % h
            if st == 0:
                if ev == 0 or ev & ~x["live"]:
                    return "poll callback for handle %d with events %d, requested %d" % (h, ev, x["live"])
                if not (rep & (POLLERR | POLLHUP)) and ev & ~poll2uv(rep):
                    return "poll callback for handle %d with events %d, the kernel reported %d" % (h, ev, rep)
                if poll2uv(rep) & x["live"] & ~ev:
                    return ("requested and pending event(s) %d not reported to handle %d (requested %d, kernel "
                            "reported %d, callback got %d)" % (poll2uv(rep) & x["live"] & ~ev, h, x["live"], rep, ev))
                if rev is not None and not env_dirty and (rev & POLLNVAL or
                                        (not (rev & (POLLERR | POLLHUP)) and ev & ~poll2uv(rev))):
                    complain("unreal", x["fd"], h, "poll callback for handle %d with events %d but poll(2) on its "
                             "descriptor says %d: not really ready" % (h, ev, rev))
            elif st == UV_EBADF:
                if not rep & POLLERR:
                    return "UV_EBADF callback for handle %d, the kernel reported %d" % (h, rep)
                if rep & POLLPRI:
                    return ("UV_EBADF reported and handle %d stopped on a descriptor that is open and valid "
                            "(fcntl(F_GETFD) %s): the kernel reported POLLPRI together with POLLERR (%d), a "
                            "notification, not an error; requested %d" % (h, "succeeds" if fdvalid else "fails", rep, x["live"]))
                if rev is not None and not env_dirty and not rev & (POLLERR | POLLNVAL):
                    complain("unreal", x["fd"], h, "UV_EBADF callback for handle %d but poll(2) on its descriptor "
                             "says %d: no error condition" % (h, rev))
                x["live"] = None
            else:
                return "poll callback with status %d" % st
        elif c == "y":
            m = re.match(r"y(\d)@(\d+)=(.)$", t)
            k, fd, res = int(m.group(1)), int(m.group(2)), m.group(3)
            holders = [j for j, x in H.items() if x["fd"] == fd and not x["closed"] and
                       ((x["kind"] == "i" and x["live"]) or (x["kind"] == "j" and x["pev"]))]
            name = ["uv_pipe_open", "uv_tcp_open", "uv_udp_open"][k]
            if holders and res != "E":
                return "%s accepted descriptor %d which handle %d of the same loop is watching (must be UV_EEXIST)" % (name, fd, holders[0])
            if not holders and res == "E":
                return "%s refused descriptor %d with UV_EEXIST although no watcher is registered for it" % (name, fd)
        elif c == "w":
            h = int(t[1:].split(",")[0])
            x = H.get(h)
            if x is None or x["closed"]:
                return "watcher callback for %d after uv__io_close() returned" % h
            ev = int(t[1:].split(",")[1])
            if ev != POLLOUT and ev & ~(x["pev"] | POLLERR | POLLHUP):
                return "watcher callback for %d with events %d, requested %d" % (h, ev, x["pev"])
        elif c == "~":
            env_dirty = True
        elif c == "P":
            flush_expect()
            env_dirty = False
            body, _, extra = t.partition("~")
            parts = body[2:-1].split("|")
            if len(parts) != 3 or "?" in parts[1]:
                return "harness could not read the kernel interest set"
            wl = parse_list(parts[0], 3)
            kl = parse_list(parts[1], 2)
            bl = parse_list(parts[2], 2)
            npw += 1
            want = {}
            for h, x in H.items():
                if x["closed"]:
                    continue
                if x["kind"] == "i" and x["live"]:
                    want[h] = (x["fd"], uv2poll(x["live"]))
                elif x["kind"] == "j" and x["pev"]:
                    want[h] = (x["fd"], x["pev"])
            got = {h: (fd, pev) for h, fd, pev in wl}
            if got != want:
                return "libuv's registry at epoll_pwait is %s, the API calls so far ask for %s" % (sorted(got.items()), sorted(want.items()))
            kfds = {}
            for fd, m in kl:
                kfds.setdefault(fd, []).append(m)
            for h, (fd, pev) in sorted(want.items()):
                if pev not in kfds.get(fd, []):
                    complain("lack", fd, h, "kernel interest set at epoll_pwait has %s for descriptor %d, handle %d "
                             "watches it with mask %d" % (kfds.get(fd), fd, h, pev))
            for fd, ms in sorted(kfds.items()):
                if not [h for h, x in H.items() if x["fd"] == fd and not x["closed"]]:
                    complain("stale", fd, None, "kernel interest set at epoll_pwait still has descriptor %d (mask %s) "
                             "of a closed handle" % (fd, ms))
                elif len(ms) > 1:
                    complain("dupent", fd, None, "kernel interest set has %d registrations under number %d: one of "
                             "them is a stale open file" % (len(ms), fd))
                elif fd in [v[0] for v in want.values()] and ms[0] not in [v[1] for v in want.values() if v[0] == fd]:
                    pass  # reported by "lack" above
            batch = {}
            for fd, ev in bl:
                batch[fd] = batch.get(fd, 0) | ev
            # level-triggered: every started handle whose descriptor is really ready is owed a callback
            for item in extra.split(","):
                if not item:
                    continue
                h, rev, req = [int(v) for v in item.split(".")]
                x = H.get(h)
                if x is None or x["live"] is None or not (x["epoch"] < npw):
                    continue
                if rev >= 0 and rev & (uv2poll(req) | POLLERR | POLLHUP) and not rev & POLLNVAL:
                    if x["fd"] not in batch:
                        complain("lack", x["fd"], h, "descriptor %d of started handle %d is ready (poll(2): %d, requested "
                                 "%d) and epoll_pwait does not report it" % (x["fd"], h, rev, req))
                    elif batch[x["fd"]] & (uv2poll(x["live"]) | POLLERR | POLLHUP):
                        expect[h] = x["fd"]
        elif c == "x":
            fd = int(t[1:])
            for j in [j for j, f in expect.items() if f == fd]:
                del expect[j]
    flush_expect()
    if not complaints:
        return None
    return complaints[0]


def plan_mismatch(chk, line):
    """Evaluate the Coq skeleton [plan] (Model/IoPollBatch.v, tied to the model's polling loop by
    C14_repoll_follows_plan) inside coqc for each uv__io_poll segment of the harness line and compare
    the timeouts.  Returns a complaint or None."""
    segs = []
    for seg in line.split("|"):
        w = [[int(v) for v in t[1:].split(",")] for t in seg.split() if t[0] == "W"]
        if w:
            segs.append(w)
    if not segs:
        return None
    src = os.path.join(chk.scratch.dir, "c14_plan.v")
    with open(src, "w") as f:
        f.write("From UV Require Import Lib.Base Model.IoPollBatch.\nLocal Open Scope Z_scope.\n")
        for w in segs:
            ns = "; ".join("(%d%%nat, %s)" % (x[3], "true" if x[3] > 0 else "false") for x in w)
            f.write("Eval vm_compute in (plan 48 1024 (%d) [%s]).\n" % (w[0][0], ns))
    r = vf.sh(["timeout", "300", "coqc", "-Q", vf.COQ, "UV", src], cwd=os.path.dirname(src))
    if r.returncode != 0:
        return "the model skeleton could not be evaluated: %s" % (r.stdout + (r.stderr or ""))[-300:]
    got = [[int(v.replace("%Z", "").strip("() ")) for v in m.split(";") if v.strip()]
           for m in re.findall(r"=\s*\[([^\]]*)\]", r.stdout.replace("\n", " "))]
    chk.cov["fullbatch_plan_segments"] = chk.cov.get("fullbatch_plan_segments", 0) + len(segs)
    if len(got) != len(segs):
        return "the model skeleton printed %d results for %d segments" % (len(got), len(segs))
    for w, g in zip(segs, got):
        if [x[0] for x in w] != g:
            return ("epoll_pwait timeouts %s of one uv__io_poll (events returned: %s) differ from the model's %s"
                    % ([x[0] for x in w], [x[3] for x in w], g))
    return None


def fullbatch_check(chk, exe):
    """1024 events in one epoll_pwait batch (harness/c14_fullbatch.c).  The re-poll inside uv__io_poll is
    Model/IoPollBatch.v (theorems in Properties_C14_batch.v); its skeleton [plan] is compared with the
    timeouts the real calls were given (plan_mismatch).  In addition, on the implementation's trace: every epoll_pwait of the
    loop that may block (timeout != 0) must find watcher_queue flushed and the kernel interest set
    equal to the registry; the handle started from a callback of the full batch must be called."""
    for ring in (1, 0):
        out, rc, err = vf.run_lines([exe], [str(ring)], timeout=120)
        line = out[0] if out else ""
        rep = {"kind": "monitor", "obligation": "kernel in sync at every blocking epoll_pwait (full batch)",
               "case": "c14_fullbatch ring=%d" % ring, "impl": line}
        if line.startswith("SKIP") or not line:
            chk.assumptions.append("full-batch scenario skipped: %s" % (line or "no output"))
            print("note: C14 full-batch scenario skipped (%s)" % (line or "harness gave no output"))
            continue
        waits = [[int(v) for v in t[1:].split(",")] for t in line.split() if t[0] == "W"]
        chk.cov["fullbatch_epoll_pwait_calls"] = chk.cov.get("fullbatch_epoll_pwait_calls", 0) + len(waits)
        if not any(w[3] == 1024 for w in waits):
            chk.assumptions.append("full-batch scenario: no batch of 1024 events was returned")
            print("note: C14 full-batch scenario did not get a batch of 1024 events: %s" % line[:200])
            continue
        # correspondence with Model/IoPollBatch.v: the timeouts of the epoll_pwait calls of each
        # uv__io_poll are those of [plan 48 1024 T ns] for the numbers of events the real calls returned
        mism = plan_mismatch(chk, line)
        if mism:
            chk.violation("full batch: " + mism, dict(rep, kind="correspondence",
                          obligation="C14_repoll_follows_plan (timeouts of the re-polls)"), found_input=True)
        for t, wqe, sync, n in waits:
            if t != 0 and (wqe != 1 or sync != 1):
                chk.violation("full batch: epoll_pwait called with timeout %d (the loop may block) while %s"
                              % (t, "loop->watcher_queue is not flushed: a handle started by a callback of the "
                                 "batch is not registered in the kernel" if wqe != 1 else
                                 "the kernel interest set differs from libuv's registry"), rep, found_input=True)
                break
        else:
            m = re.search(r"cb=(\d+) hx=(\d+) ring=(\d)", line)
            if not m or int(m.group(1)) != 1024 or int(m.group(2)) != 1:
                chk.violation("full batch: callbacks %s (expected cb=1024 hx=1: every ready handle once, the handle "
                              "started from a callback of the batch in the next poll phase)" % (m.group(0) if m else "?"),
                              rep, found_input=True)
            elif int(m.group(3)) != ring:
                print("harness error: control ring configuration not as requested in the full-batch scenario")
                chk.scratch.cleanup()
                sys.exit(2)


def run_harness(exe, cases, shards=8):
    """Run the harness (one child process per case); a case on which it dies (abort() inside
    libuv, a crash, a hang) yields None and the run continues behind it."""
    import concurrent.futures
    n = (len(cases) + shards - 1) // shards
    parts = [cases[i:i + n] for i in range(0, len(cases), n)]

    def one(part):
        out = []
        while len(out) < len(part):
            rest = part[len(out):]
            o, rc, err = vf.run_lines([exe], rest, timeout=300)
            o = [None if "DIED" in l.split() else l for l in o[:len(rest)]]
            out += o
            if len(o) < len(rest):
                out.append(None)      # the case after the last complete line killed it
        return out[:len(part)]
    with concurrent.futures.ThreadPoolExecutor(shards) as ex:
        res = list(ex.map(one, parts))
    return [x for r in res for x in r]


def main():
    chk = vf.Check("C14")
    thorough = chk.tier == "thorough"
    chk.prove()
    try:
        lib = vf.build_libuv(chk.scratch, "ndebug")
        harness = vf.cc_harness(chk.scratch, "c14_poll", ["c14_poll.c"], lib=lib,
                                wraps=["epoll_pwait", "syscall"])
        hfull = vf.cc_harness(chk.scratch, "c14_fullbatch", ["c14_fullbatch.c"], lib=lib,
                              wraps=["epoll_pwait", "syscall"])
        model = vf.model_bin("C14")
    except vf.BuildError as e:
        chk.violation("build failed: %s" % str(e)[:300], {"kind": "build", "log": str(e)}, found_input=False)
        chk.finish(rule="build failed")

    corpus = []
    cp = os.path.join(vf.VERIF, "corpus", "C14", "cases.txt")
    if os.path.exists(cp):
        corpus = [l.rstrip("\n") for l in open(cp) if l.strip() and not l.startswith("#")]
    if chk.replay:
        # re-run the stored case only: implementation, model and monitor, printed in full
        import json
        d = json.load(open(chk.replay))
        c = d.get("case")
        if not c:
            print("replay file has no 'case' (kind: %s): nothing to re-run" % d.get("kind"))
            chk.scratch.cleanup()
            sys.exit(2)
        impl = run_harness(harness, [c], shards=1)
        print("case :", c)
        if impl[0] is None:
            print("impl : DIED (libuv aborted or crashed)")
            chk.violation("libuv aborted or crashed while running a script the model runs to the end",
                          {"kind": "correspondence", "case": c}, found_input=True)
            chk.finish(rule="replay of one stored case")
        rf, cl, toks = split_impl(impl[0])
        fds, pws = oracle_of(toks)
        mout, _, _ = vf.run_lines([model], ["%s ; %s ; %s" % (c, fds, pws)], timeout=60)
        reason = monitor_tokens(toks)
        print("impl :", impl[0])
        print("model:", mout[0] if mout else "(no output)")
        print("agree:", bool(mout) and vf.canon(cl) == vf.canon(mout[0]), " monitor:", reason)
        vf.diff_cases(chk, "core.c/linux.c/poll.c io watchers = Model/IoWatch.v (replay)", [c], [cl], mout,
                      lambda cc, a: reason)
        chk.finish(rule="replay of one stored case")

    fullbatch_check(chk, hfull)

    n = 120000 if thorough else 2400
    cases = list(FIXED) + corpus + sweep_cases() + notify_cases() + foreign_cases() + lownum_cases() + udp_cases()
    for i in range(1200 if thorough else 120):
        cases.append(stale_case(chk.rng, i % 2))
    for i in range(n):
        ring = i % 2
        strict = 1 if chk.rng.random() < 0.6 else 0
        cases.append(gen_case(chk.rng, ring, strict))

    impl = run_harness(harness, cases)
    dead = [c for c, l in zip(cases, impl) if l is None]
    for c in dead[:3]:
        chk.violation("libuv aborted or crashed while running a script the model runs to the end",
                      {"kind": "correspondence", "obligation": "no abort() under the usage discipline", "case": c},
                      found_input=True)
    if dead:
        keep = [i for i, l in enumerate(impl) if l is not None]
        cases = [cases[i] for i in keep]
        impl = [impl[i] for i in keep]
    comp, mcases, tokl = [], [], []
    ring_bad = 0
    for c, line in zip(cases, impl):
        rf, cl, toks = split_impl(line)
        if rf is None or rf != int(c.split()[0]):
            ring_bad += 1
        fds, pws = oracle_of(toks)
        comp.append(cl)
        tokl.append(toks)
        mcases.append("%s ; %s ; %s" % (c, fds, pws))
    if ring_bad:
        print("harness error: control ring configuration not as requested in %d cases "
              "(io_uring unavailable, or the syscall wrapper no longer intercepts it)" % ring_bad)
        chk.scratch.cleanup()
        sys.exit(2)
    mout, rc2, err2 = vf.run_lines([model], mcases, shards=8, timeout=300)

    mon = {}
    for c, toks in zip(cases, tokl):
        mon[c] = monitor_tokens(toks)
    vf.diff_cases(chk, "core.c/linux.c/poll.c io watchers = Model/IoWatch.v", cases, comp, mout,
                  lambda c, a: mon.get(c))

    ncb = sum(1 for toks in tokl for t in toks if t[0] == "c")
    nbad = sum(1 for toks in tokl for t in toks if t.startswith("c") and ",-9," in t)
    chk.cov["poll_callbacks_observed"] = ncb
    chk.cov["ebadf_callbacks_observed"] = nbad
    chk.cov["epoll_pwait_snapshots_compared"] = sum(1 for toks in tokl for t in toks if t[0] == "P")
    nnotif = 0
    for toks in tokl:
        for t in toks:
            if t[0] == "P":
                for fd, ev in parse_list(t.split("~")[0][2:-1].split("|")[2], 2):
                    if ev & POLLERR and ev & POLLPRI:
                        nnotif += 1
    chk.cov["notification_events_observed(POLLERR|POLLPRI)"] = nnotif
    if nnotif == 0:
        chk.assumptions.append("kernel notification file (/proc/sys/kernel/hostname in a private UTS namespace) "
                               "not available: the POLLERR|POLLPRI path of uv__poll_io was not exercised")
        print("note: C14 could not use a kernel notification file (unshare(CLONE_NEWUTS) refused?); "
              "POLLERR|POLLPRI path not exercised")
    chk.cov["foreign_open_attempts"] = sum(1 for toks in tokl for t in toks if t[0] == "y")
    chk.cov["cases_with_ring"] = sum(1 for c in cases if c.startswith("1"))
    chk.cov["cases_without_ring"] = sum(1 for c in cases if c.startswith("0"))
    chk.cov["cases_strict_discipline"] = sum(1 for c in cases if c.split()[1] == "1")
    chk.sample({"case": cases[-1], "impl": impl[-1][:400]})

    chk.finish(
        level="proof",
        rule="scripts of descriptor operations (open/dup/close, peer writes/hang-ups), uv_poll_init/start/"
             "stop/close, uv__io_start/stop/close/feed on bare watchers and uv_run(NOWAIT), with scripted "
             "callback behaviours, run on the real library with and without the io_uring control ring; "
             "descriptor numbers and epoll_pwait batches are recorded and fed to the model; compared: call "
             "results, callback trace, libuv's registry and /proc/self/fdinfo/<epoll fd> at every "
             "epoll_pwait; a case is non-trivial when its (case, trace) pair is distinct",
        trusted=["Coq 8.16.1 kernel (coqc)", "ExtrOcamlBasic extraction + OCaml 4.13.1 (ocaml/zutil.ml, drv_c14.ml)",
                 "harness/c14_poll.c, checks/c14.py (generator, monitor)", "gcc 12",
                 "Linux epoll / procfs fdinfo as observed through the harness"])


if __name__ == "__main__":
    main()
