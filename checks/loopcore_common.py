"""Shared by C01 and C03: generator, runner and trace utilities for the loop-core
model (coq/Model/LoopCore.v) against harness/loopcore.c."""
import os, re, sys
sys.path.insert(0, os.path.join(os.path.dirname(os.path.abspath(__file__)), "..", "lib"))
import vf

KINDS = "tipca"


def gen_case(rng, flavour):
    nh = rng.randint(1, 6)
    kinds = [rng.choice(KINDS) for _ in range(nh)]
    if flavour == "timers":
        kinds = [rng.choice("ttti") for _ in range(nh)]
    if flavour == "huge":
        kinds = [rng.choice("tttpa") for _ in range(nh)]
    t0 = rng.choice([0, 1000, 123456])
    metrics = rng.choice([0, 0, 1])

    HUGE = [2147483646, 2147483647, 2147483648, 4294967295, 4294967296, 4294967297, 3 * (1 << 31) + 5]
    huge_p = 0.5 if flavour == "huge" else 0.02

    def tv():
        # distances beyond INT_MAX ms exercise the clamp in uv__next_timeout (seeded change C03-4)
        if rng.random() < huge_p:
            return rng.choice(HUGE)
        return rng.choice([0, 0, 1, 2, 3, 5, 10, 10, 25, 100])

    def op(top):
        i = rng.randrange(nh + (1 if rng.random() < 0.05 else 0))
        k = kinds[i] if i < nh else "t"
        r = rng.random()
        if r < 0.22:
            if k == "t":
                return "S%d,%d,%d,%d" % (i, 0 if rng.random() < 0.05 else 1, tv(), rng.choice([0, 0, tv()]))
            if k in "ipc":
                return "W%d,%d" % (i, 0 if rng.random() < 0.08 else 1)
            return "E%d" % i
        if r < 0.34:
            return "T%d" % i if k != "a" else "E%d" % i
        if r < 0.42:
            return "U%d" % i
        if r < 0.48:
            return "F%d" % i
        if r < 0.58:
            return "C%d" % i
        if r < 0.62:
            return "G%d" % i if k == "t" else "E%d" % i
        if r < 0.65:
            return "P%d,%d" % (i, tv())
        if r < 0.70:
            return "Q%d" % rng.choice([1, 1, 0])
        if r < 0.72:
            return "X"
        if r < 0.74:
            return "V"
        if r < 0.80:
            return "A%d" % rng.choice([0, 1, 3, 10, 50])
        if r < 0.90:
            return "O L"
        if r < 0.95:
            return "B"
        if top:
            return "R%d O L" % rng.choice([0, 1, 1, 2, 2])
        return "L"
    ops = ["I%s,%d" % (k, 0 if (k == "a" and rng.random() < 0.1) else 1) for k in kinds]
    for i, k in enumerate(kinds):
        if rng.random() < 0.75:
            if k == "t":
                ops.append("S%d,1,%d,%d" % (i, tv(), rng.choice([0, 0, tv()])))
            elif k in "ipc":
                ops.append("W%d,1" % i)
            else:
                ops.append("E%d" % i)
    for _ in range(rng.randint(2, 14)):
        ops.append(op(True))
    ops.append("O L B")
    ops.append("R%d O L" % rng.choice([0, 0, 1, 2]))
    if rng.random() < 0.7:
        ops.append("R0 O L")
    ops.append("O Z")
    behs = []
    for _ in range(rng.randint(0, 30)):
        behs.append(" ".join(op(False) for _ in range(rng.choice([0, 0, 1, 1, 2, 3]))))
    return "%d %d ; %s ; %s" % (t0, metrics, " ".join(ops), " | ".join(behs))


def merge_polls(line):
    """Consecutive epoll_pwait calls of one poll phase (metrics mode polls with 0 first)
    are one blocking decision: merge them (sum; -1 absorbs; flags of the first)."""
    out = []
    for tok in line.split():
        if tok[0] == "w" and not -1 <= int(tok[1:].split(":")[0]) <= 2147483647:
            out.append("!range:" + tok)    # a single epoll_pwait timeout outside [-1, INT_MAX]; never merged
            continue
        if tok[0] == "w" and out and out[-1][0] == "w":
            a, fl = out[-1][1:].split(":")
            b = tok[1:].split(":")[0]
            a, b = int(a), int(b)
            out[-1] = "w%d:%s" % ((-1 if (a < 0 or b < 0) else a + b), fl)
        else:
            out.append(tok)
    return " ".join(out)


def build(chk, flavour="ndebug"):
    lib = vf.build_libuv(chk.scratch, flavour)
    h = vf.cc_harness(chk.scratch, "loopcore", ["loopcore.c"], lib=lib, flavour=flavour,
                      wraps=["clock_gettime", "epoll_pwait"])
    m = vf.model_bin("LOOPCORE")
    return lib, h, m


def run_both(h, m, cases, shards=8):
    a, rc, err = vf.run_lines([h], cases, shards=shards, timeout=300)
    b, rc2, err2 = vf.run_lines([m], cases, shards=shards, timeout=300)
    a = [merge_polls(x) for x in a]
    b = [merge_polls(x) for x in b]
    return a, b


def parse_obs(tok):
    parts = tok[1:].split(",")
    nact, nreq = int(parts[0]), int(parts[1])
    flags = [p for p in parts[2:] if p]
    return nact, nreq, flags
