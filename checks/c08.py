#!/usr/bin/env python3
"""C08 thread-pool requests: proofs (Properties_C08.v) + correspondence of Model/ThreadPool.v with
src/threadpool.c of the current tree.

The real pool (UV_THREADPOOL_SIZE 1..8, real worker threads) and 1-3 real loop threads run under
the serialising scheduler of harness/c08_pool.c; the extracted model runs the same schedule; the
two step records (who performed which synchronisation call, work / completion callbacks with
thread identity, uv_cancel results, uv_run results) are compared choice by choice (lock-step).
The monitor decides from the implementation's own record whether the property is violated."""
import os, sys
sys.path.insert(0, os.path.join(os.path.dirname(os.path.abspath(__file__)), "..", "lib"))
import vf

WRAPS = ["pthread_mutex_lock", "pthread_mutex_unlock", "pthread_cond_wait", "pthread_cond_signal",
         "pthread_create", "epoll_pwait", "uv__work_submit"]
ECANCELED, EBUSY = -125, -16
HARNESS_ERR = ("hang", "schederr", "forkfail", "bad", "initfail", "badpool", "abort", "crash")
REPRODUCIBLE = ("hang", "v3", "abort", "crash")     # a violation when the same case does it twice


def corpus(name):
    p = os.path.join(vf.VERIF, "corpus", "C08", name)
    if not os.path.exists(p):
        return []
    return [l.rstrip("\n") for l in open(p) if l.strip() and not l.startswith("#")]


# ------------------------------------------------------------------ generator
def gen_ops(rng, nops, maxreq, kinds, top):
    ops, subs = [], 0
    for _ in range(nops):
        r = rng.random()
        if r < 0.55:
            ops.append(rng.choice(kinds))
            subs += 1
        elif r < 0.82:
            ops.append("x%d" % rng.randrange(maxreq))
        elif r < 0.88:
            ops.append("T")
        elif top:
            ops.append("R")
        else:
            ops.append(rng.choice(kinds))
            subs += 1
    return ops, subs


def schedule(rng, nt, nloops, steps, rounds):
    ch = []
    style = rng.random()
    while len(ch) < steps:
        if style < 0.3:
            ch.append((rng.randrange(nt), rng.choice([0, 0, 0, 0, 0, 1, 2, 3])))
        elif style < 0.75:                       # bursts: one thread runs as far as it can
            t = rng.randrange(nt) if rng.random() < 0.7 else rng.randrange(nloops)
            a = rng.choice([0, 0, 0, 1, 2, 3])
            for _ in range(rng.randint(1, 6)):
                ch.append((t, a))
        else:                                    # a preferred subset of threads
            sub = [rng.randrange(nt) for _ in range(rng.randint(1, 3))]
            for _ in range(rng.randint(2, 10)):
                ch.append((rng.choice(sub), rng.choice([0, 0, 1, 2])))
    for _ in range(rounds):
        for t in range(nt):
            ch.append((t, 0))
    return " ".join("%d,%d" % c for c in ch)


def gen_case(rng, small=False):
    n = rng.choice([1, 1, 2, 2, 2, 3, 3, 4, 4, 5, 6, 7, 8]) if not small else rng.choice([1, 2, 2, 3])
    nloops = rng.choice([1, 1, 1, 1, 1, 1, 2, 2, 3]) if not small else 1
    mix = rng.random()
    kinds = ["c", "f", "s", "r"] if mix < 0.35 else ["s", "s", "s", "c", "f"] if mix < 0.75 else \
        ["s"] if mix < 0.85 else ["c", "f", "r"]
    budget = rng.randint(2, 5) if small else rng.randint(2, 12)
    progs, total = [], 0
    for _ in range(nloops):
        ops, subs = gen_ops(rng, max(1, budget // nloops + rng.randint(0, 2)), budget, kinds, True)
        if subs == 0:
            ops.insert(0, rng.choice(kinds))
            subs = 1
        progs.append(ops)
        total += subs
    behs = []
    for r in range(total):
        if rng.random() < 0.12:
            behs.append("%d:T" % r)
        elif rng.random() < 0.25 and total < 14:
            ops, subs = gen_ops(rng, rng.randint(1, 2), budget + 2, kinds, False)
            behs.append("%d:%s" % (r, "".join(ops)))
            total += subs
    nt = nloops + n
    steps = rng.randint(0, 12 * nt)
    rounds = 5 * total + 8
    return "%d ; %s ; %s ; %s" % (n, " | ".join("".join(p) or "-" for p in progs), " ".join(behs),
                                  schedule(rng, nt, nloops, steps, rounds))


def enum_configs(nworkers, maxreq):
    """Scripts with up to maxreq requests of kinds c/s: no cancel, a cancel right behind the
    submission, a cancel behind all submissions, a cancel from the first completion callback."""
    import itertools
    out = []
    for k in range(1, maxreq + 1):
        for kinds in itertools.product("cs", repeat=k):
            base = "".join(kinds)
            out.append("%d ; %s ; " % (nworkers, base))
            for i in range(k):
                out.append("%d ; %s ; " % (nworkers, base[:i + 1] + "x%d" % i + base[i + 1:]))
                if i + 1 < k:
                    out.append("%d ; %s ; " % (nworkers, base + "x%d" % i))
            if k >= 2:
                out.append("%d ; %s ; 0:x1" % (nworkers, base))
                out.append("%d ; %s ; 1:x0" % (nworkers, base))
                # uv_stop from a completion callback / from the script, with uv_run calls around
                out.append("%d ; %s ; 0:T 1:T" % (nworkers, base))
                out.append("%d ; %sRR ; 0:T" % (nworkers, base))
                out.append("%d ; %sTR ; 1:T" % (nworkers, base))
    return out


# ------------------------------------------------------------------ monitor
def parse_line(line):
    """-> (steps [(tid, [tokens] or None)], verdict, extra words)"""
    steps, verdict, extra = [], None, []
    for tk in line.split():
        if ":" in tk and tk[0].isdigit():
            t, rest = tk.split(":", 1)
            steps.append((int(t), None if rest == "-" else rest.split(".")))
        elif tk[0] == "v" and tk[1:].isdigit():
            verdict = int(tk[1:])
        else:
            extra.append(tk)
    return steps, verdict, extra


def monitor(case, line):
    f = case.split(";")
    n = int(f[0])
    nloops = len(f[1].split("|"))
    steps, verdict, extra = parse_line(line)
    for w in extra:
        return "run ended with " + w
    kind, owner = {}, {}
    nwork, ndone, status = {}, {}, {}
    cancel0 = set()
    running = {}                 # worker tid -> request being executed (until its completion step)
    completed = set()            # requests whose completion was queued by the worker
    outstanding = [0] * nloops
    cap = (n + 1) // 2
    for t, toks in steps:
        if toks is None:
            continue
        for tk in toks:
            c = tk[0]
            if tk == "!spin":
                return "thread %d runs without ever reaching a blocking point (spins)" % t
            if c == "!":
                return "harness check failed in a step of thread %d: %s" % (t, tk[1:])
            if c == "+":
                r = int(tk[1:-1])
                kind[r], owner[r] = tk[-1], t
                nwork[r] = ndone[r] = 0
                if t < nloops:
                    outstanding[t] += 1
            elif c == "w":
                r = int(tk[1:])
                nwork[r] = nwork.get(r, 0) + 1
                if nwork[r] > 1:
                    return "work function of request %d ran %d times" % (r, nwork[r])
                if t < nloops:
                    return "work function of request %d ran on loop thread %d" % (r, t)
                if r in cancel0:
                    return "uv_cancel(%d) returned 0 but the work function ran" % r
                if ndone.get(r, 0):
                    return "work function of request %d ran after its completion callback" % r
                running[t] = r
                slow = [x for x in running.values() if kind.get(x) == "s"]
                if len(slow) > cap:
                    return "%d slow requests running at once with %d threads (cap %d)" % (len(slow), n, cap)
            elif c == "l" and t >= nloops:
                if t in running:
                    completed.add(running.pop(t))
            elif c == "d":
                r, st = tk[1:].split(",")
                r, st = int(r), int(st)
                ndone[r] = ndone.get(r, 0) + 1
                status[r] = st
                if ndone[r] > 1:
                    return "completion callback of request %d ran %d times" % (r, ndone[r])
                if t >= nloops:
                    return "completion callback of request %d ran on pool thread %d" % (r, t)
                if owner.get(r) != t:
                    return "completion of request %d (loop %s) delivered on loop thread %d" % (r, owner.get(r), t)
                if r in cancel0:
                    if st != ECANCELED:
                        return "uv_cancel(%d) returned 0 but the callback reported %d" % (r, st)
                else:
                    if st == ECANCELED:
                        return "request %d reported UV_ECANCELED without a successful uv_cancel" % r
                    if r not in completed:
                        return "completion callback of request %d before its work function returned" % r
                outstanding[t] -= 1
            elif c == "c":
                r, code = tk[1:].split(",")
                r, code = int(r), int(code)
                if code == 0:
                    if nwork.get(r, 0):
                        return "uv_cancel(%d) returned 0 after the work function started" % r
                    cancel0.add(r)
                elif code != EBUSY:
                    return "uv_cancel(%d) returned %d" % (r, code)
                elif nwork.get(r, 0) == 0 and r not in cancel0:
                    return "uv_cancel(%d) returned UV_EBUSY although the request was still queued" % r
            elif c == "a":
                if tk == "a0" and t < nloops and outstanding[t] > 0:
                    return "uv_run returned 0 on loop %d with %d requests outstanding" % (t, outstanding[t])
    if verdict == 3:
        return "a thread spins"
    if verdict == 2:
        return "deadlock: requests outstanding and no thread can run"
    if verdict == 0:
        for r in kind:
            if ndone.get(r, 0) != 1:
                return "all loops returned but request %d had %d completion callbacks" % (r, ndone.get(r, 0))
    return None


# ------------------------------------------------------------------ kind table
FS_OPS = ["stat", "lstat", "fstat", "open", "close", "read", "write", "access", "mkdir", "rmdir", "unlink",
          "rename", "readlink", "realpath", "scandir", "opendir", "fsync", "fdatasync", "ftruncate", "chmod",
          "fchmod", "utime", "futime", "lutime", "copyfile", "sendfile", "statfs", "mkdtemp", "mkstemp", "link",
          "symlink", "chown", "fchown", "lchown"]
NI = {1: "NI_NUMERICHOST", 2: "NI_NUMERICSERV", 4: "NI_NOFQDN", 8: "NI_NAMEREQD", 16: "NI_DGRAM", 32: "NI_IDN"}


def kind_cases(rng, thorough):
    out = ["work", "rnd"]
    out += ["fs %d %s" % (i, n) for i, n in enumerate(FS_OPS)]
    for numeric in (0, 1):
        for node, service in (("127.0.0.1", "-"), ("127.0.0.1", "80"), ("::1", "443"), ("localhost", "-"),
                              ("example.invalid", "http"), ("-", "80"), ("xn--bcher-kva.invalid", "-")):
            out.append("gai %d %s %s" % (numeric, node, service))
    for flags in range(64):                       # every combination of the six glibc NI_* bits
        out.append("gni %d %d" % (flags, 4))
    for flags in (0, 1, 2, 3, 8, 16, 19, 63):
        out.append("gni %d %d" % (flags, 6))
    for fam in (0, 1, 3, 16, 17, 40):             # families uv_getnameinfo rejects (AF_UNSPEC, AF_UNIX, ...)
        out.append("gni 0 %d" % fam)
    for _ in range(300 if thorough else 40):      # other integers: the table says "every flags value"
        out.append("gni %d %d" % (rng.choice([rng.randrange(64, 256), rng.randrange(256, 2 ** 31 - 1)]),
                                  rng.choice([4, 6])))
    return out


def describe_api(case):
    t = case.split()
    if t[0] == "work":
        return "uv_queue_work"
    if t[0] == "rnd":
        return "uv_random (async)"
    if t[0] == "fs":
        return "uv_fs_%s (async)" % t[2]
    if t[0] == "gai":
        return "uv_getaddrinfo(node=%s, service=%s, ai_flags=%s)" % (t[2], t[3], "AI_NUMERICHOST" if t[1] == "1" else "0")
    f = int(t[1])
    names = "|".join(n for b, n in NI.items() if f & b) or "0"
    return "uv_getnameinfo(%s, flags=%d = %s)" % ("::1" if t[2] == "6" else "127.0.0.1" if t[2] == "4" else
                                                  "sa_family %s" % t[2], f, names)


def kind_monitor(case, line):
    """The property-level rule: name lookups are slow I/O (and land in the slow queue, so the cap
    applies), nothing else is."""
    f = line.split()
    if len(f) == 2 and f[0].startswith("rejected"):
        # a call the API refuses is not a request: nothing may stay registered with the loop
        if f[0] != "rejected-22":
            return "%s with an unsupported address family returned %s, expected UV_EINVAL" % (describe_api(case), f[0][8:])
        if f[1] != "reqs+0":
            return ("%s rejected with UV_EINVAL left loop->active_reqs changed by %s: the loop stays alive "
                    "(uv_run blocks, uv_loop_close gives UV_EBUSY) with no request in flight" % (describe_api(case), f[1][4:]))
        return None
    if len(f) != 2:
        return "kind harness ended with %r for %s" % (line, describe_api(case))
    kind, where = f
    lookup = case.split()[0] in ("gai", "gni")
    names = {"c": "UV__WORK_CPU", "f": "UV__WORK_FAST_IO", "s": "UV__WORK_SLOW_IO", "?": "?", "x": "an unknown kind"}
    if lookup and (kind != "s" or where != "slow"):
        return "%s is submitted as %s and queued in %s: not counted against the slow-I/O cap" % \
            (describe_api(case), names.get(kind, kind), "slow_io_pending_wq" if where == "slow" else "wq")
    if not lookup and (kind == "s" or where != "wq"):
        return "%s is submitted as %s and queued in %s: it competes for the slow-I/O share" % \
            (describe_api(case), names.get(kind, kind), "slow_io_pending_wq" if where == "slow" else where)
    return None


# ------------------------------------------------------------------ API-level completion
API_NAMES = ["work", "work0", "rnd", "fs_stat", "fs_lstat", "fs_missing", "fs_access", "fs_scandir", "fs_realpath",
             "gai", "gni"]
EAI_CANCELED = -3003
KEY_FORK = "fork_child_inherits_slow_io_count"


def api_cases():
    out = ["%s %d %s %d" % (a, fill, fate, -2 if a == "fs_missing" else 0)
           for a in API_NAMES for fill in (0, 0x5A, 0xFF) for fate in ("run", "cancel", "busy")]
    # pools of 2, 3, 4 and 8 threads: everything must complete as well
    out += ["%s %d run %d %d" % (a, 0x5A, -2 if a == "fs_missing" else 0, size)
            for size in (2, 3, 4, 8) for a in API_NAMES]
    return out


def api_fields(line):
    return dict(kv.split("=", 1) for kv in line.split() if "=" in kv)


def api_monitor_for(full):
    def monitor(case, line):
        api, fill, fate, wres = case.split()[:4]
        size = case.split()[4] if len(case.split()) > 4 else "1"
        what = "%s (UV_THREADPOOL_SIZE=%s) on memory filled with 0x%02X, %s" % (
            {"work": "uv_queue_work", "work0": "uv_queue_work(after_work_cb = NULL)", "rnd": "uv_random",
             "gai": "uv_getaddrinfo", "gni": "uv_getnameinfo"}.get(api, "uv_" + api), size, int(fill),
            {"run": "run to completion", "cancel": "cancelled while queued", "busy": "uv_cancel while running/finished"}[fate])
        f = api_fields(full.get(case, ""))
        if set(f) != {"sub", "can", "cbs", "st", "unreg", "run", "close"}:
            return "%s: harness ended with %r" % (what, full.get(case, ""))
        if f["sub"] != "0":
            return "%s: submission failed with %s" % (what, f["sub"])
        want_can = {"run": "-", "cancel": "0", "busy": str(EBUSY)}[fate]
        if f["can"] != want_can:
            return "%s: uv_cancel returned %s, expected %s" % (what, f["can"], want_can)
        want_cbs = "0" if api == "work0" else "1"
        if f["cbs"] != want_cbs:
            return "%s: %s completion callbacks, expected %s" % (what, f["cbs"], want_cbs)
        if api != "work0":
            want = str(EAI_CANCELED if api in ("gai", "gni") else ECANCELED) if fate == "cancel" else wres
            if f["st"] != want:
                return "%s: the callback reported %s, expected %s" % (what, f["st"], want)
        if f["unreg"] != "1":
            return "%s: the request was unregistered %s times (active_reqs does not return to its value)" % (what, f["unreg"])
        if f["run"] != "0" or f["close"] != "0":
            return "%s: afterwards uv_run returns %s and uv_loop_close %s" % (what, f["run"], f["close"])
        return None
    return monitor


def fork_cases():
    out = []
    for n in (1, 2, 3, 4, 5, 8):
        cap = (n + 1) // 2
        for k in sorted(set([0, 1, cap - 1, cap, cap + 1]) - {-1}):
            if 0 <= k <= 8:
                out.append("%d %d" % (n, k))
    return out


def fork_monitor(case, line):
    f = line.split()
    if len(f) != 3:
        return "fork harness ended with %r" % line
    if f[1] != "cpu=1":
        return "the CPU request of the forked child did not complete"
    if f[0] != "slow=1" or f[2] != "v0":
        return "KNOWN:" + KEY_FORK
    return None


def harness_error(line):
    return any(w in HARNESS_ERR for w in line.split()[-2:]) or line.strip() == ""


def main():
    chk = vf.Check("C08")
    harness_errors = []      # reported with exit 2 only when no part found a violation
    thorough = chk.tier == "thorough"
    chk.prove()
    try:
        lib = vf.build_libuv(chk.scratch, "ndebug")
        hpool = vf.cc_harness(chk.scratch, "c08_pool", ["c08_pool.c"], lib=lib, wraps=WRAPS)
        hkinds = vf.cc_harness(chk.scratch, "c08_kinds", ["c08_kinds.c"], lib=lib, wraps=["uv__work_submit"])
        hapi = vf.cc_harness(chk.scratch, "c08_api", ["c08_api.c"], lib=lib)
        hfork = vf.cc_harness(chk.scratch, "c08_fork", ["c08_fork.c"], lib=lib)
        hthr = vf.cc_harness(chk.scratch, "c08_threshold", ["c08_threshold.c"], lib=lib)
        model = vf.model_bin("C08")
    except vf.BuildError as e:
        chk.violation("build failed: %s" % str(e)[:300], {"kind": "build", "log": str(e)}, found_input=False)
        chk.finish(rule="build failed")
    scratch_file = os.path.join(chk.scratch.dir, "c08_stat_target")
    open(scratch_file, "w").write("x\n")
    env = dict(os.environ, C08_SCRATCH=scratch_file, UV_USE_IO_URING="0")
    env.pop("UV_THREADPOOL_SIZE", None)

    def run_impl(cases, shards=14):
        out, _, _ = vf.run_lines([hpool], cases, env=env, shards=shards, timeout=1200)
        return out

    # kind table: every public API with a spread of arguments, kind handed to uv__work_submit
    def kind_part(kc):
        sdir = os.path.join(chk.scratch.dir, "c08_kinds_dir")
        os.makedirs(sdir, exist_ok=True)
        kenv = dict(env, C08_SCRATCH_DIR=sdir)
        ka, _, _ = vf.run_lines([hkinds], kc, env=kenv, shards=4, timeout=600)
        kb, _, _ = vf.run_lines([model, "kinds"], kc)
        # families uv_getnameinfo rejects are not requests: the expected line is written here, not by the
        # model (api_kind speaks about calls that are accepted)
        if len(kb) == len(kc):
            kb = ["rejected-22 reqs+0" if c.startswith("gni ") and c.split()[2] not in ("4", "6") else l
                  for c, l in zip(kc, kb)]
        if len(ka) == len(kc):      # uv_queue_work's own call cannot be intercepted: kind prints as "?"
            ka = [("? " + l.split()[1]) if c == "work" and l.split()[:1] == ["c"] else l for c, l in zip(kc, ka)]
        bad = [l for l in ka if len(l.split()) != 2]
        if bad and all(w in l for l in bad for w in ["fail"]) or len(ka) != len(kc):
            harness_errors.append("kind harness: %r" % (bad[:2] or "line count",))
            return
        vf.diff_cases(chk, "work kind of every API = Model/ThreadPool.v api_kind (kind table)", kc, ka, kb,
                      kind_monitor)
        chk.cov["kind_table"] = {"cases": len(kc), "apis": 2 + len(FS_OPS) + 2,
                                 "getnameinfo_flag_values": sum(1 for c in kc if c.startswith("gni"))}

    # API-level completion: every public submitter through its own completion wrapper
    def api_part(ac):
        sdir = os.path.join(chk.scratch.dir, "c08_api_dir")
        os.makedirs(sdir, exist_ok=True)
        aa, _, _ = vf.run_lines([hapi], ac, env=dict(env, C08_SCRATCH_DIR=sdir), shards=8, timeout=900)
        ab, _, _ = vf.run_lines([model, "api"], ac)
        if len(aa) != len(ac):
            harness_errors.append("api harness printed %d lines for %d cases" % (len(aa), len(ac)))
            return
        full = dict(zip(ac, aa))
        cmp_lines = []
        for l in aa:
            f = api_fields(l)
            cmp_lines.append("cbs=%s st=%s unreg=%s" % (f.get("cbs"), f.get("st"), f.get("unreg"))
                             if "cbs" in f else l)
        vf.diff_cases(chk, "completion wrappers of the public APIs = Model/ThreadPool.v complete_api", ac, cmp_lines,
                      ab, api_monitor_for(full))
        chk.cov["api_completion_cases"] = len(ac)

    # fork: the child's pool
    def fork_part(fc):
        fa, _, _ = vf.run_lines([hfork], fc, env=env, shards=6, timeout=900)
        cur, _, _ = vf.run_lines([model, "fork"], fc)
        fix, _, _ = vf.run_lines([model, "forkfix"], fc)
        if len(fa) != len(fc):
            harness_errors.append("fork harness printed %d lines for %d cases" % (len(fa), len(fc)))
            return
        broken = [l for l in fa if len(l.split()) != 4]
        if broken:                   # run them again: a hang that repeats is the library's
            again, _, _ = vf.run_lines([hfork], [c for c, l in zip(fc, fa) if len(l.split()) != 4], env=env, timeout=900)
            if [l.split()[-1:] for l in again] != [l.split()[-1:] for l in broken]:
                harness_errors.append("fork harness: %r then %r" % (broken[:2], again[:2]))
                return
        inherited = {c: (l.split()[3] if len(l.split()) == 4 else "") for c, l in zip(fc, fa)}
        chk.cov["fork_child_sees_counters"] = sorted(set(inherited.values()))
        fa = [" ".join(l.split()[:3]) if len(l.split()) == 4 else l for l in fa]
        # the model of the pre-fix code inherits the counters (fork_child); a tree that resets them
        # (98bcc59, notes/C08_fix_fork_counters.diff) is compared with fork_child_fixed
        fixed_tree = [a == y and a != x for a, x, y in zip(fa, cur, fix)]
        inherits = [a == x and a != y for a, x, y in zip(fa, cur, fix)]
        chk.cov["fork_fix_present"] = any(fixed_tree) or not any(inherits)
        fb = [x if inh else y for inh, x, y in zip(inherits, cur, fix)]

        def monitor(case, line):
            f = line.split()
            if len(f) != 3:
                return "forked child (pool of %s, %s slow requests at the fork): the run ended with %r" % \
                    (case.split()[0], case.split()[1], line)
            if f[1] != "cpu=1":
                return "the CPU request of the forked child did not complete"
            if f[0] != "slow=1" or f[2] != "v0":
                n = int(case.split()[0])
                inh = inherited.get(case, "").replace("inherited=", "").split(",")
                if inh and inh[0].isdigit() and int(inh[0]) >= (n + 1) // 2:
                    return "KNOWN:" + KEY_FORK
                return "pool of %d threads, child of a fork with slow_io_work_running=%s: its slow request never runs" \
                    % (n, inh[0] if inh else "?")
            return None
        vf.diff_cases(chk, "pool of a forked child = Model/ThreadPool.v fork_child", fc, fa, fb, monitor)

    # slow_work_thread_threshold() itself, for every pool size init_threads can produce
    def threshold_part():
        rng_lines = ["%d %d" % (a, min(a + 127, 1024)) for a in range(1, 1025, 128)]
        ta, _, _ = vf.run_lines([hthr], rng_lines)
        tb, _, _ = vf.run_lines([model, "threshold"], rng_lines)
        cases_t, ia, ib = [], [], []
        if len(ta) != len(rng_lines) or len(tb) != len(rng_lines):
            harness_errors.append("threshold harness printed %d/%d lines" % (len(ta), len(tb)))
            return
        for la, lb in zip(ta, tb):
            for x, y in zip(la.split(), lb.split()):
                cases_t.append("nthreads=" + x.split(":")[0]); ia.append(x); ib.append(y)

        def monitor(case, line):
            n, t = [int(v) for v in line.split(":")]
            if not (1 <= t <= n):
                return "slow_work_thread_threshold() = %d for a pool of %d threads: %s" % \
                    (t, n, "no slow-I/O request can ever run" if t < 1 else "more than the pool")
            if t != (n + 1) // 2:
                return "slow_work_thread_threshold() = %d for a pool of %d threads, the cap is (n+1)/2 = %d" % (t, n, (n + 1) // 2)
            return None
        vf.diff_cases(chk, "slow_work_thread_threshold = Model/ThreadPool.v threshold (n = 1..1024)", cases_t, ia, ib, monitor)

    if chk.replay:
        rp = __import__("json").load(open(chk.replay))
        if rp.get("obligation", "").startswith("slow_work_thread_threshold"):
            threshold_part()
            chk.finish(level="proof", rule="replay: the threshold table")
        if rp.get("obligation", "").startswith("completion wrappers"):
            api_part([rp["case"]])
            chk.finish(level="proof", rule="replay of an API completion case")
        if rp.get("obligation", "").startswith("pool of a forked child"):
            fork_part([rp["case"]])
            chk.finish(level="proof", rule="replay of a fork case")
        if rp.get("obligation", "").startswith("work kind"):
            kind_part([rp["case"]])
            chk.finish(level="proof", rule="replay of a kind-table case")
        cases = [rp["case"]]
    else:
        kind_part(corpus("kinds.txt") + kind_cases(chk.rng, thorough))
        threshold_part()
        api_part(api_cases())
        fork_part(fork_cases())
        cases = corpus("cases.txt")
        cases += [gen_case(chk.rng, small=True) for _ in range(2000 if thorough else 150)]
        cases += [gen_case(chk.rng) for _ in range(12000 if thorough else 450)]
        # every schedule (choices among enabled threads, no spurious wake-ups) of small configurations
        for nw, maxreq, limit in ([(1, 3, 10 ** 7), (2, 2, 10 ** 7), (3, 1, 10 ** 7), (2, 3, 3000), (3, 2, 1500)] if thorough
                                  else [(1, 2, 10 ** 7), (2, 1, 10 ** 7), (3, 1, 10 ** 7)]):
            cfgs = enum_configs(nw, maxreq)
            ex, _, _ = vf.run_lines([model, "enum", str(limit)], cfgs, timeout=1800, shards=8)
            ex = [l for l in ex if l.strip()]
            chk.cov.setdefault("enumerated", []).append(
                {"workers": nw, "max_requests": maxreq, "configurations": len(cfgs), "schedules": len(ex),
                 "exhaustive": limit >= 10 ** 7})
            cases += ex
    a = run_impl(cases)
    b, _, _ = vf.run_lines([model], cases, shards=8)

    # watchdog / scheduler trouble: every such case is run a second time.  A hang, spin, abort or
    # crash that the same case shows again is a property of the library under that schedule and goes
    # to the monitor (violation with this case as the failing input); anything else is a harness
    # error (exit 2).
    if len(a) == len(cases):
        bad = [i for i, l in enumerate(a) if harness_error(l) or l.split()[-1:] == ["v3"]]
        if bad:
            second = run_impl([cases[i] for i in bad[:40]], shards=14)
            flaky, fatal = 0, None
            for i, l2 in zip(bad[:40], second):
                def cls(l):
                    w = l.split()[-1:] or [""]
                    return w[0]
                if cls(l2) == cls(a[i]) and cls(l2) in REPRODUCIBLE:
                    continue
                if harness_error(l2) or cls(l2) == "v3":
                    fatal = fatal or (cases[i], a[i][-60:], l2[-60:])
                else:
                    a[i] = l2
                    flaky += 1
            chk.cov["watchdog"] = {"cases": len(bad), "rerun": len(bad[:40]), "not_reproduced": flaky}
            if fatal:
                harness_errors.append("case %r ended with %r and then %r" % fatal)
    vf.diff_cases(chk, "threadpool.c = Model/ThreadPool.v (lock-step under the serialising scheduler)",
                  cases, a, b, monitor)

    stats = {"steps": 0, "skips": 0, "v0": 0, "v1": 0, "v2": 0, "cancel_ok": 0, "cancel_busy": 0,
             "work": 0, "done": 0, "signals": 0, "waits": 0}
    for l in a:
        for tk in l.split():
            if tk.endswith(":-"):
                stats["skips"] += 1
            elif ":" in tk:
                stats["steps"] += 1
                body = tk.split(":", 1)[1].split(".")
                stats["work"] += sum(1 for x in body if x[0] == "w")
                stats["done"] += sum(1 for x in body if x[0] == "d")
                stats["signals"] += body.count("S")
                stats["waits"] += body.count("W")
                stats["cancel_ok"] += sum(1 for x in body if x[0] == "c" and x.endswith(",0"))
                stats["cancel_busy"] += sum(1 for x in body if x[0] == "c" and x.endswith(",-16"))
            elif tk in ("v0", "v1", "v2"):
                stats[tk] += 1
    chk.cov["schedule_stats"] = stats
    chk.cov["pool_sizes"] = sorted(set(int(c.split(";")[0]) for c in cases))
    if cases:
        chk.sample({"case": cases[-1][:160], "impl": a[-1][:300] if a else None})

    if harness_errors and not chk.violations:
        for h in harness_errors:
            print("HARNESS-ERROR: " + h)
        chk.scratch.cleanup()
        sys.exit(2)
    for h in harness_errors:
        print("note: harness error in one part (violations of the other parts are reported): " + h)
    chk.finish(
        level="proof",
        rule="slow_work_thread_threshold() for nthreads 1..1024; API completion: 11 submitters x request memory pre-filled with 0x00/0x5A/0xFF x {run, cancelled while "
             "queued, uv_cancel while running or finished}: callback count and status, unregistration, uv_run and "
             "uv_loop_close afterwards; fork: pools of 1-8 threads with 0..cap+1 slow requests running at the fork, the "
             "child submits one slow and one CPU request; kind table: every public API that uses the pool (uv_queue_work, uv_random, 34 uv_fs_*, uv_getaddrinfo, "
             "uv_getnameinfo with all 64 NI_* flag combinations and other integers) called once per argument set, the "
             "kind handed to uv__work_submit and the queue the request lands in compared with api_kind; "
             "random scripts (1-3 loops, 1-8 pool threads, CPU / fs / getaddrinfo / random requests, uv_cancel "
             "at random points incl. from completion callbacks, uv_run(NOWAIT) calls) x random schedules "
             "(uniform, bursty, thread subsets; signal-target and spurious wake-up choices) with a round-robin "
             "tail; compared step by step with the model; thorough adds enumerated schedules of small "
             "configurations; non-trivial = distinct (case, implementation trace)",
        trusted=["Coq 8.16.1 kernel (coqc)",
                 "ExtrOcamlBasic extraction + OCaml 4.13.1 + zarith glue (ocaml/zutil.ml, drv_c08.ml)",
                 "harness/c08_pool.c (serialising scheduler, wrappers), checks/c08.py (generator, monitor)",
                 "gcc 12, glibc 2.36, Linux epoll/eventfd; sequential consistency through mutex hand-offs (assumed)"],
        explanation="partial for 'effects visible' (memory model, assumed SC via mutex hand-offs) and for "
                    "preemption inside critical sections, which a serialised run cannot exhibit")


if __name__ == "__main__":
    main()
