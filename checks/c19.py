#!/usr/bin/env python3
"""C19 string getters: proofs (Properties_C19.v) + correspondence of Model/Getters.v with
the getters of the freshly built libuv, called with the buffer ending at a PROT_NONE page
for every size from 1 to beyond the needed length (harness/c19_getters.c)."""
import concurrent.futures, json, os, subprocess, sys
sys.path.insert(0, os.path.join(os.path.dirname(os.path.abspath(__file__)), "..", "lib"))
import vf

ENOBUFS, ERANGE = -105, -34
PATH_MAX = 4096
HAS_SIZE = {"getenv", "homedir", "tmpdir", "hostname", "cwd", "fsevent", "fspoll", "ifname",
            "sockname", "peername", "exepath"}
TRUNCATING = {"exepath", "thread", "errname", "strerror"}
KNOWN_CWD = "cwd_longer_than_path_max_erange"
KNOWN_ERRS = set()        # UV_ERRNO_MAP codes, filled from the harness (--list-errs)
WRAPS = ["getpwuid_r", "gethostname", "if_indextoname", "readlink"]
ARGV_PAD = 300          # extra argv bytes so that process titles of many lengths fit


def hx(b):
    return "x" + bytes(b).hex()


def rbytes(rng, n, alphabet=None):
    if alphabet is None:
        return bytes(rng.randrange(1, 0x80) for _ in range(n))
    return bytes(rng.choice(alphabet) for _ in range(n))


PRINT = bytes(range(0x21, 0x7f)).replace(b"/", b"")


def all_caps(n):
    return list(range(1, n + 4))


def edge_caps(rng, n, extra=()):
    s = {1, 2, 3}
    for d in range(-2, 4):
        if n + d >= 1:
            s.add(n + d)
    for _ in range(3):
        s.add(rng.randint(1, n + 3))
    for e in extra:
        if e >= 1:
            s.add(e)
    return sorted(s)


def line(getter, args, caps):
    return "%s %s | %s" % (getter, " ".join(args), " ".join(str(c) for c in caps))


# --------------------------------------------------------------------------
# case generation, one list per getter group
# --------------------------------------------------------------------------
def gen_cases(rng, thorough, base_len, errs, exe_len=60, ev_len=60):
    g = {}
    full = 600 if thorough else 260          # value lengths swept with every cap
    nbig = 60 if thorough else 16
    BIG = [255, 256, 257, 1023, 1024, 4095, 4096, 4097, 5000]

    def biglens(lo, hi):
        return [b for b in BIG if lo < b <= hi] + [rng.randint(lo + 1, hi) for _ in range(nbig)]

    c = []
    for n in range(0, full + 1):
        c.append(line("getenv", [hx(rbytes(rng, n))], all_caps(n)))
    for n in biglens(full, 5000):
        c.append(line("getenv", [hx(rbytes(rng, n))], edge_caps(rng, n)))
    g["getenv"] = c

    c = []
    for n in range(0, 48):
        c.append(line("homedir", [hx(rbytes(rng, n)), "real"], all_caps(n)))
        c.append(line("homedir", ["-", hx(b"/" + rbytes(rng, n, PRINT))], all_caps(n + 1)))
    c.append(line("homedir", ["-", "real"], all_caps(40)))
    c.append(line("homedir", ["-", hx(b"")], all_caps(2)))
    for n in biglens(48, 5000)[:8]:
        c.append(line("homedir", [hx(rbytes(rng, n)), hx(b"/nope")], edge_caps(rng, n)))
        c.append(line("homedir", ["-", hx(rbytes(rng, n))], edge_caps(rng, n)))
    g["homedir"] = c

    c = []

    def tmp_variants(n):
        core = rbytes(rng, n, PRINT)
        out = [core, core + b"/", core + b"//", b"/" + core, b"/" + core + b"/", b"/" + core + b"//"]
        return out
    for n in range(0, 40):
        for v in tmp_variants(n):
            slot = rng.randrange(4)
            args = ["-"] * 4
            args[slot] = hx(v)
            for later in range(slot + 1, 4):          # later variables must not matter
                if rng.random() < 0.5:
                    args[later] = hx(rbytes(rng, rng.randint(0, 30)))
            c.append(line("tmpdir", args, all_caps(len(v))))
    for v in [b"", b"/", b"//", b"///", b"a", b"a/", b"/tmp", b"/tmp/"]:
        c.append(line("tmpdir", [hx(v), "-", "-", "-"], all_caps(len(v))))
        c.append(line("tmpdir", ["-", "-", "-", hx(v)], all_caps(len(v))))
    c.append(line("tmpdir", ["-", "-", "-", "-"], all_caps(6)))
    for n in biglens(40, 5000)[:8]:
        v = rbytes(rng, n) + rng.choice([b"", b"/", b"//"])
        c.append(line("tmpdir", [hx(v), "-", "-", "-"], edge_caps(rng, len(v))))
    g["tmpdir"] = c

    c = [line("hostname", ["real"], all_caps(70))]
    for n in range(0, 72):
        c.append(line("hostname", [hx(rbytes(rng, n, PRINT))], all_caps(n)))
    for n in [100, 255, 256, 300]:
        c.append(line("hostname", [hx(rbytes(rng, n, PRINT))], all_caps(70)))
    # the kernel's own host name, really set (private UTS namespace in a forked child; needs root)
    for n in [1, 2, 63, 64] + [rng.randint(3, 62) for _ in range(4)]:
        c.append(line("hostname", ["u" + bytes(rbytes(rng, n, b"abcdefghijklmnopqrstuvwxyz0123456789-")).hex()],
                      all_caps(70)))
    g["hostname"] = c

    # working directories: nested directories below the group's start directory
    c = [line("cwd", [], all_caps(base_len))]

    def comps_for(total):
        """component lengths so that the cwd has exactly [total] bytes"""
        rest = total - base_len
        comps = []
        while rest > 0:
            if rest >= 256 + 2:
                comps.append(255)
                rest -= 256
            elif rest > 256:            # avoid leaving a remainder of 1 ("/" + nothing)
                comps.append(200)
                rest -= 201
            else:
                comps.append(rest - 1)
                rest = 0
        return [x for x in comps if x >= 1]
    short = [base_len + 2, base_len + 3, base_len + 17] + [base_len + rng.randint(4, 300) for _ in range(4)]
    for t in short:
        c.append(line("cwd", [str(x) for x in comps_for(t)], all_caps(t)))
    mids = [1000, 2048, 4000, 4093, 4094, 4095, 4096] + [rng.randint(base_len + 301, 4092) for _ in range(6 if thorough else 2)]
    for t in mids:
        if t > base_len + 1:
            c.append(line("cwd", [str(x) for x in comps_for(t)], edge_caps(rng, t, [16, 4096, 4097, 4098])))
    for t in [4097, 4098, 4200, 5035, 8000] + [rng.randint(4099, 12000) for _ in range(3)]:
        c.append(line("cwd", [str(x) for x in comps_for(t)], edge_caps(rng, t, [16, 4095, 4096, 4097, 4098])))
    # the root directory, one-character directories, and paths written with trailing slashes / dots
    # ("=" as is, "^" inside a chroot of the start directory, "~" below the start directory); the
    # harness does these in a forked child and reports what getcwd says there
    for pth in ["=/", "=/.", "=//", "=/tmp/", "=/tmp/.", "^/", "^/a", "^/a/", "^/a/.", "^/a/b/..", "^/b/./c//",
                "^/%s" % chr(rng.randrange(0x62, 0x7b)), "^/a/%s/" % chr(rng.randrange(0x62, 0x7b))]:
        c.append(line("cwd", [pth], all_caps(14)))
    for pth in ["~x/", "~x/./y/.", "~x/y/../", "~./z//"]:
        c.append(line("cwd", [pth], all_caps(base_len + len(pth) + 2)))
    g["cwd"] = c

    c = [line("fsevent", ["-"], [1, 2, 3, 10])]

    def ev_path(n):
        # "./" repeated, then a file name; n >= 1
        name_len = 1 + (n - 1) % 2 if n < 40 else min(200, n - 2 * ((n - 100) // 2 if n > 300 else 1))
        name_len = max(1, min(name_len, n))
        dots = (n - name_len) // 2
        name_len = n - 2 * dots
        return b"./" * dots + b"f" * name_len
    for n in range(1, 130):
        c.append(line("fsevent", [hx(ev_path(n))], all_caps(n)))
    for n in [255, 256, 1000, 2000, 4000, 4095]:
        c.append(line("fsevent", [hx(ev_path(n))], edge_caps(rng, n)))
    # directories spelled with trailing slashes / dots, relative (e) and absolute (E); the harness lets an
    # event on the watched directory itself be dispatched (chmod, loop run, callback) before the sweep
    spelled = [b"d/", b"d//", b"d/./", b"d", b"./d/", b"dd/e/", b"d///", b"d/e/../", b"q" + rbytes(rng, 5, PRINT) + b"/"]
    for sp in spelled:
        c.append(line("fsevent", ["e" + sp.hex()], all_caps(len(sp))))
        c.append(line("fsevent", ["E" + sp.hex()], all_caps(ev_len + 1 + len(sp))))
    g["fsevent"] = c

    c = [line("fspoll", ["-"], [1, 2, 3, 10])]
    for n in range(0, 130):
        c.append(line("fspoll", [hx(rbytes(rng, n))], all_caps(n)))
    for n in biglens(130, 5000)[:8]:
        c.append(line("fspoll", [hx(rbytes(rng, n))], edge_caps(rng, n)))
    for sp in [b"d/", b"d//", b"d/./", b"d", b"dd/e/"]:        # after a poll callback
        c.append(line("fspoll", ["e" + sp.hex()], all_caps(len(sp))))
        c.append(line("fspoll", ["E" + sp.hex()], all_caps(ev_len + 1 + len(sp))))
    g["fspoll"] = c

    c = []
    for i in range(1, 9):
        c.append(line("ifname", ["r%d" % i], all_caps(17)))
    for n in range(0, 18):
        for _ in range(2):
            c.append(line("ifname", [hx(rbytes(rng, n, PRINT))], all_caps(n + 1)))
    g["ifname"] = c

    c = [line("sockname", ["-"], all_caps(3)), line("sockname", [hx(b"")], all_caps(8))]
    tag = ("%08x" % rng.getrandbits(32)).encode()
    for n in range(1, 109):
        c.append(line("sockname", [hx((b"s" + tag + b"k" * 108)[:n])], all_caps(n)))
    for n in range(1, 109):
        nm = (b"\0" + (tag + rbytes(rng, 108, PRINT))[:max(0, n - 1)]) if n > 9 else \
            (b"\0" + rbytes(rng, n - 1, PRINT))
        c.append(line("sockname", [hx(nm)], all_caps(n)))
    g["sockname"] = c
    c = []
    for n in [1, 2, 3, 17, 50, 106, 107, 108]:
        c.append(line("peername", [hx((b"p" + tag + b"q" * 108)[:n])], all_caps(n)))
        if n > 9:
            c.append(line("peername", [hx((b"\0P" + tag + rbytes(rng, 108, PRINT))[:n])], all_caps(n)))
    g["peername"] = c

    c = [line("exepath", ["real"], all_caps(200))]
    for n in range(0, 130):
        c.append(line("exepath", [hx(b"/" + rbytes(rng, n, PRINT))], all_caps(n + 1)))
    c.append(line("exepath", [hx(b"")], all_caps(1)))
    for n in biglens(130, 5000)[:8]:
        c.append(line("exepath", [hx(rbytes(rng, n))], edge_caps(rng, n)))
    # a running executable whose file was unlinked (/proc/self/exe ends in " (deleted)") and one whose
    # file name really ends in that text: the harness runs a copy of itself
    c.append(line("exepath", ["deleted"], all_caps(exe_len + 40)))
    c.append(line("exepath", ["literal"], all_caps(exe_len + 40)))
    g["exepath"] = c

    c = []
    for n in range(0, 80):
        c.append(line("title", [hx(rbytes(rng, n, PRINT))], all_caps(n)))
    for n in [ARGV_PAD - 20, ARGV_PAD, ARGV_PAD + 10, ARGV_PAD + 60, ARGV_PAD + 200, 2 * ARGV_PAD + 300]:
        c.append(line("title", [hx(rbytes(rng, n, PRINT))], all_caps(n)))
    g["title"] = c

    c = []
    for n in range(0, 16):
        for _ in range(3):
            c.append(line("thread", [hx(rbytes(rng, n, PRINT))], list(range(1, 24))))
    g["thread"] = c

    # codes outside UV_ERRNO_MAP, every digit count and both signs; their text is
    # "Unknown system error " + decimal (up to 32 characters), every size 1..80
    unknown = [0, 1, -1, 7, 12345, 99999, -99999, -1000000000, -999999999, 1000000000, 2147483647, -2147483647,
               -2147483648, -4096, -4094]
    for d in range(1, 11):
        lo, hi = 10 ** (d - 1), min(10 ** d - 1, 2147483647)
        unknown += [rng.randint(lo, hi), -rng.randint(lo, hi)]
    seen = set(errs)
    unknown = [e for e in unknown if not (e in seen or seen.add(e))]
    g["errname"] = [line("errname", [str(e)], all_caps(30)) for e in errs] + \
                   [line("errname", [str(e)], list(range(1, 81))) for e in unknown]
    g["strerror"] = [line("strerror", [str(e)], all_caps(60)) for e in errs] + \
                    [line("strerror", [str(e)], list(range(1, 81))) for e in unknown]
    return g


# --------------------------------------------------------------------------
# what the property demands, decided from the implementation's own output and the
# operating system's answers (independent of the model)
# --------------------------------------------------------------------------
def unhx(s):
    return bytes.fromhex(s[1:])


def true_value(oracle):
    """(getter, expected string, abstract?) from the oracle part of a harness line"""
    t = oracle.split()
    g = t[0]
    a = t[1:]
    if g == "homedir":
        v = unhx(a[1]) if a[0] == "-" else unhx(a[0])
    elif g == "tmpdir":
        v = b"/tmp"
        for x in a[:4]:
            if x != "-":
                v = unhx(x)
                break
        if len(v) > 1 and v.endswith(b"/"):
            v = v[:-1]                       # "should not have a trailing slash" (one is removed)
    elif g in ("fsevent", "fspoll"):
        if a[0] == "0":
            return g, None, False
        v = unhx(a[1])
    elif g == "errname":
        v = unhx(a[1])
    elif g == "hostname":
        v = unhx(a[0])[:64]                  # MAXHOSTNAMELEN
    else:
        v = unhx(a[0])
    abstract = g in ("sockname", "peername") and (len(v) == 0 or v[0] == 0)
    return g, v, abstract


class Defects:
    def __init__(self):
        self.cwd_long = []
        self.case = ""


def check_call(g, tv, abstract, cap, rc, size, bufhex, first, defects):
    """one (possibly retried) call; returns a reason or None"""
    if bufhex.endswith("U"):
        return "bytes in front of the buffer were overwritten (cap %d)" % cap
    if bufhex.endswith("!"):
        return "bytes beyond the buffer were overwritten (cap %d)" % cap
    buf = None if bufhex == "-" else bytes.fromhex(bufhex)
    if tv is None:                               # inactive handle: any error is fine, no success
        return None if rc != 0 else "success on an inactive handle"
    n = len(tv)
    if g in TRUNCATING:
        if rc != 0:
            return "truncating getter failed with %d (cap %d)" % (rc, cap)
        k = buf.find(b"\0")
        if k < 0:
            return "result is not NUL-terminated within the %d bytes given (value of %d bytes)" % (cap, n)
        if tv[:k] != buf[:k]:
            return "result is not a prefix of the true value (cap %d)" % cap
        if g in HAS_SIZE and size != k:
            return "reported length %d but the returned string has %d bytes (cap %d)" % (size, k, cap)
        if k != min(n, cap - 1):
            return ("returned text is not the prefix of the true value that fits the size: %d bytes returned, "
                    "%d of the %d fit into %d" % (k, min(n, cap - 1), n, cap))
        return None
    if rc == 0:
        if g in HAS_SIZE and size != n:
            return "success with *size=%d but the true value has %d bytes (cap %d)" % (size, n, cap)
        if g == "cwd":
            if len(buf) < n + 1:
                return "success although cap %d cannot hold %d bytes and the terminator" % (cap, n)
        if buf[:n] != tv:
            return "returned string differs from the true value (cap %d)" % cap
        if abstract:
            return None
        if len(buf) <= n or buf[n] != 0:
            return "no terminator after the %d bytes of the value (cap %d)" % (n, cap)
        return None
    if rc == ENOBUFS:
        if g not in HAS_SIZE:
            return None if cap <= n else "UV_ENOBUFS although cap %d > length %d" % (cap, n)
        if not first:
            return "retry with the reported size %d failed again with UV_ENOBUFS (wants %d)" % (cap, size)
        return None
    if g == "cwd" and rc == ERANGE and n > PATH_MAX and cap <= n and size == cap:
        defects.cwd_long.append((n, cap, defects.case))
        return None
    return "unexpected error %d (cap %d, value of %d bytes)" % (rc, cap, n)


def make_monitor(defects):
    def monitor(case, impl):
        oracle = case.split("## oracle:")[1]
        defects.case = case
        g, tv, abstract = true_value(oracle)
        if g in ("errname", "strerror") and KNOWN_ERRS:
            err = int(case.split()[1])
            if err not in KNOWN_ERRS:                 # computed here, not taken from the harness
                want = ("Unknown system error %d" % err).encode()
                if tv != want:
                    return "harness oracle for unknown code %d is %r, expected %r" % (err, tv, want)
                tv = want
        for tok in impl.split():
            if "DIED:" in tok or tok.endswith("SEGV"):
                return "write beyond the end of the buffer (SIGSEGV on the guard page) at %s" % tok
            parts = tok.split(">")
            f = parts[0].split(":")
            if len(f) != 4:
                return "malformed harness token %r" % tok[:60]
            cap, rc, size = int(f[0]), int(f[1]), int(f[2])
            r = check_call(g, tv, abstract, cap, rc, size, f[3], True, defects)
            if r:
                return r
            if rc == ENOBUFS and g in HAS_SIZE:
                if len(parts) != 2:
                    return "UV_ENOBUFS with unusable *size=%d (cap %d)" % (size, cap)
                f2 = parts[1].split(":")
                rc2, size2 = int(f2[0]), int(f2[1])
                if rc2 != 0:
                    return "retry with the reported size %d failed with %d (first cap %d)" % (size, rc2, cap)
                r = check_call(g, tv, abstract, size, rc2, size2, f2[2], False, defects)
                if r:
                    return "on retry: " + r
        return None
    return monitor


# --------------------------------------------------------------------------
DIED_RE = None
MAX_LOCATE = 3          # crashes per group whose (case, size) is pinned down one call per process
MAX_CRASHES = 25        # after that many dead harness processes the rest of the group is not run


def run_batch(exe, workdir, lines, env=None, timeout=600):
    """one harness process on [lines] -> (complete output lines, unfinished last line, exit status, stderr).
    exit status: 0 ok, negative = killed by that signal, 3 = the harness's own fatal-signal handler"""
    try:
        p = subprocess.run([exe, "A" * ARGV_PAD], input="\n".join(lines) + "\n", cwd=workdir, env=env,
                           stdout=subprocess.PIPE, stderr=subprocess.PIPE, text=True, timeout=timeout)
        so, se, rc = p.stdout, p.stderr, p.returncode
    except subprocess.TimeoutExpired as e:
        so = e.stdout.decode("utf-8", "replace") if isinstance(e.stdout, bytes) else (e.stdout or "")
        se, rc = "timeout", -9
    got = so.split("\n")
    partial = got.pop() if got else ""
    return got, partial, rc, se


def parse_died(line):
    """'... DIED:<sig>:<cap token>:<size of the failing call>' -> (sig, cap, size) or None"""
    import re
    m = re.search(r"DIED:(\d+):(\d+):(\d+)\s*$", line)
    return (int(m.group(1)), int(m.group(2)), int(m.group(3))) if m else None


def locate_crash(exe, workdir, case, hint, rc, env, search):
    """pin a dead harness down to one call: returns dict(case, cap, size, sig, oracle, confirmed).
    [hint] is the unfinished output line of the case (may carry the oracle and a DIED marker)."""
    lhs, caps = case.split("|", 1)
    caps = caps.split()
    info = {"case": case, "cap": None, "size": None, "sig": (-rc if rc < 0 else None), "confirmed": False,
            "oracle": hint.split("|")[0].strip() if "|" in hint else ""}
    d = parse_died(hint)
    order = list(caps)
    if d:
        info["sig"], info["cap"], info["size"] = d
        order = [str(d[1])] + [c for c in caps if c != str(d[1])]
    elif "|" in hint and hint.split("|", 1)[1].split():
        last = hint.split("|", 1)[1].split()[-1].split(":")[0]      # token being printed when it died
        if last.isdigit():
            order = [last] + [c for c in caps if c != last]
    if not search:
        order = order[:1] if (d or order != caps) else []
    for c in order:                                                  # one call per process
        got, partial, rc1, _ = run_batch(exe, workdir, ["%s| %s" % (lhs, c)], env, timeout=120)
        text = (got[0] if got else partial)
        if rc1 != 0 or not got:
            d1 = parse_died(text)
            info.update(cap=int(c), confirmed=True, case="%s| %s" % (lhs, c),
                        sig=(d1[0] if d1 else (-rc1 if rc1 < 0 else info["sig"])),
                        size=(d1[2] if d1 else int(c)))
            if "|" in text and not info["oracle"]:
                info["oracle"] = text.split("|")[0].strip()
            break
    return info


def run_group(exe, workdir, lines, env=None):
    """run the harness on [lines] in one process; when it dies, isolate the case (and the size) that
    killed it, put CRASHED in its place and go on with the cases after it.
    -> (one output line per case, stderr, crashes)"""
    os.makedirs(workdir, exist_ok=True)
    out, errs, crashes = [], "", []
    rest = list(lines)
    while rest:
        got, partial, rc, se = run_batch(exe, workdir, rest, env)
        errs += se
        if got and parse_died(got[-1]):              # the handler finished the line before leaving
            partial = got.pop()
        if rc == 0 and len(got) >= len(rest):
            out += got[:len(rest)]
            break
        k = min(len(got), len(rest))
        out += got[:k]
        if k >= len(rest):                           # every case answered, death afterwards
            crashes.append({"case": "", "cap": None, "size": None, "sig": -rc if rc < 0 else None,
                            "confirmed": False, "oracle": "", "after_all_cases": True, "rc": rc})
            break
        crashes.append(locate_crash(exe, workdir, rest[k], partial, rc, env, len(crashes) < MAX_LOCATE))
        out.append("CRASHED")
        rest = rest[k + 1:]
        if len(crashes) >= MAX_CRASHES:
            out += ["NOTRUN"] * len(rest)
            break
    return out, errs, crashes


def show_value(oracle, case):
    """readable form of the value a crashing call was made for"""
    src = oracle if oracle else case.split("|")[0]
    vals = []
    for t in src.split()[1:]:
        if t.startswith("x"):
            try:
                b = bytes.fromhex(t[1:])
                r = repr(b[:48])[1:] + ("...(%d bytes)" % len(b) if len(b) > 48 else "")
                vals.append(r)
            except ValueError:
                vals.append(t[:40])
        else:
            vals.append(t[:40])
    return " ".join(vals) if vals else "(no value)"


def report_crashes(chk, getter, crashes, stderr, flavour=""):
    import signal as _sig
    for n, c in enumerate(crashes):
        if n >= 3:
            break
        if c.get("after_all_cases"):
            chk.violation("%s: harness died after its last case (exit %s)" % (getter, c.get("rc")),
                          {"kind": "harness", "stderr": stderr[-1000:]}, found_input=False)
            continue
        try:
            signame = _sig.Signals(c["sig"]).name if c["sig"] else "?"
        except ValueError:
            signame = str(c["sig"])
        head = "write past the buffer (guard page fault / signal %s %s)" if c["sig"] in (7, 11, None) \
            else "process died inside the getter (signal %s %s)"
        what = (head + " in %s%s with size %s for value %s") % (
            c["sig"] if c["sig"] else "?", signame, getter, flavour,
            c["size"] if c["size"] is not None else "?", show_value(c["oracle"], c["case"]))
        if c["cap"] is not None and c["size"] is not None and c["size"] != c["cap"]:
            what += " (the retry after UV_ENOBUFS from size %d)" % c["cap"]
        if not c["confirmed"]:
            what += " [not reproduced in a process of its own: first case of a batch that died]"
        chk.violation(what, {"kind": "monitor", "obligation": "no write beyond the given size (C19_no_overflow)",
                             "case": c["case"], "oracle": c["oracle"], "signal": c["sig"], "size": c["size"],
                             "how": "bin/check C19 --replay <this file>; the buffer of <size> bytes ends at a "
                                    "PROT_NONE page (harness/c19_getters.c)"},
                      found_input=True)
    if len(crashes) > 3:
        chk.cov.setdefault("further_crashes", {})[getter + flavour] = len(crashes) - 3


def main():
    chk = vf.Check("C19")
    thorough = chk.tier == "thorough"
    chk.prove()
    try:
        lib = vf.build_libuv(chk.scratch, "ndebug")
        exe = vf.cc_harness(chk.scratch, "c19_getters", ["c19_getters.c"], lib=lib, wraps=WRAPS)
        model = vf.model_bin("C19")
    except vf.BuildError as e:
        chk.violation("build failed: %s" % str(e)[:300], {"kind": "build", "log": str(e)}, found_input=False)
        chk.finish(rule="build failed")

    work = os.path.realpath(os.path.join(chk.scratch.dir, "w"))
    os.makedirs(work, exist_ok=True)
    errs = [int(x) for x in vf.sh([exe, "--list-errs"]).stdout.split()]
    KNOWN_ERRS.update(errs)
    if len(errs) < 50:
        chk.violation("harness could not list UV_ERRNO_MAP", {"kind": "build"}, found_input=False)
        chk.finish(rule="harness failed")

    if chk.replay:
        rp = json.load(open(chk.replay))
        ln = rp.get("case", "").split("## oracle:")[0].strip()
        groups = {ln.split()[0]: [ln]} if ln else {}
        base_len = {k: len(os.path.join(work, k)) for k in groups}
    else:
        names = ["getenv", "homedir", "tmpdir", "hostname", "cwd", "fsevent", "fspoll", "ifname", "sockname",
                 "peername", "exepath", "title", "thread", "errname", "strerror"]
        base_len = {k: len(os.path.join(work, k)) for k in names}
        groups = gen_cases(chk.rng, thorough, base_len["cwd"], errs, base_len["exepath"] + 30, base_len["fsevent"])
        cdir = os.path.join(vf.VERIF, "corpus", "C19")
        if os.path.isdir(cdir):
            for fn in sorted(os.listdir(cdir)):
                for ln in open(os.path.join(cdir, fn)):
                    ln = ln.strip()
                    if ln and not ln.startswith("#") and ln.split()[0] in groups:
                        groups[ln.split()[0]].insert(0, ln)

    with concurrent.futures.ThreadPoolExecutor(len(groups) or 1) as ex:
        futs = {k: ex.submit(run_group, exe, os.path.join(work, k), v) for k, v in groups.items()}
        res = {k: f.result() for k, f in futs.items()}

    # thorough: the same cases once more on an AddressSanitizer/UBSan build (asserts on); it must
    # print exactly what the shipped flavour printed and no sanitizer report
    if thorough and not chk.replay:
        try:
            lib_a = vf.build_libuv(chk.scratch, "asan")
            exe_a = vf.cc_harness(chk.scratch, "c19_getters_asan", ["c19_getters.c"], lib=lib_a,
                                  flavour="asan", wraps=WRAPS)
            with concurrent.futures.ThreadPoolExecutor(len(groups) or 1) as ex:
                aenv = dict(os.environ, ASAN_OPTIONS="detect_leaks=0:abort_on_error=0")
                futs = {k: ex.submit(run_group, exe_a, os.path.join(work, k), v, aenv) for k, v in groups.items()}
                res_a = {k: f.result() for k, f in futs.items()}
            nas = 0
            for k in groups:
                oa, ea, ca = res_a[k]
                on = res[k][0]
                if ca and not res[k][2]:
                    report_crashes(chk, k, ca, ea, flavour=" (asan flavour)")
                if "Sanitizer" in ea or "runtime error" in ea:
                    chk.violation("%s: sanitizer report on the asan flavour" % k,
                                  {"kind": "asan", "stderr": ea[-3000:]}, found_input=False)
                for ln, x, y in zip(groups[k], on, oa):
                    nas += 1
                    if x != y and k not in ("title", "exepath") and not x.startswith("SKIP") \
                            and x not in ("CRASHED", "NOTRUN") and y not in ("CRASHED", "NOTRUN") \
                            and not ln.startswith("sockname x |"):       # autobind: the kernel picks the name
                        chk.violation("%s: asan flavour and shipped flavour differ" % k,
                                      {"kind": "asan", "case": ln, "ndebug": x[:2000], "asan": y[:2000]},
                                      found_input=False)
                        break
            chk.cov["asan_cases"] = nas
        except vf.BuildError as e:
            chk.assumptions.append("asan flavour not available: %s" % str(e)[:200])

    defects = Defects()
    monitor = make_monitor(defects)
    ncalls, skipped = 0, {}
    for k in groups:
        out, err, crashes = res[k]
        report_crashes(chk, k, crashes, err)
        if crashes:
            chk.cov.setdefault("harness_deaths", {})[k] = len(crashes)
        cases, impl, mlines = [], [], []
        for ln, o in zip(groups[k], out):
            if o in ("CRASHED", "NOTRUN"):
                continue
            if o.startswith("SKIP"):
                skipped[k] = skipped.get(k, 0) + 1
                continue
            if "|" not in o:
                chk.violation("harness output malformed for %s" % k, {"kind": "harness", "case": ln, "out": o[:300],
                                                                        "stderr": err[-500:]}, found_input=False)
                continue
            lhs, rhs = o.split("|", 1)
            cases.append(ln + "  ## oracle: " + lhs.strip())
            impl.append(rhs.strip())
            mlines.append(lhs.strip() + " | " + ln.split("|", 1)[1].strip())
        if len(out) != len(groups[k]):
            chk.violation("harness produced %d lines for %d cases of %s" % (len(out), len(groups[k]), k),
                          {"kind": "harness", "stderr": err[-1000:]}, found_input=False)
        if skipped.get(k, 0) > len(groups[k]) // 2 and k not in ("ifname",):
            chk.violation("more than half of the %s cases could not be set up" % k,
                          {"kind": "harness", "sample": [o for o in out if o.startswith("SKIP")][:3]}, found_input=False)
        mout, rc, merr = vf.run_lines([model], mlines, shards=8) if mlines else ([], 0, "")
        vf.diff_cases(chk, "%s = Model/Getters.v" % k, cases, impl, mout, monitor)
        ncalls += sum(len(x.split()) + x.count(">") for x in impl)
        if cases:
            chk.sample({"case": cases[len(cases) // 2][:160], "impl": impl[len(cases) // 2][:160]}, limit=15)
    chk.cov["getter_calls"] = ncalls
    chk.cov["skipped_cases"] = skipped
    for k, tag, key in (("hostname", "hostname u", "hostname_uts_namespace"), ("cwd", "cwd ^", "cwd_chroot")):
        if k in groups:
            sk = [o for ln, o in zip(groups[k], res[k][0]) if ln.startswith(tag) and o.startswith("SKIP")]
            nn = sum(1 for ln in groups[k] if ln.startswith(tag))
            chk.cov[key] = "not run" if nn == 0 else ("ok (%d cases)" % nn if not sk else
                                                      "skipped %d of %d: %s" % (len(sk), nn, sk[0][:60]))
            if sk:
                chk.assumptions.append("%s: %s" % (key, sk[0][:80]))

    # known defect: uv_cwd with a working directory longer than PATH_MAX and a too-small buffer
    if defects.cwd_long:
        n, cap, case = min(defects.cwd_long, key=lambda t: (t[0], abs(t[1] - 16)))
        f = chk.match_known(KNOWN_CWD)
        if f:
            chk.known_hit(f)
        else:
            chk.violation("uv_cwd: working directory of %d bytes (> PATH_MAX), buffer of %d: returns UV_ERANGE and leaves "
                          "*size unchanged instead of UV_ENOBUFS with the needed size (%d such calls; known-finding key %s)"
                          % (n, cap, len(defects.cwd_long), KNOWN_CWD),
                          {"kind": "monitor", "key": KNOWN_CWD, "case": case.split("|")[0] + "| %d" % cap,
                           "theorem": "C19_cwd_long_refuted",
                           "how": "the numbers after 'cwd' are the lengths of nested directories created and entered "
                                  "(relative chdir) below the start directory; then uv_cwd(buf, &size) with size=%d; "
                                  "replay with bin/check C19 --replay <this file>" % cap}, found_input=True)
    chk.cov["cwd_long_erange_observations"] = len(defects.cwd_long)

    # supplement: the title getter racing with the setter on another thread (monitor-only stress)
    if not chk.replay:
        try:
            race = vf.cc_harness(chk.scratch, "c19_title_race", ["c19_title_race.c"], lib=lib)
            r = vf.sh([race, str(2000000 if thorough else 400000)] + ["P" * 100] * 4, timeout=300)
            out = r.stdout.strip().split("\n")[-1] if r.stdout.strip() else "no output (exit %d)" % r.returncode
            chk.cov["title_race"] = out
            chk.count("title_race", out)
            if not (out.startswith("ok") or out.startswith("SKIP")):
                chk.violation("uv_get_process_title racing with uv_set_process_title: " + out,
                              {"kind": "monitor", "obligation": "title race", "case": "c19_title_race", "impl": out},
                              found_input=True)
        except vf.BuildError as e:
            chk.violation("title race harness does not build", {"kind": "build", "log": str(e)}, found_input=False)

    chk.finish(
        level="proof",
        rule="every getter is called on the real library with the buffer ending at a PROT_NONE page, for every "
             "capacity 1..len+3 for small values and boundary capacities for large ones (environment values to "
             "5000 bytes, working directories beyond PATH_MAX, socket paths 1..108 and abstract names, thread "
             "names 0..15, all UV_E* codes); after UV_ENOBUFS the call is repeated with the reported size; the "
             "operating system's own answer is the model's oracle; a case is non-trivial when its (case, trace) "
             "pair is distinct",
        trusted=["Coq 8.16.1 kernel (coqc)", "ExtrOcamlBasic extraction + OCaml 4.13.1 + zarith glue (ocaml/zutil.ml, drv_c19.ml)",
                 "harness/c19_getters.c (libc wrappers for getpwuid_r/gethostname/if_indextoname/readlink, guard page), "
                 "checks/c19.py (generators, monitor)", "gcc 12, glibc getcwd/snprintf/strncpy semantics as stated in Model/Getters.v"])


if __name__ == "__main__":
    main()
