#!/usr/bin/env python3
"""C17 file watchers: proofs (Properties_C17.v) + correspondence of Model/FsPoll.v with
src/fs-poll.c and of Model/Inotify.v with the inotify part of src/unix/linux.c of the current
tree (AddressSanitizer flavour, virtual clock, controllable thread pool, real scratch files)."""
import concurrent.futures, os, subprocess, sys
sys.path.insert(0, os.path.join(os.path.dirname(os.path.abspath(__file__)), "..", "lib"))
import vf

# which variant of Model/FsPoll.v the implementation is compared with: "fspoll-fixed" = the code as it
# is (fx = true, since /repo commit 834ed95); "fspoll" = history, the code before that commit
FSPOLL_VARIANT = "fspoll-fixed"
# repaired in /repo (834ed95, 9bc8132); their replays stay in corpus/C17/fspoll_known.txt and are plain
# violations if they ever show again: fs_poll_restart_with_stat_in_flight_uses_old_ctx,
# fs_poll_start_error_frees_ctx_with_linked_timer
# repaired in /repo 5f75e89 (plain violation if it returns): fs_event_attrib_on_directory_reports_rename_too
ENV = dict(os.environ, ASAN_OPTIONS="detect_leaks=0:abort_on_error=0", UV_THREADPOOL_SIZE="1",
           UV_USE_IO_URING="0")


# ----------------------------------------------------------------------------------------------
# running one case per process
# ----------------------------------------------------------------------------------------------
def run_each(exe, cases, workdir, tag, extra_args=()):
    """One harness process per case (a sanitizer abort is then attributable to its case);
    returns [(stdout_line, returncode, stderr_tail)]."""
    os.makedirs(workdir, exist_ok=True)

    def one(ic):
        i, c = ic
        d = os.path.join(workdir, "%s%d" % (tag, i))
        os.makedirs(d, exist_ok=True)
        try:
            p = subprocess.run([exe, d] + list(extra_args), input=c + "\n", stdout=subprocess.PIPE,
                               stderr=subprocess.PIPE, text=True, timeout=60, env=ENV)
            out = p.stdout.split("\n")[0] if p.stdout else ""
            return out, p.returncode, p.stderr[-3000:]
        except subprocess.TimeoutExpired:
            return "", -999, "timeout"
    with concurrent.futures.ThreadPoolExecutor(vf.JOBS) as ex:
        return list(ex.map(one, enumerate(cases)))


# ----------------------------------------------------------------------------------------------
# fs_poll: generator
# ----------------------------------------------------------------------------------------------
INTERVALS = [1, 3, 10, 10, 7, 0, 25]


def fp_api_op(rng, nh, npaths, allow_fail=True):
    h = rng.randrange(nh)
    r = rng.random()
    if r < 0.45:
        f = rng.choice([1, 2]) if (allow_fail and rng.random() < 0.06) else 0
        return "S%d,%d,%d,%d,%d" % (h, rng.randint(1, 3), rng.randrange(npaths), rng.choice(INTERVALS), f)
    if r < 0.80:
        return "T%d" % h
    if r < 0.90:
        return "C%d" % h
    if r < 0.94:
        return "W"
    return "O"


def fp_file_op(rng, npaths):
    p = rng.randrange(npaths)
    r = rng.random()
    if r < 0.30:
        return "Fw%d,%d" % (p, rng.randint(1, 4))
    if r < 0.40:
        return "Ft%d" % p
    if r < 0.50:
        return "Fm%d,%d" % (p, rng.choice([0o644, 0o600, 0o640, 0o755]))
    if r < 0.62:
        return "Fu%d" % p
    if r < 0.72:
        return "Fc%d" % p
    if r < 0.76:
        return "Fd%d" % p
    if r < 0.84:
        # the stat fails / answers again without the file changing: error -> success with a statbuf
        # identical to the last good one, error -> other error, error at the very first poll
        return "Fe%d,%d" % (p, rng.choice([2, 13, 0, 0, 0]))
    if r < 0.88:
        return rng.choice(["Fh", "Fs", "Fs"])        # the directory of the odd paths is renamed away / back
    # a change in exactly one field of the answers (what a real file system rarely gives)
    return "Fo%d,%d,%d" % (p, rng.choice([0, 1, 2, 3, 4, 5, 6, 6, 7, 8, 9, 10, 11, 14]), rng.choice([1, 1, 2, -1]))


def fp_case_simple(rng, t0):
    """every path is watched by one handle, started once: which polls must report is decidable
    from the oracle alone (the monitor's 'callback exactly when consecutive polls differ')"""
    n = rng.randint(1, 3)
    ops = []
    for p in range(n):
        if rng.random() < 0.7:
            ops.append("Fw%d,%d" % (p, rng.randint(0, 3)))
    ops += ["I"] * n
    ivs = [rng.choice(INTERVALS) for _ in range(n)]
    ops += ["S%d,%d,%d,%d,0" % (h, rng.randint(1, 3), h, ivs[h]) for h in range(n)]
    if rng.random() < 0.3:                           # an error at the very first poll
        ops.insert(len(ops) - n, "Fe%d,%d" % (rng.randrange(n), rng.choice([2, 13])))
    episode = []                                     # pending steps of an error episode
    for _ in range(rng.randint(3, 12)):
        if episode:
            ops.append(episode.pop(0))
        elif rng.random() < 0.35:
            p = rng.randrange(n)
            kind = rng.random()
            if kind < 0.5 or not (p & 1):
                # fails for 1-3 polls (possibly with two different errors), then answers as before
                episode = ["Fe%d,%d" % (p, rng.choice([2, 13]))] + [rng.choice(["", "", "Fe%d,%d" % (p, rng.choice([2, 13]))])
                                                                    for _ in range(rng.randint(0, 2))] + ["Fe%d,0" % p]
            else:
                episode = ["Fh"] + [""] * rng.randint(0, 2) + ["Fs"]
            episode = [e for e in episode]
            ops.append(episode.pop(0))
        else:
            while rng.random() < 0.45:
                ops.append(fp_file_op(rng, n))
        ops = [o for o in ops if o]
        if rng.random() < 0.3:                       # busy period: the completion is picked up late
            ops.append("A%d" % rng.choice([5, 30, 100]))
        ops += ["K", "R", "A%d" % rng.choice([1, 3, 10, 25, 30]), "R"]
        if rng.random() < 0.15:
            ops.append("O")
        if rng.random() < 0.08:
            ops.append(rng.choice(["T", "C"]) + str(rng.randrange(n)))
    ops += ["C%d" % h for h in range(n)] + ["Z"]
    behs = [rng.choice(["", "", "O", "T%d" % rng.randrange(n) if rng.random() < 0.2 else ""])
            for _ in range(rng.randint(0, 8))]
    return "%d %d ; %s ; %s" % (t0, n, " ".join(ops), " | ".join(behs))


def fp_case_timers(rng, t0):
    """a timer of the script is due in the same uv__run_timers pass as the handle's interval timer (same
    loop time, started before / after it so that it sorts before / after; also one tick earlier / later)
    and its callback stops / closes / restarts the handle"""
    npaths = rng.randint(2, 3)
    nh = rng.randint(1, 2)
    ops = ["Fw%d,%d" % (p, rng.randint(1, 3)) for p in range(npaths)] + ["I"] * nh
    ivs = [rng.choice([3, 7, 10, 10, 25]) for _ in range(nh)]
    paths = [rng.randrange(npaths) for _ in range(nh)]
    ops += ["S%d,%d,%d,%d,0" % (h, rng.randint(1, 3), paths[h], ivs[h]) for h in range(nh)]
    uid = [0]

    def user(delay):
        uid[0] += 1
        return "U%d,%d" % (uid[0], max(0, delay))
    for rnd in range(rng.randint(1, 4)):
        h = rng.randrange(nh)
        delta = rng.choice([0, 0, 0, -1, 1])
        before = rng.random() < 0.5
        if rng.random() < 0.3:
            ops.append(fp_file_op(rng, npaths))
        if before:
            ops.append(user(ivs[h] + delta))       # started first: lower start_id, sorts before at equal due time
        ops += ["K", "R"]                           # the poll completes: the interval timer is armed for now + iv
        if not before:
            ops.append(user(ivs[h] + delta))
        if rng.random() < 0.3:
            ops.append(user(ivs[h] + rng.choice([0, 1])))
        ops += ["A%d" % ivs[h], "R"]
        if delta == 1 or rng.random() < 0.3:
            ops += ["A1", "R"]
        if rng.random() < 0.5:
            ops.append("O")
    ops += ["K", "R", "A%d" % rng.choice([1, 10, 30]), "R", "K", "R"]
    if rng.random() < 0.9:
        ops += ["C%d" % h for h in range(nh)]
    ops.append("Z")

    def action():
        h = rng.randrange(nh)
        r = rng.random()
        if r < 0.25:
            return "T%d" % h
        if r < 0.45:
            return "C%d" % h
        if r < 0.70:
            return "T%d S%d,%d,%d,%d,0" % (h, h, rng.randint(1, 3), paths[h], ivs[h])              # same path
        if r < 0.90:
            return "T%d S%d,%d,%d,%d,0" % (h, h, rng.randint(1, 3), rng.randrange(npaths), rng.choice([3, 10]))
        if r < 0.97:
            return "W"
        return ""
    behs = [(action() + " O").strip() for _ in range(rng.randint(2, 8))]
    return "%d %d ; %s ; %s" % (t0, npaths, " ".join(ops), " | ".join(behs))


def fp_case(rng):
    npaths = rng.randint(1, 3)
    nh = rng.randint(1, 3)
    t0 = rng.choice([0, 1000, 2 ** 40])
    restart_heavy = rng.random() < 0.5
    nuser = [0]
    simple = rng.random() < 0.3
    if simple:
        return fp_case_simple(rng, t0)
    if rng.random() < 0.3:
        return fp_case_timers(rng, t0)
    ops = []
    for p in range(npaths):
        if rng.random() < 0.7:
            ops.append("Fw%d,%d" % (p, rng.randint(0, 3)))
    ops += ["I"] * nh
    for h in range(nh):
        if rng.random() < 0.8:
            ops.append("S%d,%d,%d,%d,0" % (h, rng.randint(1, 3), rng.randrange(npaths), rng.choice(INTERVALS)))
    if rng.random() < 0.08:
        ops.append("W")                      # walk-and-close-all teardown with the first stats in flight
    for _ in range(rng.randint(2, 10)):
        # one poll cycle with API calls landing in every phase of it
        for phase in range(5):
            while rng.random() < (0.35 if restart_heavy else 0.2):
                if restart_heavy and rng.random() < 0.5:
                    h = rng.randrange(nh)
                    ops += ["T%d" % h] + (["O"] if rng.random() < 0.5 else []) + \
                           ["S%d,%d,%d,%d,0" % (h, rng.randint(1, 3), rng.randrange(npaths), rng.choice(INTERVALS))]
                else:
                    ops.append(fp_api_op(rng, nh, npaths))
                if rng.random() < 0.4:
                    ops.append("O")          # uv_fs_poll_getpath / uv_is_active of every handle, right now
            if phase == 0:
                while rng.random() < 0.6:
                    ops.append(fp_file_op(rng, npaths))
            elif phase == 1:
                if rng.random() < 0.25:                 # the clock jumps while the stat is in flight (slow callback)
                    ops.append("A%d" % rng.choice([1, 10, 25, 100]))
                if rng.random() < 0.15:
                    nuser[0] += 1
                    ops.append("U%d,%d" % (nuser[0], rng.choice([0, 1, 3, 7, 10, 25])))
                if rng.random() < 0.9:
                    ops.append("K")
            elif phase == 2:
                ops.append("R")
            elif phase == 3:
                ops.append("A%d" % rng.choice([0, 1, 3, 7, 10, 10, 25, 100]))
            else:
                ops.append("R")
    if rng.random() < 0.85:
        ops += ["C%d" % h for h in range(nh)]
    ops.append("Z")
    behs = []
    for _ in range(rng.randint(0, 12)):
        b = [fp_api_op(rng, nh, npaths, allow_fail=False) for _ in range(rng.choice([0, 0, 1, 1, 2, 3]))]
        if b and rng.random() < 0.6:
            b.append("O")
        behs.append(" ".join(b))
    return "%d %d ; %s ; %s" % (t0, npaths, " ".join(ops), " | ".join(behs))


# ----------------------------------------------------------------------------------------------
# fs_poll: canonical form of an implementation trace
# ----------------------------------------------------------------------------------------------
class SbCanon:
    """Renames every field value of the statbufs of one case to its first-occurrence index
    (0 stays 0) -- no time stamps, inode or device numbers in what is compared."""

    def __init__(self):
        self.maps = [dict() for _ in range(14)]
        self.rest = {}

    def sb(self, s):
        f = s.split(":")
        if len(f) == 1:
            return ":".join(["0"] * 15)
        out = []
        for j in range(14):
            v = f[j]
            if v == "0":
                out.append("0")
            else:
                m = self.maps[j]
                if v not in m:
                    m[v] = str(len(m) + 1)
                out.append(m[v])
        r = tuple(f[14:])
        if all(x == "0" for x in r):
            out.append("0")
        else:
            if r not in self.rest:
                self.rest[r] = str(len(self.rest) + 1)
            out.append(self.rest[r])
        return ":".join(out)


def fp_canon(raw):
    """raw harness line -> (tokens for comparison, oracle groups, other_live)"""
    cn = SbCanon()
    walks = []          # the raw v tokens: fs_poll handles ; script timers [; ?unknown]
    toks, groups, cur, other = [], [], None, None
    for t in raw.split():
        if t[0] == "q":
            p, rhs = t[1:].split("=")
            st, sb = rhs.split("/")
            q = "q%s=%s/%s" % (p, st, cn.sb(sb))
            if cur is None:
                cur = []
                groups.append(cur)
            cur.append(q)
            continue
        cur = None
        if t[0] == "p":
            h, cb, st, a, b = t[1:].split(",")
            toks.append("p%s,%s,%s,%s,%s" % (h, cb, st, cn.sb(a), cn.sb(b)))
        elif t[0] == "v":
            toks.append(t.split(";")[0])
            walks.append(t)
        elif t[0] == "z":
            rc, live, oth = t[1:].split(",")
            other = int(oth)
            toks.append("z%s,%s" % (rc, live))
        else:
            toks.append(t)
    return toks, groups, (other, walks)


def fp_model_input(case, groups):
    """attach the i-th oracle group to the i-th top-level K/Z"""
    hd, ops, behs = case.split(";")
    out, gi = [], 0
    for t in ops.split():
        out.append(t)
        if t in ("K", "Z"):
            if gi < len(groups):
                out += groups[gi]
            gi += 1
    return "%s; %s ;%s" % (hd, " ".join(out), behs)


# ----------------------------------------------------------------------------------------------
# fs_poll: monitor (the property, decided on an observable trace)
# ----------------------------------------------------------------------------------------------
def sb_cmp(s):
    return s.split(":")[:14]


def fp_monitor(case, toks, other_live=None):
    """Walks the script and the trace together.  Returns None or a reason."""
    walks = []
    if isinstance(other_live, tuple):
        other_live, walks = other_live
    walks = list(walks)
    utimers = []        # ids of the script's timers that are not closed
    uclosing = []       # ... that uv_close has been called on
    hd, ops, behs = case.split(";")
    npaths = int(hd.split()[1])
    top = ops.split()
    behl = [b.split() for b in behs.split("|")]
    pos = [0]
    cbcount = [0]
    H = []          # per handle: dict(active, closing, closed, reg)  reg = dict(cb, path, last=None|('ok',sb)|('err',e), prev_known)
    oracle = {}     # path -> (status, sb) at the latest release
    allowed = set() # paths that had an active registration since the release before last
    err = []
    path_regs = {}  # path -> number of registrations ever made on it
    clock = [int(hd.split()[0])]

    def peek():
        return toks[pos[0]] if pos[0] < len(toks) else None

    def take(kind):
        t = peek()
        if t is None or t[0] != kind:
            err.append("trace out of step with the script: expected '%s...' got %r at token %d" % (kind, t, pos[0]))
            return None
        pos[0] += 1
        return t

    def api(t):
        k = t[0]
        if k == "I":
            H.append({"active": False, "closing": False, "closed": False, "reg": None})
        elif k == "S":
            h, cb, p, iv, f = [int(x) for x in t[1:].split(",")]
            if h < len(H) and not H[h]["closing"] and p < npaths:
                r = take("r")
                if r is None:
                    return
                code = int(r[1:])
                if H[h]["active"]:
                    if code != 0:
                        err.append("uv_fs_poll_start on an active handle returned %d" % code)
                elif code == 0:
                    if f != 0:
                        err.append("uv_fs_poll_start returned 0 although an allocation failed")
                    H[h]["active"] = True
                    H[h]["reg"] = {"cb": cb, "path": p, "last": None, "lastpoll": None, "got": 0,
                                   "iv": iv if iv else 1, "phase": "sub", "deadline": None, "tdone": None}
                    path_regs[p] = path_regs.get(p, 0) + 1
                    allowed.add(p)
                elif f == 0:
                    err.append("uv_fs_poll_start failed with %d" % code)
        elif k == "T":
            h = int(t[1:])
            if h < len(H) and not H[h]["closed"]:
                r = take("r")
                if r is not None and int(r[1:]) != 0:
                    err.append("uv_fs_poll_stop returned %s" % r[1:])
                H[h]["active"] = False
                H[h]["reg"] = None
        elif k == "C":
            h = int(t[1:])
            if h < len(H) and not H[h]["closing"]:
                H[h]["closing"] = True
                H[h]["active"] = False
                H[h]["reg"] = None
        elif k == "W":
            v = take("v")
            if v is None:
                return
            raw = walks.pop(0) if walks else v
            parts = raw[1:].split(";")
            got_h = [int(x) for x in parts[0].split(",") if x]
            got_u = [int(x) for x in parts[1].split(",") if x] if len(parts) > 1 else None
            if len(parts) > 2:
                err.append("uv_walk visited %s handle(s) the program did not create (an internal handle is exposed)"
                           % parts[2][1:])
                return
            want_h = [j for j, x in enumerate(H) if not x["closed"]]
            if got_h != want_h:
                err.append("uv_walk visited the fs_poll handles %s, the open ones are %s" % (got_h, want_h))
                return
            # a timer that is closing is still in the handle queue until its close callback has run
            if got_u is not None and not (set(utimers) <= set(got_u) <= set(utimers) | set(uclosing)):
                err.append("uv_walk visited the timers %s, the program's open timers are %s (closing: %s)"
                           % (got_u, utimers, uclosing))
                return
            for x in H:
                if not x["closing"]:
                    x["closing"], x["active"], x["reg"] = True, False, None
            uclosing.extend(utimers)
            del utimers[:]
        elif k == "O":
            o = take("o")
            if o is None:
                return
            ents = [e for e in o[1:].split(",") if e]
            if len(ents) != len(H):
                err.append("observation lists %d handles, %d exist" % (len(ents), len(H)))
                return
            for j, e in enumerate(ents):
                a, c, p = e[0] == "1", e[1] == "1", e[2:]
                if a != H[j]["active"]:
                    err.append("uv_is_active(h%d) = %d, expected %d" % (j, a, H[j]["active"]))
                if H[j]["active"] and p != str(H[j]["reg"]["path"]):
                    err.append("uv_fs_poll_getpath(h%d) = path %s, started on path %d" % (j, p, H[j]["reg"]["path"]))
                if not H[j]["active"] and p != "-":
                    err.append("uv_fs_poll_getpath(h%d) on a handle that is not active (%s) answers %s instead of "
                               "UV_EINVAL with *size = 0 (the old path is still handed out)"
                               % (j, "closing" if H[j]["closing"] else "stopped or never started",
                                  ("0 and path " + p) if p[0] != "!" else p))

    def callbacks():
        """poll and close callbacks (each followed by its scripted behaviour)"""
        while peek() is not None and peek()[0] in "pxu" and not err:
            t = take(peek()[0])
            if t[0] == "u":
                pass            # the script's own timer: only its scripted behaviour matters
            elif t[0] == "x":
                h = int(t[1:])
                if h >= len(H) or not H[h]["closing"] or H[h]["closed"]:
                    err.append("close callback for h%d which is not closing" % h)
                    return
                H[h]["closed"] = True
            else:
                h, cb, st, prev, curr = t[1:].split(",")
                h, cb, st = int(h), int(cb), int(st)
                if h >= len(H) or not H[h]["active"] or H[h]["reg"] is None:
                    err.append("poll callback for h%d after uv_fs_poll_stop/uv_close" % h)
                    return
                reg = H[h]["reg"]
                reg["got"] += 1
                if cb != reg["cb"]:
                    err.append("h%d: callback %d invoked, the handle was (re)started with callback %d "
                               "(the callback of an earlier start is used again)" % (h, cb, reg["cb"]))
                    return
                cands = pending.get(reg["path"], [])
                if not any(c is not None and st == c[0] and (curr == c[1] if st == 0 else True) for c in cands) \
                        or (st != 0 and sb_cmp(curr) != ["0"] * 14):
                    err.append("h%d: callback reports (%d, %s) but the stats of its path %d since the last "
                               "delivery gave %s" % (h, st, curr, reg["path"], cands))
                    return
                last = reg["last"]
                if st == 0:
                    if last is not None and last[0] == "ok":
                        if sb_cmp(prev) != sb_cmp(last[1]):
                            err.append("h%d: chain broken: prev %s is not the curr of the previous callback %s"
                                       % (h, prev, last[1]))
                            return
                    if (last is None or last[0] == "ok") and sb_cmp(prev) == sb_cmp(curr):
                        err.append("h%d: callback although prev and curr agree in every compared field" % h)
                        return
                    reg["last"] = ("ok", curr)
                else:
                    if last is not None and last[0] == "err" and last[1] == st:
                        err.append("h%d: the same error %d reported twice in a row" % (h, st))
                        return
                    if last is not None and last[0] == "ok" and sb_cmp(prev) != sb_cmp(last[1]):
                        err.append("h%d: chain broken at an error report" % h)
                        return
                    reg["last"] = ("err", st, last[1] if last is not None and last[0] == "ok" else None)
            k = cbcount[0]
            cbcount[0] += 1
            if k < len(behl):
                for o in behl[k]:
                    if o[0] in "ISTCOW":
                        api(o)

    pending = {}    # path -> answers of the stats the pool has run and whose poll_cb has not run yet

    def release():
        seen = set()
        while peek() is not None and peek()[0] == "s":
            p = int(take("s")[1:])
            if p not in allowed:
                err.append("path %d is polled again although no handle has been watching it since the "
                           "previous release of the pool" % p)
                return
            pending.setdefault(p, []).append(oracle.get(p))
            seen.add(p)
        # polls must keep happening: once a poll has completed, the next stat is issued at most one
        # interval later (decidable where the path has had exactly one registration)
        for h, x in enumerate(H):
            reg = x["reg"]
            if reg is None or path_regs.get(reg["path"]) != 1:
                continue
            if reg["path"] in seen:
                reg["phase"] = "exec"
            elif reg["phase"] == "due":
                err.append("h%d is active, its poll completed at t=%d, interval %d, the loop ran its timers at "
                           "t=%d, but no further stat of its path was issued (polling has stopped)"
                           % (h, reg["tdone"], reg["iv"], reg["tdue"]))
                return

    def deliver():
        """one iteration: where a path has had exactly one registration, the stats run on it are
        that registration's polls, so whether a callback is due is known"""
        exp = []
        for h, x in enumerate(H):
            reg = x["reg"]
            if reg is None or path_regs.get(reg["path"]) != 1:
                continue
            cands = pending.get(reg["path"], [])
            if len(cands) != 1 or cands[0] is None:
                continue
            st, sb = cands[0]
            lp = reg["lastpoll"]
            if st != 0:
                due = lp is None or lp[0] == 0 or lp[0] != st
            else:
                due = lp is not None and (lp[0] != 0 or sb_cmp(lp[1]) != sb_cmp(sb))
            reg["got"] = 0
            exp.append((h, reg, due, (st, sb)))
        callbacks()
        for h, reg, due, res in exp:
            if err:
                break
            if H[h]["reg"] is not reg:
                continue        # stopped or restarted during the iteration
            if due and reg["got"] == 0:
                err.append("h%d: no callback although two consecutive polls of its path differ: %s then %s"
                           % (h, reg["lastpoll"], res))
            elif not due and reg["got"] > 0:
                err.append("h%d: callback although two consecutive polls of its path agree: %s then %s"
                           % (h, reg["lastpoll"], res))
            elif reg["got"] > 1:
                err.append("h%d: %d callbacks for one poll" % (h, reg["got"]))
            reg["lastpoll"] = res
        pending.clear()
        for h, x in enumerate(H):
            reg = x["reg"]
            if reg is None:
                continue
            if reg["phase"] == "exec":
                reg["phase"], reg["tdone"], reg["deadline"] = "armed", clock[0], clock[0] + reg["iv"]
            elif reg["phase"] == "armed" and clock[0] >= reg["deadline"]:
                reg["phase"], reg["tdue"] = "due", clock[0]

    gi = 0
    for t in top:
        if err:
            break
        if t[0] in "ISTCOW":
            api(t)
        elif t[0] == "U":
            utimers.append(int(t[1:].split(",")[0]))
        elif t == "K":
            oracle = ORACLES[0][gi] if gi < len(ORACLES[0]) else {}
            gi += 1
            release()
            allowed = set(x["reg"]["path"] for x in H if x["reg"] is not None)
        elif t == "R":
            take("g")
            deliver()
        elif t[0] == "A":
            clock[0] += int(t[1:])
        elif t == "Z":
            oracle = ORACLES[0][gi] if gi < len(ORACLES[0]) else {}
            gi += 1
            uclosing.extend(utimers)
            del utimers[:]
            n = 0
            while peek() is not None and peek()[0] in "sg" and not err and n < 1000:
                n += 1
                release()
                take("g")
                deliver()
            z = take("z")
            if z is None:
                break
            rc, live = [int(x) for x in z[1:].split(",")]
            allclosing = all(x["closing"] for x in H)
            if allclosing:
                if rc != 0 or not all(x["closed"] for x in H):
                    err.append("every handle was closed but uv_loop_close returned %d (close callbacks: %s)"
                               % (rc, "".join("1" if x["closed"] else "0" for x in H)))
                elif live != 0:
                    err.append("%d poll context(s) still allocated after every handle was closed" % live)
                elif other_live:
                    err.append("%d allocation(s) of libuv outstanding after uv_loop_close" % other_live)
            elif rc == 0:
                err.append("uv_loop_close returned 0 with a handle that was never closed")
    if not err and pos[0] != len(toks):
        err.append("trace has %d tokens the script does not account for (first: %s)"
                   % (len(toks) - pos[0], toks[pos[0]]))
    return err[0] if err else None


ORACLES = [[]]    # oracle groups of the case the monitor is looking at (set by fp_check_one)


def fp_oracle_dicts(groups):
    out = []
    for g in groups:
        d = {}
        for q in g:
            p, rhs = q[1:].split("=")
            st, sb = rhs.split("/")
            d[int(p)] = (int(st), sb)
        out.append(d)
    return out


def fp_monitor_with(case, toks, groups, other=None):
    ORACLES[0] = fp_oracle_dicts(groups)
    return fp_monitor(case, toks, other)


# ----------------------------------------------------------------------------------------------
# fs_event (inotify)
# ----------------------------------------------------------------------------------------------
FE_REL = ["d0", "d0/f0", "d0/f1", "d0/sub", "d1", "d1/g0", "d1/l0", "d0/new", "d1/new", "d0/sub/h0"]
FE_PARENT = {1: 0, 2: 0, 3: 0, 7: 0, 5: 4, 6: 4, 8: 4, 9: 3}
FE_DIRS0 = {0, 3, 4}
FE_NAMES = ["d0", "f0", "f1", "sub", "d1", "g0", "l0", "new", "h0"]
UV_RENAME, UV_CHANGE = 1, 2


def fe_base(p):
    return FE_REL[p].split("/")[-1]


def fe_api_op(rng, nh):
    h = rng.randrange(nh)
    r = rng.random()
    if r < 0.45:
        return "S%d,%d,%d" % (h, rng.randint(1, 3), rng.choice([0, 0, 1, 1, 1, 2, 3, 4, 5, 6, 6, 7, 9]))
    if r < 0.85:
        return "T%d" % h
    return "C%d" % h


def fe_change(rng):
    r = rng.random()
    files = [1, 2, 5, 6, 7, 8, 9]
    if r < 0.30:
        return "Xw%d" % rng.choice(files)
    if r < 0.50:
        return "Xm%d,%d" % (rng.choice(files + [0, 3, 4, 3]), rng.choice([0o644, 0o600, 0o755, 0o700]))
    if r < 0.65:
        return "Xc%d" % rng.choice([7, 8, 7, 8, 1, 2, 9])
    if r < 0.80:
        return "Xu%d" % rng.choice(files + [3])
    if r < 0.95:
        return "Xr%d,%d" % (rng.choice(files), rng.choice([7, 8, 1, 2, 5, 9]))
    return "Xd%d" % rng.choice([7, 8, 3])


def fe_case_fork(rng):
    """1-4 handles on 1-3 paths (several per path, a path watched through a hard link); fork; the child calls
    uv_loop_fork(), is observed, changes files, stops / closes / restarts, closes its loop; the parent goes on"""
    nh = rng.randint(1, 4)
    pool = rng.sample([0, 1, 2, 4, 5, 3], rng.randint(1, 3))
    if rng.random() < 0.4 and 1 in pool:
        pool.append(6)                                  # d1/l0: the same inode as d0/f0
    ops = ["I"] * nh
    for h in range(nh):
        ops.append("S%d,%d,%d" % (h, rng.randint(1, 3), pool[h % len(pool)] if h < len(pool) else rng.choice(pool)))
    if rng.random() < 0.5:
        ops += [rng.choice(["Xw1", "Xw2", "Xm5,420", "Xc7"]), "R"]
    if rng.random() < 0.2:
        ops.append("T%d" % rng.randrange(nh))
    ops += ["O", "Y"]

    def mild():
        return rng.choice(["Xw1", "Xw2", "Xw5", "Xw6", "Xm1,384", "Xm2,420", "Xm0,493", "Xm4,448", "Xc7", "Xc8", "Xd8", "Xw9"])
    for _ in range(rng.randint(1, 5)):
        if rng.random() < 0.25:
            ops.append(fe_api_op(rng, nh))
        ops += [mild(), "R"]
    if rng.random() < 0.5:
        ops.append("O")
    ops += ["Z", "P"]
    for _ in range(rng.randint(1, 3)):
        ops += [mild(), "R"]
    ops += ["O", "Z"]
    behs = [" ".join(fe_api_op(rng, nh) for _ in range(rng.choice([0, 0, 0, 1, 2]))) for _ in range(rng.randint(0, 10))]
    return "%s ; %s" % (" ".join(ops), " | ".join(behs))


def fe_case(rng):
    if rng.random() < 0.2:
        return fe_case_fork(rng)
    nh = rng.randint(1, 6)
    hot = rng.choice([0, 1, 1, 6, 4])           # many handles on one path: shared watcher list
    ops = ["I"] * nh
    for h in range(nh):
        if rng.random() < 0.85:
            ops.append("S%d,%d,%d" % (h, rng.randint(1, 3), hot if rng.random() < 0.6 else
                                      rng.choice([0, 1, 2, 3, 4, 5, 6, 9])))
    for _ in range(rng.randint(2, 12)):
        while rng.random() < 0.25:
            ops.append(fe_api_op(rng, nh))
        ops.append(fe_change(rng))
        while rng.random() < 0.15:
            ops.append(fe_change(rng))
        ops.append("R")
    ops.append("Z")
    behs = []
    for _ in range(rng.randint(0, 16)):
        behs.append(" ".join(fe_api_op(rng, nh) for _ in range(rng.choice([0, 0, 1, 1, 2, 3]))))
    return "%s ; %s" % (" ".join(ops), " | ".join(behs))


def fe_walk(case, raw):
    """Walks script and implementation trace together.  Returns (model_input, impl_tokens_for_comparison,
    errors) where errors is a list of reasons ('KNOWN:key: text' for the listed deviations)."""
    opsx, behsx = case.split(";")
    top = opsx.split()
    behl = [b.split() for b in behsx.split("|")]
    toks = raw.split()
    pos = [0]
    errs = []
    H = []
    wdmap = {}
    names = {n: i for i, n in enumerate(FE_NAMES)}
    live = {}               # canonical wd -> kernel watch requested and not yet removed by libuv
    out = []                # canonical implementation tokens
    mtop = []               # model ops, top level
    mbeh = [list(b) for b in behl]
    cbeh = {}               # behaviours as run in the child (by callback number)
    child = [None]          # inside the child: the saved parent state
    relaxed = [False]       # the parent's first iteration after the child: the child's changes arrive too
    wdpath = {}             # canonical wd -> path index uv_fs_event_getpath reports for its handles
    cbcount = [0]
    exists = {0, 1, 2, 3, 4, 5, 6, 9}
    dirs = set(FE_DIRS0)
    inode = {p: p for p in range(10)}
    inode[6] = 1            # d1/l0 is a hard link to d0/f0
    nextino = [100]
    stopped_during = set()

    def peek():
        return toks[pos[0]] if pos[0] < len(toks) else None

    def cwd(v):
        v = int(v)
        if v < 0:
            return v
        if v not in wdmap:
            wdmap[v] = len(wdmap) + 1
        return wdmap[v]

    def nm(n):
        if n not in names:
            names[n] = len(names)
        return names[n]

    def opt_m():
        while peek() is not None and peek()[0] == "m":
            wd = cwd(toks[pos[0]][1:])
            pos[0] += 1
            out.append("m%d" % wd)
            if any(x["active"] and x["wd"] == wd for x in H):
                errs.append("inotify_rm_watch(wd %d) while a handle is still watching it" % wd)
            if not live.get(wd):
                errs.append("inotify_rm_watch(wd %d) for a watch that is not there (freed twice?)" % wd)
            live[wd] = False

    def take_r():
        t = peek()
        if t is None or t[0] != "r":
            errs.append("trace out of step with the script: expected a return code, got %r" % t)
            return None
        pos[0] += 1
        out.append(t)
        return int(t[1:])

    def observe(after_fork=None):
        """o<active>:<path index>:<wd>, per handle; after_fork: the handles as they were in the parent"""
        t = peek()
        if t is None or t[0] != "o":
            errs.append("trace out of step: expected an observation, got %r" % t)
            return
        pos[0] += 1
        ents = [e for e in t[1:].split(",") if e]
        if len(ents) != len(H):
            errs.append("observation lists %d handles, %d exist" % (len(ents), len(H)))
            return
        co = "o"
        for j, e in enumerate(ents):
            a, pid, wd = [int(v) for v in e.split(":")]
            co += "%d:%s," % (a, nm(fe_base(pid)) if a and pid >= 0 else "-")
            if after_fork is not None:
                was = after_fork[j]
                if was["active"] and not a:
                    errs.append("h%d was watching %s before fork(); after uv_loop_fork() in the child it is not "
                                "active any more (uv_loop_fork returned 0)" % (j, FE_REL[was["gp"]] if was["gp"] is not None else "?"))
                    continue
                if not was["active"] and a:
                    errs.append("h%d is active in the child although it was stopped in the parent" % j)
                    continue
                if a:
                    if pid != was["gp"]:
                        errs.append("h%d: uv_fs_event_getpath gives %s in the child, %s in the parent"
                                    % (j, FE_REL[pid] if pid >= 0 else "nothing", FE_REL[was["gp"]]))
                    nwd = cwd(wd)
                    H[j]["wd"] = nwd
                    live[nwd] = True
                    wdpath.setdefault(nwd, pid)
            else:
                if bool(a) != bool(H[j]["active"]):
                    errs.append("uv_is_active(h%d) = %d, expected %d" % (j, a, H[j]["active"]))
                elif a and pid != wdpath.get(H[j]["wd"]):
                    errs.append("uv_fs_event_getpath(h%d) = %s, the watcher list was made for %s"
                                % (j, FE_REL[pid] if pid >= 0 else "nothing", FE_REL[wdpath.get(H[j]["wd"], 0)]))
        out.append(co)

    def api(t, sink, in_dispatch):
        k = t[0]
        if k == "I":
            H.append({"active": False, "closing": False, "closed": False, "path": None, "cb": 0, "wd": -1,
                      "stale": False})
            sink.append("I")
        elif k == "S":
            h, cb, p = [int(x) for x in t[1:].split(",")]
            if h >= len(H) or H[h]["closing"]:
                sink.append("S%d,%d,%d,0" % (h, cb, nm(fe_base(p))))
                return
            wd = 0
            if peek() is not None and peek()[0] == "w":
                wd = cwd(toks[pos[0]][1:])
                pos[0] += 1
            elif not H[h]["active"]:
                errs.append("uv_fs_event_start did not call inotify_add_watch")
            sink.append("S%d,%d,%d,%d" % (h, cb, nm(fe_base(p)), wd))
            r = take_r()
            if r is None:
                return
            if H[h]["active"]:
                if r != -22:
                    errs.append("uv_fs_event_start on an active handle returned %d" % r)
            elif wd < 0:
                if r != wd:
                    errs.append("uv_fs_event_start returned %d, inotify_add_watch failed with %d" % (r, wd))
            elif r == 0:
                H[h].update(active=True, path=p, cb=cb, wd=wd, stale=False, ino=inode.get(p))
                if not live.get(wd):
                    wdpath[wd] = p
                live[wd] = True
            else:
                errs.append("uv_fs_event_start failed with %d" % r)
        elif k == "O":
            sink.append("O")
            observe()
        elif k == "T":
            h = int(t[1:])
            sink.append(t)
            if h < len(H) and not H[h]["closed"]:
                H[h]["active"] = False
                stopped_during.add(h)
                if peek() == "t":
                    pos[0] += 1
                else:
                    errs.append("trace out of step at uv_fs_event_stop: %r" % peek())
                opt_m()
                r = take_r()
                if r not in (0, None):
                    errs.append("uv_fs_event_stop returned %d" % r)
        elif k == "C":
            h = int(t[1:])
            sink.append(t)
            if h < len(H) and not H[h]["closing"]:
                H[h]["active"] = False
                H[h]["closing"] = True
                stopped_during.add(h)
                if peek() == "k":
                    pos[0] += 1
                else:
                    errs.append("trace out of step at uv_close: %r" % peek())
                opt_m()

    def check_watches(where):
        for wd, lv in live.items():
            if lv and not any(x["active"] and x["wd"] == wd for x in H):
                errs.append("watcher list of wd %d is empty but was not freed (%s)" % (wd, where))
                live[wd] = False

    def expectations(changes, at_start):
        """per change: [(handle, wanted bit or 0, wanted name or None)]"""
        exp = []
        for c in changes:
            kind = c[1]
            a = c[2:].split(",")
            p = int(a[0])
            par = FE_PARENT.get(p)

            def watchers(q, self_watch):
                for h in at_start:
                    x = H[h]
                    if x["stale"]:
                        continue
                    if self_watch and x.get("ino") == inode.get(q) and q in exists:
                        yield h
                    if not self_watch and x["path"] == q:
                        yield h
            if kind in "wm":
                if p not in exists or (kind == "w" and p in dirs):
                    continue
                for h in watchers(p, True):
                    exp.append((h, UV_CHANGE, fe_base(H[h]["path"]), c))
                if par is not None and par in exists:
                    for h in watchers(par, False):
                        exp.append((h, UV_CHANGE, fe_base(p), c))
            elif kind in "cd":
                if p in exists or par not in exists:
                    continue
                for h in watchers(par, False):
                    exp.append((h, UV_RENAME, fe_base(p), c))
                exists.add(p)
                inode[p] = nextino[0]
                nextino[0] += 1
                if kind == "d":
                    dirs.add(p)
            elif kind == "u":
                if p not in exists:
                    continue
                if p in dirs and any(FE_PARENT.get(q) == p and q in exists for q in range(10)):
                    continue
                for h in watchers(p, True):
                    exp.append((h, 0, None, c))
                    if H[h]["path"] == p or sum(1 for q in exists if inode.get(q) == inode[p]) == 1:
                        H[h]["stale"] = True
                if par in exists:
                    for h in watchers(par, False):
                        exp.append((h, UV_RENAME, fe_base(p), c))
                exists.discard(p)
                dirs.discard(p)
            elif kind == "r":
                q = int(a[1])
                if p not in exists or q == p or FE_PARENT.get(q) not in exists:
                    continue
                if p in dirs:
                    # a directory moves: onto nothing or onto an empty directory, never below itself
                    if FE_PARENT.get(q) == p or (q in exists and q not in dirs) or \
                            (q in dirs and any(FE_PARENT.get(x) == q and x in exists for x in range(10))):
                        continue
                    for h in watchers(p, True):
                        exp.append((h, 0, None, c))
                        H[h]["stale"] = True
                    if q in exists:
                        for h in watchers(q, True):
                            H[h]["stale"] = True
                    for h in watchers(par, False):
                        exp.append((h, UV_RENAME, fe_base(p), c))
                    for h in watchers(FE_PARENT[q], False):
                        exp.append((h, UV_RENAME, fe_base(q), c))
                    for x in range(10):                      # what was inside is out of reach now
                        if FE_PARENT.get(x) == p and x in exists:
                            for h in at_start:
                                if H[h]["path"] == x:
                                    H[h]["stale"] = True
                            exists.discard(x)
                    for h in at_start:
                        if H[h]["path"] == p:
                            H[h]["stale"] = True
                    exists.discard(p)
                    dirs.discard(p)
                    exists.add(q)
                    dirs.add(q)
                    inode[q] = inode[p]
                    continue
                if q in dirs:
                    continue
                if inode.get(q) == inode[p] and q in exists:
                    continue            # rename between two links of one inode does nothing
                for h in watchers(p, True):
                    exp.append((h, 0, None, c))
                    H[h]["stale"] = True
                if q in exists:
                    for h in watchers(q, True):
                        H[h]["stale"] = True
                for h in watchers(par, False):
                    exp.append((h, UV_RENAME, fe_base(p), c))
                for h in watchers(FE_PARENT[q], False):
                    exp.append((h, UV_RENAME, fe_base(q), c))
                exists.discard(p)
                exists.add(q)
                inode[q] = inode[p]
        return exp

    def dispatch(changes, sink):
        """tokens of one loop iteration"""
        at_start = [h for h, x in enumerate(H) if x["active"]]
        stopped_during.clear()
        exp = expectations(changes, at_start)
        got = {}
        sink.append("D")
        evs = []
        while peek() is not None and peek()[0] in "ecmx":
            t = toks[pos[0]]
            if t[0] == "e":
                pos[0] += 1
                wd, mask, name = t[1:].split(",", 2)
                sink.append("e%d,%s,%s" % (cwd(wd), mask, "-" if name == "-" else nm(name)))
                evs.append((cwd(wd), int(mask), name))
            elif t[0] == "m":
                opt_m()
            elif t[0] == "x":
                pos[0] += 1
                out.append(t)
                h = int(t[1:])
                if h >= len(H) or not H[h]["closing"] or H[h]["closed"]:
                    errs.append("close callback for h%d which is not closing" % h)
                else:
                    H[h]["closed"] = True
            else:
                pos[0] += 1
                f = t[1:].split(",")
                h, cb, name, bits = int(f[0]), int(f[1]), f[2], int(f[3])
                out.append("c%d,%d,%d,%d" % (h, cb, nm(name), bits))
                if len(f) > 4:
                    errs.append("callback with an error status")
                if h >= len(H) or not H[h]["active"]:
                    errs.append("callback for h%d which has been stopped or closed" % h)
                else:
                    if cb != H[h]["cb"]:
                        errs.append("h%d: callback %d invoked, started with callback %d" % (h, cb, H[h]["cb"]))
                    got.setdefault(h, []).append((name, bits))
                    pth = H[h]["path"]
                    if pth not in dirs and pth is not None and name != fe_base(pth) and h in at_start:
                        other = [q for q in range(10) if q != pth and inode.get(q) == H[h].get("ino")]
                        if any(name == fe_base(q) for q in other) or True:
                            errs.append("KNOWN:fs_event_hardlink_reports_first_watchers_name: h%d watches the file %s "
                                        "and is told the name '%s' (the path another handle used for the same inode)"
                                        % (h, FE_REL[pth], name))
                k = cbcount[0]
                cbcount[0] += 1
                if k < len(behl):
                    nb = []
                    for o in behl[k]:
                        if o[0] in "ISTCO":
                            api(o, nb, True)
                    if child[0] is not None:
                        cbeh[k] = nb
                    else:
                        mbeh[k] = nb
        for h, bit, name, c in exp:
            if h in stopped_during or not H[h]["active"]:
                continue
            g = got.get(h, [])
            if not g:
                errs.append("h%d (watching %s) got no callback for the change %s" % (h, FE_REL[H[h]["path"]], c))
            elif bit and not any(b & bit for _, b in g):
                errs.append("h%d got no callback with %s for the change %s (got %s)"
                            % (h, "UV_CHANGE" if bit == UV_CHANGE else "UV_RENAME", c, g))
            elif name is not None and not any(n == name and (b & bit) for n, b in g):
                if not any(e.startswith("KNOWN:fs_event_hardlink") for e in errs):
                    errs.append("h%d got no callback naming '%s' for the change %s (got %s)" % (h, name, c, g))
        # a single content/attribute change must be reported as UV_CHANGE only
        real = [c for c in changes if c[1] in "wm"]
        if len(changes) == 1 and len(real) == 1 and exp and not relaxed[0]:
            for h, g in got.items():
                for n, b in g:
                    if b != UV_CHANGE:
                        p = int(real[0][2:].split(",")[0])
                        errs.append("h%d: the change %s of %s%s is reported with events=%d, not UV_CHANGE"
                                    % (h, real[0], "the directory " if p in dirs else "", FE_REL[p], b))
        # creating a subdirectory is a rename-class event only (IN_CREATE|IN_ISDIR)
        if len(changes) == 1 and changes[0][1] == "d" and exp and not relaxed[0]:
            for h, g in got.items():
                for n, b in g:
                    if b != UV_RENAME:
                        errs.append("h%d: the change %s is reported with events=%d, not UV_RENAME" % (h, changes[0], b))
        if peek() == ".":
            pos[0] += 1
        else:
            errs.append("trace out of step at the end of an iteration: %r" % peek())
        check_watches("after the iteration")

    import copy
    changes = []
    for t in top:
        if errs and len(errs) > 20:
            break
        if t[0] in "ISTCO":
            api(t, mtop, False)
            check_watches("after %s" % t)
        elif t[0] == "X":
            changes.append(t)
        elif t == "R":
            if peek() == "g":
                pos[0] += 1
            else:
                errs.append("trace out of step at R")
            dispatch(changes, mtop)
            changes = []
            relaxed[0] = False
        elif t == "Y":
            if child[0] is not None:
                continue
            if peek() is not None and peek()[0] == "!":
                errs.append("the child process died (wait status %s)" % peek()[1:])
                break
            # in the child: the old lists are freed (inotify_rm_watch on the closed descriptor), every
            # handle is started again on a new inotify instance, then uv_loop_fork returns
            while peek() is not None and peek()[0] == "m":
                wd = cwd(toks[pos[0]][1:])
                pos[0] += 1
                out.append("m%d" % wd)
            before = copy.deepcopy(H)
            for x in before:
                x["gp"] = wdpath.get(x["wd"]) if x["active"] else None
            saved = (copy.deepcopy(H), dict(wdmap), dict(live), dict(wdpath), cbcount[0])
            wdmap.clear()
            live.clear()
            wdpath.clear()
            wds = []
            while peek() is not None and peek()[0] == "w":
                wds.append(cwd(toks[pos[0]][1:]))
                pos[0] += 1
            y = peek()
            if y is None or y[0] != "y":
                errs.append("no uv_loop_fork result in the child: %r" % y)
                break
            pos[0] += 1
            out.append("r" + y[1:])
            mtop.append("Y" + ",".join(str(w) for w in wds))
            if int(y[1:]) != 0:
                errs.append("uv_loop_fork returned %s in the child" % y[1:])
            nact = sum(1 for x in before if x["active"])
            if len(wds) != nact and int(y[1:]) == 0:
                errs.append("uv_loop_fork restarted %d handle(s), %d were active before fork()" % (len(wds), nact))
            child[0] = saved
            mtop.append("O")
            observe(after_fork=before)
            changes = []
        elif t == "P":
            if child[0] is None:
                continue
            if peek() == "P":
                pos[0] += 1
            else:
                errs.append("the child did not reach the end of its part of the script: %r" % peek())
            out.append("P")
            mtop.append("P")
            sH, swd, slive, swp, scb = child[0]
            H[:] = sH
            wdmap.clear(); wdmap.update(swd)
            live.clear(); live.update(slive)
            wdpath.clear(); wdpath.update(swp)
            cbcount[0] = scb
            child[0] = None
            changes = []
            relaxed[0] = True
            if peek() is not None and peek()[0] == "!":
                errs.append("the child process died (wait status %s)" % peek()[1:])
                pos[0] += 1
        elif t == "Z":
            for h, x in enumerate(H):
                if not x["closing"]:
                    api("C%d" % h, mtop, False)
            if peek() == "g":
                pos[0] += 1
            dispatch([], mtop)
            z = peek()
            if z is None or z[0] != "z":
                errs.append("no uv_loop_close result")
            else:
                pos[0] += 1
                zrc, zlive = (z[1:].split(",") + ["0"])[:2]
                if int(zrc) != 0:
                    errs.append("uv_loop_close returned %s after every handle was closed" % zrc)
                elif int(zlive) != 0:
                    errs.append("%s allocation(s) of libuv outstanding after uv_loop_close%s"
                                % (zlive, " in the child after uv_loop_fork" if child[0] is not None else ""))
                if any(live.values()):
                    errs.append("a kernel watch is left behind at uv_loop_close")
    if pos[0] != len(toks) and not errs:
        errs.append("trace has tokens the script does not account for (first: %s)" % toks[pos[0]])
    def unrun(b):
        return [("S%s,%d,0" % (",".join(o[1:].split(",")[:2]), nm(fe_base(int(o[1:].split(",")[2]))))
                 if o[0] == "S" else o) for o in b if o[0] in "ISTCO"]
    for k in range(len(mbeh)):          # behaviours that never ran in the parent
        if any(o[0] == "S" and o.count(",") == 2 for o in mbeh[k]):
            mbeh[k] = unrun(mbeh[k])
    cb = [cbeh[k] if k in cbeh else unrun(behl[k]) for k in range(len(behl))]
    mi = "%s ; %s ; %s" % (" ".join(mtop), " | ".join(" ".join(b) for b in mbeh),
                           " | ".join(" ".join(b) for b in cb))
    return mi, " ".join(out), errs


def fsevent_part(chk, exe, model, thorough, work):
    cdir = os.path.join(vf.VERIF, "corpus", "C17")
    corpus = []
    p = os.path.join(cdir, "fsevent.txt")
    if os.path.exists(p):
        corpus = [l.rstrip("\n") for l in open(p) if l.strip() and not l.startswith("#")]
    if chk.replay:
        rp = vf.json.load(open(chk.replay))
        cases = [rp["case"].split("  ## script: ")[-1]] if rp.get("obligation", "").startswith("linux.c") else []
    else:
        cases = corpus + [fe_case(chk.rng) for _ in range(4000 if thorough else 300)]
    if not cases:
        return
    res = run_each(exe, cases, work, "e")
    minputs, impl, info, dec = [], [], {}, []
    for c, (out, rc, err) in zip(cases, res):
        if rc != 0 or "Sanitizer" in err or "runtime error" in err:
            chk.violation("linux.c (inotify): the harness aborted (%s)" % (
                "sanitizer report" if "Sanitizer" in err or "runtime error" in err else "exit %d" % rc),
                {"kind": "asan", "obligation": "linux.c inotify = Model/Inotify.v",
                 "case": c, "stderr": err[-2500:], "stdout": out[:2000]}, found_input=True)
            continue
        mi, im, errs = fe_walk(c, out)
        minputs.append(mi)
        impl.append(im)
        dec.append(mi + "  ## script: " + c)
        info[dec[-1]] = (c, errs, out)
    mout, _, _ = vf.run_lines([model, "fsevent"], minputs, shards=8) if minputs else ([], 0, "")
    stats = {"cb": 0, "rm": 0, "known": 0}

    def monitor(mi, line):
        c, errs, raw = info[mi]
        stats["cb"] += sum(1 for t in line.split() if t[0] == "c")
        stats["rm"] += sum(1 for t in line.split() if t[0] == "m")
        hard = [e for e in errs if not e.startswith("KNOWN:")]
        if hard:
            return hard[0] + "  [script: " + c + "]"
        first = None
        for e in errs:
            key = e[6:].split(":")[0]
            f = chk.match_known(key)
            if f is not None:
                chk.known_hit(f)
                f.setdefault("example", {"case": c, "impl": raw[:800], "text": e[6:]})
                stats["known"] += 1
            elif first is None:
                first = "unlisted finding " + e[6:] + "  [script: " + c + "]"
        return first
    vf.diff_cases(chk, "linux.c inotify = Model/Inotify.v", dec, impl, mout, monitor)
    chk.cov["fs_event_scripts"] = len(cases)
    chk.cov["fs_event_callbacks_observed"] = stats["cb"]
    chk.cov["fs_event_lists_freed_observed"] = stats["rm"]
    if minputs:
        chk.sample({"fs_event_case": minputs[-1][:600], "impl": impl[-1][:600]})


# ----------------------------------------------------------------------------------------------
def fspoll_part(chk, exe, model, thorough, work):
    corpus = []
    cdir = os.path.join(vf.VERIF, "corpus", "C17")
    for fn in ("fspoll_known.txt", "fspoll.txt"):       # fspoll_known.txt: replays of the two repaired defects
        p = os.path.join(cdir, fn)
        if os.path.exists(p):
            corpus += [l.rstrip("\n") for l in open(p) if l.strip() and not l.startswith("#")]
    if chk.replay:
        rp = vf.json.load(open(chk.replay))
        cases = [rp["case"].split("  ## script: ")[-1]] if rp.get("obligation", "").startswith("fs-poll") else []
    else:
        cases = corpus + [fp_case(chk.rng) for _ in range(3000 if thorough else 260)]
    if not cases:
        return
    res = run_each(exe, cases, work, "p")
    minputs, keep = [], []
    for c, (out, rc, err) in zip(cases, res):
        if rc != 0 or "Sanitizer" in err or "runtime error" in err:
            chk.violation("fs-poll.c: the harness aborted (%s)" % (
                "sanitizer report" if "Sanitizer" in err or "runtime error" in err else "exit %d" % rc),
                {"kind": "asan", "obligation": "fs-poll.c = Model/FsPoll.v", "case": c, "stderr": err[-2500:],
                 "stdout": out[:2000]}, found_input=True)
            continue
        toks, groups, other = fp_canon(out)
        keep.append((c, toks, groups, other))
        minputs.append(fp_model_input(c, groups))
    mout, _, merr = vf.run_lines([model, FSPOLL_VARIANT], minputs, shards=8) if minputs else ([], 0, "")
    by_case, nself = {}, 0
    dec = [mi + "  ## script: " + k[0] for k, mi in zip(keep, minputs)]
    for (c, toks, groups, other), mi, mo in zip(keep, dec, mout):
        by_case[mi] = (c, groups, other)
        # every trace of the model must satisfy the monitor (the monitor asks no more than the theorems give)
        r = fp_monitor_with(c, mo.split(), groups, 0)
        if r is not None and nself == 0:
            nself += 1
            chk.violation("fs-poll: the model's own trace violates the monitor (%s)" % r,
                          {"kind": "selfcheck", "obligation": "monitor vs Model/FsPoll.v",
                           "case": mi, "model": mo}, found_input=False)

    stats = {"callbacks": 0, "closes": 0}

    def monitor(mi, impl_line):
        c, groups, other = by_case[mi]
        stats["callbacks"] += sum(1 for t in impl_line.split() if t[0] == "p")
        stats["closes"] += sum(1 for t in impl_line.split() if t[0] == "x")
        return fp_monitor_with(c, impl_line.split(), groups, other)
    impl = [" ".join(k[1]) for k in keep]
    vf.diff_cases(chk, "fs-poll.c = Model/FsPoll.v", dec, impl, mout, monitor)
    chk.cov["fs_poll_scripts"] = len(cases)
    chk.cov["fs_poll_callbacks_observed"] = stats["callbacks"]
    chk.cov["fs_poll_close_callbacks_observed"] = stats["closes"]
    if keep:
        chk.sample({"fs_poll_case": minputs[-1][:600], "impl": impl[-1][:600]})


# repaired in /repo 56a9a49 (an abort of the asserts-on harness is a plain violation):
# fs_poll_timer_cb_assert_after_restart_in_same_timer_pass


def main():
    chk = vf.Check("C17")
    thorough = chk.tier == "thorough"
    chk.prove()
    try:
        lib = vf.build_libuv(chk.scratch, "asan")   # asserts on: an abort is a VIOLATION
        hpoll = vf.cc_harness(chk.scratch, "c17_fspoll", ["c17_fspoll.c"], lib=lib, flavour="asan",
                              wraps=["clock_gettime", "epoll_pwait", "syscall"])
        hev = vf.cc_harness(chk.scratch, "c17_fsevent", ["c17_fsevent.c"], lib=lib, flavour="asan",
                            wraps=["read", "inotify_add_watch", "inotify_rm_watch"])
        model = vf.model_bin("C17")
    except vf.BuildError as e:
        chk.violation("build failed: %s" % str(e)[:300], {"kind": "build", "log": str(e)}, found_input=False)
        chk.finish(rule="build failed")
    work = os.path.join(chk.scratch.dir, "work")
    fspoll_part(chk, hpoll, model, thorough, work)
    fsevent_part(chk, hev, model, thorough, work)
    chk.finish(
        level="proof",
        rule="fs_poll: random API scripts (start/stop/restart/close in every phase of the poll cycle, from "
             "callbacks too) on real scratch files with a virtual clock and a held thread pool, ASan flavour; "
             "a case is non-trivial when its (case, implementation trace) pair is distinct",
        trusted=["Coq 8.16.1 kernel (coqc)", "ExtrOcamlBasic extraction + OCaml 4.13.1 (ocaml/zutil.ml, drv_c17.ml)",
                 "harness/c17_fspoll.c, harness/c17_fsevent.c, checks/c17.py (generators, monitors, canonical renaming)",
                 "gcc 12 + AddressSanitizer"])


if __name__ == "__main__":
    main()
