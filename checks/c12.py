#!/usr/bin/env python3
"""C12 child processes: proofs (Properties_C12.v) + correspondence of Model/Process.v with
src/unix/process.c of the current tree (real uv_spawn of the harness binary in child mode,
real exits, real waitpid answers recorded and replayed into the model)."""
import os, re, sys
sys.path.insert(0, os.path.join(os.path.dirname(os.path.abspath(__file__)), "..", "lib"))
import vf

TERM_SIGS = [1, 2, 9, 10, 12, 13, 14, 15]        # default action: terminate, no core
CORE_SIGS = [3, 6, 8, 11]                        # terminate (+core, disabled by RLIMIT_CORE 0)


# --------------------------------------------------------------------------
# case generators
# --------------------------------------------------------------------------
def gen_shuffle(rng):
    """One child with a report; random parent layout and stdio mapping."""
    hi = rng.choice([12, 15, 15, 20])
    toks = ["L%d" % hi]
    user = {}                      # fd -> (file, cx)
    style = rng.random()
    n = rng.choice([0, 1, 2, 3, 3, 4, 5, 6, 7, 8, 9, 10, 11, 12])
    if style < 0.35 and n >= 2:
        # sources inside the target range: permutations, swaps, duplicates
        for fd in range(3, n):
            user[fd] = (fd - 2, rng.random() < 0.5)
        srcs = list(range(0, n))
        perm = srcs[:]
        k = rng.random()
        if k < 0.4:
            rng.shuffle(perm)
        elif k < 0.6:
            i, j = rng.randrange(n), rng.randrange(n)
            perm[i], perm[j] = perm[j], perm[i]
        elif k < 0.8:
            perm = perm[1:] + perm[:1] if rng.random() < 0.5 else perm[-1:] + perm[:-1]
        else:
            perm = [rng.choice(srcs) for _ in srcs]
        slots = ["h%d" % p for p in perm]
        for i in range(n):
            if rng.random() < 0.12:
                slots[i] = rng.choice(["i", "i", "p"])
    else:
        nuser = rng.randint(0, 6)
        pool = list(range(3, hi + 1)) + [60, 61, 62, 63, 64, 70]
        for fd in rng.sample(pool, nuser):
            user[fd] = (rng.randint(1, 8), rng.random() < 0.5)
        slots = []
        for i in range(n):
            r = rng.random()
            if r < 0.28 or (not user and r < 0.5):
                slots.append("i")
            elif r < 0.38:
                slots.append("p")
            elif r < 0.50:
                slots.append("h%d" % rng.choice([0, 1, 2]))
            elif user:
                slots.append("h%d" % rng.choice(sorted(user)))
            else:
                slots.append("h%d" % rng.choice([0, 1, 2]))
    if sum(1 for s in slots if s == "p") > 4:
        slots = [("i" if (s == "p" and rng.random() < 0.6) else s) for s in slots]
    # fill the low holes with close-on-exec fillers in some cases so that new
    # descriptors land above the targets
    if rng.random() < 0.3:
        for fd in range(3, hi + 1):
            if fd not in user and rng.random() < 0.85:
                user[fd] = (0, True)
    flags = "R"
    r = rng.random()
    if r < 0.22:
        flags += "E"
    elif r < 0.25:
        slots and slots.__setitem__(rng.randrange(len(slots)), "h%d" % rng.choice([58, 59]))  # closed source
    elif r < 0.27 and slots:
        slots[rng.randrange(len(slots))] = "b"
    elif r < 0.30:
        np_ = sum(1 for s in slots if s == "p")
        flags += rng.choice(["p", "f"] + (["s%d" % rng.randrange(np_)] if np_ else []))
    for fd in sorted(user):
        toks.append("f%d=%d%s" % (fd, user[fd][0], "c" if user[fd][1] else "n"))
    for sg in (10, 15, 12):
        if rng.random() < 0.15:
            toks.insert(1, "B%d" % sg)
    toks.append("r")
    toks.append("S0:%s:x%d:-:%s" % (",".join(slots) if slots else "-", rng.randrange(256), flags))
    # a further child after it: must be reported whatever happened to the first spawn
    toks.append("S1:%s:x%d:-:-" % (rng.choice(["-", "i,i,i", "h0,h1,h2"]), rng.randrange(256)))
    toks.append("D")
    return " ".join(toks)


def gen_exits(rng, maxn):
    """Several children, scripted exit codes / signals / times."""
    n = rng.choice([1, 2, 3, 4, 5, 6, 8, maxn])
    toks = ["L39", "g0", "g1", "g2"] + ["B%d" % sg for sg in (10, 15) if rng.random() < 0.15]
    gates = {0: [], 1: [], 2: [], None: []}
    alive = set()
    for h in range(n):
        g = rng.choice([None, 0, 0, 1, 2])
        if rng.random() < 0.55:
            act = "x%d" % rng.choice([0, 1, 2, 3, 42, 127, 128, 255, rng.randrange(256)])
        else:
            act = "s%d" % rng.choice(TERM_SIGS + CORE_SIGS)
        fl = ""
        if rng.random() < 0.06:
            fl += "N"
        r = rng.random()
        if r < 0.08:
            fl += "E"
        elif r < 0.13:
            fl += rng.choice(["f", "f", "p"])
        stdio = rng.choice(["-", "i,i,i", "h0,h1,h2", "i", "h0,h1,h2,i,h1"])
        toks.append("S%d:%s:%s:%s:%s" % (h, stdio, act, "-" if g is None else g, fl or "-"))
        if not (set(fl) & set("Efp")):
            gates[g].append(h)
            alive.add(h)
        if g is None and not (set(fl) & set("Efp")) and rng.random() < 0.6:
            toks.append("A%d" % h)             # certainly gone before the loop runs
        if rng.random() < 0.15:
            toks.append(rng.choice(["R", "W"]))
    if rng.random() < 0.3:
        toks.append("I%d" % rng.randint(1, 3))
    toks.append(rng.choice(["R", "W", "R R"]))
    stolen = set()
    for g in rng.sample([0, 1, 2], 3):
        members = gates[g]
        if not members:
            continue
        # some gated children are killed, stolen or closed while they wait
        for h in members:
            r = rng.random()
            if r < 0.15:
                toks.append("K%d:%d" % (h, rng.choice(TERM_SIGS)))
                if rng.random() < 0.7:
                    toks.append("A%d" % h)
            elif r < 0.19:
                toks.append("C%d" % h)
            elif r < 0.23:
                toks.append("K%d:9 Z%d" % (h, h))
                stolen.add(h)
                if rng.random() < 0.5:
                    toks.append(rng.choice(["R", "W"]))
                toks.append("C%d" % h)
        mode = rng.random()
        if mode < 0.4:
            toks.append("G%d" % g)
            toks += ["A%d" % h for h in members if h not in stolen]       # all gone together
            if rng.random() < 0.3:
                toks.append("I%d" % rng.randint(1, 4))
            toks.append(rng.choice(["R", "W", "R W", "R R"]))
        elif mode < 0.75:
            toks.append("T%d D" % g)                       # exits while the loop is blocked
        else:
            toks.append("G%d" % g)
            toks.append(rng.choice(["R", "D"]))
    toks.append("G0 G1 G2 D W")
    return " ".join(toks)


IDS = [0, 65534, 1000]
TRIPLES = [(r, e, sv) for r in IDS for e in IDS for sv in IDS if e == 0 or sv == 0]   # enough privilege kept


def creds_case(ut, gt, su, sg, stdio="-", code=0, extra=""):
    fl = "R" + ("" if su is None else "u%d" % su) + ("" if sg is None else "g%d" % sg) + extra
    return "L15 r V%d,%d,%d U%d,%d,%d S0:%s:x%d:-:%s S1:-:x7:-:- D" % (gt + ut + (stdio, code, fl))


def gen_creds(rng, nrandom):
    """uv_spawn with UV_PROCESS_SETUID/SETGID from parents whose real/effective/saved ids differ."""
    out = []
    for ut in TRIPLES:                       # every uid situation x every requested uid
        for su in [None] + IDS:
            out.append(creds_case(ut, rng.choice(TRIPLES), su, rng.choice([None] + IDS), code=len(out) % 200))
    for gt in TRIPLES:                       # every gid situation x every requested gid
        for sg in [None] + IDS:
            out.append(creds_case(rng.choice(TRIPLES), gt, rng.choice([None] + IDS), sg, code=len(out) % 200))
    for _ in range(nrandom):
        out.append(creds_case(rng.choice(TRIPLES), rng.choice(TRIPLES), rng.choice([None] + IDS),
                              rng.choice([None] + IDS), stdio=rng.choice(["-", "i,i,i", "h0,h1,h2", "p,h1", "i,p,p,h0"]),
                              code=rng.randrange(256), extra=rng.choice(["", "", "", "E"])))
    return out


def gen_closed_stdio(rng):
    """every subset of {0,1,2} closed in the parent x every stdio list of length 0..3 over
    ignore / create-pipe / inherit (of an open descriptor 5)"""
    out = []
    lists = [[]]
    for n in (1, 2, 3):
        lists += [[a] + l for a in ("i", "p", "h5") for l in lists if len(l) == n - 1]
    for mask in range(8):
        closes = " ".join("c%d" % fd for fd in (0, 1, 2) if mask >> fd & 1)
        for l in lists:
            fl = "R" + ("E" if rng.random() < 0.2 else "")
            out.append(" ".join(x for x in ["L15 f5=1n", closes, "r",
                                            "S0:%s:x%d:-:%s" % (",".join(l) or "-", len(out) % 200, fl),
                                            "S1:-:x7:-:-", "D"] if x))
    return out


def gen_sigchld(rng):
    """>= 3 children leaving at different times while the application has its own SIGCHLD
    watchers (regular / one-shot), started before, between or after the spawns, stopped or
    closed along the way: every child must still be reported once."""
    toks = ["L39", "g0", "g1", "g2"]

    def wop():
        k = rng.randrange(3)
        r = rng.random()
        if r < 0.45:
            return "Y%d:o" % k
        if r < 0.75:
            return "Y%d:r" % k
        if r < 0.9:
            return "y%d" % k
        return "X%d" % k
    if rng.random() < 0.7:
        toks.append(rng.choice(["Y0:o", "Y0:o", "Y0:r", "Y0:o Y1:o"]))     # before the first uv_spawn
    n = rng.randint(3, 8)
    gates = {0: [], 1: [], 2: []}
    for h in range(n):
        g = h if h < 3 else rng.randrange(3)
        act = "x%d" % rng.randrange(256) if rng.random() < 0.7 else "s%d" % rng.choice(TERM_SIGS)
        toks.append("S%d:%s:%s:%d:-" % (h, rng.choice(["-", "i,i,i", "h0,h1,h2"]), act, g))
        gates[g].append(h)
        if rng.random() < 0.3:
            toks.append(wop())
    for g in rng.sample([0, 1, 2], 3):
        if rng.random() < 0.4:
            toks.append(wop())
        if rng.random() < 0.3:
            toks.append("T%d D" % g)
        else:
            toks.append("G%d" % g)
            toks += ["A%d" % h for h in gates[g]]
            toks.append(rng.choice(["D", "R D", "R R D"]))
    toks.append("G0 G1 G2 D W")
    return " ".join(toks)


def gen_kill(rng):
    """uv_kill / uv_process_kill: existence probe, fatal signals, an invalid signal number, a reaped
    pid; pid > 0 and pid = -pgid of a detached child that has a grandchild in its group"""
    sig = rng.choice([15, 9, 10, 15, 9, 1, 2, 12])
    bad = rng.choice([65, 99, 200, 1000])
    r = rng.random()
    if r < 0.45:
        # a detached child with a grandchild in its group, addressed as a group
        toks = ["L39 g0 r", "S0:%s:Fx%d:0:Rd" % (rng.choice(["-", "i,i,i", "h0,h1,h2"]), rng.randrange(256))]
        pre = ["N0:0 J0", "N0:%d" % bad, "P0:0", "K0:0"]
        rng.shuffle(pre)
        toks += pre[:rng.randint(1, 4)]
        toks += ["N0:%d" % sig, "E J0", "N0:0", rng.choice(["P0:0", "K0:%d" % sig, ""]), "W"]
    elif r < 0.85:
        n = rng.randint(1, 4)
        toks = ["L39 g0"] + ["S%d:-:x%d:0:-" % (h, rng.randrange(256)) for h in range(n)]
        for h in range(n):
            form = rng.choice("KP")
            pre = ["%s%d:0" % (form, h), "%s%d:%d" % (rng.choice("KP"), h, bad), "N%d:0" % h]
            rng.shuffle(pre)
            toks += pre[:rng.randint(0, 3)]
            if rng.random() < 0.75:
                toks.append("%s%d:%d" % (form, h, rng.choice([15, 9, 10, 1, 2, 12, 13, 14])))
                toks.append(rng.choice(["E", "A%d R" % h, "E"]))
                toks.append("%s%d:0" % (rng.choice("KP"), h))       # reaped: ESRCH
        toks.append("G0 E W")
    else:
        # detached without a grandchild, not detached with one
        d = rng.random() < 0.5
        toks = ["L39 g0 r", "S0:-:%sx7:0:R%s" % ("" if d else "F", "d" if d else ""),
                "N0:0", "N0:%d" % sig, "E", "J0" if not d else "", "N0:0", "G0 E W"]
    return " ".join(t for t in toks if t)


def gen_forkfam(rng):
    """fork() + uv_loop_fork() in the copy before any signal watcher or child exists; one copy spawns
    while the other polls its loop: the spawner must still hear of every exit"""
    toks = ["L39", "g0", "O%s" % rng.choice("cp")]
    n = rng.randint(1, 4)
    gated = []
    for h in range(n):
        g = rng.random() < 0.5
        act = "x%d" % rng.randrange(256) if rng.random() < 0.7 else "s%d" % rng.choice(TERM_SIGS)
        toks.append("S%d:%s:%s:%s:-" % (h, rng.choice(["-", "i,i,i", "h0,h1,h2"]), act, "0" if g else "-"))
        if g:
            gated.append(h)
        if rng.random() < 0.3:
            toks.append("E")
    toks.append("E")
    if gated:
        toks.append("G0 E")
    toks.append("W")
    return " ".join(toks)


def gen_disable(rng):
    """non-contiguous inheritable descriptors below 16 (and above), uv_disable_stdio_inheritance(),
    then a spawn whose helper reports its table"""
    hi = rng.choice([12, 15, 15])
    toks = ["L%d" % hi]
    user = {}
    for fd in rng.sample(range(3, hi + 1), rng.randint(1, 5)):
        user[fd] = (rng.randint(1, 8), rng.random() < 0.25)
    if hi == 15:
        # the loop's descriptors occupy 16..22: 23 continues the run, 30 and 40 are behind a gap
        for fd in (23, 24, 30, 40):
            if rng.random() < 0.5:
                user[fd] = (rng.randint(1, 8), rng.random() < 0.25)
    else:
        for fd in (30, 40):
            if rng.random() < 0.5:
                user[fd] = (rng.randint(1, 8), False)
    for fd in sorted(user):
        toks.append("f%d=%d%s" % (fd, user[fd][0], "c" if user[fd][1] else "n"))
    slots = []
    for i in range(rng.choice([0, 0, 1, 2, 3, 3, 4, 6])):
        r = rng.random()
        slots.append("i" if r < 0.35 else ("p" if r < 0.45 else "h%d" % rng.choice(sorted(user) + [0, 1, 2])))
    toks += ["H", "r", "S0:%s:x%d:-:R%s" % (",".join(slots) or "-", rng.randrange(256), "E" if rng.random() < 0.1 else ""),
             "S1:-:x7:-:-", "D"]
    return " ".join(toks)


CORPUS = [
    # regression (fixed by /repo a79de05): the error pipe lands on 4 < stdio_count 6 and slot 4 is
    # mapped; before the fix the exec failure was reported as success
    "L15 r S0:h0,h1,h2,h0,h1,h2:x0:-:RE D",
    # same, the error pipe was overwritten by the child's end of a UV_CREATE_PIPE pair
    "L15 f60=8c r S0:i,h60,h60,h60,i,i,h60,p,h60,i,h60:x241:-:RE D",
    # same layout, slot 4 ignored: the error arrives
    "L15 r S0:h0,h1,h2,h0,i,h2:x0:-:RE D",
    # stdio_count 4: error pipe at 4 >= stdio_count
    "L15 r S0:h0,h1,h2,h0:x0:-:RE D",
    # swap of 1 and 2, duplicate, overlap with a non-cloexec high source
    "L15 f3=1n f4=2c f5=3n r S0:h0,h2,h1,h5,h3,h3:x5:-:R D",
    # full rotation of 0..5
    "L15 f3=1n f4=2n f5=3c r S0:h1,h2,h3,h4,h5,h0:x0:-:R D",
    # everything ignored, 5 slots, parent holds 3 and 4 inheritable
    "L15 f3=1n f4=2n r S0:i,i,i,i,i:x0:-:R D",
    # pipes and inherited mixed, count above the 8-slot inline array
    "L15 f3=1n f7=2c r S0:p,h3,p,h7,i,h0,h1,p,h3,i:x9:-:R D",
    # stdio_count 0 and 1
    "L15 r S0:-:x1:-:R D",
    "L15 f3=1n r S0:h3:x1:-:R D",
    # three children exiting together, one SIGCHLD pass
    "L39 g0 S0:i,i,i:x7:0:- S1:-:s15:0:- S2:h0,h1,h2:s9:0:- G0 A0 A1 A2 R D W",
    # exit before the loop runs, EINTR on the first waitpid calls
    "L39 S0:-:x255:-:- A0 I3 R D",
    # failed exec: no callback, no zombie
    "L39 S0:i,i,i:x0:-:E R D W",
    # fork fails (EAGAIN): the caller's signal mask must be back and the next child reported
    "L39 S0:i,i,i:x0:-:f S1:-:x9:-:- D W",
    "L39 B10 B15 S0:h0,h1,h2:x0:-:f S1:-:s15:-:- S2:-:x3:-:p S3:-:x4:-:- D W",
]


# --------------------------------------------------------------------------
# parsing the harness output
# --------------------------------------------------------------------------
def parse_table(s):
    out = {}
    if s in ("-", ""):
        return out
    for ent in s.split(","):
        fd, rest = ent.split("=")
        parts = rest.split("/")
        out[int(fd)] = (parts[0], int(parts[1]), int(parts[2]) if len(parts) > 2 else 0)
    return out


def flag_ids(fl):
    """(setuid, setgid) requested by the flags of a spawn token"""
    mu, mg = re.search(r"u(\d+)", fl), re.search(r"g(\d+)", fl)
    return (int(mu.group(1)) if mu else None, int(mg.group(1)) if mg else None)


def spawn_fields(tok):
    f = tok[1:].split(":")
    return int(f[0]), ([] if f[1] == "-" else f[1].split(",")), f[2], (None if f[3] == "-" else int(f[3])), \
        ("" if f[4] == "-" else f[4])


class Impl:
    """What the harness printed for one case, tokenised."""

    def __init__(self, case, line, debug=False):
        self.case, self.line = case, line
        self.debug = debug          # assert-enabled flavour of libuv
        self.abort = None           # (h, assertion text): abort() inside uv_spawn
        self.disable = []           # ("Hb"|"Ha", table) around uv_disable_stdio_inheritance()
        self.killlog, self.pending_call, self.grand, self.joins, self.forked = [], None, {}, [], None
        self.user_cbs = 0
        self.stuck_why = ""
        self.pcreds = {}
        self.bad = None
        self.toks = line.split()
        self.files = {}
        self.spawns = {}         # h -> dict
        self.order = []          # ("S", h) | ("W", [answers]) | ("C", h)
        self.exits = []          # (h, es, ts, chk, active)
        self.kills = {}
        self.z = None
        self.sizes = {}
        self.script = {}
        self.stuck = []
        self._nextid = 500
        self._ids = {}
        self._since = {}
        for t in case.split():
            if t[0] == "S":
                h, stdio, act, gate, fl = spawn_fields(t)
                self.script[h] = {"stdio": stdio, "act": act, "gate": gate, "flags": fl}
        if line.startswith("WORKER-DIED") or not self.toks:
            self.bad = "worker did not finish: %s" % line[:80]
            return
        cur = None
        try:
            for t in self.toks:
                c = t[0]
                if t.startswith("stuck:"):
                    _, why, hs = t.split(":")
                    self.stuck_why = why
                    self.stuck += [int(x) for x in hs.split(",")]
                elif t.startswith("Hb0:") or t.startswith("Ha0:"):
                    self.disable.append((t[:2], parse_table(t[4:])))
                elif c == "v":
                    self.user_cbs += 1
                elif t.startswith("abort:"):
                    _, h, txt = t.split(":", 2)
                    self.abort = (int(h), txt.replace("_", " ").strip())
                    break
                elif c == "I":
                    h, v = t[1:].split(":")
                    u, g = v.split("/")
                    self.pcreds[int(h)] = (tuple(int(x) for x in u.split(".")), tuple(int(x) for x in g.split(".")))
                elif c == "F":
                    n, ident = t[1:].split("=")
                    self.files[ident] = int(n)
                elif c == "P":
                    h, tb = t[1:].split(":", 1)
                    self.spawns[int(h)] = {"P": parse_table(tb), "b": []}
                    self.order.append(("S", int(h)))
                    cur = None
                elif c == "s":
                    h, ret, act = t[1:].split(":")
                    self.spawns[int(h)]["ret"] = int(ret)
                    self.spawns[int(h)]["active"] = int(act)
                elif c == "Q":
                    h, tb = t[1:].split(":", 1)
                    self.spawns[int(h)]["Q"] = parse_table(tb)
                elif c == "c":
                    h, tb = t[1:].split(":", 1)
                    parts = tb.split("|")
                    self.spawns[int(h)]["c"] = None if parts[0] == "-" and len(parts) == 1 else parse_table(parts[0])
                    if len(parts) >= 4:
                        self.spawns[int(h)]["ccreds"] = (tuple(int(x) for x in parts[1].split(".")),
                                                         tuple(int(x) for x in parts[2].split(".")), int(parts[3]))
                    if len(parts) >= 6:
                        self.spawns[int(h)]["session"] = parts[4]
                elif c == "t":
                    h, rest = t[1:].split(":", 1)
                    st = {}
                    for ent in rest.split(";"):
                        if ent:
                            slot, v = ent.split("=")
                            fd, tags = v.split("/")
                            st[int(slot)] = (fd, sorted(int(x) for x in tags.split(".") if x != ""))
                    self.spawns[int(h)]["t"] = st
                elif c == "M":
                    h, mb, ma = t[1:].split(":")
                    self.spawns[int(h)]["mask"] = (int(mb, 16), int(ma, 16))
                elif c == "N":
                    cur = []
                    self.order.append(("W", cur))
                elif c == "w":
                    h, kind, ans = t[1:].split(":")
                    if kind == "b":
                        self.spawns[int(h)]["b"].append(ans)
                    else:
                        if cur is None:
                            cur = []
                            self.order.append(("W", cur))
                        cur.append((int(h), ans))
                elif c == "x":
                    h, es, ts, chk, act = t[1:].split(":")
                    self.exits.append((int(h), int(es), int(ts), chk, int(act)))
                    self.order.append(("X", (int(h), int(es), int(ts))))
                    cur = None
                elif c == "C":
                    self.order.append(("C", int(t[1:])))
                elif c == "e":
                    tgt, sg, res = t[1:].split(":")
                    self.pending_call = (tgt, int(sg), int(res))
                elif c == "k":
                    h, r = t[1:].split(":")
                    # (kill(2) call seen by the wrapper or None, return value, children reaped so far,
                    #  grandchildren gone so far)
                    self.killlog.append((self.pending_call, int(h), int(r),
                                         set(x[0] for x in self.exits), dict(self.grand)))
                    self.pending_call = None
                elif c == "j":
                    h, v = t[1:].split(":")
                    self.grand[int(h)] = v
                    self.joins.append((int(h), v, len(self.killlog)))
                elif c == "O":
                    self.forked = t[1:]
                elif c == "z":
                    v = t[2:]
                    self.z = [] if v == "-" else [int(x) for x in v.split(",")]
                elif c == "m":
                    n, sz = t[1:].split(":")
                    self.sizes[int(n)] = int(sz)
                else:
                    self.bad = "unexpected token %s" % t[:40]
                    return
        except (ValueError, KeyError, IndexError) as e:
            self.bad = "unparsable harness output (%s)" % e
            return
        for h, sp in self.spawns.items():
            if self.abort and self.abort[0] == h:
                sp["abort"] = self.abort[1]
                continue
            if "ret" not in sp or "Q" not in sp:
                self.bad = "spawn %d did not return" % h
                return
        if self.abort and self.abort[0] not in self.spawns:
            self.bad = "abort() outside uv_spawn: %s" % self.abort[1][:120]
        elif self.z is None and not self.abort:
            self.bad = "case did not reach its end"

    def fid(self, ident, order=0):
        """identity -> file id: private files by their number, /dev/null 0, others 500+
        (remembering at which spawn of the case the identity was first seen in the parent)"""
        if ident in self.files:
            return self.files[ident]
        if ident not in self._ids:
            self._ids[ident] = self._nextid
            self._since[ident] = order
            self._nextid += 1
        return self._ids[ident]

    def known_at(self, ident, order):
        return ident in self.files or (ident in self._ids and self._since[ident] <= order)


ANS = {"E": "E", "0": "0", "C": "C"}


def model_input(im):
    ops = []
    nsp = 0
    for kind, v in im.order:
        if kind == "S":
            sp, sc = im.spawns[v], im.script[v]
            fl = sc["flags"]
            for fd, e in sorted(sp["P"].items()):
                im.fid(e[0], nsp)
            nsp += 1
            spf = "-"
            su, sg = flag_ids(fl)
            uc, gc = im.pcreds.get(v, ((0, 0, 0), (0, 0, 0)))
            m = re.search(r"s(\d+)", fl)
            if m:
                spf = m.group(1)
            tb = ",".join("%d=%d/%d" % (fd, im.fid(e[0]), e[1]) for fd, e in sorted(sp["P"].items())) or "-"
            ops.append("S %d %d %d %d %s %d %d %s %x %s %s %s %s ; %s ; %s ; %s" % (
                v, v, 0 if "N" in fl else 1, 1000 + 100 * v, spf, 1 if "p" in fl else 0,
                1 if "f" in fl else 0, "2" if "E" in fl else "-", sp.get("mask", (0, 0))[0],
                "%d.%d.%d" % uc, "%d.%d.%d" % gc, "-" if su is None else su, "-" if sg is None else sg,
                ",".join(sc["stdio"]) or "-", tb, " ".join(sp["b"])))
        elif kind == "W":
            ops.append("W " + " ".join(a for _, a in v))
        elif kind == "C":
            ops.append("C %d" % v)
    return " | ".join(ops)


class Namer:
    def __init__(self, known):
        self.known, self.names = known, {}

    def __call__(self, x):
        if self.known(x):
            return str(x)
        if x not in self.names:
            self.names[x] = "n%d" % len(self.names)
        return self.names[x]


def canon_impl(im):
    out = []
    name = Namer(lambda x: isinstance(x, int))

    nsp = [0]

    def tbl(t, with_cx=True):
        ents = []
        for fd, e in sorted(t.items()):
            f = e[0]
            # what the parent held when this uv_spawn was entered is known by its id; what the
            # spawn created (sockets) is named by first occurrence, as on the model's side
            f = im.fid(f) if im.known_at(f, nsp[0]) else f
            ents.append("%d=%s/%d" % (fd, name(f), e[1]))
        return ",".join(ents) or "-"
    first = True
    for kind, v in im.order:
        if kind == "S":
            sp, sc = im.spawns[v], im.script[v]
            if not first:
                nsp[0] += 1
            first = False
            if "abort" in sp:
                out.append("abort%d" % v)        # abort() inside this uv_spawn: nothing after it
                break
            out.append("s%d:%d:%d" % (v, sp["ret"], sp["active"]))
            if "R" in sc["flags"]:
                c = sp.get("c")
                out.append("c%d:%s" % (v, "-" if c is None else tbl(c)))
            out.append("q%d:%s" % (v, tbl(sp["Q"])))
            if "R" in sc["flags"]:
                st = sp.get("t", {})
                out.append("t%d:%s" % (v, ";".join("%d=%s/%s" % (s, fd, ".".join(map(str, tg)))
                                                    for s, (fd, tg) in sorted(st.items()) if fd != "-")))   # "-": stream never opened
            out.append("M%d:%x" % (v, sp.get("mask", (0, -1))[1]))
            if "R" in sc["flags"]:
                cc = sp.get("ccreds")
                out.append("i%d:%s" % (v, "-" if cc is None else "%d.%d.%d/%d.%d.%d" % (cc[0] + cc[1])))
            b = [a for a in sp["b"] if a != "E"]
            if b:
                out.append("b%d:%s" % (v, b[-1]))
        elif kind == "W":
            out += ["w%d:%s" % (h, a) for h, a in v if a != "E"]     # the model's wait_retry absorbs EINTR
        elif kind == "X":
            out.append("x%d:%d:%d" % v)
    out += ["m%d:%d" % (n, s) for n, s in sorted(im.sizes.items())]
    return " ".join(out)


def canon_model(im, line):
    """Bring the model's line into the same shape (fresh file ids renamed by first occurrence,
    socket tags derived from the predicted tables)."""
    if line.startswith("ERROR"):
        return line
    out, sizes = [], {}
    name = Namer(lambda x: x < 1000)

    def ptab(s):
        t = {}
        if s not in ("-", ""):
            for ent in s.split(","):
                fd, rest = ent.split("=")
                f, cx = rest.split("/")
                t[int(fd)] = (int(f), int(cx))
        return t

    def tbl(t):
        return ",".join("%d=%s/%d" % (fd, name(e[0]), e[1]) for fd, e in sorted(t.items())) or "-"
    toks = line.split()
    i = 0
    while i < len(toks):
        t = toks[i]
        if t[0] == "s" and not t.startswith("stop") and not t.startswith("short"):
            h = int(t[1:].split(":")[0])
            q = ptab(toks[i + 1].split(":", 1)[1])
            cfull = toks[i + 2].split(":", 1)[1]
            streams = toks[i + 3].split(":", 1)[1]
            i += 4
            start = len(out)
            out.append(t)
            report = "R" in im.script[h]["flags"]
            ctab = None
            stray = {}          # file id -> bytes the failing child wrote into it instead of the error pipe
            if cfull.startswith("X:"):
                ctab = ptab(cfull[2:])
            elif cfull.startswith("F:"):
                _, err, wrote = cfull.split(":")
                if wrote not in ("-", "ebadf") and 1 <= int(wrote) <= 63:
                    sizes[int(wrote)] = sizes.get(int(wrote), 0) + 4
                elif wrote not in ("-", "ebadf"):
                    stray[int(wrote)] = sorted((int(err) & 0xffffffff).to_bytes(4, "little"))
            if report:
                out.append("c%d:%s" % (h, "-" if ctab is None else tbl(ctab)))
            out.append("q%d:%s" % (h, tbl(q)))
            if report:
                ents = []
                for ent in streams.split(";"):
                    if not ent:
                        continue
                    slot, fd = ent.split("=")
                    pf = q.get(int(fd), (None, 0))[0]
                    tags = sorted(cfd for cfd, e in (ctab or {}).items() if pf is not None and e[0] == pf + 1)
                    if pf is not None and pf + 1 in stray:
                        tags = stray[pf + 1]
                    ents.append("%s=%s/%s" % (slot, fd, ".".join(map(str, tags))))
                out.append("t%d:%s" % (h, ";".join(ents)))
            if i < len(toks) and toks[i].startswith("M%d:" % h):
                out.append(toks[i])
                i += 1
            if i < len(toks) and toks[i].startswith("i%d:" % h):
                if report:
                    out.append(toks[i])
                i += 1
            if i < len(toks) and toks[i].startswith("a%d:" % h):
                trip = toks[i].endswith(":1")
                i += 1
                if trip and im.debug:
                    # an assert-enabled build stops here: uv__close(fd <= 2) inside uv_spawn
                    del out[start:]
                    out.append("abort%d" % h)
                    sizes = {}
                    break
            if i < len(toks) and toks[i].startswith("b%d:" % h):
                out.append(toks[i])
                i += 1
            continue
        if t.startswith("stop"):
            i += 1
            continue
        out.append(t)
        i += 1
    out += ["m%d:%d" % (n, s) for n, s in sorted(sizes.items())]
    return " ".join(out)


# --------------------------------------------------------------------------
# the property on the implementation's own trace
# --------------------------------------------------------------------------
def monitor_impl(im):
    """Returns (reason, kind): kind True = looks like an overwritten error pipe, "abort" =
    abort() inside uv_spawn, else False."""
    if im.bad:
        return im.bad, False
    if im.abort:
        h, txt = im.abort
        closed = sorted({0, 1, 2} - set(im.spawns[h]["P"]))
        m = re.search(r"Assertion .*? failed", txt)
        return ("uv_spawn of child %d aborted (%s) with descriptors {%s} closed in the parent, stdio %s; "
                "the forked child is never reaped or reported" %
                (h, m.group(0) if m else ("abort(), stderr closed" if txt in ("", "-") else txt[:100]),
                 ",".join(map(str, closed)), ",".join(im.script[h]["stdio"]) or "none")), "abort"
    steps = im.case.split()
    closed_at, stolen, killed = {}, set(), {}
    for idx, t in enumerate(steps):
        if t[0] == "C":
            closed_at[int(t[1:])] = idx
        elif t[0] == "Z":
            stolen.add(int(t[1:]))
        elif t[0] in "KPN" and ":" in t:
            h, sg = t[1:].split(":")
            fatal = int(sg) in TERM_SIGS + CORE_SIGS
            if fatal and (t[0] != "N" or "d" in im.script.get(int(h), {}).get("flags", "")):
                killed.setdefault(int(h), int(sg))
    nx = {}
    for h, es, ts, chk, act in im.exits:
        nx[h] = nx.get(h, 0) + 1
    reaped_by_uv = set()
    for kind, v in im.order:
        if kind == "W":
            for h, a in v:
                if a.startswith("P"):
                    reaped_by_uv.add(h)
    for h, sp in sorted(im.spawns.items()):
        mb, ma = sp.get("mask", (0, 0))
        if mb != ma:
            names = {17: "SIGCHLD", 10: "SIGUSR1", 15: "SIGTERM"}
            diff = [names.get(sg, str(sg)) for sg in [17, 10, 15] + [x for x in range(1, 65) if x not in (17, 10, 15)]
                    if ((mb ^ ma) >> (sg - 1)) & 1]
            return ("signal mask changed by uv_spawn of child %d (returned %d): %s %s on return" %
                    (h, sp.get("ret", 0), ",".join(diff[:6]) + ("..." if len(diff) > 6 else ""),
                     "blocked" if ma & ~mb else "unblocked")), False
    for h in im.stuck:
        after = [k for k in im.spawns if k < h and im.spawns[k]["ret"] != 0]
        return ("child %d%s never reported within the drain: it has exited, %s, the handle is still active" %
                (h, " spawned after a failed spawn" if after else "",
                 "SIGCHLD is blocked in the loop thread" if im.stuck_why == "blocked" else
                 ("the SIGCHLD notification was lost (a forked copy of the process polls its own copy of the loop)"
                  if im.stuck_why == "lost" and im.forked else
                  ("the loop was run twice after the exit" if im.stuck_why == "lost" else
                   "the disposition of SIGCHLD is back to default although process handles are active")))), False
    for k in range(0, len(im.disable) - 1, 2):
        before, after = im.disable[k][1], im.disable[k + 1][1]
        run = 16
        while run in before:
            run += 1
        for d, e in sorted(after.items()):
            if (d < 16 or d < run) and not e[1]:
                return ("descriptor %d is still inheritable after uv_disable_stdio_inheritance() (open: %s)"
                        % (d, ",".join(str(x) for x in sorted(before) if x < 64))), False
        if set(before) != set(after) or any(before[d][0] != after[d][0] for d in before):
            return "uv_disable_stdio_inheritance() opened, closed or redirected a descriptor", False
    ksteps = [t for t in steps if t[0] in "KPN" and ":" in t]
    if len(ksteps) != len(im.killlog):
        return "%d uv_kill/uv_process_kill calls made, %d returned" % (len(ksteps), len(im.killlog)), False
    for t, (call, h, ret, reaped, grand) in zip(ksteps, im.killlog):
        sg = int(t.split(":")[1])
        detached = "d" in im.script[h]["flags"]
        what = {"K": "uv_process_kill(child %d, %d)", "P": "uv_kill(pid of child %d, %d)",
                "N": "uv_kill(-pid of child %d = its process group, %d)"}[t[0]] % (h, sg)
        if t[0] == "N":
            has_gc = im.script[h]["act"][0] == "F"
            gc_gone = grand.get(h, "alive") not in ("alive",) if has_gc else True
            exists = detached and (h not in reaped or not gc_gone)
        else:
            exists = h not in reaped
        want = -22 if not (0 <= sg <= 64) else (0 if exists else -3)
        if ret != want:
            return ("%s returned %d, expected %d (%s)%s" %
                    (what, ret, want, "invalid signal number" if want == -22 else
                     ("the target exists" if exists else "no such process"),
                     "; kill(2) was never called: nothing was signalled" if call is None else "")), False
    for h, sp in sorted(im.spawns.items()):
        sc = im.script[h]
        fl, stdio = sc["flags"], sc["stdio"]
        P, Q = sp["P"], sp["Q"]
        count = max(len(stdio), 3)
        inject = bool(re.search(r"[pf]|s\d", fl))
        bad_src = [s for s in stdio if s == "b" or (s[0] == "h" and int(s[1:]) not in P)]
        closed_src = [x for x in bad_src if x != "b"]
        # a closed source descriptor is outside the property (whatever the spawn itself opens on
        # that number gets inherited): only consistency is demanded, by the outcome
        su, sg = flag_ids(fl)
        uc, gc = im.pcreds.get(h, ((0, 0, 0), (0, 0, 0)))
        priv = uc[1] == 0
        eperm = (sg is not None and not priv and sg not in (gc[0], gc[2])) or \
                (su is not None and not priv and su not in (uc[0], uc[2]))
        must_fail = "E" in fl or inject or "b" in stdio or eperm or (bool(closed_src) and sp["ret"] != 0)
        npipes = sum(1 for s in stdio if s == "p")
        if must_fail:
            if sp["ret"] == 0 or sp["active"]:
                return ("uv_spawn of child %d returned %d (active=%d) although %s" %
                        (h, sp["ret"], sp["active"],
                         "the program does not exist" if "E" in fl else
                         ("the kernel refuses the requested uid/gid" if eperm else "a step of the spawn failed")),
                        "E" in fl and not inject and "b" not in stdio)
            if h in nx:
                return "exit_cb ran for child %d whose spawn failed" % h, False
            if h in (im.z or []):
                return "failed spawn of child %d left a zombie" % h, False
            early = "b" in stdio or re.search(r"s\d", fl)
            extra = set(Q) - set(P)
            gone = set(P) - set(Q) - {100}
            want = 0 if early else npipes
            if len(extra) != want or gone:
                return ("failed spawn of child %d: descriptors %s appeared, %s vanished "
                        "(expected %d new stream descriptors)" % (h, sorted(extra), sorted(gone), want)), False
        else:
            if sp["ret"] != 0 or not sp["active"]:
                return "uv_spawn of child %d failed with %d" % (h, sp["ret"]), False
            extra = set(Q) - set(P)
            gone = set(P) - set(Q) - {100}
            if len(extra) != npipes or gone:
                return "spawn of child %d: descriptors %s appeared, %s vanished" % (h, sorted(extra), sorted(gone)), False
            if "R" in fl:
                c = sp.get("c")
                if c is None:
                    return "child %d did not report its descriptors" % h, False
                for i in range(count):
                    s = stdio[i] if i < len(stdio) else "i"
                    got = c.get(i)
                    if s in closed_src:
                        continue
                    if s[0] == "h":
                        want = P[int(s[1:])][0]
                        if got is None or got[0] != want or got[1] != 0:
                            return "child %d: descriptor %d is %s, container names %s" % (h, i, got, want), False
                    elif s == "i":
                        if i < 3:
                            dn = [k for k, v in im.files.items() if v == 0]
                            if got is None or got[0] not in dn or got[1] != 0:
                                return "child %d: ignored descriptor %d is %s, not /dev/null" % (h, i, got), False
                        else:
                            want = P.get(i)
                            want = None if (want is None or want[1]) else want[0]
                            if (got[0] if got else None) != want:
                                return "child %d: unmapped descriptor %d is %s" % (h, i, got), False
                    elif s == "p":
                        tg = sp.get("t", {}).get(i)
                        if got is None or got[2] != 1 or got[0] in [e[0] for e in P.values()] or got[1] != 0:
                            return "child %d: descriptor %d is %s, expected a fresh socket" % (h, i, got), False
                        if tg is None or tg[1] != [i]:
                            return "child %d: stream of slot %d is connected to child descriptors %s" % (h, i, tg), False
                cc = sp.get("ccreds")
                if cc is not None:
                    def expect(req, cur):
                        if req is None:
                            return (cur[0], cur[1], cur[1])          # execve: saved := effective
                        return (req, req, req) if priv else (cur[0], req, req)
                    wu, wg = expect(su, uc), expect(sg, gc)
                    if cc[0] != wu or cc[1] != wg:
                        return ("child %d runs with uid %d.%d.%d gid %d.%d.%d (real.effective.saved), expected uid "
                                "%d.%d.%d gid %d.%d.%d: UV_PROCESS_SETUID %s / UV_PROCESS_SETGID %s requested by a "
                                "parent with uid %d.%d.%d gid %d.%d.%d" %
                                ((h,) + cc[0] + cc[1] + wu + wg + (su, sg) + uc + gc)), False
                    if (su is not None or sg is not None) and priv and cc[2] != 0:
                        return "child %d keeps %d supplementary groups after dropping privileges" % (h, cc[2]), False
                for d, e in sorted(c.items()):
                    if d >= count:
                        p = P.get(d)
                        if p is None or p[1] or p[0] != e[0]:
                            return "child %d: descriptor %d (%s) leaked into the child" % (h, d, e[0]), False
            # exit callback
            expect_cb = "N" not in fl
            if h in closed_at and h not in reaped_by_uv:
                expect_cb = False
            if h in stolen:
                expect_cb = False
            n = nx.get(h, 0)
            if n != (1 if expect_cb else 0):
                if n == 0 and any(im.spawns[k]["ret"] != 0 for k in im.spawns if k < h):
                    return ("child %d spawned after a failed spawn never reported (no exit_cb%s)"
                            % (h, ", still waiting when the loop was drained" if h in im.stuck else "")), False
                return "exit_cb ran %d times for child %d" % (n, h), False
            for hh, es, ts, chk, act in im.exits:
                if hh != h:
                    continue
                hact = sc["act"].lstrip("F")
                want = (int(hact[1:]), 0) if hact[0] == "x" else (0, int(hact[1:]))
                if h in killed:
                    want = (0, killed[h])
                if (es, ts) != want:
                    return "child %d: exit_cb(%d, %d), true status is %s" % (h, es, ts, want), False
                if chk != "C":
                    return "child %d not reaped when exit_cb ran (waitpid says %s)" % (h, chk), False
                if act:
                    return "child %d: handle still active in exit_cb" % h, False
            if h in (im.z or []) and not (h in closed_at and h not in reaped_by_uv):
                return "child %d was left unreaped" % h, False
    for h, v, nk in im.joins:
        sig = killed.get(h)
        if v == "none":
            return "the helper of child %d did not report a grandchild" % h, False
        if sig is not None and "d" in im.script[h]["flags"]:
            # the whole group of the detached child was signalled: the grandchild too
            prior = [t for t in ksteps[:nk] if t[0] == "N" and t[1:].split(":")[0] == str(h)]
            if any(int(t.split(":")[1]) == sig for t in prior):
                if v in ("alive", "gone") or (int(v) & 0x7f) != sig:
                    return ("grandchild in the process group of detached child %d: %s after uv_kill(-pgid, %d)"
                            % (h, v if not v.isdigit() else "wait status %s" % v, sig)), False
    for h, sp in sorted(im.spawns.items()):
        if "session" in sp and "abort" not in sp:
            want = "1.1" if "d" in im.script[h]["flags"] else "0.0"
            if sp["session"] != want:
                return ("child %d: session leader/group leader = %s, UV_PROCESS_DETACHED %s" %
                        (h, sp["session"], "set" if want == "1.1" else "not set")), False
    for n, sz in im.sizes.items():
        return "stray write of %d bytes into file %d" % (sz, n), True
    return None, False


# --------------------------------------------------------------------------
def main():
    chk = vf.Check("C12")
    thorough = chk.tier == "thorough"
    chk.prove()
    try:
        lib = vf.build_libuv(chk.scratch, "ndebug")
        hsp = vf.cc_harness(chk.scratch, "c12_spawn", ["c12_spawn.c"], lib=lib,
                            wraps=["waitpid", "fork", "socketpair", "pipe2", "kill"])
        libd = vf.build_libuv(chk.scratch, "debug")           # assertions on, as the default cmake build
        hspd = vf.cc_harness(chk.scratch, "c12_spawn_dbg", ["c12_spawn.c"], lib=libd, flavour="debug",
                             wraps=["waitpid", "fork", "socketpair", "pipe2", "kill"])
        os.chmod(chk.scratch.dir, 0o755)      # children exec the harness after dropping to uid 1000 / 65534
        hst = vf.cc_harness(chk.scratch, "c12_status", ["c12_status.c"], lib=None, libs=())
        model = vf.model_bin("C12")
    except vf.BuildError as e:
        chk.violation("build failed: %s" % str(e)[:300], {"kind": "build", "log": str(e)}, found_input=False)
        chk.finish(rule="build failed")

    # (0) status decoding: all 16-bit status words against <sys/wait.h>
    words = [str(i) for i in range(65536)]
    a = vf.sh([hst]).stdout.split("\n")[:65536]
    b, _, _ = vf.run_lines([model, "decode"], words)
    vf.diff_cases(chk, "WIFEXITED/WEXITSTATUS/WIFSIGNALED/WTERMSIG = Model/Process.v decode", words, a, b)

    # (1) spawns
    rng = chk.rng
    corpus = list(CORPUS)
    cp = os.path.join(vf.VERIF, "corpus", "C12", "spawn.txt")
    if os.path.exists(cp):
        corpus += [l.strip() for l in open(cp) if l.strip() and not l.startswith("#")]
    if chk.replay:
        import json
        rp = json.load(open(chk.replay))
        corpus = [rp["case"]] if "case" in rp else corpus
    nsh, nex = (15000, 8000) if thorough else (700, 350)
    if chk.replay:
        nsh, nex = 0, 0
    shuffles = [gen_shuffle(rng) for _ in range(nsh)]
    exits = [gen_exits(rng, 30 if thorough else 16) for _ in range(nex)]
    special = [] if chk.replay else (gen_creds(rng, 1500 if thorough else 120) + gen_closed_stdio(rng) +
                                     [gen_sigchld(rng) for _ in range(1500 if thorough else 150)] +
                                     [gen_disable(rng) for _ in range(1500 if thorough else 150)] +
                                     [gen_kill(rng) for _ in range(1500 if thorough else 150)] +
                                     [gen_forkfam(rng) for _ in range(800 if thorough else 80)])
    cases = corpus + shuffles + exits + special
    wdir = os.path.join(chk.scratch.dir, "c12files")
    os.makedirs(wdir, exist_ok=True)
    impl_lines, rc, err = vf.run_lines([hsp, wdir], cases, shards=8, timeout=900)
    if len(impl_lines) != len(cases):
        chk.violation("harness produced %d lines for %d cases" % (len(impl_lines), len(cases)),
                      {"kind": "correspondence", "stderr": (err or "")[-2000:]}, found_input=False)
        chk.finish(rule="harness failed")
    impls = [Impl(c, l) for c, l in zip(cases, impl_lines)]
    minputs = [model_input(im) if not im.bad else "" for im in impls]
    model_lines, rc2, err2 = vf.run_lines([model, "run"], minputs, shards=8)
    if len(model_lines) != len(cases):
        chk.violation("model produced %d lines for %d cases" % (len(model_lines), len(cases)),
                      {"kind": "correspondence", "stderr": (err2 or "")[-2000:]}, found_input=False)
        chk.finish(rule="model failed")
    ca = [canon_impl(im) if not im.bad else "BAD " + im.bad for im in impls]
    cb = [canon_model(im, ml) if not im.bad else "" for im, ml in zip(impls, model_lines)]
    by_case = {}
    for c, im, x, y in zip(cases, impls, ca, cb):
        by_case[c] = (im, x == y)
    stats = {"children": 0, "exit_callbacks": 0, "reports": 0, "failed_spawns": 0}

    def monitor(case, impl_canon):
        im, agree = by_case[case]
        reason, symptom = monitor_impl(im)
        if reason and symptom is True:
            reason += " [what an overwritten exec-error pipe looks like, cf. /repo a79de05]"
        return reason
    vf.diff_cases(chk, "process.c uv_spawn/uv__process_child_init/uv__wait_children = Model/Process.v",
                  cases, ca, cb, monitor)
    # uv_disable_stdio_inheritance(): table before -> model -> table after
    hcases, himpl, hin = [], [], []

    def tabstr(im, t):
        return ",".join("%d=%d/%d" % (fd, im.fid(e[0]), e[1]) for fd, e in sorted(t.items())) or "-"
    for c, im in zip(cases, impls):
        if im.bad:
            continue
        for k in range(0, len(im.disable) - 1, 2):
            hcases.append(c)
            hin.append(tabstr(im, im.disable[k][1]))
            himpl.append(tabstr(im, im.disable[k + 1][1]))
    if hcases:
        hmodel, _, _ = vf.run_lines([model, "disable"], hin)
        vf.diff_cases(chk, "core.c uv_disable_stdio_inheritance = Model/Process.v disable_stdio_inheritance",
                      hcases, himpl, hmodel)
    # uv_kill / uv_process_kill: the kill(2) call the wrapper saw and the value returned
    kcases, kimpl, kin = [], [], []
    for c, im in zip(cases, impls):
        if im.bad:
            continue
        ksteps = [t for t in c.split() if t[0] in "KPN" and ":" in t]
        if len(ksteps) != len(im.killlog):
            continue                      # reported by the monitor
        for t, (call, h, ret, _, _) in zip(ksteps, im.killlog):
            sg = int(t.split(":")[1])
            pid = -(1000 + h) if t[0] == "N" else 1000 + h
            kcases.append(c + "  #" + t)
            kin.append("%s %d %d %d" % ("k" if t[0] == "K" else "p", pid, sg, call[2] if call else 0))
            if call is None:
                kimpl.append("nocall %d" % ret)
            else:
                tgt = call[0]
                cp = (1000 + int(tgt[1:])) * (1 if tgt[0] == "c" else -1) if tgt[0] in "cg" else tgt
                kimpl.append("%s %d %d" % (cp, call[1], ret))
    if kcases:
        kmodel, _, _ = vf.run_lines([model, "kill"], kin)
        vf.diff_cases(chk, "process.c uv_kill/uv_process_kill = kill(2) pass-through (Model/Process.v uv_kill)",
                      kcases, kimpl, kmodel)
    stats["uv_kill_calls"] = len(kcases)
    stats["disable_stdio_inheritance_calls"] = len(hcases)
    stats["user_sigchld_callbacks"] = sum(im.user_cbs for im in impls if not im.bad)
    for im in impls:
        if im.bad:
            continue
        stats["children"] += len(im.spawns)
        stats["exit_callbacks"] += len(im.exits)
        stats["reports"] += sum(1 for sp in im.spawns.values() if sp.get("c"))
        stats["failed_spawns"] += sum(1 for sp in im.spawns.values() if sp["ret"] != 0)
    # (2) the same against an assert-enabled libuv: corpus, the credential and closed-stdio
    # scenarios and a slice of the random cases
    dcases = corpus + special + shuffles[:len(shuffles) // 4] + exits[:len(exits) // 4]
    dlines, rc, err = vf.run_lines([hspd, wdir], dcases, shards=8, timeout=900)
    if len(dlines) != len(dcases):
        chk.violation("assert-enabled harness produced %d lines for %d cases" % (len(dlines), len(dcases)),
                      {"kind": "correspondence", "stderr": (err or "")[-2000:]}, found_input=False)
        chk.finish(rule="harness failed")
    dimpls = [Impl(c, l, debug=True) for c, l in zip(dcases, dlines)]
    dmin = [model_input(im) if not im.bad else "" for im in dimpls]
    dmodel, rc2, err2 = vf.run_lines([model, "run"], dmin, shards=8)
    if len(dmodel) != len(dcases):
        chk.violation("model produced %d lines for %d cases" % (len(dmodel), len(dcases)),
                      {"kind": "correspondence", "stderr": (err2 or "")[-2000:]}, found_input=False)
        chk.finish(rule="model failed")
    da = [canon_impl(im) if not im.bad else "BAD " + im.bad for im in dimpls]
    db = [canon_model(im, ml) if not im.bad else "" for im, ml in zip(dimpls, dmodel)]
    dby = {c: (im, x == y) for c, im, x, y in zip(dcases, dimpls, da, db)}
    stats["aborts_in_uv_spawn"] = 0

    def dmonitor(case, impl_canon):
        im, agree = dby[case]
        reason, kind = monitor_impl(im)
        if reason and kind == "abort":
            # since /repo 298b4fa no uv__close() of uv_spawn can see a descriptor <= 2
            # (C12_spawn_no_assert): any abort inside uv_spawn is a violation
            stats["aborts_in_uv_spawn"] += 1
            return reason + " [replay: " + case + "]"
        return reason
    vf.diff_cases(chk, "process.c (assert-enabled build) = Model/Process.v with r_trip", dcases, da, db, dmonitor)
    chk.cov["c12"] = stats
    chk.cov["shuffle_cases"] = nsh
    chk.cov["exit_cases"] = nex
    chk.cov["credential_and_closed_stdio_cases"] = len(special)
    chk.cov["assert_enabled_cases"] = len(dcases)
    if nsh and nex:
        chk.sample({"case": cases[len(corpus)], "impl": ca[len(corpus)][:400]})
        chk.sample({"case": cases[len(corpus) + nsh], "impl": ca[len(corpus) + nsh][:400]})

    chk.finish(
        level="proof",
        rule="decode: all 65536 status words; spawns: corpus + random parent layouts (holes, close-on-exec or "
             "inheritable files below and above stdio_count) x stdio mappings (permutations, swaps, rotations, "
             "duplicates, ignore, pipes, closed sources, exec failure, injected socketpair/pipe2/fork failure), "
             "child's descriptor table (dev/inode, FD_CLOEXEC) and parent's table before/after compared with the "
             "model's prediction; exits: 1-16 (thorough 30) children with scripted codes/signals/gates, kills, "
             "stolen waits, closes, EINTR injection, the recorded waitpid answers drive the model; a case is "
             "non-trivial when its (case, implementation trace) pair is distinct",
        trusted=["Coq 8.16.1 kernel (coqc)", "POSIX lowest-free-descriptor / dup2 / FD_CLOEXEC / exec rules as written in Model/Process.v",
                 "ExtrOcamlBasic extraction + OCaml 4.13.1 + zarith glue (ocaml/zutil.ml, drv_c12.ml)",
                 "harness/c12_spawn.c, harness/c12_status.c, checks/c12.py (generators, canonicalisation, monitor)",
                 "gcc 12, Linux fork/exec/waitpid"])


if __name__ == "__main__":
    main()
