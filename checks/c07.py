#!/usr/bin/env python3
"""C07 connect/accept and IPC handle passing: proofs (Properties_C07.v) + correspondence of
Model/Accept.v and Model/Connect.v with src/unix/stream.c, tcp.c, pipe.c of the current tree.

Four obligations, each: generated cases -> harness on the real library (kernel answers logged)
-> the same case plus the logged answers through the extracted model -> traces compared; a
monitor decides from the implementation's own trace whether the property is violated."""
import json, os, sys
sys.path.insert(0, os.path.join(os.path.dirname(os.path.abspath(__file__)), "..", "lib"))
import vf

KIND_CODE = {"t": 12, "u": 7, "d": 15, "T": 12, "D": 15}      # T/D: AF_INET6 stream / datagram sockets      # uv_handle_type: UV_TCP, UV_NAMED_PIPE, UV_UDP
K_STALL = "accept_failure_stalls_server"
# Which uv_accept the model is run as.  False: the current code (POLLIN re-armed only if (err == 0) - known
# finding accept_failure_stalls_server).  True: the code with notes/C07_fix_accept_rearm.diff.  Flip the
# default when the patch is committed.
ACCEPT_REARM = os.environ.get("VERIF_C07_ACCEPT_REARM", "1") == "1"
# Which uv_pipe_connect the model is run as.  False: the current code (a second connect while one is
# pending overwrites connect_req - known finding pipe_connect_overwrites_pending_request).  True: the code
# with notes/C07_fix_pipe_connect_ealready.diff (UV_EALREADY).  Flip the default when the patch is committed.
PIPE_CONNECT_EALREADY = os.environ.get("VERIF_C07_PIPE_EALREADY", "0") == "1"
K_LOST = "pipe_connect_overwrites_pending_request"


# --------------------------------------------------------------------------
# generators
# --------------------------------------------------------------------------
def gen_server(rng, mode):
    n = rng.choice([1, 2, 3, 5, 8, 13, 20, 30, 40])
    style = rng.choice(["immediate", "deferred", "burst", "never", "mixed", "mixed"])
    pipe = mode == "u"
    ops, behs, left = [], [], n
    misuse = rng.random() < 0.12

    def acc():
        r = rng.random()
        if misuse and r < 0.25:
            return rng.choice(["Ab", "At"])
        return "Af"

    def cb_beh():
        r = rng.random()
        if style == "immediate":
            return "Af" if r < 0.9 else "Af Af"
        if style in ("deferred", "never", "burst"):
            return "" if r < 0.9 else ("N T" if pipe else "")
        if r < 0.45:
            return "Af"
        if r < 0.8:
            return ""
        if r < 0.86:
            return "Af Af"
        if r < 0.9:
            return "C" if rng.random() < 0.3 else ""
        if r < 0.95 and pipe:
            return "N T Af"
        return acc()
    while left > 0 or rng.random() < 0.5:
        if left > 0 and rng.random() < 0.6:
            k = min(left, rng.choice([1, 1, 2, 3, 5, 10, 40]))
            ops.append("K%d" % k)
            left -= k
        r = rng.random()
        if r < 0.5:
            ops.append("R")
        elif style == "burst" and r < 0.6:
            ops += [acc(), "R"] * rng.randint(2, 12)
        elif style not in ("never", "immediate") and r < 0.8:
            ops.append(acc())
        elif style == "never" and r < 0.53:
            ops.append(acc())
        elif r < 0.84 and pipe:
            ops += ["N", "T"]
        elif r < 0.86:
            ops.append("C")
        else:
            ops.append("R")
        if len(ops) > 160:
            break
    if style != "never" and rng.random() < 0.7:
        ops += [acc(), "R"] * rng.randint(1, min(n, 12) + 1)
    if rng.random() < 0.25:
        ops.append("C")
    ops.append("R")
    for _ in range(n + 4):
        behs.append(cb_beh())
    script = []
    if rng.random() < 0.45:
        for _ in range(rng.randint(1, 12)):
            r = rng.random()
            if r < 0.45:
                script.append("p")
            elif r < 0.65:
                script.append(rng.choice(["e24", "e23"]))
            elif r < 0.8:
                script.append("e4")
            elif r < 0.9:
                script.append("e11")
            else:
                script.append(rng.choice(["e103", "e71", "e12"]))
        if rng.random() < 0.4:
            script += [rng.choice(["o0", "o1"]) for _ in range(rng.randint(1, 3))]
    return "%s ; %s ; %s ; %s" % (mode, " ".join(ops), " | ".join(behs), " ".join(script))


def gen_ipc(rng):
    total = rng.choice([1, 2, 5, 8, 9, 10, 16, 17, 18, 24, 25, 33, 40])
    late = rng.random() < 0.6
    ops, behs, sent, msgs = [], [], 0, 0

    def kinds(k):
        return "".join(rng.choice("tudTD") for _ in range(k))

    def claim():
        r = rng.random()
        if r < 0.06:
            return "Ab"
        if r < 0.1:
            return "At"
        return "Af"
    while sent < total:
        k = rng.choice([1, 1, 1, 1, 1, 2, 3, 0]) if rng.random() < 0.93 else rng.choice([8, 9, 10, 17])
        k = min(k, total - sent)
        if rng.random() < 0.06:
            ops.append("F%d" % rng.choice([1, 1, 2]))
        ops.append("M" + kinds(k))
        sent += k
        msgs += 1
        if rng.random() < 0.8:
            ops.append("R")
        r = rng.random()
        if r < 0.25:
            ops += ["N", "T"]
        if not late and rng.random() < 0.5:
            ops.append(claim())
        elif late and rng.random() < 0.05:
            ops.append(claim())
    ops += ["R"] * (msgs + 1)
    ops += ["N", "T"]
    for _ in range(rng.choice([0, total // 2, total, total + 2])):
        ops.append(claim())
        if rng.random() < 0.3:
            ops += ["N", "T"]
        if rng.random() < 0.1:
            ops.append("R")
    if rng.random() < 0.3:
        ops.append("C")
    ops += ["N", "R"]
    for _ in range(msgs * 2 + 2):
        r = rng.random()
        behs.append("" if r < 0.7 else "Af" if r < 0.8 else "N T" if r < 0.9 else "Af Af N" if r < 0.97
                    else "C" if r < 0.985 else "Ab")
    return "i ; %s ; %s ; " % (" ".join(ops), " | ".join(behs))


def gen_ipc_burst(rng):
    """Small alloc_cb buffers, plain data chunks that fill them exactly between the descriptor-carrying
    messages, the whole burst queued before the receiver's loop runs (several recvmsg per uv__read pass)."""
    a = rng.choice([1, 1, 2, 3, 4, 4, 5, 7, 8, 8, 13, 16])
    items, nm, nd, chunks, fds = [], 0, 0, 0, 0
    for _ in range(rng.randint(2, 14)):
        r = rng.random()
        if r < 0.5:
            n = a * rng.choice([1, 1, 1, 2, 3]) if rng.random() < 0.8 else max(1, a * rng.choice([1, 2]) + rng.choice([-1, 1]))
            items.append("D%d" % n)
            nd += 1
            chunks += (n + a - 1) // a
        else:
            k = rng.choice([1, 1, 1, 1, 2, 3])
            if fds + k > 30:
                continue
            items.append("M" + "".join(rng.choice("tudTD") for _ in range(k)))
            nm += 1
            fds += k
            chunks += 1
    if not nm:
        items.append("Mt")
        nm, fds, chunks = 1, 1, chunks + 1
    ops = items + ["R"] * (nm + nd + chunks // 32 + 3) + ["N", "T"]
    for _ in range(rng.choice([fds, fds, fds + 1, fds // 2])):
        ops.append("Af")
        if rng.random() < 0.3:
            ops += ["N", "T"]
    ops += ["N", "R"]
    behs = []
    for _ in range(chunks + 4):
        r = rng.random()
        behs.append("" if r < 0.85 else "Af" if r < 0.92 else "N T")
    return "i%d ; %s ; %s ; " % (a, " ".join(ops), " | ".join(behs))


def gen_connect_retry(rng, kind):
    """A failing connect whose callback retries on the same handle (to a live or a dead target), with
    uv_write / uv_shutdown / uv_read_start issued from the callbacks as well."""
    if kind == "t":
        dead, live = ["Tc"], ["Tl"]
    else:
        dead, live = ["Pm", "Pn", "Po", "Q0m", "Pf"], ["Pl", "Q0l"]
    ops = [rng.choice(dead)] + (["t"] if rng.random() < 0.4 else []) + ["R"]
    behs = []
    for k in range(rng.randint(1, 4)):
        r = rng.random()
        nxt = rng.choice(live) if r < 0.6 else rng.choice(dead) if r < 0.85 else ""
        pre = rng.choice(["", "", "", "W", "G"]) if k else rng.choice(["", "", "W"])
        post = rng.choice(["", "", "", "W", "t"])
        behs.append(" ".join(x for x in (pre, nxt, post) if x))
    behs.append(rng.choice(["", "W", "H", "G", "W W", "W H", "G", "W " + rng.choice(live), rng.choice(live) + " W",
                            rng.choice(live) + " H", rng.choice(live) + " W H"]))
    behs.append(rng.choice(["", "W", "H"]))
    ops += ["R"] * rng.randint(3, 6)
    if rng.random() < 0.5:
        ops += [rng.choice(["W", "H", "G", rng.choice(live), rng.choice(dead)]), "R", "R"]
    if rng.random() < 0.5:
        ops += ["C", "R", "R"]
    return "%s ; %s ; %s ; " % (kind, " ".join(ops), " | ".join(behs))


def gen_connect_slow(rng):
    """A tcp connect whose handshake stays incomplete, with uv_shutdown / uv_write issued while it is pending."""
    ops = [rng.choice(["Th", "Th", "Tc"])]
    if ops[0] == "Tc":
        ops += ["R"]
    for _ in range(rng.randint(1, 5)):
        ops.append(rng.choice(["W", "H", "R", "R", "W", "t", "t"]))
    ops += ["R", "R"]
    if rng.random() < 0.7:
        ops += ["C", "R", "R"]
    behs = [rng.choice(["Th", "Th H", "Th W", "W Th", "", "H Th", "Th t", "Tc t"]), rng.choice(["", "W", "H", "t"]), ""]
    return "t ; %s ; %s ; " % (" ".join(ops), " | ".join(behs))


def gen_shortage(rng, mode):
    """Descriptor-shortage episodes on one loop: shortage on with clients pending, off, a connection accepted
    normally, on again with a new client pending, ..."""
    ops, n = [], 0
    for ep in range(rng.choice([2, 2, 3])):
        k = rng.choice([1, 1, 2, 3])
        if n + k + 1 > 38:
            break
        ops += ["S1", "K%d" % k] + ["R"] * rng.choice([1, 2, 3]) + ["S0"]
        n += k
        if rng.random() < 0.8:
            ops += ["K1", "R", "Af", "R"]
            n += 1
    ops += ["R", "R"]
    behs = ["" for _ in range(8)]
    return "%s ; %s ; %s ; " % (mode, " ".join(ops), " | ".join(behs))


def gen_connect(rng, kind):
    ops, behs, script = [], [], []
    if kind == "t":
        pool = ["Tl", "Tl", "Tc", "Tc", "T6"]
        r0 = rng.random()
        if r0 < 0.15:
            ops.append("B")
        elif r0 < 0.35:
            ops.append("b")          # AF_INET socket first: T6 then fails in connect(2) itself
    else:
        pool = ["Pl", "Pm", "Po", "Pe", "Pn", "Pf", "Q0l", "Q0m", "Q0o", "Q1o", "Q1l", "Q2l", "Q0z", "Q0e", "Q0n", "Q0f"]
    overlap = rng.random() < 0.12           # a second connect while one is pending
    for _ in range(rng.randint(1, 5)):
        ops.append(rng.choice(pool))
        if overlap and rng.random() < 0.5:
            ops.append(rng.choice(pool))
        r = rng.random()
        if r < 0.12:
            ops.append("C")
        ops += ["R"] * rng.choice([0, 1, 1, 2])
    ops += ["R", "R"]
    if rng.random() < 0.9:
        ops += ["C", "R", "R"]
    for _ in range(8):
        r = rng.random()
        behs.append("" if r < 0.6 else rng.choice(pool) if r < 0.85 else "C" if r < 0.93
                    else rng.choice(pool) + " " + rng.choice(pool))
    if rng.random() < 0.4:
        for _ in range(rng.randint(1, 6)):
            r = rng.random()
            if r < 0.3:
                script.append("p")
            elif r < 0.5:
                script.append("e4")
            elif r < 0.65:
                script.append("e111")
            elif r < 0.75:
                script.append(rng.choice(["e101", "e13", "e11", "e99", "e24", "e97", "e22"]))
            elif r < 0.83:
                script.append(rng.choice(["s24", "s0", "s23"]))
            else:
                script.append(rng.choice(["g115", "g104", "gp", "g115", "g111"]))
    return "%s ; %s ; %s ; %s" % (kind, " ".join(ops), " | ".join(behs), " ".join(script))


def write_table():
    out = []
    for st in "TPI":
        for sta in "wsnq":
            for hk in "-tTuUpmc":
                for api in "2y":
                    out.append("w ; %s%s%s%s" % (st, sta, hk, api))
    return out


# --------------------------------------------------------------------------
# model input from a case and the harness's logs
# --------------------------------------------------------------------------
def split_case(case):
    parts = [p.strip() for p in case.split(";")]
    while len(parts) < 4:
        parts.append("")
    return parts


def acc_model_input(case, out):
    mode, ops, behs, _ = split_case(case)
    sec = [s.strip() for s in out.split(";")]
    if len(sec) < 6:
        return None
    log, bits, alloc, opn = sec[1].split(), sec[2].split(), sec[3], sec[4]
    ipc = mode[:1] == "i"
    groups, cur = [], []
    for t in log:
        if t == "|":
            groups.append(cur)
            cur = []
        else:
            cur.append(t)
    mops, ri, kinds = [], 0, []
    for o in ops.split():
        if o[0] in "KFSD":
            continue
        if o[0] == "M":
            kinds += [str(KIND_CODE[k]) for k in o[1:21]]
            continue
        if o[0] == "R":
            if ipc:
                g = groups[ri] if ri < len(groups) else []
                msgs = [(t[1:] or "-") for t in g if t[0] == "m"]
                mops.append("V" + "/".join(msgs))
            else:
                mops.append("R" + (bits[ri] if ri < len(bits) else "0"))
            ri += 1
            continue
        mops.append(o)
    answers = [t for t in log if t != "|"] if not ipc else []
    return "%d %d ; %s ; %s ; %s ; %s ; %s ; %s" % (1 if ipc else 0, 1 if ACCEPT_REARM else 0, " ".join(mops), behs, " ".join(answers),
                                                alloc, opn, " ".join(kinds))


PIPE_LEN = {"l": 40, "m": 40, "n": 40, "f": 40, "o": 400, "e": 0, "z": 43}


def con_op(o):
    if o[0] == "T":
        return "T"
    if o[0] == "P":
        return "P%d" % PIPE_LEN[o[1]]
    if o[0] == "Q":
        return "Q%s,%d,%d" % (o[1], PIPE_LEN[o[2]], 1 if o[2] == "z" else 0)
    return o[0]


def con_model_input(case, out):
    kind, ops, behs, _ = split_case(case)
    sec = [s.strip() for s in out.split(";")]
    if len(sec) < 5:
        return None
    mb = " | ".join(" ".join(con_op(o) for o in b.split()) for b in behs.split("|"))
    return "%d %d ; %s ; %s ; %s ; %s ; %s ; %s" % (1 if kind == "t" else 0, 1 if PIPE_CONNECT_EALREADY else 0,
                                                   " ".join(con_op(o) for o in ops.split()),
                                                mb, sec[1], sec[2], sec[3], sec[4])


def w_model_input(case, out):
    spec = case.split(";")[1].strip()
    sec = [s.strip() for s in out.split(";")]
    return "%s ; %s" % (spec, sec[1] if len(sec) > 1 else "")


# --------------------------------------------------------------------------
# monitors: (key or None, reason) when the implementation's trace violates the property
# --------------------------------------------------------------------------
def server_monitor(case, out):
    mode, ops, behs, script = split_case(case)
    sec = [s.strip() for s in out.split(";")]
    toks = sec[0].split()
    accepted = [int(t[1:]) for t in sec[1].split() if t[0] == "f"]
    bits = sec[2].split()
    states = sec[5] if len(sec) > 5 else ""
    # descriptor shortage: accept4 said EMFILE/ENFILE and uv__server_io gave up at once although libuv held its
    # spare descriptor (no re-open ever failed): nothing was shed, the listening socket stays readable, the
    # loop spins and the pending client is neither accepted nor disconnected
    if "0" not in sec[4].split():
        grp, lone = [], 0
        for t in sec[1].split() + ["|"]:
            if t == "|":
                if grp and grp[0] in ("e24", "e23") and len(grp) == 1:
                    lone += 1
                grp = []
            else:
                grp.append(t)
        if lone:
            return None, "accept4 reported a descriptor shortage in %d loop iteration(s) and the server did nothing: " \
                         "no connection was shed although the spare descriptor had not been lost; the pending client " \
                         "is neither accepted nor disconnected and every iteration wakes up again" % lone
    seen, claimed, closed = set(), {}, set()
    pending, failed = None, False
    i = 0
    while i < len(toks):
        t = toks[i]
        if t[0] == "h":
            c = int(t[1:])
            if c < 0:
                return None, "accept4 returned a descriptor that is no client's connection"
            if c in seen:
                return None, "client %d handed out by accept4 twice" % c
            seen.add(c)
            nxt = toks[i + 1] if i + 1 < len(toks) else ""
            if nxt == "x%d" % c:                     # shed by the EMFILE trick
                closed.add(c)
                i += 2
                continue
            if nxt != "c":
                return None, "connection of client %d accepted by libuv but never announced" % c
            if pending is not None:
                return None, "connection announced while client %d was still unclaimed (overwritten)" % pending
            pending = c
            i += 2
            continue
        if t[0] == "c":
            return None, "connection callback without a new connection (announced twice)" if t == "c" \
                else "connection callback with status %s" % t[2:]
        nxt = toks[i + 1] if i + 1 < len(toks) else ""
        if t[0] == "g":
            if t[1] == "!":
                return None, "uv_accept handed out a descriptor that is not the announced connection (%s)" % t
            c = int(t[1:])
            if pending != c:
                return None, "uv_accept returned client %d, pending was %s" % (c, pending)
            claimed[c] = claimed.get(c, 0) + 1
            if claimed[c] > 1:
                return None, "client %d claimed twice" % c
            if nxt != "a0":
                return None, "uv_accept handed out client %d but returned %s" % (c, nxt)
            pending = None
            i += 2
            continue
        if t[0] == "x":
            c = int(t[1:])
            if c != pending:
                return None, "libuv closed the connection of client %d which it does not hold" % c
            closed.add(c)
            pending = None
            if nxt[:1] == "a" and nxt not in ("a0", "a-11", "a-22"):     # released by a failing uv_accept
                failed = True
                i += 2
                continue
        elif t[0] == "a":
            code = int(t[1:])
            if code == -11:
                if pending is not None:
                    return None, "uv_accept returned UV_EAGAIN although client %s was pending" % pending
            elif code == -22:
                if pending is None:
                    return None, "uv_accept returned UV_EINVAL with nothing pending (UV_EAGAIN expected)"
            elif pending is None:
                return None, "uv_accept returned %d with nothing pending (UV_EAGAIN expected)" % code
            else:
                return None, "uv_accept returned %d but client %d is still pending" % (code, pending)
        i += 1
    for c in accepted:
        if c not in seen:
            return None, "client %d accepted by the kernel but absent from the trace" % c
    for c in seen:
        if c not in claimed and c not in closed and c != pending:
            return None, "connection of client %d lost: neither claimed, held nor closed" % c
    for c, s in enumerate(states):
        if s == "X":
            continue
        if s == "W":
            return None, "client %d received another client's token" % c
        if c in claimed and s != "E":
            return None, "client %d was claimed by uv_accept but did not get its token echoed (%s)" % (c, s)
        if c not in claimed and s == "E":
            return None, "client %d got an echo without being claimed" % c
        if c in closed and s != "Z":
            return None, "client %d was closed by libuv but its socket shows no EOF/reset (%s)" % (c, s)
        if c == pending and s != "P":
            return None, "client %d is held unclaimed but its socket is not open and idle (%s)" % (c, s)
    if len(sec) > 6 and sec[6] and sec[6] != "0,0":
        return None, "all handles closed and the loop drained, but uv_loop_alive(),uv_loop_close() = %s" % sec[6]
    server_closed = "C" in case.split(";")[1] or "C" in behs
    if not server_closed and pending is None and bits and bits[-1] == "0" and ops.split()[-1] == "R":
        waiting = [c for c, s in enumerate(states) if s == "P" and c not in seen]
        if waiting:
            why = "clients %s wait in the backlog, nothing is held, yet the server no longer polls for connections" \
                  % waiting[:5]
            return (K_STALL, why + " (after a failed uv_accept)") if failed and not ACCEPT_REARM else (None, why)
    return None


def ipc_monitor(case, out):
    mode, ops, behs, script = split_case(case)
    kinds = []
    for o in ops.split():
        if o[0] == "M":
            kinds += [KIND_CODE[k] for k in o[1:21]]
    toks = out.split(";")[0].split()
    tail = [v.strip() for v in out.split(";")]
    if len(tail) > 6 and tail[6] and tail[6] != "0,0":
        return None, "all handles closed and the loop drained, but uv_loop_alive(),uv_loop_close() = %s" % tail[6]
    if "T" in tail[1].split():
        return None, "recvmsg on the ipc pipe came back with MSG_CTRUNC: the kernel discarded descriptor(s) of a " \
                     "message because no room for control data was offered"
    if len(tail) > 7 and tail[7] and "F" not in ops.replace("Af", "") and "C" not in ops and "C" not in behs \
            and "Ab" not in ops and "Ab" not in behs:
        bs, br, fs = [int(v) for v in tail[7].split(",")]
        got = sum(1 for t in toks if t[0] == "h")
        if bs == br and got != fs:
            return None, "%d descriptors were sent with the %d bytes that all arrived, but only %d reached the " \
                         "receiving pipe (pending count / uv_accept never see the rest)" % (fs, bs, got)
    queue, nxt = [], 0
    i = 0
    while i < len(toks):
        t = toks[i]
        la = toks[i + 1] if i + 1 < len(toks) else ""
        if t[0] == "h":
            c = int(t[1:])
            if c != nxt:
                return None, "descriptor %d arrived where %d was sent next (order/identity)" % (c, nxt)
            nxt += 1
            queue.append(c)
        elif t[0] == "x":
            c = int(t[1:])
            if c not in queue:
                return None, "libuv closed descriptor %d which it does not hold" % c
            if la[:1] == "a" and la not in ("a0", "a-11", "a-22"):     # released by a failing uv_accept
                if queue[0] != c:
                    return None, "failing uv_accept released %d, the oldest held is %d" % (c, queue[0])
                i += 1
            queue.remove(c)
        elif t[0] == "g":
            if t[1] == "!":
                return None, "uv_accept produced a handle whose descriptor is not the one sent (%s)" % t
            c = int(t[1:])
            if not queue or queue[0] != c:
                return None, "handles claimed out of arrival order: got %d, oldest held is %s" \
                    % (c, queue[0] if queue else None)
            if la != "a0":
                return None, "uv_accept handed out %d but returned %s" % (c, la)
            queue.pop(0)
            i += 1
        elif t[0] == "a":
            code = int(t[1:])
            if code == -11 and queue:
                return None, "uv_accept returned UV_EAGAIN with %d handles pending" % len(queue)
            if code != -11 and not queue:
                return None, "uv_accept returned %d with nothing pending (UV_EAGAIN expected)" % code
            if code not in (-11, -22):
                return None, "uv_accept returned %d without handing out or releasing a handle" % code
        elif t[0] == "n":
            if int(t[1:]) != len(queue):
                return None, "uv_pipe_pending_count = %s with %d handles held" % (t[1:], len(queue))
        elif t[0] == "t":
            want = kinds[queue[0]] if queue else 0
            if int(t[1:]) != want:
                return None, "uv_pipe_pending_type = %s, the oldest held handle has type %d" % (t[1:], want)
        elif t[0] == "!":
            return None, "harness problem %s" % t
        i += 1
    return None


CON_EXPECT = {"Tl": 0, "Tc": -111, "Pl": 0, "Pm": -2, "Po": -2, "Pe": -22, "Pn": -111, "Pf": -11}


def connect_monitor(case, out):
    kind, ops, behs, script = split_case(case)
    toks = out.split(";")[0].split()
    sub, cbs, pending, overlapped, late = {}, {}, [], set(), set()
    n_ok, n_cb, last_u = 0, 0, None
    for t in toks:
        if t.startswith("!write-while-connecting"):
            return None, "a write(2)/sendmsg(2) was issued on the descriptor while its connect was outstanding " \
                         "(uv_try_write must answer UV_EAGAIN without touching the socket: a write consumes the " \
                         "socket's pending error and the connect callback then reports success)"
    for i, t in enumerate(toks):
        if t[0] == "q":
            # loop->active_reqs.count must be: connects accepted with 0 minus callbacks made
            if int(t[1:]) != n_ok - n_cb:
                if last_u is not None and last_u[1] != 0 and i > 0 and toks[i - 1][0] == "u":
                    return None, "connect call for request %d returned %d but a request stays registered " \
                                 "(active_reqs.count = %s, %d accepted and not called back)" \
                                 % (last_u[0], last_u[1], t[1:], n_ok - n_cb)
                return None, "active_reqs.count = %s with %d connects accepted and not yet called back" \
                    % (t[1:], n_ok - n_cb)
            continue
        if t[0] == "z":
            alive, rc = [int(v) for v in t[1:].split(",")]
            lost = [r for r in overlapped if not cbs.get(r)] if not PIPE_CONNECT_EALREADY else []
            if (alive, rc) != (0, 0):
                why = "every handle closed and the loop drained, but uv_loop_alive() = %d and uv_loop_close() = %d" \
                      % (alive, rc)
                if lost:
                    return K_LOST, why + " (request %d was overwritten by a second uv_pipe_connect)" % lost[0]
                return None, why
            continue
        if t[0] == "u":
            r, ret = t[1:].split(":")
            r, ret = int(r), int(ret)
            sub[r] = ret
            last_u = (r, ret)
            if ret == 0:
                n_ok += 1
                if pending and kind == "p":
                    overlapped.update(pending)
                    late.add(r)
                pending.append(r)
        elif t[0] == "k":
            r, st = t[1:].split(":")
            r, st = int(r), int(st)
            cbs.setdefault(r, []).append(st)
            n_cb += 1
            if r in pending:
                pending.remove(r)
            nxt = next((v for v in toks[i + 1:] if v[0] not in "qzvyt"), "")
            if st == -125 and not (nxt == "x" or nxt.endswith(":-125")):
                return None, "request %d cancelled (UV_ECANCELED) although the handle was not being destroyed" % r
        elif t[0] == "x":
            live = [r for r in pending if r not in overlapped or PIPE_CONNECT_EALREADY]
            if live:
                return None, "handle closed but connect request %d never got its callback" % live[0]
    closed = "x" in toks
    for r, ret in sub.items():
        n = len(cbs.get(r, []))
        if ret != 0 and n != 0:
            return None, "request %d was refused with %d but its callback ran" % (r, ret)
        if ret == 0 and n > 1:
            return None, "request %d completed %d times" % (r, n)
        if ret == 0 and n == 0 and closed:
            if r in overlapped and not PIPE_CONNECT_EALREADY:
                return K_LOST, "connect request %d on a pipe was overwritten by a second uv_pipe_connect and never completes" % r
            return None, "request %d (submitted with 0) never completed" % r
    # "status 0 iff the connection was established": what the harness's listeners and getpeername saw.
    # Skipped when SO_ERROR answers were forged (the kernel's view then differs on purpose).
    sec_all = [v.strip() for v in out.split(";")]
    vlog = sec_all[5].split() if len(sec_all) > 5 else []
    forged = any(t[0] == "g" and t != "gp" and t != "g115" for t in script.split())
    if vlog and not forged:
        ents = []
        for t in vlog:
            f = t[1:].split(",")
            ents.append((t[0], f))
        for i, (k, f) in enumerate(ents):
            if k != "c":
                continue
            r, st, arr, gp = int(f[0]), int(f[1]), int(f[2]), int(f[3])
            if st == 0 and len(f) > 4 and f[4] != "11" and not any(o in case for o in (" H", " G")):
                why = "connect callback of request %d reported status 0 but the stream is %sreadable and %swritable" \
                      % (r, "" if f[4][0] == "1" else "not ", "" if f[4][1] == "1" else "not ")
                if kind == "p" and any(k2 == "c" and int(f2[1]) != 0 for k2, f2 in ents[:i]):
                    why += " (uv_pipe_connect retried on the handle of a failed attempt; was the finding " \
                           "pipe_connect_retry_not_readable_writable until /repo ff67af1)"
                return None, why
            if st == 0 and gp != 0:
                return None, "connect callback of request %d reported status 0 but the socket is not connected " \
                             "(getpeername: errno %d)" % (r, -gp)
            # arrivals between this request's submission and the next submission (or the end)
            j0 = next((j for j, (k2, f2) in enumerate(ents) if k2 == "s" and int(f2[0]) == r), None)
            if j0 is None:
                continue
            j1 = next((j for j in range(j0 + 1, len(ents)) if ents[j][0] == "s"), len(ents) - 1)

            def arr(j):      # an entry logs the arrivals since the entry before it
                k2, f2 = ents[j]
                return int(f2[2]) if k2 in "sc" else int(f2[0])
            upto_cb = sum(arr(j) for j in range(j0 + 1, i + 1))
            upto_next = sum(arr(j) for j in range(j0 + 1, min(j1, len(ents) - 1) + 1))
            others = [j for j in range(j0 + 1, i) if ents[j][0] in "sc"]          # anything between submit and callback
            used = any(k2 == "c" and int(f2[1]) == 0 for k2, f2 in ents[:j0])     # the socket was connected before
            if st == 0 and upto_cb == 0 and not used:
                return None, "connect callback of request %d reported status 0 but no connection reached the " \
                             "listener" % r
            if st not in (0, -125) and upto_next > 0 and not others and not used \
                    and r not in overlapped and r not in late:
                return None, "connect callback of request %d reported status %d although the connection was " \
                             "established (the listener got it)" % (r, st)
    # a request accepted with 0 whose connection the listener received must complete: with the handle open,
    # two further loop iterations without its callback = established but never completed
    if vlog and not any(t[0] == "g" and t != "gp" for t in script.split()):
        for r, ret in sub.items():
            if ret != 0 or r in overlapped or r in late:
                continue
            j0 = next((j for j, (k2, f2) in enumerate(ents) if k2 == "s" and int(f2[0]) == r), None)
            if j0 is None:
                continue
            cum, est, later = 0, None, 0
            for j in range(j0 + 1, len(ents)):
                k2, f2 = ents[j]
                if k2 == "s" and sub.get(int(f2[0])) == 0:
                    break                        # another accepted request: arrivals are no longer attributable
                if k2 == "c" and int(f2[0]) == r:
                    break
                if k2 == "x":
                    break
                if est is not None and k2 == "r":
                    later += 1
                    if later >= 2:
                        return None, "connect request %d was established (the listener got it) but never completed: " \
                                     "%d loop iterations later its callback has not run and the handle is open" % (r, later)
                cum += int(f2[2]) if k2 in "sc" else int(f2[0])
                if est is None and cum > 0:
                    est = j
    # status against what the harness arranged (no injected answers, callbacks do nothing)
    top = ops.split()
    if not script and not behs.replace("|", "").strip() and top:
        if top[0] in CON_EXPECT and sub.get(0) == 0 and cbs.get(0) and len(top) > 1 and top[1] == "R":
            if cbs[0][0] != CON_EXPECT[top[0]]:
                return None, "connect %s completed with status %d, expected %d" % (top[0], cbs[0][0], CON_EXPECT[top[0]])
        # pipes: a connect to a missing / over-long / empty / non-socket path fails in the call itself,
        # so the first loop iteration after it must deliver that error
        fail = {"Pm": -2, "Po": -2, "Pe": -22, "Pn": -111, "Pf": -11, "Q0m": -2, "Q0o": -2, "Q0n": -111, "Q0f": -11}
        rid, closing = 0, False
        for j, o in enumerate(top):
            if o == "C":
                closing = True
            if o[0] not in "TPQB" or o == "B" or closing:
                continue
            r, rid = rid, rid + 1
            nxt = top[j + 1] if j + 1 < len(top) else ""
            if o in fail and nxt == "R" and sub.get(r) == 0 and r not in overlapped and r not in late and cbs.get(r):
                if cbs[r][0] != fail[o]:
                    return None, "uv_pipe_connect %s (request %d) completed with status %d, expected %d" \
                        % (o, r, cbs[r][0], fail[o])
    return None


def write_monitor(case, out):
    spec = case.split(";")[1].strip()
    st, sta, hk, api = spec[0], spec[1], spec[2], spec[3]
    head = out.split(";")[0].split()
    ret, nf = int(head[0][1:]), int(head[1][1:])
    if hk == "-":
        return None
    ipc = st == "I"
    what = "uv_write2" if api == "2" else "uv_try_write2"
    if ret >= 0:
        if not ipc:
            why = "%s accepted a send handle on a %s stream (returned %d, %d descriptors reached the peer)" \
                  % (what, "tcp" if st == "T" else "non-ipc pipe", ret, nf)
            return None, why       # was the known finding try_write2_send_handle_unchecked until /repo c5357ca
        if hk in "TUmc":
            return None, "%s accepted a send handle without descriptor (returned %d)" % (what, ret)
        if sta == "w" and nf != 1:
            return None, "%s returned %d but %d descriptors reached the peer" % (what, ret, nf)
    if sta == "w":
        if not ipc and ret != -22:
            return None, "%s with a send handle on a non-ipc stream returned %d, not UV_EINVAL" % (what, ret)
        if ipc and hk in "TUmc" and ret != -9:
            return None, "%s with a handle without descriptor returned %d, not UV_EBADF" % (what, ret)
    return None


# --------------------------------------------------------------------------
def run_sharded(cmd, cases, shards=8):
    """Run the harness over [cases] in [shards] processes.  Returns (lines, culprit): when a
    process stops early (crash, or it lost its stdin) culprit is the case it stopped at."""
    import concurrent.futures
    n = max(1, (len(cases) + shards - 1) // shards)
    parts = [cases[i:i + n] for i in range(0, len(cases), n)]
    with concurrent.futures.ThreadPoolExecutor(shards) as ex:
        res = list(ex.map(lambda part: vf.run_lines(cmd, part, timeout=900), parts))
    out, culprit = [], None
    for part, (o, rc, err) in zip(parts, res):
        o = [l for l in o]
        if len(o) < len(part) or rc != 0:
            if culprit is None:        # the last case with output (possibly partial) and the one after it
                culprit = (part[max(0, min(len(o), len(part)) - 1)], part[min(len(o), len(part) - 1)], rc,
                           (err or "")[-300:])
            o = o + ["CRASH"] * (len(part) - len(o))
        out += o[:len(part)]
    return out, culprit


def run_mode(chk, name, harness_cmd, model_cmd, cases, model_input, monitor, first_tok_only=False):
    a, culprit = run_sharded(harness_cmd, cases)
    if culprit:
        c, nxt, rc, err = culprit
        chk.violation("%s: harness died or lost its standard input (rc=%s) during or right after this case %s"
                      % (name, rc, err),
                      {"kind": "correspondence", "obligation": name, "case": c, "next_case": nxt}, found_input=True)
        return None
    minp = [model_input(c, l) or "" for c, l in zip(cases, a)]
    usable = [i for i, m in enumerate(minp) if m]
    b_us, rc2, err2 = vf.run_lines(model_cmd, [minp[i] for i in usable], shards=8)
    if len(b_us) != len(usable):
        chk.violation("%s: model produced %d lines for %d cases %s" % (name, len(b_us), len(usable), (err2 or "")[-300:]),
                      {"kind": "correspondence", "obligation": name}, found_input=False)
        return None
    b = [None] * len(cases)
    for i, l in zip(usable, b_us):
        b[i] = l
    nbad = 0
    pend_reports = []      # (has a failing-input verdict, what, replay): those with a verdict are reported first
    for c, al, bl, mi in zip(cases, a, b, minp):
        impl_trace = al.split(";")[0]
        chk.count(name, c + "=>" + impl_trace)
        if bl is None or "HANG" in al:
            nbad += 1
            if nbad <= 3:
                chk.violation("%s: harness output unusable: %s" % (name, al[:200]),
                              {"kind": "correspondence", "obligation": name, "case": c, "impl": al}, found_input=False)
            continue
        try:
            verdict = monitor(c, al)
        except (ValueError, IndexError) as e:
            verdict = (None, "trace not parseable by the monitor (%s)" % e)
        it, mt = vf.canon(impl_trace), vf.canon(bl)
        if first_tok_only:      # the model prints the current code's answer first ("H..." = before c5357ca)
            it, mt = it.split()[0], mt.split()[0]
        if it != mt:
            chk.cov["disagreements_checked"] += 1
            nbad += 1
            reason = verdict[1] if verdict and verdict[0] is None else None
            if len(pend_reports) < 400:
                pend_reports.append((reason is not None,
                                     "%s: implementation and model disagree%s" % (name, (": " + reason) if reason else ""),
                                     {"kind": "correspondence", "obligation": name, "case": c, "impl": al,
                                      "model": bl, "model_input": mi, "monitor": reason}))
        elif verdict:
            key, reason = verdict
            f = chk.match_known(key) if key else None
            if f:
                chk.known_hit(f)
                chk.cov.setdefault("known_finding_cases", {}).setdefault(key, c)
            else:
                nbad += 1
                if len(pend_reports) < 400:
                    pend_reports.append((True, "%s: trace violates the property: %s%s"
                                         % (name, reason, (" [unlisted finding %s]" % key) if key else ""),
                                         {"kind": "monitor", "obligation": name, "case": c, "impl": al, "key": key}))
    pend_reports.sort(key=lambda t: (not t[0], len(t[2].get("case", ""))))     # verdicts first, short cases first
    for found, what, rp in pend_reports[:3]:
        chk.violation(what, rp, found_input=found)
    chk.corr(name, len(cases))
    return a


OBL = {
    "srv-t": "uv__server_io/uv_accept = Model/Accept.v (uv_tcp_t server on 127.0.0.1)",
    "srv-u": "uv__server_io/uv_accept = Model/Accept.v (uv_pipe_t server on a Unix socket)",
    "ipc": "uv__stream_recv_cmsg/queue_fd/uv_accept/pending_count,type = Model/Accept.v (ipc pipe, SCM_RIGHTS)",
    "con-t": "uv__tcp_connect/uv__stream_connect/destroy = Model/Connect.v (uv_tcp_t)",
    "con-p": "uv_pipe_connect(2)/uv__stream_connect/destroy = Model/Connect.v (uv_pipe_t)",
    "w": "uv__check_before_write via uv_write2/uv_try_write2 = Model/Connect.v (all stream x handle kinds)",
}

# fixed cases run on every seed: the known findings' witnesses and the array-growth boundaries
FIXED = {
    "srv-u": ["u ; S1 K2 R R S0 K1 R Af R S1 K2 R R S0 K1 R Af R R ; ; ",
              "u ; S1 K1 R S0 K1 R Af R S1 K1 R R R S0 R Af R S1 K3 R R S0 K1 R Af R ; ; ",
              "u ; K3 R Ab R K1 R Af R ; | ; ",                       # item 24: failed uv_accept, server stalls
              "u ; K6 R R Af R ; ; e24 p p e11 o0 e24",
              "u ; K40 " + "R " * 45 + "; " + " | ".join(["Af"] * 45) + " ; "],
    "srv-t": ["t ; S1 K2 R R S0 K1 R Af R S1 K2 R R S0 K1 R Af R R ; ; ",
              "t ; S1 K1 R S0 K1 R Af R S1 K1 R R R S0 R Af R S1 K3 R R S0 K1 R Af R ; ; ",
              "t ; K5 R R Af R Af R ; ; e23 p e4 p e11",
              "t ; K3 R C R ; | ; "],
    "ipc": ["i ; MT R N T MD R N T Af T Af N ; ; ", "i ; MTDtu MDT R R N T Af T Af T Af T Af T Af T Af N ; ; ",
            "i4 ; D4 Mt D8 Mu Md D4 Mt R R R R R R R R N Af Af Af Af N ; ; ",
            "i1 ; D1 Mt D1 D1 Mu D2 Mdt R R R R R N T Af Af Af Af N ; ; ",
            "i8 ; D8 Mt D16 Mtu D24 Md R R R R R R N Af Af Af Af N ; ; ",
            "i ; " + "Mt R " * 9 + "N T " + "Af N " * 10 + "; ; ",     # 1 + 8 queued: exactly fills the first array
            "i ; " + "Mu R " * 10 + "N T " + "Af N T " * 11 + "; ; ",   # 1 + 9: first growth
            "i ; " + "Md R " * 18 + "N " + "Af N " * 3 + "Mt R N " * 3 + "Af N T " * 19 + "; ; ",
            "i ; Mtudtudtudt Mtudtudtud R R N " + "Af T N " * 20 + "; ; ",
            "i ; " + "Mt R " * 9 + "F1 Mt R N Mu R N " + "Af " * 11 + "; ; ",   # growth allocation fails
            "i ; Mt R F1 Mu R N Md R N Af Af Af ; ; "],                    # first allocation fails
    "con-t": ["t ; Tc t R R C R R ; ; ", "t ; Tc t t R R R ; t ; ", "t ; Th t R t R C R R ; ; ", "t ; Tl t R R C R R ; ; ",
              "t ; Tc R R R R ; Tc t | t ; ", "t ; Tl R W R R R R C R R ; | Tc | ; ", "t ; Tl R W R R R R ; | Tl | ; ", "t ; Tc W R R R R R ; | Tl | ; ", "t ; Tc W H R R R R R ; | Tl | ; ",
              "t ; Th H R R R C R R ; ; ", "t ; Th W H R R R C R R ; ; ", "t ; Th R W R H R R C R R ; ; ", "t ; Th R R R C R R ; ; ",
              "t ; Tc R R R R ; Th H | W ; ", "t ; Tl R W H R R C R R ; ; ", "t ; Tl W H R R R C R R ; ; ",
              "t ; Tc R R R R R ; Tl | Tl | W ; ", "t ; Tc R R R R C R R ; Tc | Tl | W H ; ", "t ; Tl R R R ; W G ; ",
              "t ; B Tl R R C R ; ; ", "t ; B Tl R R Tl R R C R ; ; ", "t ; b T6 R T6 Tl R R C R ; ; ", "t ; Tl R Tc Tc R C R ; ; e101 e99 e24", "t ; Tl Tc R R ; Tc Tl ; s24 p s23",
              "t ; Tl R R C R ; ; ", "t ; Tc R R C R ; ; ", "t ; Tl C R R ; ; ", "t ; B Tl R R C R ; Tl ; ",
              "t ; Tl Tl R R C R ; ; e4 e111"],
    "con-p": ["p ; Pm t R R C R R ; ; ", "p ; Pl t R R C R R ; ; ", "p ; Pn t t R R R ; Pl t | t ; ", "p ; Pm W R R R R R ; | Pl | ; ", "p ; Pm W H R R R R R ; | Pl | ; ", "p ; Pl R W R R R R C R R ; | Pl | ; ",
              "p ; Pl W H R R R C R R ; ; ", "p ; Pm W H R R Pl R R C R R ; ; ", "p ; Pm H R R R ; Pl | ; ",
              "p ; Pm R R R R ; Pl | W ; ", "p ; Pn R R R C R R ; Pl | W H ; ", "p ; Pm R R R R ; Pm | W Pl | G ; ",
              "p ; Pf R R Pl R R C R ; ; ", "p ; Q0f R Pf R C R ; ; ", "p ; Pl R Pm R Po R Pe R Pn R C R ; ; ", "p ; Q1o Q2l Q0z Q0e Q0o R C R ; ; ", "p ; Pm C R ; ; s24",
              "p ; Q0l Q0m R R C R R ; ; ",                               # a second connect while one is pending
              "p ; Pl Pm Po R R C R R ; ; ", "p ; Pl Pm Q0m C R R ; ; ", "p ; Pm Pl R Pl Pn Pe R R C R ; Pm Pl | | Pl ; "],
}


def main():
    chk = vf.Check("C07")
    thorough = chk.tier == "thorough"
    if os.environ.get("VERIF_C07_NOTES_KNOWN"):      # development aid: take the entries proposed in notes/C07.md as listed
        import re
        for m in re.finditer(r'^\{"property": "C07".*\}$', open(os.path.join(vf.VERIF, "notes", "C07.md")).read(), re.M):
            chk.known.append(json.loads(m.group(0)))
    chk.prove()
    try:
        lib = vf.build_libuv(chk.scratch, "ndebug")
        hacc = vf.cc_harness(chk.scratch, "c07_accept", ["c07_accept.c"], lib=lib,
                             wraps=["accept4", "recvmsg", "syscall", "epoll_pwait", "open64"])
        hcon = vf.cc_harness(chk.scratch, "c07_connect", ["c07_connect.c"], lib=lib,
                             wraps=["connect", "getsockopt", "socket", "epoll_pwait", "sendmsg", "write"])
        model = vf.model_bin("C07")
    except vf.BuildError as e:
        chk.violation("build failed: %s" % str(e)[:300], {"kind": "build", "log": str(e)}, found_input=False)
        chk.finish(rule="build failed")
    sockdir = os.path.join(chk.scratch.dir, "s")
    os.makedirs(sockdir, exist_ok=True)
    acc_cmd, con_cmd = [hacc, sockdir], [hcon, sockdir]

    def go(key, cases):
        if key in ("srv-t", "srv-u"):
            return run_mode(chk, OBL[key], acc_cmd, [model, "acc"], cases, acc_model_input, server_monitor)
        if key == "ipc":
            return run_mode(chk, OBL[key], acc_cmd, [model, "acc"], cases, acc_model_input, ipc_monitor)
        if key in ("con-t", "con-p"):
            return run_mode(chk, OBL[key], con_cmd, [model, "con"], cases, con_model_input, connect_monitor)
        return run_mode(chk, OBL[key], con_cmd, [model, "w"], cases, w_model_input, write_monitor, first_tok_only=True)

    if chk.replay:
        rp = json.load(open(chk.replay))
        key = next((k for k, v in OBL.items() if v == rp.get("obligation")), None)
        if key and "case" in rp:
            out = go(key, [rp["case"]])
            if out:
                print("impl:  " + out[0])
        chk.finish(rule="replay of one recorded case")

    corpus = {}
    cdir = os.path.join(vf.VERIF, "corpus", "C07")
    for key in OBL:
        p = os.path.join(cdir, key + ".txt")
        corpus[key] = [l.rstrip("\n") for l in open(p) if l.strip() and not l.startswith("#")] \
            if os.path.exists(p) else []
    mult = 12 if thorough else 1
    rng = chk.rng
    sets = {
        "srv-t": [gen_server(rng, "t") for _ in range(300 * mult)] + [gen_shortage(rng, "t") for _ in range(30 * mult)],
        "srv-u": [gen_server(rng, "u") for _ in range(350 * mult)] + [gen_shortage(rng, "u") for _ in range(30 * mult)],
        "ipc": [gen_ipc(rng) for _ in range(600 * mult)] + [gen_ipc_burst(rng) for _ in range(250 * mult)],
        "con-t": [gen_connect(rng, "t") for _ in range(700 * mult)] + [gen_connect_retry(rng, "t") for _ in range(150 * mult)] + [gen_connect_slow(rng) for _ in range(60 * mult)],
        "con-p": [gen_connect(rng, "p") for _ in range(700 * mult)] + [gen_connect_retry(rng, "p") for _ in range(150 * mult)],
        "w": write_table(),
    }
    for key in ["w", "ipc", "srv-u", "srv-t", "con-t", "con-p"]:
        cases = FIXED.get(key, []) + corpus[key] + sets[key]
        a = go(key, cases)
        if a:
            k = len(FIXED.get(key, [])) + len(corpus[key])
            chk.sample({"obligation": key, "case": cases[k][:300], "impl": a[k][:300]}, limit=8)
            if key.startswith("srv"):
                chk.cov["connections_announced"] = chk.cov.get("connections_announced", 0) + \
                    sum(l.split(";")[0].split().count("c") for l in a)
                chk.cov["accept4_answers_logged"] = chk.cov.get("accept4_answers_logged", 0) + \
                    sum(len([t for t in l.split(";")[1].split() if t != "|"]) for l in a if l.count(";") >= 5)
            if key == "ipc":
                chk.cov["descriptors_received"] = sum(sum(1 for t in l.split(";")[0].split() if t[0] == "h") for l in a)
                chk.cov["max_pending_count"] = max([int(t[1:]) for l in a for t in l.split(";")[0].split()
                                                    if t[0] == "n"] + [0])
            if key.startswith("con"):
                chk.cov["connect_callbacks"] = chk.cov.get("connect_callbacks", 0) + \
                    sum(sum(1 for t in l.split(";")[0].split() if t[0] == "k") for l in a)

    chk.finish(
        level="proof",
        rule="servers (tcp 127.0.0.1 / Unix socket): up to 40 real client sockets per script (connect + token "
             "byte), uv_accept immediately / later / in bursts / never / into busy or wrong-type handles, "
             "accept4 answers injected (EMFILE, ENFILE, EINTR, EAGAIN, others) and logged, servers closed with "
             "connections pending; ipc pipe: up to 40 descriptors (tcp, unix, udp) sent with raw "
             "sendmsg(SCM_RIGHTS), 0..17 per message, receiver claims late, allocation failures of the queue "
             "injected; connects: listening / closed ports, listening / missing / over-long / empty / non-socket "
             "paths, argument errors, injected socket/connect/SO_ERROR answers, close before completion, "
             "reconnects from the callback; send handles: the whole table stream kind x state x handle kind x "
             "{uv_write2, uv_try_write2}.  The logged kernel answers are replayed into the extracted model; "
             "compared: return codes, callback order and status, identity of every descriptor "
             "(token / inode), pending_count/type, descriptors closed by libuv",
        trusted=["Coq 8.16.1 kernel (coqc)",
                 "ExtrOcamlBasic extraction + OCaml 4.13.1 + zarith glue (ocaml/zutil.ml, drv_c07.ml)",
                 "harness/c07_accept.c, harness/c07_connect.c (syscall wrappers, descriptor identification), "
                 "checks/c07.py (generators, monitors)", "gcc 12, Linux AF_UNIX/TCP/UDP loopback sockets"])


if __name__ == "__main__":
    main()
