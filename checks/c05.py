#!/usr/bin/env python3
"""C05 stream writes: proofs (Properties_C05.v) + correspondence of Model/StreamWrite.v
with the write path of src/unix/stream.c of the current tree (real libuv on a
socketpair / TCP loopback, write/writev/sendmsg/shutdown wrapped and scripted; and on
streams whose uv_tcp_connect / uv_pipe_connect is still pending when the script starts)."""
import json, os, re, sys
sys.path.insert(0, os.path.join(os.path.dirname(os.path.abspath(__file__)), "..", "lib"))
import vf

EAGAIN, EPIPE, EBADF, ECANCELED = -11, -32, -9, -125


# --------------------------------------------------------------------------
# generator
# --------------------------------------------------------------------------
def lens_str(ls):
    """compress runs: [1,1,1,0] -> 1*3,0"""
    out, i = [], 0
    while i < len(ls):
        j = i
        while j < len(ls) and ls[j] == ls[i]:
            j += 1
        out.append("%d*%d" % (ls[i], j - i) if j - i > 2 else ",".join(str(ls[i]) for _ in range(j - i)))
        i = j
    return ",".join(out)


def wakeups_needed(op_strings):
    """upper bound of the POLLOUT wake-ups the writes in these op lists can cost beyond their scripted answers:
    a 0-byte write skips exactly one zero-length buffer, and every 1024 buffers need a call of their own"""
    n = 0
    for text in op_strings:
        for tok in text.split():
            if tok[0] in "WVNMT" and len(tok) > 1:
                nb = 0
                for part in tok[1:].split(","):
                    a, _, k = part.partition("*")
                    k = int(k) if k else 1
                    nb += k
                    if int(a) == 0:
                        n += k
                n += 1 + nb // 1024
            elif tok[0] == "K":
                n += 3           # a retried connect: delayed error or completion, then what was queued behind it
    return n


def gen_bufs(rng, big_ok=True):
    r = rng.random()
    if big_ok and r < 0.03:       # more than IOV_MAX buffers
        kind = rng.randrange(5)
        if kind == 0:
            return [1] * rng.choice([1025, 1030, 1100])
        if kind == 1:
            return [0] * rng.choice([1, 3]) + [1] * 1024 + [rng.choice([0, 2, 5])]
        if kind == 2:
            return [2] * 1024 + [0, 5]
        if kind == 3:
            return [rng.choice([0, 1, 3]) for _ in range(rng.choice([1024, 1025, 1500]))] + [1]
        return [1] * 1023 + [0, 0, 7]
    n = rng.choice([1, 1, 1, 2, 2, 3, 3, 4, 5, 6, 9])
    pool = rng.choice([[0, 1, 2, 3], [0, 0, 1, 5], [1, 2, 3, 5, 8], [0], [1], [100, 0, 7], [4096, 1, 0]])
    return [rng.choice(pool) for _ in range(n)]


def gen_case(rng):
    blk = 1 if rng.random() < 0.06 else 0
    shutans = rng.choice([0] * 8 + [107, 5])
    ops, behs, script = [], [], []
    written = []     # buffer lists of the writes, for boundary-aimed answers
    shape = rng.random()

    def wr(big_ok=True):
        b = gen_bufs(rng, big_ok)
        written.append(b)
        return lens_str(b)

    def inner_ops():
        k = rng.choice([0, 0, 0, 1, 1, 2, 3])
        out = []
        for _ in range(k):
            r = rng.random()
            if r < 0.05:
                out.append("N" + lens_str([rng.choice([0, 1, 3]) for _ in range(rng.choice([5, 7, 3]))]))
            elif r < 0.5:
                out.append("W" + wr(False))
            elif r < 0.7:
                out.append("T" + lens_str(gen_bufs(rng, False)))
            elif r < 0.85:
                out.append("S")
            else:
                out.append("C")
        return " ".join(out)

    if shape < 0.12:
        # many requests behind a refused first write, then one wake-up
        ops.append("W" + wr(False))
        script.append(rng.choice(["e11", "e105", "n0", "n1"]))
        for _ in range(rng.choice([31, 32, 33, 34, 40, 70])):
            ops.append("W" + lens_str([rng.choice([0, 1, 2])] * rng.choice([1, 2])))
        if rng.random() < 0.3:
            ops.append(rng.choice(["S", "T3", "C"]))
        ops += ["R"] * rng.choice([1, 2, 3])
    else:
        for _ in range(rng.randint(2, 14)):
            r = rng.random()
            if r < 0.06:            # uv_write while uv__malloc fails (UV_ENOMEM when there are 5+ buffers)
                nb = rng.choice([5, 5, 6, 9, 4, 2])
                ops.append("N" + lens_str([rng.choice([0, 1, 2, 7]) for _ in range(nb)]))
            elif r < 0.42:
                ops.append("W" + wr())
            elif r < 0.54:
                ops.append("T" + lens_str(gen_bufs(rng, False)))
            elif r < 0.60:
                ops.append("S")
            elif r < 0.64:
                ops.append("C")
            else:
                ops.append("R")
    # answers: aimed at buffer boundaries of what is written
    bounds = [0, 1]
    for b in written:
        acc = 0
        for x in b[:40]:
            acc += x
            bounds += [acc, acc + 1, max(0, acc - 1)]
        if len(b) > 1000:
            bounds += [sum(b[:1024]), sum(b[:1023]), sum(b), 1]
    nans = rng.choice([0, 2, 5, 10, 25])
    for _ in range(nans):
        r = rng.random()
        if r < 0.50:
            script.append("n%d" % rng.choice(bounds))
        elif r < 0.62:
            script.append("e11")
        elif r < 0.68:
            script.append("e105")
        elif r < 0.80:
            script.append("e4")
        elif r < 0.87:
            script.append("e%d" % rng.choice([32, 104, 5, 32]))
        elif r < 0.93:
            script.append("n0")
        else:
            script.append("p")
    if blk and rng.random() < 0.5:
        script = [t for t in script if t not in ("e11", "e105")] + ["e11"]
    for _ in range(rng.choice([0, 0, 2, 6, 12])):
        behs.append(inner_ops())
    # settle: enough wake-ups that everything queued is written and called back
    settle = min(wakeups_needed(ops + behs), 4000) + len(script) + 8
    tail = ["R"] * settle
    if rng.random() < 0.5:
        tail += ["C", "R"]
    return "%d %d ; %s ; %s ; %s ; settle%d" % (blk, shutans, " ".join(ops + tail), " | ".join(behs),
                                               " ".join(script), len(tail))


def gen_conn_case(rng):
    """scripts that start between uv_tcp_connect/uv_pipe_connect and the connect callback; connects retried on
    the same handle (Kl = to the listener, Kd = to the address nobody listens on) at top level, from the connect
    callback and from write callbacks"""
    conn = rng.choice(["t0", "t0", "t0", "t1", "t3", "u0", "u0", "u0", "u2", "T", "T", "T", "U", "U"])
    dead = conn in ("T", "U")
    shutans = rng.choice([0] * 9 + [107])
    ops, behs, script, written = [], [], [], []

    def wr(big_ok=True):
        r = rng.random()
        if r < 0.35:
            b = [0] * rng.choice([1, 1, 2, 3, 5])          # nothing but zero-length buffers
        else:
            b = gen_bufs(rng, big_ok)
        written.append(b)
        return lens_str(b)

    def retry():
        # right after a refused TCP connect the first retry comes back with ECONNABORTED: retry twice, too
        return rng.choice(["Kl", "Kd", "Kl Kl", "Kd Kl", "Kl Kl", "Kd Kd", "Kl Kd"])

    def some_op(top, big_ok):
        r = rng.random()
        if conn[0] in "tT" and rng.random() < 0.06:
            return "Z"                                     # uv_tcp_close_reset
        if dead and r < 0.12:
            return retry()
        if r < 0.50:
            return "W" + wr(big_ok)
        if r < 0.62:
            return "T" + lens_str(gen_bufs(rng, False))
        if r < 0.85:
            return "S"
        if r < 0.90:
            return "C"
        return "R" if top else "S"
    # while the connect is pending
    for _ in range(rng.choice([0, 1, 1, 2, 2, 3, 4, 6])):
        r = rng.random()
        ops.append("W" + wr() if r < 0.7 else ("T" + lens_str(gen_bufs(rng, False)) if r < 0.85 else
                                               ("Kl" if r < 0.9 else "S")))
    if rng.random() < 0.55 and "S" not in ops:
        ops.append("S")
    if conn[0] in "tT" and rng.random() < 0.08:
        ops.append("Z")                                    # while the connect (and maybe a shutdown) is pending
    if rng.random() < 0.05:
        ops.append("C")
    ops += ["R"] * rng.choice([1, 1, 2, 4])
    if dead and rng.random() < 0.5:
        # after the failed connect: writes (they fail at once and wait in write_completed_queue for the next
        # run of the pending queue), a shutdown, and the connect retried at top level before the loop runs again
        for _ in range(rng.choice([1, 1, 2, 3, 5])):
            r = rng.random()
            ops.append("W" + wr(False) if r < 0.45 else retry() if r < 0.75 else "S" if r < 0.85 else "R")
    for _ in range(rng.choice([0, 0, 1, 3, 6])):
        ops.append(some_op(True, False))
    nbeh = rng.choice([0, 0, 1, 2, 5])
    for k in range(nbeh):
        behs.append(" ".join(some_op(False, False) for _ in range(rng.choice([0, 1, 1, 2]))))
    if dead and rng.random() < 0.5:
        # the callback of the failed connect (the first callback of the run when nothing was called back before)
        # retries: to the listener, to the dead address, or both, with or without a shutdown / write around it
        first = rng.choice([retry(), retry(), "S " + retry(), retry() + " S", "W" + wr(False) + " " + retry(),
                            retry() + " W" + wr(False)])
        behs = [first] + behs[1:] if behs else [first]
    bounds = [0, 1]
    for b in written:
        acc = 0
        for x in b[:40]:
            acc += x
            bounds += [acc, acc + 1, max(0, acc - 1)]
    for _ in range(rng.choice([0, 0, 2, 5, 10])):
        r = rng.random()
        script.append("n%d" % rng.choice(bounds) if r < 0.5 else
                      rng.choice(["e11", "e105", "e4", "e4", "n0", "p", "e32"]))
    tail = ["R"] * (min(wakeups_needed(ops + behs), 4000) + len(script) + 12)
    if rng.random() < 0.4:
        tail += ["C", "R"]
    return "0 %d %s ; %s ; %s ; %s ; settle%d" % (shutans, conn, " ".join(ops + tail), " | ".join(behs),
                                                  " ".join(script), len(tail))


def gen_ipc_case(rng):
    """uv_write2 with a real handle on an IPC pipe; payloads split over several rounds by short writes"""
    ops, behs, script, written = [], [], [], []

    def payload():
        n = rng.choice([1, 2, 2, 3, 4, 6])
        b = [rng.choice([0, 1, 2, 3, 5, 8, 100]) for _ in range(n)]
        if sum(b) == 0:
            b[rng.randrange(n)] = rng.choice([1, 3, 7])     # an empty payload cannot carry a descriptor
        written.append(b)
        return lens_str(b)

    def some_op(top):
        r = rng.random()
        if r < 0.05:
            return "M" + lens_str([rng.choice([1, 2, 5]) for _ in range(rng.choice([5, 6, 4]))])
        if r < 0.40:
            return "V" + payload()
        if r < 0.60:
            return "W" + lens_str(gen_bufs(rng, False))
        if r < 0.68:
            return "T" + lens_str(gen_bufs(rng, False))
        if r < 0.74:
            return "S"
        if r < 0.78:
            return "X"
        if r < 0.81:
            return "C"
        return "R" if top else "V" + payload()
    ops.append("V" + payload())
    for _ in range(rng.randint(1, 10)):
        ops.append(some_op(True))
    for _ in range(rng.choice([0, 0, 1, 3, 6])):
        behs.append(" ".join(some_op(False) for _ in range(rng.choice([0, 1, 1, 2]))))
    bounds = [1, 1, 2]
    for b in written:
        acc = 0
        for x in b:
            acc += x
            bounds += [acc, acc + 1, max(1, acc - 1)]
    for _ in range(rng.choice([3, 6, 10, 20])):
        r = rng.random()
        script.append("n%d" % rng.choice(bounds) if r < 0.55 else
                      rng.choice(["e11", "e11", "e105", "e4", "e4", "n0", "n1", "p", "e32"]))
    tail = ["R"] * (wakeups_needed(ops + behs) + len(script) + 10)
    if rng.random() < 0.4:
        tail += ["C", "R"]
    return "0 0 - 1 ; %s ; %s ; %s ; settle%d" % (" ".join(ops + tail), " | ".join(behs), " ".join(script), len(tail))


def add_reset(rng, case):
    """TCP scripts: uv_tcp_close_reset (Z) at any point - preferably between uv_shutdown and its callback, where it
    must be refused and change nothing - at top level and from callbacks"""
    parts = case.split(";")
    ops = parts[1].split()
    r = rng.random()
    if r < 0.45:
        return case
    spots = [i + 1 for i, t in enumerate(ops) if t == "S"]
    for _ in range(rng.choice([1, 1, 2])):
        pos = rng.choice(spots) if spots and rng.random() < 0.6 else rng.randrange(0, max(1, min(len(ops), 16)))
        ops.insert(pos, "Z")
        if rng.random() < 0.3:
            ops.insert(min(len(ops), pos + 1 + rng.randrange(3)), "C")      # an ordinary close after a (refused) reset
    parts[1] = " " + " ".join(ops) + " "
    if rng.random() < 0.25:
        behs = parts[2].split("|")
        k = rng.randrange(len(behs))
        behs[k] = " " + (behs[k].strip() + rng.choice([" Z", " S Z", " Z C"])).strip() + " "
        parts[2] = "|".join(behs)
    return ";".join(parts)


FIXED_TCP = [
    # uv_tcp_close_reset between uv_shutdown and its callback: UV_EINVAL and no effect (SO_LINGER still off); the
    # ordinary close that follows ends the stream in order - the seeded change set linger-zero before refusing
    "0 0 ; W5 S Z C R R ; ; e11 ; settle2",
    "0 0 ; W5 S Z R R R C R ; ; e11 n2 ; settle5",
    "0 0 ; W5 W3 S Z Z R R R R ; ; e11 ; settle4",
    # refused from inside a write callback, with the shutdown issued there
    "0 0 ; W3 W2 R R R R ; S Z | ; e11 ; settle4",
    # accepted: requests still queued complete once with UV_ECANCELED, the peer sees a reset
    "0 0 ; W5 W2 Z R R ; ; e11 ; settle2",
    "0 0 ; W5 R Z R ; ; n2 e11 ; settle1",
    # after the shutdown callback the request is gone: accepted again
    "0 0 ; W5 S R R Z R ; ; ; settle1",
    "0 0 ; Z W1 T1 S R ; ; ; settle1",
]


MAX_RW = 0x7ffff000


def gen_huge_case(rng):
    """requests whose buffers sum to 2^32 bytes and more; the wrappers never hand them to the kernel
    (reserved address space only), the answers are just numbers"""
    H = [2**31 - 1, 2**31, 2**32 - 1, 2**32, 2**30, 3 * 2**30, 2**26, 2**32 + 1, 1, 0, 5]
    ops, behs, script, totals = [], [], [], []

    def huge():
        r = rng.random()
        if r < 0.15:
            b = [2**26] * 64                      # 64 x 64 MiB = 2^32
        elif r < 0.25:
            b = [2**30] * rng.choice([4, 5, 8, 9])
        else:
            b = [rng.choice(H) for _ in range(rng.choice([1, 2, 2, 3, 4, 6]))]
            if sum(b) < 2**24:
                b.append(rng.choice([2**32 - 1, 2**32, 2**31]))
        totals.append(b)
        return lens_str(b)
    stuck = rng.random() < 0.8
    if rng.random() < 0.5:
        ops.append("W" + lens_str(gen_bufs(rng, False)))
    else:
        ops.append("W" + huge())
    script.append(rng.choice(["e11", "e105", "n1"]) if stuck else rng.choice(["n%d" % 2**30, "p", "n%d" % 2**32]))
    for _ in range(rng.randint(1, 7)):
        r = rng.random()
        if r < 0.55:
            ops.append("W" + huge())
        elif r < 0.70:
            ops.append("T" + huge())
        elif r < 0.78:
            ops.append("W" + lens_str(gen_bufs(rng, False)))
        elif r < 0.83:
            ops.append("S")
        else:
            ops.append("R")
    bounds = [1, 2**30, MAX_RW, MAX_RW - 1, 2**31, 2**32, 2**31 - 1, 5, 0]
    for b in totals:
        acc = 0
        for x in b[:8]:
            acc += x
            bounds += [acc % MAX_RW, x % MAX_RW]
    for _ in range(rng.choice([0, 2, 5, 12])):
        r = rng.random()
        script.append("n%d" % rng.choice(bounds) if r < 0.6 else rng.choice(["e11", "e4", "e105", "p", "p", "e32"]))
    for _ in range(rng.choice([0, 0, 1, 3])):
        behs.append(rng.choice(["", "W" + huge(), "T" + huge(), "S", "C"]))
    need = sum((sum(b) + MAX_RW - 1) // MAX_RW + len(b) for b in totals)
    if rng.random() < 0.55:
        tail = ["R"] * rng.choice([0, 1, 3]) + ["C", "R"]
    else:
        tail = ["R"] * (need + wakeups_needed(ops + behs) + len(script) + 10)
        if rng.random() < 0.3:
            tail += ["C", "R"]
    return "0 0 ; %s ; %s ; %s ; settle%d" % (" ".join(ops + tail), " | ".join(behs), " ".join(script), len(tail))


FIXED_HUGE = [
    # 64 x 64 MiB and 5 x 1 GiB queued behind a refused write; queue size read; close cancels everything
    "0 0 ; W5 W67108864*64 W1073741824*5 R C R ; ; e11 e11 ; settle2",
    # single buffers around 2^31 and 2^32, partial acceptances of huge counts, then drained
    "0 0 ; W4294967295 W2147483648,2147483647,1 R R R R R R R R R R R R ; ; e11 n2147479552 n1 n1073741824 ; settle12",
    "0 0 ; W4294967296,4294967297 R R R R R R R R R R ; ; n5 p ; settle10",
    # uv_try_write with more than INT_MAX bytes: what the OS takes in one call fits an int
    "0 0 ; T4294967296 T2147483648,5 R ; ; p n2147483648 ; settle1",
    "0 0 ; W3 T4294967296 R R ; ; e11 ; settle2",
]


FIXED_IPC = [
    "0 0 - 1 ; M1,1,1,1,1 T2 V3 R R ; ; ; settle2",
    # the payload goes out in three rounds: the descriptor must go with the first accepted sendmsg only
    # (the seeded change cleared req->send_handle only when the whole request was written)
    "0 0 - 1 ; V5,5 R R R R ; ; n3 n3 n4 ; settle4",
    "0 0 - 1 ; V5,5 R R R R R R ; ; e11 e4 n3 e105 n1 n6 ; settle6",
    "0 0 - 1 ; V1*1030 R R R ; ; ; settle3",
    "0 0 - 1 ; V3 V2,2 W4 V1 R R R R R R ; V1,1 | ; e11 n1 n1 n1 n2 n2 ; settle6",
    # the handle is closed while the request is queued: UV_EBADF, nothing sent
    "0 0 - 1 ; W2 V3 X R R R ; ; e11 ; settle3",
    # error before anything was sent; refused on a pipe that is not an IPC pipe
    "0 0 - 1 ; V4 R R ; ; e32 ; settle2",
    "0 0 - 0 ; V3 R ; ; ; settle1",
]


FIXED_CONN = [
    # the path the integrator's seeded change broke: only zero-length buffers queued while connecting, then shutdown
    "0 0 t0 ; W0 S R R R R ; ; ; settle4",
    "0 0 u0 ; W0,0 S R R R R R ; ; ; settle5",
    "0 0 t2 ; W0 W3,0 W0 S R R R R R R R R ; ; ; settle8",
    # more than IOV_MAX buffers and a mix queued before the connect callback
    "0 0 t0 ; W1*1030 W0 W2,0,3 T1 S R R R R R R ; ; ; settle6",
    "0 0 u0 ; W5 W0 R R R R ; W1 S | ; n2 e11 ; settle4",
    # connect refused with writes (and a shutdown) queued: flushed with UV_ECANCELED
    "0 0 T ; W3 W0 R R R C R ; ; ; settle3",
    "0 0 U ; W3 S R R R ; ; ; settle3",
    "0 0 T ; W3 W0 S R R R C R ; W1 | ; ; settle3",
    # shutdown with nothing queued while the connect is pending (it was never carried out before the repair of
    # uv__stream_connect), with writes queued and the connect refused
    "0 0 t0 ; S R R R R ; ; ; settle4",
    "0 0 T ; W3 S R R R R ; ; ; settle4",
    # close while connecting
    "0 0 t0 ; W2 S C R R ; ; ; settle2",
    # a second uv_tcp_connect while the first is pending: UV_EALREADY
    "0 0 t0 ; Kl R R R R ; ; ; settle4",
    # shutdown pending, the connect fails, the connect callback retries: to the listener, to the dead address, not
    "0 0 T ; S R R R R R R ; Kl Kl ; ; settle6",
    "0 0 T ; S R R R R R R ; Kd Kd ; ; settle6",
    "0 0 T ; S R R R R R R ; ; ; settle6",
    "0 0 U ; S R R R R R ; Kl ; ; settle5",
    "0 0 U ; W2 S R R R R R ; Kd ; ; settle5",
    # a connect started from a write callback (it was stranded by uv__drain before the repair of uv__stream_io)
    "0 0 T ; R R W1 R R R R R R ; | Kl Kl | ; ; settle6",
    "0 0 T ; R R W1 S R R R R R R ; | Kl Kl | ; ; settle6",
    # repaired finding write_callback_lost_when_connect_started_before_delivery: the write fails at once (the
    # request waits in write_completed_queue, watcher fed), the connect is retried before the loop runs again and
    # succeeds: uv__stream_connect must hand the wake-up back (the callback was lost for good before the repair)
    "0 0 T ; R R W1 Kl Kl R R R R R R ; | | | ; ; settle6",
    # ... the same start, but the retried connect fails too: the flush delivers the callback
    "0 0 T ; R R W1 Kd Kd R R R R R R ; | | | ; ; settle6",
    # pipe whose connect failed: uv_write is refused (the stream is not writable), the retried connect opens it
    "0 0 U ; R R W1 Kl W2 R R R R ; ; ; settle4",
    # uv_tcp_connect retried after uv_shutdown sets UV_HANDLE_WRITABLE again: the write is accepted
    "0 0 T ; S R R Kl Kl W4 R R R R R ; ; ; settle5",
]


FIXED = [
    # uv_write with 5 buffers while uv__malloc fails: UV_ENOMEM and nothing changes (queue size, try_write, later writes)
    "0 0 ; N1,1,1,1,1 T2 W3 R N1*6 T1 R R ; ; n2 ; settle2",
    "0 0 ; W3 N1,1,1,1,1 T2 N1,1 R R R C R ; N2*5 | ; e11 ; settle3",
    # write + shutdown issued from inside a write callback (shutdown callback came first before the
    # repair of uv__stream_io, finding shutdown_cb_before_nested_write_cb; also first line of the corpus)
    "0 0 ; W1 R R ; W2 S | | ; ; settle2",
    # n lands exactly on every buffer boundary, trailing and leading zero-length buffers
    "0 0 ; W3,0,2,0 R R R R R R ; ; n3 n0 n2 n0 ; settle6",
    "0 0 ; W0,0,4 W0 W0,0 R R R R R R R R ; ; n0 n0 n4 ; settle8",
    # more than IOV_MAX buffers
    "0 0 ; W1*1030 R R R ; ; ; settle3",
    "0 0 ; W1*1024,0,5 R R R R ; ; n1024 ; settle4",
    # error, then the queue keeps going through the pending queue
    "0 0 ; W2 W3 W4 R R R R ; ; e11 e32 n1 ; settle4",
    # try_write while data is queued / while only empty requests are queued
    "0 0 ; W5 T3 R T3 R R ; ; n2 ; settle2",
    "0 0 ; W0 T3 R R R ; ; e11 ; settle3",
    # shutdown and close with a queue
    "0 0 ; W5 W2 S W1 R R R ; ; n1 e11 ; settle3",
    "0 0 ; W5 W2 S C W1 R R ; ; n1 ; settle2",
    "0 107 ; W5 S R R W1 R ; ; ; settle1",
    # blocking stream keeps trying
    "1 0 ; W5,5 W1 R R ; ; n3 e11 e11 n2 ; settle2",
]


# --------------------------------------------------------------------------
# monitor: the property on the implementation's own trace
# --------------------------------------------------------------------------
def monitor(case, line):
    """returns None, or (key, reason); key is None unless the reason is a catalogued defect"""
    if line.endswith("HANG"):
        return (None, "the call never returned (busy loop): " + line[-200:])
    if line.startswith("DIED"):
        return (None, "the process died: " + line)
    trace = line.split(";")[0].split()
    total, ret, acc, cbs, order = {}, {}, {}, {}, []
    is_try = set()
    shut_ok_at = None        # uv_shutdown returned 0
    sys_shut = None
    last_chunk_id = -1
    in_try = None
    in_cb = False
    enomem_pending, last_q = False, None
    write2, fd_sent, peer_fds = set(), {}, {}
    hdr0 = case.split(";")[0].split()
    conn_case = len(hdr0) > 2 and hdr0[2][0] in "tuTU"
    conn_status = None
    conn_pending = 1 if conn_case else 0      # connect requests accepted and not called back yet
    reopened = False         # uv_tcp_connect after uv_shutdown: maybe_new_socket sets UV_HANDLE_WRITABLE again
    orphaned = set()         # finished requests that were waiting for their callback when a connect was accepted
    reset_done = False       # uv_tcp_close_reset accepted: the peer may see a reset and lose bytes
    shut_req_pending = False # between an accepted uv_shutdown and its callback
    left_at_shut = []

    def outstanding_bytes():
        return sum(total[i] - acc[i] for i in total if ret.get(i) == 0 and i not in cbs and i not in is_try)

    for pos, ev in enumerate(trace):
        k, a = ev[0], ev[1:]
        if k == "!":
            return (None, "writev called with more than IOV_MAX entries (%s)" % a)
        if k == "m":
            write2.add(int(a)); continue
        if k == "f":
            i = int(a)
            if i not in write2:
                return (None, "a descriptor was attached to a write of request %d, which has no send_handle" % i)
            fd_sent[i] = fd_sent.get(i, 0) + 1
            if fd_sent[i] > 1:
                return (None, "the descriptor of uv_write2 request %d was attached to %d accepted sendmsg calls "
                              "(the peer receives the handle more than once)" % (i, fd_sent[i]))
            if acc.get(i, 0) > 0:
                return (None, "the descriptor of uv_write2 request %d was attached after %d of its bytes were sent" % (i, acc[i]))
            continue
        if k == "g":
            if fd_sent.get(int(a), 0) > 0:
                return (None, "a later attempt of uv_write2 request %s carried the descriptor again" % a)
            continue
        if k == "p":
            i, n = a.split(":"); peer_fds[int(i)] = int(n); continue
        if k == "w":
            i, t = a.split(","); i = int(i)
            total[i] = int(t); acc[i] = 0
        elif k == "r":
            i, c = a.split(":"); i, c = int(i), int(c)
            ret[i] = c
            if c == -12:
                enomem_pending = True
            if shut_ok_at is not None and not reopened and c not in (EPIPE, EBADF):
                return (None, "uv_write after uv_shutdown returned %d, not UV_EPIPE" % c)
            if c != 0 and acc[i] != 0:
                return (None, "uv_write %d failed with %d but %d of its bytes were written" % (i, c, acc[i]))
        elif k == "t":
            i, t = a.split(","); i = int(i)
            total[i] = int(t); acc[i] = 0; is_try.add(i)
            in_try = (i, outstanding_bytes(), conn_case and conn_status is None)
        elif k == "u":
            i, c = a.split(":"); i, c = int(i), int(c)
            if in_try and in_try[2] and (c != EAGAIN or acc[i] > 0) and c not in (EBADF,):
                return (None, "uv_try_write while the connect was pending returned %d and wrote %d bytes, "
                              "not UV_EAGAIN" % (c, acc[i]))
            if in_try and in_try[1] > 0 and (c != EAGAIN or acc[i] > 0):
                return (None, "uv_try_write overtook %d queued bytes (returned %d, wrote %d)" % (in_try[1], c, acc[i]))
            if c >= 0 and c != acc[i]:
                return (None, "uv_try_write returned %d but the OS accepted %d of its bytes" % (c, acc[i]))
            if c < 0 and acc[i] != 0:
                return (None, "uv_try_write failed with %d after writing %d bytes" % (c, acc[i]))
            if c in (-4, -105):
                return (None, "uv_try_write returned %d instead of UV_EAGAIN for an interrupted/delayed write" % c)
            in_try = None
        elif k == "c":
            i, off, ln = [int(x) for x in a.split(",")]
            if i not in total:
                return (None, "bytes written that belong to no request (%s)" % ev)
            if off != acc[i]:
                return (None, "request %d: bytes [%d,%d) written when %d were accepted before (lost or duplicated bytes)"
                        % (i, off, off + ln, acc[i]))
            if off + ln > total[i]:
                return (None, "request %d: more bytes written than it has" % i)
            if i < last_chunk_id:
                return (None, "bytes of request %d written after bytes of request %d (reordered)" % (i, last_chunk_id))
            if i in cbs:
                return (None, "bytes of request %d written after its callback" % i)
            if sys_shut == 0:
                return (None, "bytes written after shutdown(2): the peer saw end-of-stream before the last byte")
            last_chunk_id = i
            acc[i] += ln
        elif k == "b":
            i, stt, q = a.split(":"); i, stt, q = int(i), int(stt), int(q)
            if i in cbs:
                return (None, "write callback of request %d ran twice" % i)
            if ret.get(i) != 0 and i in ret:
                return (None, "write callback for request %d whose uv_write failed" % i)
            if order and i < order[-1]:
                return (None, "write callbacks out of submission order: %d after %d" % (i, order[-1]))
            if stt in (-4, -11, -105):
                return (None, "request %d failed with %d: an interrupted/delayed write was reported as an error" % (i, stt))
            if stt == 0 and acc[i] != total[i]:
                return (None, "request %d completed with status 0 but only %d of %d bytes were accepted" % (i, acc[i], total[i]))
            cbs[i] = stt; order.append(i)
            in_cb = True
            exp = outstanding_bytes()     # inside the callback the request itself no longer counts
            if q != exp:
                return (None, "write_queue_size is %d inside the callback of %d, unsent bytes of pending requests: %d" % (q, i, exp))
        elif k == "q":
            in_cb = False
            exp = outstanding_bytes()
            if int(a) != exp and enomem_pending:
                return (None, "write_queue_size is %d after a uv_write that returned UV_ENOMEM, it was %d before "
                              "(unsent bytes of pending requests: %d)" % (int(a), last_q if last_q is not None else 0, exp))
            enomem_pending = False
            last_q = int(a)
            if int(a) != exp:
                return (None, "write_queue_size is %d, unsent bytes of pending requests: %d" % (int(a), exp))
        elif k == "k":
            in_cb = True
            conn_status = int(a[1:])
            if conn_pending == 0:
                return (None, "connect callback (status %d) without a pending connect request" % conn_status)
            conn_pending -= 1
        elif k == "K":
            code = int(a[1:])
            if code == 0:
                if conn_pending:
                    return (None, "a connect was accepted while another connect request was pending")
                conn_pending += 1
            if shut_ok_at is not None and code != -114 and conn_case and hdr0[2][0] in "tT":
                reopened = True
        elif k == "o":
            ids = [int(x) for x in a.split(",")]
            for i in ids:
                if ret.get(i) != 0 or i in cbs:
                    return (None, "write_completed_queue holds request %d, which was refused or already called back" % i)
            orphaned.update(ids)
        elif k == "z":
            code = int(a[1:])
            shut_pending = shut_req_pending
            if code == 0:
                if shut_pending:
                    return (None, "uv_tcp_close_reset was accepted while a uv_shutdown request was pending")
                reset_done = True
            elif code == -22:
                if not shut_pending:
                    return (None, "uv_tcp_close_reset returned UV_EINVAL although no uv_shutdown request was pending")
            else:
                return (None, "uv_tcp_close_reset returned %d" % code)
        elif k == "l":
            if a[1:] != "0":
                return (None, "a refused uv_tcp_close_reset (UV_EINVAL) left SO_LINGER set on the socket (l_onoff=%s): "
                              "the later ordinary uv_close resets the connection and the kernel discards what is "
                              "still unsent" % a[1:])
        elif k == "s":
            if int(a[1:]) == 0:
                shut_ok_at = pos
                shut_req_pending = True
        elif k == "Y":
            sys_shut = int(a[1:])
            left_at_shut = [i for i in total if ret.get(i) == 0 and i not in cbs and acc[i] != total[i]
                            and i not in is_try]
        elif k == "B":
            early = [i for i in total if ret.get(i) == 0 and i not in cbs and i not in is_try]
            in_cb = True
            shut_req_pending = False
            if early:
                return (None, "shutdown callback ran before the callback of earlier write(s) %s" % early)
        elif k == "e":
            nbytes, eof, ok = [int(x) for x in a.split(",")]
            if ok != 1:
                return (None, "the peer did not read the bytes that were written, in order")
            if reset_done:
                if nbytes > sum(acc.values()):
                    return (None, "the peer read %d bytes, the OS accepted %d" % (nbytes, sum(acc.values())))
                continue          # an accepted reset may cut the peer's stream short; no end-of-stream expected
            if eof == 2:
                return (None, "the peer saw a connection reset instead of end-of-stream although no "
                              "uv_tcp_close_reset was accepted (all bytes must reach the peer, then EOF)")
            if "x" in trace and eof != 1 and not (conn_case and hdr0[2][0] in "TU"):
                return (None, "the handle was closed in the ordinary way but the peer saw no end-of-stream")
            if nbytes != sum(acc.values()):
                return (None, "the peer read %d bytes, the OS accepted %d" % (nbytes, sum(acc.values())))
            if sys_shut == 0 and eof != 1:
                return (None, "no end-of-stream at the peer after shutdown(2)")
    # descriptors: what the peer really received with recvmsg, per uv_write2 request
    for i, n in peer_fds.items():
        if i not in write2 or n > 1:
            return (None, "the peer received %d descriptors for request %d%s" %
                          (n, i, "" if i in write2 else ", which is no uv_write2"))
    for i in write2:
        if cbs.get(i) == 0 and total.get(i, 0) > 0 and peer_fds.get(i, 0) != 1:
            return (None, "uv_write2 request %d completed with status 0 but the peer received %d descriptors"
                          % (i, peer_fds.get(i, 0)))
        if acc.get(i, 0) > 0 and fd_sent.get(i, 0) != 1:
            return (None, "bytes of uv_write2 request %d were sent but its descriptor went out %d times"
                          % (i, fd_sent.get(i, 0)))
    # requests that had bytes left at shutdown(2) must have been reported as failed
    for i in left_at_shut:
        if cbs.get(i) == 0:
            return (None, "request %d had unsent bytes at shutdown(2) but completed with status 0" % i)
    settle = "settle" in case.split(";")[-1]
    if settle:
        stuck = [i for i in total if ret.get(i) == 0 and i not in cbs and i not in is_try]
        if stuck and all(i in orphaned for i in stuck):
            # the repaired finding write_callback_lost_when_connect_started_before_delivery
            return (None, "requests %s were finished and waiting for their callback when a connect was started on the "
                    "handle; the fed watcher then ran uv__stream_connect instead of uv__write_callbacks and the "
                    "callbacks never ran although the loop kept running (stalled queue)" % stuck[:5])
        if stuck:
            return (None, "requests %s never got their callback although the loop kept running (stalled queue)" % stuck[:5])
        if shut_ok_at is not None and not any(e[0] == "B" for e in trace):
            return (None, "uv_shutdown succeeded but its callback never ran")
        if conn_pending and "x" not in trace:
            return (None, "a connect request was accepted but its callback never ran although the loop kept running")
    return None


# --------------------------------------------------------------------------
def model_input(case, impl_line):
    """the model gets the answers the wrappers actually gave"""
    parts = impl_line.split(";")
    if len(parts) != 5:
        return None
    c = case.split(";")
    hdr = c[0].split()
    blk = hdr[0]
    ipc = hdr[3] if len(hdr) > 3 else "0"
    return "%s %s %s %s ;%s;%s; %s ; %s" % (blk, parts[3].strip(), parts[4].strip().rstrip(","), ipc, c[1], c[2],
                                           parts[1].strip(), parts[2].strip())


def run_harness(cmd, cases, shards=12):
    """like vf.run_lines, but a case on which the harness hangs (it prints HANG and exits)
    or dies costs only that case: the rest of its shard is run in a fresh process"""
    import concurrent.futures
    n = max(1, (len(cases) + shards - 1) // shards)
    parts = [cases[i:i + n] for i in range(0, len(cases), n)]

    def one(part):
        out, hangs = [], 0
        while len(out) < len(part):
            if hangs >= 2:             # enough evidence from this shard; do not wait for more
                out += ["SKIP"] * (len(part) - len(out))
                break
            o, rc, err = vf.run_lines(cmd, part[len(out):], timeout=900)
            o = [l for l in o]
            if len(o) >= len(part) - len(out):
                out += o[:len(part) - len(out)]
                break
            hangs += 1
            if o and o[-1].endswith("HANG"):
                out += o
            else:                      # died without a word on the next case
                out += o + ["DIED rc=%s" % rc]
        return out
    with concurrent.futures.ThreadPoolExecutor(shards) as ex:
        res = list(ex.map(one, parts))
    return [l for r in res for l in r], 0, ""


def run_mode(chk, name, harness_cmd, model, cases):
    a, rc, err = run_harness(harness_cmd, cases)
    if len(a) != len(cases):
        chk.violation("%s: harness produced %d lines for %d cases (rc=%s) %s"
                      % (name, len(a), len(cases), rc, (err or "")[-300:]),
                      {"kind": "correspondence", "obligation": name}, found_input=False)
        return
    minp = [model_input(c, l) or "0 0 ; ; ; ; " for c, l in zip(cases, a)]
    b, rc2, err2 = vf.run_lines([model], minp, shards=12)
    if len(b) != len(cases):
        chk.violation("%s: model produced %d lines for %d cases %s" % (name, len(b), len(cases), (err2 or "")[-300:]),
                      {"kind": "correspondence", "obligation": name}, found_input=False)
        return
    disagreements, bad_traces = [], []
    for c, al, bl in zip(cases, a, b):
        if al == "SKIP":
            continue
        impl_trace = al.split(";")[0]
        hdr = c.split(";")[0].split()
        if len(hdr) > 2 and hdr[2][0] in "TU":      # nobody ever accepted: no peer, no EOF to compare
            impl_trace = re.sub(r"e(\d+),\d,(\d)\s*$", r"e\1,-,\2", impl_trace.rstrip())
            bl = re.sub(r"e(\d+),\d,(\d)\s*$", r"e\1,-,\2", bl.rstrip())
        if " z:0 " in " " + impl_trace:                # accepted reset: the peer's count / EOF are the kernel's business
            impl_trace = re.sub(r"e(\d+),[\d-],(\d)\s*$", r"e-,-,\2", impl_trace.rstrip())
            bl = re.sub(r"e(\d+),[\d-],(\d)\s*$", r"e-,-,\2", bl.rstrip())
        chk.count(name, c + "=>" + impl_trace)
        verdict = monitor(c, al)
        if vf.canon(impl_trace) != vf.canon(bl):
            chk.cov["disagreements_checked"] += 1
            reason = verdict[1] if verdict and verdict[0] is None else None
            disagreements.append((c, al, bl, reason))
        elif verdict:
            key, reason = verdict
            f = chk.match_known(key) if key else None
            if f:
                chk.known_hit(f)
                chk.cov.setdefault("known_finding_cases", {}).setdefault(key, c)
            else:
                bad_traces.append((c, al, key, reason))
    # report at most three per kind, those with a failing input first, shortest case first
    disagreements.sort(key=lambda d: (d[3] is None, len(d[0])))
    for c, al, bl, reason in disagreements[:3]:
        chk.violation("%s: implementation and model disagree%s" % (name, (": " + reason) if reason else ""),
                      {"kind": "correspondence", "obligation": name, "case": c, "impl": al,
                       "model": bl, "model_input": model_input(c, al), "monitor": reason,
                       "disagreeing_cases": len(disagreements)},
                      found_input=reason is not None)
    bad_traces.sort(key=lambda d: len(d[0]))
    for c, al, key, reason in bad_traces[:3]:
        chk.violation("%s: trace violates the property: %s" % (name, reason),
                      {"kind": "monitor", "obligation": name, "case": c, "impl": al, "key": key},
                      found_input=True)
    chk.corr(name, len(cases))
    return a


def main():
    chk = vf.Check("C05")
    thorough = chk.tier == "thorough"
    chk.prove()
    try:
        lib = vf.build_libuv(chk.scratch, "ndebug")
        hs = vf.cc_harness(chk.scratch, "c05_stream", ["c05_stream.c"], lib=lib,
                           wraps=["write", "writev", "sendmsg", "shutdown", "connect", "getsockopt"])
        os.environ["C05_SOCKDIR"] = chk.scratch.dir
        model = vf.model_bin("C05")
    except vf.BuildError as e:
        chk.violation("build failed: %s" % str(e)[:300], {"kind": "build", "log": str(e)}, found_input=False)
        chk.finish(rule="build failed")

    if chk.replay:
        rp = json.load(open(chk.replay))
        cases = [rp["case"]] if "case" in rp else []
        mode = "tcp" if "tcp" in rp.get("obligation", "") else "unix"
        out = run_mode(chk, "replay (%s)" % mode, [hs, mode], model, cases)
        if out:
            print("impl:  " + out[0])
        chk.finish(rule="replay of one recorded case")

    cpath = os.path.join(vf.VERIF, "corpus", "C05", "cases.txt")
    corpus = [l.rstrip("\n") for l in open(cpath) if l.strip() and not l.startswith("#")] \
        if os.path.exists(cpath) else []
    n = 40000 if thorough else 6000
    gen = [gen_case(chk.rng) for _ in range(n)]
    conn_corpus = [l for l in corpus if len(l.split(";")[0].split()) > 2]
    corpus = [l for l in corpus if len(l.split(";")[0].split()) <= 2]
    tcp_corpus = [l for l in corpus if "Z" in l.split(";")[1].split() + l.split(";")[2].split()]   # uv_tcp_close_reset
    corpus = [l for l in corpus if l not in tcp_corpus]
    cases = FIXED + corpus + gen
    a = run_mode(chk, "stream.c write path = Model/StreamWrite.v (unix socketpair via uv_pipe_open)",
                 [hs, "unix"], model, cases)
    if a:
        chk.sample({"case": gen[0][:300], "impl": a[len(FIXED) + len(corpus)][:300]})
        chk.cov["write_callbacks_observed"] = sum(l.split(";")[0].count(" b") for l in a)
        chk.cov["syscall_answers_logged"] = sum(len(l.split(";")[1].split()) for l in a if l.count(";") == 4)
    tcases = FIXED + FIXED_TCP + corpus + tcp_corpus + \
        [add_reset(chk.rng, c) for c in gen[: (8000 if thorough else 1200)]]
    run_mode(chk, "stream.c write path = Model/StreamWrite.v (tcp loopback via uv_tcp_open)",
             [hs, "tcp"], model, tcases)

    ccases = FIXED_CONN + conn_corpus + \
        [gen_conn_case(chk.rng) for _ in range(15000 if thorough else 2500)]
    run_mode(chk, "stream.c write path = Model/StreamWrite.v (writes queued while uv_tcp_connect/uv_pipe_connect is pending)",
             [hs, "unix"], model, ccases)

    hcases = FIXED_HUGE + [gen_huge_case(chk.rng) for _ in range(4000 if thorough else 600)]
    run_mode(chk, "stream.c write path = Model/StreamWrite.v (requests of 2^32 bytes and more, answers are numbers only)",
             [hs, "unix"], model, hcases)

    icases = FIXED_IPC + [gen_ipc_case(chk.rng) for _ in range(12000 if thorough else 2000)]
    run_mode(chk, "stream.c write path = Model/StreamWrite.v (uv_write2 with a handle on an IPC pipe)",
             [hs, "unix"], model, icases)

    chk.finish(
        level="proof",
        rule="random API scripts (write/try_write/shutdown/close/run, at top level and from inside write and "
             "shutdown callbacks) with scripted answers of write/writev (short counts aimed at buffer boundaries, "
             "EAGAIN, ENOBUFS, EINTR, hard errors), zero-length buffers, > IOV_MAX buffers, > 32 requests per "
             "wake-up, blocking streams; the answers actually given are replayed into the extracted model; "
             "compared: return codes, accepted chunks (request, offset, length), callback order/status, "
             "write_queue_size after every step and inside every callback, shutdown(2) position, peer bytes/EOF; "
             "second pass (TCP loopback): the same scripts with uv_tcp_close_reset at any point, mostly between "
             "uv_shutdown and its callback: refused calls must leave SO_LINGER off (read back with getsockopt) and the "
             "stream as it was, the peer still gets every byte and then end-of-stream (a reset at the peer is a "
             "violation unless a reset was accepted); "
             "third pass: scripts that start between a real non-blocking uv_tcp_connect/uv_pipe_connect (to a "
             "listener of the harness, or to an address nobody listens on) and the connect callback, with "
             "connect(2)/getsockopt(SO_ERROR) answers logged and EINPROGRESS answers forced, and connects retried on "
             "the same handle at top level, from the connect callback and from write callbacks (with writes finished "
             "but not called back, with a shutdown pending); every accepted connect must be called back once, the "
             "harness reports write_completed_queue at every accepted connect; fourth pass: uv_write2 "
             "with a bound uv_tcp_t as send_handle on a pipe opened with ipc=1, payloads split by scripted short "
             "writes; the wrapped sendmsg keeps and records the SCM_RIGHTS control message per call, the peer "
             "counts the descriptors it receives with recvmsg per request; fifth pass: buffers of 2^31-1 ... 2^32+1 "
             "bytes (sums crossing 2^32 and 2^33) on reserved PROT_NONE address space, never handed to the kernel: the "
             "wrapper answers with the scripted number capped at MAX_RW_COUNT; all sizes in unbounded integers",
        trusted=["Coq 8.16.1 kernel (coqc)", "ExtrOcamlBasic extraction + OCaml 4.13.1 + zarith glue (ocaml/zutil.ml, drv_c05.ml)",
                 "harness/c05_stream.c (syscall wrappers, address->request mapping, peer drain), checks/c05.py (generator, monitor)",
                 "gcc 12, Linux AF_UNIX/TCP sockets"])


if __name__ == "__main__":
    main()
