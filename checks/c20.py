#!/usr/bin/env python3
"""C20 threads and synchronisation primitives: proofs (Properties_C20.v) + correspondence of
Model/Thread.v with src/unix/thread.c and src/thread-common.c of the current tree.

  codes   return-code maps, pthread layer scripted through --wrap (abort paths in a child)
  stack   uv_thread_create_ex: size handed to pthread_attr_setstacksize + pthread_getattr_np
          inside the created thread; uv__thread_stack_size with a scripted getrlimit
  timed   uv_cond_timedwait on a virtual CLOCK_MONOTONIC, deadline captured in the wrapped
          pthread_cond_timedwait
  bar     fallback barrier (thread-common.c compiled without PTHREAD_BARRIER_SERIAL_THREAD)
          with real threads under the serialising scheduler, lock-step against the model
  sem     custom semaphore (selected via gnu_get_libc_version = "2.20"), same
"""
import os, sys
sys.path.insert(0, os.path.join(os.path.dirname(os.path.abspath(__file__)), "..", "lib"))
import vf

U64 = 2**64
NS = 10**9
WRAPS_A = ["pthread_mutex_trylock", "pthread_rwlock_tryrdlock", "pthread_rwlock_trywrlock", "sem_trywait",
           "sem_wait", "pthread_barrier_wait", "pthread_condattr_init", "pthread_condattr_setclock",
           "pthread_cond_init", "pthread_condattr_destroy", "pthread_cond_destroy", "getpagesize",
           "getrlimit64", "pthread_attr_setstacksize", "clock_gettime", "pthread_cond_timedwait"]
WRAPS_S = ["pthread_mutex_lock", "pthread_mutex_trylock", "pthread_mutex_unlock", "pthread_cond_wait",
           "pthread_cond_signal", "pthread_cond_broadcast"]
WRAPS_P = ["pthread_mutex_init", "pthread_mutex_destroy", "pthread_mutex_lock", "pthread_mutex_trylock",
           "pthread_mutex_unlock", "pthread_rwlock_init", "pthread_rwlock_destroy", "pthread_rwlock_rdlock",
           "pthread_rwlock_tryrdlock", "pthread_rwlock_wrlock", "pthread_rwlock_trywrlock", "pthread_rwlock_unlock",
           "sem_init", "sem_destroy", "sem_post", "sem_wait", "sem_trywait", "pthread_cond_init", "pthread_cond_destroy",
           "pthread_cond_signal", "pthread_cond_broadcast", "pthread_cond_wait", "pthread_cond_timedwait",
           "pthread_once", "pthread_key_create", "pthread_key_delete", "pthread_getspecific", "pthread_setspecific",
           "pthread_join", "pthread_barrier_init", "pthread_barrier_wait", "pthread_barrier_destroy"]
# what the real-concurrency monitor (harness/c20_conc.c) must print, and what each entry means
CONC_EXPECT = [
    ("readers_inside_at_once", "4", "uv_rwlock_rdlock does not admit concurrent readers: only %s of 4 readers were inside together"),
    ("trywr_with_readers", "-16", "uv_rwlock_trywrlock returned %s while 4 readers hold the lock"),
    ("tryrd_with_readers", "0", "uv_rwlock_tryrdlock returned %s with only readers inside"),
    ("tryrd_with_writer", "-16", "uv_rwlock_tryrdlock returned %s while a writer holds the lock"),
    ("writer_queued_asleep", "1", "the writer never blocked in uv_rwlock_wrlock although a reader holds the lock (%s)"),
    ("tryrd_with_writer_queued", "0", "uv_rwlock_tryrdlock returned %s with a reader inside and a writer only queued in uv_rwlock_wrlock (no writer holds the lock)"),
    ("rdlock_joins_reader_with_writer_queued", "1,1", "uv_rwlock_rdlock did not admit a second reader while the first is inside and a writer is queued (joined,first still inside = %s)"),
    ("queued_writer_got_in_alone", "1", "the queued writer entered while readers were inside / never entered (%s)"),
    ("plain_trylock_same_thread", "-16", "uv_mutex_trylock on a plain uv_mutex_init mutex already held by the calling thread returned %s (it nested: the mutex is recursive)"),
    ("plain_trylock_other_thread", "-16,0", "uv_mutex_trylock from another thread on a plain mutex (held, after one unlock) returned %s"),
    ("recursive_trylock_same_thread", "0,0", "uv_mutex_init_recursive mutex: trylock by the owner / after full release returned %s"),
    ("recursive_trylock_other_thread", "-16,-16,0", "recursive mutex locked 3x: trylock from another thread (held, after 2 unlocks, after 3) returned %s"),
    ("mutex_overlaps", "0", "%s overlapping critical sections under uv_mutex_lock/trylock"),
    ("trylock_held", "-16", "uv_mutex_trylock on a held mutex returned %s"),
    ("recursive_nests", "0,0", "recursive mutex does not nest / is not released: %s"),
    ("sem_passed_before_posts", "3", "semaphore of initial value 3 let %s waiters through before any post"),
    ("trywait_at_zero", "-11", "uv_sem_trywait at value zero returned %s"),
    ("sem_passed_after_posts", "6", "%s of 6 waiters passed after 3 + 3 posts"),
    ("once_guards_not_run_exactly_once", "0", "uv_once ran its function not exactly once for %s of 200 raced guards"),
    ("once_returned_while_init_running", "0", "uv_once returned to %s thread(s) while the init function was still running (8 threads, 3 fresh guards)"),
    ("once_slow_guards_not_run_exactly_once", "0", "uv_once with a slow init function ran it not exactly once for %s of 3 guards"),
    ("barrier_early_leavers", "0", "%s threads left uv_barrier_wait before all 4 had arrived"),
    ("barrier_rounds_without_exactly_one_nonzero", "0", "%s barrier rounds without exactly one non-zero return"),
    ("key_values_not_private", "0", "uv_key values leaked between threads (%s observations)"),
    ("join_before_entry_finished", "0", "uv_thread_join returned before the entry function finished (%s times)"),
    ("signal_woken", "1,relock=-16", "uv_cond_signal: waiter woken,mutex held again = %s"),
    ("broadcast_woken", "1,relock=-16", "uv_cond_broadcast: waiter woken,mutex held again = %s"),
    ("watchdog_expired", "0", "a rendezvous never completed (watchdog expired: %s)"),
]
KEY_TIMED = "cond_timedwait_timeout_wraps"
# Which model uv_cond_timedwait is compared with: "timed" = the current code (timeout += hrtime
# wraps), "timedfix" = the saturating variant of notes/C20_fix_timedwait.diff.  Switch the default
# together with the fix commit (VERIF_C20_TIMED=timedfix tries it without editing).
TIMED_MODE = os.environ.get("VERIF_C20_TIMED", "timedfix")


def corpus(name):
    p = os.path.join(vf.VERIF, "corpus", "C20", name)
    if not os.path.exists(p):
        return []
    return [l.rstrip("\n") for l in open(p) if l.strip() and not l.startswith("#")]


# ------------------------------------------------------------------ codes
def codes_cases(rng, thorough):
    out = []
    for e in list(range(0, 135)) + [-1, 255, 65536 + 16]:
        for k in ("mt", "rr", "rw", "bw"):
            out.append("%s %d" % (k, e))
    out += ["bw -1", "bw -2"]
    fin = [(0, 0), (0, 4), (0, 11), (-1, 11), (-1, 22), (-1, 0), (1, 11), (1, 4), (-2, 4), (-1, 16)]
    for k in ("st", "sw"):
        for f in fin:
            for n in (0, 1, 2, 5):
                out.append("%s %s" % (k, " ".join(["-1,4"] * n + ["%d,%d" % f])))
        for _ in range(300 if thorough else 60):
            n = rng.randint(0, 6)
            f = rng.choice(fin + [(rng.choice([0, -1, 1]), rng.choice([0, 4, 11, 22, 110]))])
            out.append("%s %s" % (k, " ".join(["-1,4"] * n + ["%d,%d" % f] + ["0,0"] * rng.randint(0, 2))))
    vals = [0, 12, 22, 11, 1]
    for a in vals:
        for b in vals:
            for c in vals:
                for d in vals:
                    if [a, b, c, d].count(0) >= 2 or rng.random() < 0.1:
                        out.append("ci %d %d %d %d" % (a, b, c, d))
    return out


def codes_monitor(case, line):
    """Property-level: EBUSY/EAGAIN from the try functions map to UV_EBUSY, 0 to 0,
    UV_EAGAIN from trywait exactly at zero (sem_trywait said EAGAIN)."""
    t = case.split()
    if t[0] in ("mt", "rr", "rw"):
        e = int(t[1])
        want = "0" if e == 0 else "-16" if e in (16, 11) else "abort"
        if line.split()[0] != want:
            return "%s with pthread code %d returned %s, expected %s" % (t[0], e, line, want)
    if t[0] in ("sw", "st") and line.split()[0] != "abort" and len(line.split()) == 2:
        # uv_sem_wait / uv_sem_trywait report an acquisition only if the sem_wait / sem_trywait call
        # they made last succeeded: an interrupted (EINTR) or failed call is not a post
        pairs = [tuple(int(v) for v in x.split(",")) for x in t[1:]]
        r, used = line.split()[0], int(line.split()[1])
        if 1 <= used <= len(pairs):
            last = pairs[used - 1]
            fn = "uv_sem_wait" if t[0] == "sw" else "uv_sem_trywait"
            if r == "0" and last[0] != 0:
                return ("%s reported the semaphore acquired after %d call(s) of which the last returned %d with errno %d "
                        "(no call succeeded): a waiter is let through without a post" % (fn, used, last[0], last[1]))
            if t[0] == "st" and r == "-11" and (last[0] == 0 or last[1] != 11):
                return "uv_sem_trywait returned UV_EAGAIN although sem_trywait answered %d, errno %d" % last
    if t[0] == "bw":
        e = int(t[1])
        want = "0" if e == 0 else "1" if e == -1 else "abort"
        if line.split()[0] != want:
            return "uv_barrier_wait with pthread code %d returned %s, expected %s" % (e, line, want)
    return None


# ------------------------------------------------------------------ stack
def stack_cases(rng, page, psm, thorough):
    out = []
    pages = [page, page, 16384, 65536]
    rls = ["8388608", "F", str(U64 - 1), "0", "8191", "8192", "16383", "16384", "16385", "8388731",
           "1048576", "67108864", str(psm), str(psm - 1)]
    fixed = [0, 1, 4095, 4096, 4097, 8191, 8192, 8193, 16383, 16384, 16385, 1048577, 67108864,
             U64 - 1, U64 - 4095, U64 - 4096, U64 - 4097, U64 - 65536, U64 - 65535, 2**63, 2**32 + 1]
    for pg in sorted(set(pages)):
        # boundary of the guard "stack_size > SIZE_MAX - (pagesize - 1)" for this page size
        for s in fixed + [U64 - pg - 1, U64 - pg, U64 - pg + 1, U64 - pg + 2, U64 - 2, U64 - 1]:
            out.append("st %d %d %s 1 %d" % (pg, psm, "8388608", s))
        out.append("st %d %d %s 0 %d" % (pg, psm, "8388608", 12345))
    # default stack size under every kind of RLIMIT_STACK: finite, small, below the minimum, unaligned,
    # unlimited, getrlimit failing -- through uv_thread_create and uv_thread_create_ex(stack_size 0 / no flag)
    rls += [str(psm + 1), str(psm + page - 1), "1", "4095", "2097151", "2097152", "2097153", "268435456", "1073741824"]
    for rl in rls:
        out.append("tc %d %d %s" % (page, psm, rl))
        out.append("st %d %d %s 1 0" % (page, psm, rl))
        out.append("st %d %d %s 0 4096" % (page, psm, rl))
        for pg in sorted(set(pages)):
            out.append("ts %d %d %s" % (pg, psm, rl))
    for _ in range(1500 if thorough else 220):
        pg = rng.choice(pages)
        r = rng.random()
        if r < 0.45:
            s = rng.randrange(1, 1 << rng.randint(1, 25))
        elif r < 0.65:
            s = (1 << rng.randint(3, 25)) + rng.choice([-1, 0, 1])
        elif r < 0.8:
            s = rng.randrange(1, 300) * pg + rng.choice([-1, 0, 1])
        elif r < 0.9:
            s = U64 - rng.randrange(1, 3 * pg)
        else:
            s = rng.randrange(1 << 26, U64)
        rl = rng.choice(rls[:3] + [str(rng.randrange(0, 1 << 27))])
        out.append("st %d %d %s %d %d" % (pg, psm, rl, rng.choice([1, 1, 1, 0]), max(s, 0)))
        if rng.random() < 0.25:
            out.append("tc %d %d %s" % (pg, psm, rng.choice(rls[:3] + [str(rng.randrange(0, 1 << rng.randint(1, 28)))])))
    for _ in range(2000 if thorough else 300):
        pg = rng.choice(pages)
        r = rng.random()
        v = rng.randrange(0, 1 << rng.randint(1, 64)) if r < 0.7 else \
            rng.choice([psm, 8192, pg * rng.randrange(1, 9)]) + rng.choice([-1, 0, 1, pg - 1])
        out.append("ts %d %d %s" % (pg, psm, rng.choice(["F", str(max(v, 0))])))
    return out


def stack_monitor(case, line):
    t = case.split()
    if t[0] not in ("st", "tc"):
        return None
    f = line.split()
    if len(f) != 6:
        return "thread creation ended with %s" % line
    flag, req = (0, 0) if t[0] == "tc" else (int(t[4]), int(t[5]))
    fn = "uv_thread_create" if t[0] == "tc" else "uv_thread_create_ex"
    default = t[0] == "tc" or flag == 0 or req == 0
    rl = t[3]
    # default stack size: whatever RLIMIT_STACK says (limits up to 1 GiB, unlimited, getrlimit failing),
    # the thread must start, run its entry once with the given argument, and be joinable
    if default and (rl == "F" or int(rl) == U64 - 1 or int(rl) <= 1 << 30) and (f[1] != "0" or f[2] != "1"):
        return "thread not started with default stack size under RLIMIT_STACK = %s (rc %s): %s(stack_size 0)" \
            % ("getrlimit failing" if rl == "F" else "RLIM_INFINITY" if int(rl) == U64 - 1 else rl, f[1], fn)
    if f[0] == "einval":          # refused before anything was set up
        return None if f[1] == "-22" and f[2] == "0" else "refused request but %s" % line
    applied, rc, ran, seen = int(f[0]), int(f[1]), int(f[2]), f[3]
    if rc == 0 and ran != 1:
        return "%s returned 0 but the entry function ran %d times" % (fn, ran)
    if rc != 0 and ran != 0:
        return "%s failed (%d) but the entry function ran" % (fn, rc)
    if f[4] != "1":
        return "the entry function did not receive the given argument"
    if f[5] != "1":
        return "uv_thread_join failed or returned before the entry function finished"
    if rc == 0 and flag and req > 0:
        if seen == "-":
            return "pthread_getattr_np failed in the thread"
        if int(seen) < req:
            return "thread runs on a stack of %s bytes, %d requested" % (seen, req)
    return None


# ------------------------------------------------------------------ timed
def timed_cases(rng, thorough):
    out = []
    touts = [0, 1, 999999999, NS, NS + 1, 2**63, U64 - 1, U64 - 2, U64 - NS, 2**63 - 1, 123456789012]
    clocks = [(0, 0), (5, 7), (1000, 999999999), (2**31, 500000000), (88, 1), (10**10, 3)]
    for (s, n) in clocks:
        for to in touts:
            for m in ("T", "S", "E110", "E0"):
                out.append("%d %d %d %s" % (s, n, to, m))
    for e in range(0, 135):
        out.append("5 7 1000 E%d" % e)
    for _ in range(3000 if thorough else 400):
        s = rng.choice([rng.randrange(0, 100), rng.randrange(0, 2**34), rng.randrange(0, 10**10)])
        n = rng.choice([0, 1, 999999999, rng.randrange(0, NS)])
        r = rng.random()
        if r < 0.3:
            to = rng.randrange(0, 1 << rng.randint(1, 64))
        elif r < 0.5:
            to = rng.randrange(0, 5) * NS + rng.choice([-1, 0, 1]) + NS - n
        elif r < 0.7:
            to = U64 - (s * NS + n) + rng.randrange(-3, 4)      # around the wrap point
        else:
            to = rng.choice(touts)
        to = min(max(to, 0), U64 - 1)
        out.append("%d %d %d %s" % (s, n, to, rng.choice(["T", "T", "S", "E110", "E0"])))
    # clock readings whose conversion to ns itself wraps: raw return codes only
    for _ in range(40):
        out.append("%d %d %d %s" % (rng.randrange(2**34, 2**62), rng.randrange(0, NS),
                                    rng.randrange(0, U64), rng.choice(["E110", "E0"])))
    return out


def timed_monitor(case, line):
    s, n, to, mode = case.split()
    f = line.split()
    if mode != "T" or len(f) != 4:
        return None
    if f[2] == "-110" and int(f[3]) < int(to):
        if TIMED_MODE == "timedfix" and int(s) * NS + int(n) + int(f[3]) >= U64 - 1:
            return None      # the virtual clock itself reached 2^64-1 ns (hypothesis of the fixed theorem)
        return "UV_ETIMEDOUT after %s ns on uv_hrtime(), timeout was %s ns" % (f[3], to)
    return None


def timed_known(case, line, reason):
    s, n, to, mode = case.split()
    return KEY_TIMED if int(to) + int(s) * NS + int(n) >= U64 else None


# ------------------------------------------------------------------ schedules
def schedule(rng, n, steps, tail):
    ch = []
    style = rng.random()
    while len(ch) < steps:
        if style < 0.35:
            ch.append((rng.randrange(n), 1 if rng.random() < 0.12 else 0))
        else:                                   # bursts: one thread runs as far as it can
            t = rng.randrange(n)
            for _ in range(rng.randint(1, 7)):
                ch.append((t, rng.choice([0, 0, 0, 0, 1, 2, 3])))
    for _ in range(tail):
        for t in range(n):
            ch.append((t, 0))
    return " ".join("%d,%d" % c for c in ch)


def bar_cases(rng, count):
    out = []
    for _ in range(count):
        thr = rng.choice([1, 2, 2, 3, 3, 4, 5])
        r = rng.random()
        n = thr if r < 0.35 else min(8, thr * rng.randint(1, 3)) if r < 0.7 else rng.randint(1, 8)
        rounds = [rng.randint(1, 3)] * n if rng.random() < 0.6 else [rng.randint(0, 3) for _ in range(n)]
        out.append("%d %s ; %s" % (thr, " ".join(map(str, rounds)),
                                   schedule(rng, n, rng.randint(0, 40 * n), 25 * max(rounds + [1]) + 10)))
    return out


def bar_monitor(case, line):
    head, _ = case.split(";")
    h = head.split()
    thr, rounds = int(h[0]), [int(x) for x in h[1:]]
    calls = rets = nz = 0
    toks = line.split()
    for tk in toks:
        if tk in ("abort", "crash", "hang", "schederr", "bad", "initfail", "forkfail", "undrained"):
            return "run ended with " + tk
        if tk[0] == "v":
            # only when no other grouping exists: exactly count threads, same number of rounds each
            if tk == "v2" and len(rounds) == thr and len(set(rounds)) == 1:
                return "deadlock although all %d threads arrive in every round" % thr
            continue
        f = tk.split(":")
        if f[1] == "-":
            continue
        i, o = [int(x) for x in f[2].split(",")]
        if f[1] == "L":
            calls += 1
        if len(f) == 4:
            rets += 1
            if f[3] != "r0":
                nz += 1
        if rets > thr * (calls // thr):
            return "thread %s left the barrier when only %d threads had arrived (count %d, %d returns)" \
                % (f[0], calls, thr, rets)
        if nz != rets // thr:
            return "%d non-zero returns among the first %d returns (count %d)" % (nz, rets, thr)
        if i != 0 and o != 0:
            return "a new round is being joined (in=%d) while the previous one drains (out=%d)" % (i, o)
    return None


def sem_cases(rng, count):
    out = []
    for _ in range(count):
        n = rng.randint(1, 6)
        value = rng.choice([0, 0, 1, 2, 3])
        progs = []
        for _ in range(n):
            k = rng.randint(0, 4)
            w = rng.choice(["PWT", "PW", "PPW", "WWP", "T", "PT"])
            progs.append("".join(rng.choice(w) for _ in range(k)) or "-")
        out.append("%d ; %s ; %s" % (value, " ".join(progs), schedule(rng, n, rng.randint(0, 30 * n), 20)))
    return out


def sem_monitor(case, line):
    v, progs, _ = case.split(";")
    value = int(v)
    progs = [("" if p == "-" else p) for p in progs.split()]
    pos = [0] * len(progs)
    posts = passes = 0
    for tk in line.split():
        if tk in ("abort", "crash", "hang", "schederr", "bad", "initfail", "forkfail", "nocustom"):
            return "run ended with " + tk
        if tk[0] == "v":
            continue
        f = tk.split(":")
        if f[1] == "-":
            continue
        t = int(f[0])
        if pos[t] >= len(progs[t]):
            return "thread %d made a step after its program ended" % t
        cur = progs[t][pos[t]]
        if f[1] == "L" and cur == "P":
            posts += 1
        if len(f) == 3:
            if cur in "WT" and f[2] == "r0":
                passes += 1
            pos[t] += 1
        if passes > value + posts:
            return "%d waiters were let through with initial value %d and %d posts" % (passes, value, posts)
    return None


# ------------------------------------------------------------------ comparison with known findings
def diff_known(chk, name, cases, impl, model, monitor, classify):
    """vf.diff_cases, except that a monitor failure on which implementation and model agree
    and which [classify] attributes to a known finding is routed through match_known."""
    plain_c, plain_a, plain_b = [], [], []
    seen = {}
    if len(impl) != len(cases) or len(model) != len(cases):
        return vf.diff_cases(chk, name, cases, impl, model, monitor)
    for c, a, b in zip(cases, impl, model):
        reason = monitor(c, a) if vf.canon(a) == vf.canon(b) else None
        key = classify(c, a, reason) if reason else None
        if key:
            chk.count(name, c + "=>" + a)
            if key not in seen:
                seen[key] = (c, a, reason)
        else:
            plain_c.append(c); plain_a.append(a); plain_b.append(b)
    for key, (c, a, reason) in seen.items():
        f = chk.match_known(key)
        if f:
            chk.known_hit(f)
            chk.sample({"known_finding": key, "case": c, "impl": a, "reason": reason})
        else:
            chk.violation("%s: %s (defect %s is not listed in known_findings.json)" % (name, reason, key),
                          {"kind": "monitor", "obligation": name, "case": c, "impl": a, "key": key},
                          found_input=True)
    chk.corr(name, len(cases) - len(plain_c))
    return vf.diff_cases(chk, name, plain_c, plain_a, plain_b, monitor)


def main():
    chk = vf.Check("C20")
    thorough = chk.tier == "thorough"
    chk.prove()
    try:
        lib = vf.build_libuv(chk.scratch, "ndebug")
        hwrap = vf.cc_harness(chk.scratch, "c20_wrap", ["c20_wrap.c"], lib=lib, wraps=WRAPS_A)
        hbar = vf.cc_harness(chk.scratch, "c20_barrier", ["c20_barrier.c"], lib=lib, wraps=WRAPS_S)
        hsem = vf.cc_harness(chk.scratch, "c20_sem", ["c20_sem.c"], lib=lib,
                             wraps=WRAPS_S + ["gnu_get_libc_version"])
        hpass = vf.cc_harness(chk.scratch, "c20_pass", ["c20_pass.c"], lib=lib, wraps=WRAPS_P)
        hconc = vf.cc_harness(chk.scratch, "c20_conc", ["c20_conc.c"], lib=lib)
        model = vf.model_bin("C20")
        info, rc, _ = vf.run_lines([hwrap, "info"], [])
        page, psm = int(info[0].split()[0]), int(info[0].split()[1])
    except (vf.BuildError, IndexError, ValueError) as e:
        chk.violation("build failed: %s" % str(e)[:300], {"kind": "build", "log": str(e)}, found_input=False)
        chk.finish(rule="build failed")
    chk.cov["platform"] = {"pagesize": page, "PTHREAD_STACK_MIN": psm, "glibc": info[0].split()[2]}

    def both(mode, cases, harness, shards=8):
        a, _, _ = vf.run_lines(harness, cases, shards=shards)
        b, _, _ = vf.run_lines([model, mode], cases, shards=shards)
        return a, b

    if chk.replay:
        # re-run the single case of a replay file on both sides and print what each says
        import json
        rp = json.load(open(chk.replay))
        ob, case = rp.get("obligation", ""), rp.get("case")
        table = [("part A", "codes", [hwrap, "codes"], codes_monitor), ("part B", "stack", [hwrap, "stack"], stack_monitor),
                 ("part C", TIMED_MODE, [hwrap, "timed"], timed_monitor), ("barrier", "bar", [hbar], bar_monitor),
                 ("semaphore", "sem", [hsem], sem_monitor)]
        for tag, mode, harness, mon in table:
            if tag in ob and case:
                a, b = both(mode, [case], harness, shards=1)
                print("case:  %s\nimpl:  %s\nmodel: %s\nmonitor: %s" % (case, a[0] if a else None, b[0] if b else None,
                                                                      mon(case, a[0]) if a else None))
        chk.scratch.cleanup()
        sys.exit(0)

    # (f) pass-through table: which pthread function each wrapper calls, on which object
    names, _, _ = vf.run_lines([model, "pass"], ["?"])
    pc = names[0].split() if names else []
    # by-value arguments of the init wrappers are part of the case
    pc = [n + (" %d" % chk.rng.randint(0, 1000) if n == "uv_sem_init" else
               " %d" % chk.rng.randint(1, 64) if n == "uv_barrier_init" else "") for n in pc]
    # every uv_once call is a pthread_once call on the same guard: also the 2nd, 3rd .. call on a completed
    # guard and a call racing with a running init function
    pc_extra = ["uv_once 2", "uv_once 3", "uv_once %d" % chk.rng.randint(4, 40), "uv_once_racing"]
    pc = pc + pc_extra
    a, b = both("pass", pc, [hpass], shards=1)

    def pass_monitor(case, line):
        return "%s calls %s (expected exactly one call of the mapped pthread function on the same object)" \
            % (case, line) if sum(1 for x in line.split() if ":1" in x) != (2 if case == "uv_once_racing" else 1) \
            or ":1" not in line.split()[-1] else None
    vf.diff_cases(chk, "thread.c wrappers -> pthread calls = Model/Thread.v passthrough", pc, a, b, pass_monitor)
    chk.cov["passthrough_wrappers"] = len(pc)
    if len(pc) - len(pc_extra) != 34:
        chk.violation("pass-through table has %d entries, 34 expected" % len(pc), {"kind": "correspondence"}, found_input=False)
    # the same table against the library built WITHOUT NDEBUG (uv_mutex_init asks for an error-checking mutex)
    hconcd = None
    try:
        libdbg = vf.build_libuv(chk.scratch, "debug")
        hconcd = vf.cc_harness(chk.scratch, "c20_conc_dbg", ["c20_conc.c"], lib=libdbg, flavour="debug")
        hpassd = vf.cc_harness(chk.scratch, "c20_pass_dbg", ["c20_pass.c"], lib=libdbg, flavour="debug", wraps=WRAPS_P)
        macro, _, _ = vf.run_lines([hpassd], ["errorcheck_macro"])
        chk.cov["PTHREAD_MUTEX_ERRORCHECK_is_macro"] = macro[:1]
        a, b = both("passdbg" if macro[:1] == ["1"] else "pass", pc, [hpassd], shards=1)
        vf.diff_cases(chk, "thread.c wrappers -> pthread calls = Model/Thread.v passthrough (build without NDEBUG)",
                      pc, a, b, pass_monitor)
    except vf.BuildError as e:
        chk.violation("debug build failed: %s" % str(e)[:300], {"kind": "build", "log": str(e)}, found_input=False)

    # (g) MONITOR-ONLY: real contention, invariant counters (no model involved)
    import concurrent.futures, subprocess
    runs = 12 if thorough else 4

    def conc_once(exe):
        try:
            r = subprocess.run([exe], stdout=subprocess.PIPE, stderr=subprocess.STDOUT, text=True, timeout=120)
            return r.stdout.strip() if r.returncode == 0 else "crashed rc=%d %s" % (r.returncode, r.stdout[-200:])
        except subprocess.TimeoutExpired:
            return "timeout"
    # both flavours of the library: NDEBUG (what ships) and assert-enabled
    jobs = [("NDEBUG build", hconc)] * runs + ([("build without NDEBUG", hconcd)] * runs if hconcd else [])
    with concurrent.futures.ThreadPoolExecutor(4) as ex:
        outs = list(ex.map(conc_once, [e for _, e in jobs]))
    reported = set()
    for (flav, _), o in zip(jobs, outs):
        kv = dict(x.split("=", 1) for x in o.split() if "=" in x)
        chk.count("conc", o)
        for key, want, msg in CONC_EXPECT:
            got = kv.get(key, "missing (%s)" % o[:80])
            if got != want and (key, flav) not in reported:
                reported.add((key, flav))
                chk.violation("real-concurrency monitor (%s): " % flav + msg % got,
                              {"kind": "monitor", "obligation": "real-concurrency monitor (no model)", "key": key,
                               "library": flav,
                               "expected": want, "got": got, "line": o}, found_input=True)
    chk.corr("real-concurrency monitor (monitor-only, no model)", len(jobs))
    chk.sample({"concurrency_monitor": outs[0] if outs else None})

    # (a) return-code maps
    cc = corpus("codes.txt") + codes_cases(chk.rng, thorough)
    a, b = both("codes", cc, [hwrap, "codes"])
    vf.diff_cases(chk, "thread.c try*/trywait/barrier_wait/cond_init = Model/Thread.v part A", cc, a, b, codes_monitor)

    # (b) stack size
    sc = corpus("stack.txt") + stack_cases(chk.rng, page, psm, thorough)
    a, b = both("stack", sc, [hwrap, "stack"])
    # the model predicts the size applied (first field); pthread_create's own result, the run count
    # and the size seen in the thread are the kernel's/glibc's answers, judged by the monitor only
    if len(a) == len(b) == len(sc):
        b = [m + (" " + " ".join(x.split()[1:]) if c[:2] in ("st", "tc") and len(x.split()) == 6 else "")
             for c, x, m in zip(sc, a, b)]
    # (the wrap within a page of 2^64, DESIGN item 16, was repaired in /repo 4452eb2: a thread running
    # on less than it asked for is a violation like any other)
    vf.diff_cases(chk, "uv_thread_create_ex stack size = Model/Thread.v part B", sc, a, b, stack_monitor)
    chk.sample({"stack_case": sc[3], "impl(applied rc ran seen-in-thread)": a[3] if len(a) > 3 else None})

    # (c) timed wait deadline
    tc = corpus("timed.txt") + timed_cases(chk.rng, thorough)
    a, b = both(TIMED_MODE, tc, [hwrap, "timed"])
    diff_known(chk, "uv_cond_timedwait deadline = Model/Thread.v part C", tc, a, b, timed_monitor, timed_known)

    # (e) the two algorithms under the serialising scheduler, lock-step
    bc = corpus("barrier.txt") + bar_cases(chk.rng, 80000 if thorough else 2500)
    a, b = both("bar", bc, [hbar], shards=14)
    vf.diff_cases(chk, "thread-common.c fallback barrier = Model/Thread.v barrier (lock-step under detsched)",
                  bc, a, b, bar_monitor)
    chk.sample({"barrier_case": bc[-1][:120], "impl": a[-1][:200] if a else None})
    chk.cov["barrier_verdicts(done,unfinished,deadlock)"] = [sum(1 for l in a if l.endswith(v)) for v in ("v0", "v1", "v2")]
    chk.cov["barrier_steps_compared"] = sum(len(l.split()) for l in a)
    chk.cov["barrier_rounds_completed"] = sum(l.count(":r1") for l in a)
    xc = corpus("sem.txt") + sem_cases(chk.rng, 80000 if thorough else 2500)
    a, b = both("sem", xc, [hsem], shards=14)
    vf.diff_cases(chk, "thread.c custom semaphore = Model/Thread.v semaphore (lock-step under detsched)",
                  xc, a, b, sem_monitor)
    chk.cov["sem_verdicts(done,unfinished,deadlock)"] = [sum(1 for l in a if l.endswith(v)) for v in ("v0", "v1", "v2")]
    chk.cov["sem_steps_compared"] = sum(len(l.split()) for l in a)

    chk.finish(
        level="proof",
        rule="codes: every pthread code 0..134 and some outside for each try function, EINTR prefixes of every "
             "length 0..6 for sem_trywait/sem_wait, all two-fault combinations for uv_cond_init; stack: the listed "
             "sizes x page sizes {real,16K,64K} x rlimit answers plus random ones, size applied and size seen inside "
             "the thread; timed: listed timeouts x clocks x outcomes plus random ones around the wrap point; "
             "barrier/semaphore: random schedules (uniform and bursty, with spurious wake-ups and signal choices) "
             "with a round-robin tail, compared step by step; non-trivial = distinct (case, implementation trace)",
        trusted=["Coq 8.16.1 kernel (coqc)", "ExtrOcamlBasic extraction + OCaml 4.13.1 + zarith glue (ocaml/zutil.ml, drv_c20.ml)",
                 "harness/c20_wrap.c, c20_sched.h (serialising scheduler), c20_barrier.c, c20_sem.c, c20_pass.c, c20_conc.c, checks/c20.py",
                 "gcc 12, glibc 2.36 pthread (mutual exclusion, wake-up, fairness of the real primitives are assumed)"],
        explanation="partial: the logic libuv adds (code maps, stack rounding, deadline arithmetic, fallback barrier, "
                    "custom semaphore) is proved and tied to the code; mutual exclusion/fairness/wake-up of pthread "
                    "itself are Section hypotheses")


if __name__ == "__main__":
    main()
