From UV Require Import Lib.Base Model.Signal.
Require Extraction.
Require Import ExtrOcamlBasic.
Extraction Language OCaml.
Extraction "m_c13.ml" N.succ Z.succ init run trace_of.
