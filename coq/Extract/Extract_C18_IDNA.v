From UV Require Import Lib.Base Model.Idna Model.Wtf8.
Require Extraction.
Require Import ExtrOcamlBasic.
Extraction Language OCaml.
Extraction "m_c18_idna.ml" utf8_decode1 idna_toascii idna_toascii_label_b written
  wtf8_length_as_utf16 wtf8_to_utf16 utf16_length_as_wtf8 utf16_to_wtf8.
