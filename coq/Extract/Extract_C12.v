From UV Require Import Lib.Base Model.Process.
Require Extraction.
Require Import ExtrOcamlBasic.
Extraction Language OCaml.
Extraction "m_c12.ml" linit run dump decode child_init uv_spawn disable_stdio_inheritance uv_kill uv_process_kill.
