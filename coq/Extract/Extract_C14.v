From UV Require Import Lib.Base Model.IoWatch.
Require Extraction.
Require Import ExtrOcamlBasic.
Extraction Language OCaml.
Extraction "m_c14.ml" sinit run watched kernel_set N.add.
