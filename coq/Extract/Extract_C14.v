From UV Require Import Lib.Base Model.IoWatch.
Require Extraction.
Require Import ExtrOcamlBasic.
Extraction Language OCaml.
Extraction "m_c14.ml" sinit run watched kernel_set mask_of_uv uv_of_mask mask_of_poll poll_of_mask N.add.
