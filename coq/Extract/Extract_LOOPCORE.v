From UV Require Import Lib.Base Model.Heap Model.Timer Model.LoopCore.
Require Extraction.
Require Import ExtrOcamlBasic.
Extraction Language OCaml.
Extraction "m_loopcore.ml" linit lrun.
