From UV Require Import Lib.Base Model.Udp.
Require Extraction.
Require Import ExtrOcamlBasic.
Extraction Language OCaml.
Extraction "m_c10.ml" sendmsgv_fixed init run handed delivered accepts.
