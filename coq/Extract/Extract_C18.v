From UV Require Import Lib.Base Model.Inet.
Require Extraction.
Require Import ExtrOcamlBasic.
Extraction Language OCaml.
Extraction "m_c18.ml" uv_inet_pton uv_inet_ntop uv_ip4_addr uv_ip6_addr uv_ip4_name
  uv_ip6_name uv_ip_name uv_strscpy inet_pton4 inet_pton6 inet_ntop4 inet_ntop6.
