From UV Require Import Lib.Base Model.Thread.
Require Extraction.
Require Import ExtrOcamlBasic.
Extraction Language OCaml.
Extraction "m_c20.ml" uv_trylock_code uv_sem_trywait_code uv_sem_wait_code uv_barrier_wait_code
  uv_cond_timedwait_code uv_cond_init_model stack_size_applied thread_stack_size
  hrtime_of add_wrap add_sat uv_cond_timedwait_model ts_ns
  binit brun_log bverdict sinit srun_log sverdict passthrough passthrough_pre all_uvfn init_request.
