From UV Require Import Lib.Base Model.Async.
Require Extraction.
Require Import ExtrOcamlBasic.
Extraction Language OCaml.
Extraction "m_c09.ml" init step_gen mstep enabled quiescent visible run_gen N.of_nat async_fork fork_sys sys_step.
