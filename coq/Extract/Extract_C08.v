From UV Require Import Lib.Base Model.ThreadPool.
Require Extraction.
Require Import ExtrOcamlBasic.
Extraction Language OCaml.
Extraction "m_c08.ml" N.succ Z.succ init step run_log verdict threshold api_kind is_lookup complete_api fork_child fork_child_fixed.
