From UV Require Import Lib.Base Model.Heap Model.Timer.
Require Extraction.
Require Import ExtrOcamlBasic.
Extraction Language OCaml.
Extraction "m_c04.ml" heap_init heap_insert heap_remove heap_min heap_dequeue dump elements
  key_lt tinit run.
