From UV Require Import Lib.Base Model.StreamWrite.
Require Extraction.
Require Import ExtrOcamlBasic.
Extraction Language OCaml.
Extraction "m_c05.ml" init exec trace wqs shut fdopen oracle.
