From UV Require Import Lib.Base Model.StreamRead Spec.StreamReadSpec.
Require Extraction.
Require Import ExtrOcamlBasic.
Extraction Language OCaml.
Extraction "m_c06.ml" init exec monitor.
