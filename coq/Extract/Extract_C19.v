From UV Require Import Lib.Base Model.Getters.
Require Extraction.
Require Import ExtrOcamlBasic.
Extraction Language OCaml.
Extraction "m_c19.ml" uv_os_getenv uv_os_homedir uv_os_tmpdir uv_os_gethostname uv_cwd
  uv_fs_event_getpath uv_fs_poll_getpath uv_if_indextoname uv_pipe_getname uv_exepath
  uv_get_process_title uv_thread_getname uv_err_name_r uv_strerror_r.
