From UV Require Import Lib.Base Model.Fs.
Require Extraction.
Require Import ExtrOcamlBasic.
Extraction Language OCaml.
Extraction "m_c11.ml" fs_read fs_read_call write_all sys_list apply_log result_of total_len
  sqe_of kernel_of_sqe work norm takes_ring api_check retries
  req_init req_early work_effect ring_submit ring_finish scandir_next iter_next req_cleanup
  uv_live alloc mkHeap pool_size sq_run pathmax_size scandir_keeps.
