From UV Require Import Lib.Base Model.FsPoll Model.Inotify.
Require Extraction.
Require Import ExtrOcamlBasic.
Extraction Language OCaml.
Extraction "m_c17.ml" N.succ Z.succ FsPoll.init FsPoll.run FsPoll.statbuf_eq FsPoll.zero_sb
  Inotify.iinit Inotify.irun Inotify.ev_bits.
