From UV Require Import Lib.Base Model.CloseProto.
Require Extraction.
Require Import ExtrOcamlBasic.
Extraction Language OCaml.
Extraction "m_c02.ml" cinit crun ctrace N.succ.
