From UV Require Import Lib.Base Model.FdLedger.
Require Extraction.
Require Import ExtrOcamlBasic.
Extraction Language OCaml.
Extraction "m_c15.ml" run lookup is_lib Z.add N.add.
