From UV Require Import Lib.Base Model.Accept Model.Connect.
Require Extraction.
Require Import ExtrOcamlBasic.
Extraction Language OCaml.
Extraction "m_c07.ml" run init_v held pending_count crun cinit write2 try_write2.
