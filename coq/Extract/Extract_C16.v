From UV Require Import Lib.Base Model.Faults.
Require Extraction.
Require Import ExtrOcamlBasic.
Extraction Language OCaml.
Extraction "m_c16.ml" l0 uv_write2 uv_udp_send uv_fs_poll_start uv_fs_stat_async uv_fs_rename_async
  uv_os_environ uv_fs_event_start uv_getaddrinfo uv_spawn uv_accept_fd
  uv_async_send uv_async_io uv_signal_event uv_close_fd uv_read_step uv_loop_init maybe_resize
  io_poll permitted strip N.succ Nat.add Z.add.
