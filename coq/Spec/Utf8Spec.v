(* Well-formed UTF-8, transcribed from the Unicode Standard, table 3-7
   ("Well-Formed UTF-8 Byte Sequences"; the same language as the UTF8-octets
   grammar of RFC 3629 section 4) together with the scalar value each
   sequence denotes (RFC 3629 section 3: the x bits of 0xxxxxxx,
   110xxxxx 10xxxxxx, 1110xxxx 10xxxxxx 10xxxxxx,
   11110xxx 10xxxxxx 10xxxxxx 10xxxxxx, most significant first).
   Nothing here refers to the C code or to its model. *)
From UV Require Import Lib.Base.
Local Open Scope N_scope.

Definition rng (lo hi b : N) : Prop := lo <= b /\ b <= hi.

(* value of a sequence of 2, 3, 4 bytes whose bytes are in the ranges below *)
Definition v2 (b1 b2 : N) : N := (b1 - 192) * 64 + (b2 - 128).
Definition v3 (b1 b2 b3 : N) : N := (b1 - 224) * 4096 + (b2 - 128) * 64 + (b3 - 128).
Definition v4 (b1 b2 b3 b4 : N) : N :=
  (b1 - 240) * 262144 + (b2 - 128) * 4096 + (b3 - 128) * 64 + (b4 - 128).

(* One row of table 3-7 per constructor. *)
Inductive utf8_wf : list N -> N -> Prop :=
| wf_00_7F b1 : rng 0 127 b1 -> utf8_wf [b1] b1
| wf_C2_DF b1 b2 : rng 194 223 b1 -> rng 128 191 b2 -> utf8_wf [b1; b2] (v2 b1 b2)
| wf_E0 b1 b2 b3 : b1 = 224 -> rng 160 191 b2 -> rng 128 191 b3 -> utf8_wf [b1; b2; b3] (v3 b1 b2 b3)
| wf_E1_EC b1 b2 b3 : rng 225 236 b1 -> rng 128 191 b2 -> rng 128 191 b3 -> utf8_wf [b1; b2; b3] (v3 b1 b2 b3)
| wf_ED b1 b2 b3 : b1 = 237 -> rng 128 159 b2 -> rng 128 191 b3 -> utf8_wf [b1; b2; b3] (v3 b1 b2 b3)
| wf_EE_EF b1 b2 b3 : rng 238 239 b1 -> rng 128 191 b2 -> rng 128 191 b3 -> utf8_wf [b1; b2; b3] (v3 b1 b2 b3)
| wf_F0 b1 b2 b3 b4 : b1 = 240 -> rng 144 191 b2 -> rng 128 191 b3 -> rng 128 191 b4 ->
    utf8_wf [b1; b2; b3; b4] (v4 b1 b2 b3 b4)
| wf_F1_F3 b1 b2 b3 b4 : rng 241 243 b1 -> rng 128 191 b2 -> rng 128 191 b3 -> rng 128 191 b4 ->
    utf8_wf [b1; b2; b3; b4] (v4 b1 b2 b3 b4)
| wf_F4 b1 b2 b3 b4 : b1 = 244 -> rng 128 143 b2 -> rng 128 191 b3 -> rng 128 191 b4 ->
    utf8_wf [b1; b2; b3; b4] (v4 b1 b2 b3 b4).

(* A Unicode scalar value: 0..D7FF, E000..10FFFF. *)
Definition scalar (v : N) : Prop := v <= 1114111 /\ ~ (55296 <= v /\ v <= 57343).

(* A whole string is well-formed when it is a concatenation of well-formed
   sequences; [cps] are the scalar values in order. *)
Inductive utf8_string : list N -> list N -> Prop :=
| us_nil : utf8_string [] []
| us_cons bs v rest cps : utf8_wf bs v -> utf8_string rest cps -> utf8_string (bs ++ rest) (v :: cps).

(* [s] starts with a well-formed sequence. *)
Definition utf8_wf_prefix (s : list N) : Prop :=
  exists bs v rest, s = bs ++ rest /\ utf8_wf bs v.
