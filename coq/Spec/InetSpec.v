(* Independent specifications for the address codecs (C18).  Nothing here refers to
   the model; these are the textual grammars of the RFCs with their value
   functions, written as relations between a text (list of bytes) and the
   address bytes it denotes, plus the canonical printer. *)
From UV Require Import Lib.Base.
Local Open Scope N_scope.

(* ------------------------------------------------------------------ *)
(* Dotted quad: four decimal octets 0..255 separated by '.', no leading *)
(* zero unless the octet is "0".                                        *)
(* ------------------------------------------------------------------ *)
Definition digit (c : N) : Prop := 48 <= c /\ c <= 57.

Definition dstep (a c : N) : N := a * 10 + (c - 48).
Definition dval (ds : list N) : N := fold_left dstep ds 0.

Definition octet_text (ds : list N) (v : N) : Prop :=
  ds <> [] /\ Forall digit ds /\ (forall t, ds = 48 :: t -> t = []) /\
  dval ds = v /\ v <= 255.

Definition dotted_quad (s b : list N) : Prop :=
  exists s0 s1 s2 s3 v0 v1 v2 v3,
    s = s0 ++ 46 :: s1 ++ 46 :: s2 ++ 46 :: s3 /\
    octet_text s0 v0 /\ octet_text s1 v1 /\ octet_text s2 v2 /\ octet_text s3 v3 /\
    b = [v0; v1; v2; v3].

(* ------------------------------------------------------------------ *)
(* RFC 4291 section 2.2 text forms of an IPv6 address.                  *)
(*   h16      = 1*4HEXDIG                                                *)
(*   1. x:x:x:x:x:x:x:x                                                  *)
(*   2. "::" stands for one or more groups of zeros, at most once        *)
(*   3. the last two groups may be written as a dotted quad              *)
(* ------------------------------------------------------------------ *)
Definition xdigit_val (c : N) (d : N) : Prop :=
  (48 <= c /\ c <= 57 /\ d = c - 48) \/
  (97 <= c /\ c <= 102 /\ d = c - 87) \/
  (65 <= c /\ c <= 70 /\ d = c - 55).

(* text of 1..4 hex digits and its value *)
Inductive h16_digits : list N -> N -> Prop :=
| h16_one : forall c d, xdigit_val c d -> h16_digits [c] d
| h16_snoc : forall s v c d, h16_digits s v -> xdigit_val c d -> h16_digits (s ++ [c]) (v * 16 + d).

Definition h16_text (s : list N) (v : N) : Prop :=
  h16_digits s v /\ (length s <= 4)%nat.

(* a ':'-separated sequence of h16 groups (at least one) *)
Inductive hseq_text : list N -> list N -> Prop :=
| hseq_one : forall s v, h16_text s v -> hseq_text s [v]
| hseq_cons : forall s v t ws, h16_text s v -> hseq_text t ws -> hseq_text (s ++ 58 :: t) (v :: ws).

(* the same, where the last 32 bits may be a dotted quad *)
Inductive tseq_text : list N -> list N -> Prop :=
| tseq_h16 : forall s v, h16_text s v -> tseq_text s [v]
| tseq_v4 : forall s a b c d, dotted_quad s [a; b; c; d] -> tseq_text s [a * 256 + b; c * 256 + d]
| tseq_cons : forall s v t ws, h16_text s v -> tseq_text t ws -> tseq_text (s ++ 58 :: t) (v :: ws).

Definition opt_hseq (s : list N) (ws : list N) : Prop := (s = [] /\ ws = []) \/ hseq_text s ws.
Definition opt_tseq (s : list N) (ws : list N) : Prop := (s = [] /\ ws = []) \/ tseq_text s ws.

Fixpoint bytes_of_words (ws : list N) : list N :=
  match ws with
  | [] => []
  | w :: t => (w / 256) :: (w mod 256) :: bytes_of_words t
  end.

Definition ip6_text (s b : list N) : Prop :=
  (exists ws, tseq_text s ws /\ length ws = 8%nat /\ b = bytes_of_words ws) \/
  (exists s1 s2 ws1 ws2,
      s = s1 ++ 58 :: 58 :: s2 /\ opt_hseq s1 ws1 /\ opt_tseq s2 ws2 /\
      (length ws1 + length ws2 <= 7)%nat /\
      b = bytes_of_words (ws1 ++ repeat 0 (8 - length ws1 - length ws2) ++ ws2)).

(* ------------------------------------------------------------------ *)
(* Canonical printer (what inet_ntop prints): lower-case hex without     *)
(* leading zeros; the longest run of >= 2 zero groups, leftmost on ties, *)
(* replaced by "::"; dotted-quad tail for ::a.b.c.d (the run is exactly  *)
(* the first six groups) and ::ffff:a.b.c.d.                             *)
(* ------------------------------------------------------------------ *)
Definition sdig (d : N) : N := if d <? 10 then 48 + d else 87 + d.

(* digits of v in the given base, most significant first, no leading zeros *)
Fixpoint digits_fuel (fuel : nat) (base v : N) (acc : list N) : list N :=
  match fuel with
  | O => acc
  | S f => if v <? base then sdig v :: acc
           else digits_fuel f base (v / base) (sdig (v mod base) :: acc)
  end.
Definition spec_dec (v : N) : list N := digits_fuel 3 10 v [].
Definition spec_hex (v : N) : list N := digits_fuel 4 16 v [].

Fixpoint join (sep : N) (l : list (list N)) : list N :=
  match l with
  | [] => []
  | [x] => x
  | x :: t => x ++ sep :: join sep t
  end.

Definition spec_print4 (a : list N) : list N := join 46 (map spec_dec a).

(* length of the zero run starting at the head *)
Fixpoint zrun (ws : list N) : nat :=
  match ws with
  | w :: t => if w =? 0 then S (zrun t) else O
  | [] => O
  end.

(* (start, length) of the longest zero run, leftmost on ties; positions relative to [i] *)
Fixpoint longest_run (ws : list N) (i : nat) (best : nat * nat) : nat * nat :=
  match ws with
  | [] => best
  | w :: t =>
      let r := zrun ws in
      longest_run t (S i) (if (snd best <? r)%nat then (i, r) else best)
  end.

Definition spec_print6 (a : list N) (ws : list N) : list N :=
  let '(b, l) := longest_run ws 0 (0%nat, 0%nat) in
  if (l <? 2)%nat then join 58 (map spec_hex ws)
  else
    let left := firstn b ws in
    let right := skipn (b + l) ws in
    let v4 := ((b =? 0)%nat && (l =? 6)%nat) ||
              ((b =? 0)%nat && (l =? 5)%nat && (nth 5 ws 0 =? 65535)) in
    if v4 then
      join 58 (map spec_hex left) ++ [58; 58] ++
      join 58 (map spec_hex (firstn (6 - l) right) ++ [spec_print4 (skipn 12 a)])
    else join 58 (map spec_hex left) ++ [58; 58] ++ join 58 (map spec_hex right).
