(* RFC 3492 (Punycode), transcribed from the pseudocode of sections 5, 6.1,
   6.2 and 6.3 over unbounded naturals (so "fail on overflow" never fires).
   Code points are [N]; a string is a [list N].  The only liberty taken is
   fuel for the RFC's "for k = base to infinity" / "while" loops; each fuel is
   an upper bound on the number of rounds (q and delta at least halve per
   round; the main loops handle at least one code point per round).
   Nothing here refers to the C code or to its model. *)
From UV Require Import Lib.Base.
Local Open Scope N_scope.

(* section 5: parameter values for Punycode *)
Definition base : N := 36.
Definition tmin : N := 1.
Definition tmax : N := 26.
Definition skew : N := 38.
Definition damp : N := 700.
Definition initial_bias : N := 72.
Definition initial_n : N := 128.
Definition delimiter : N := 45.           (* "-" *)

Definition basic (c : N) : bool := c <? 128.

(* section 5: code points of the digit-values: 0..25 -> a..z, 26..35 -> 0..9 *)
Definition digit_cp (d : N) : N := if d <? 26 then 97 + d else 22 + d.

(* and back (upper case accepted), None = not a digit *)
Definition digit_value (c : N) : option N :=
  if (48 <=? c) && (c <=? 57) then Some (c - 22)
  else if (65 <=? c) && (c <=? 90) then Some (c - 65)
  else if (97 <=? c) && (c <=? 122) then Some (c - 97)
  else None.

(* section 6.1: bias adaptation
     function adapt(delta,numpoints,firsttime):
       if firsttime then let delta = delta div damp
       else let delta = delta div 2
       let delta = delta + (delta div numpoints)
       let k = 0
       while delta > ((base - tmin) * tmax) div 2 do begin
         let delta = delta div (base - tmin)
         let k = k + base
       end
       return k + (((base - tmin + 1) * delta) div (delta + skew))          *)
Fixpoint adapt_while (fuel : nat) (delta k : N) : N * N :=
  match fuel with
  | O => (delta, k)
  | S f =>
      if ((base - tmin) * tmax) / 2 <? delta
      then adapt_while f (delta / (base - tmin)) (k + base)
      else (delta, k)
  end.

Definition adapt (delta numpoints : N) (firsttime : bool) : N :=
  let delta := if firsttime then delta / damp else delta / 2 in
  let delta := delta + delta / numpoints in
  let (delta, k) := adapt_while (S (N.size_nat delta)) delta 0 in
  k + ((base - tmin + 1) * delta) / (delta + skew).

(* sections 6.2 and 6.3:
     let t = tmin if k <= bias {+ tmin}, or
             tmax if k >= bias + tmax, or k - bias otherwise                 *)
Definition threshold (k bias : N) : N :=
  if k <=? bias then tmin
  else if bias + tmax <=? k then tmax
  else k - bias.

(* ------------------------------------------------------------------ *)
(* section 6.3: encoding procedure                                     *)
(* ------------------------------------------------------------------ *)

(*         let q = delta
           for k = base to infinity in steps of base do begin
             let t = ...
             if q < t then break
             output the code point for digit t + ((q - t) mod (base - t))
             let q = (q - t) div (base - t)
           end
           output the code point for digit q                                 *)
Fixpoint encode_int (fuel : nat) (q k bias : N) : list N :=
  match fuel with
  | O => []
  | S f =>
      let t := threshold k bias in
      if q <? t then [digit_cp q]
      else digit_cp (t + (q - t) mod (base - t))
             :: encode_int f ((q - t) / (base - t)) (k + base) bias
  end.

Record est := mkE { e_delta : N; e_bias : N; e_h : N }.

(*       for each code point c in the input (in order) do begin
           if c < n {or c is basic} then increment delta, fail on overflow
           if c == n then begin
             <encode_int>
             let bias = adapt(delta, h + 1, test h equals b?)
             let delta = 0
             increment h
           end
         end                                                                  *)
Fixpoint encode_pass (input : list N) (n b : N) (st : est) : est * list N :=
  match input with
  | [] => (st, [])
  | c :: r =>
      let delta := if c <? n then e_delta st + 1 else e_delta st in
      if c =? n then
        let out := encode_int (S (N.size_nat delta)) delta base (e_bias st) in
        let bias := adapt delta (e_h st + 1) (e_h st =? b) in
        let (st', out') := encode_pass r n b (mkE 0 bias (e_h st + 1)) in
        (st', out ++ out')
      else encode_pass r n b (mkE delta (e_bias st) (e_h st))
  end.

(* "the minimum {non-basic} code point >= n in the input" *)
Fixpoint min_ge (input : list N) (n : N) : option N :=
  match input with
  | [] => None
  | c :: r =>
      match min_ge r n with
      | None => if n <=? c then Some c else None
      | Some m => if (n <=? c) && (c <? m) then Some c else Some m
      end
  end.

(*     while h < length(input) do begin
         let m = the minimum {non-basic} code point >= n in the input
         let delta = delta + (m - n) * (h + 1), fail on overflow
         let n = m
         <encode_pass>
         increment delta and n
       end                                                                    *)
Fixpoint encode_main (fuel : nat) (input : list N) (n b : N) (st : est) : list N :=
  match fuel with
  | O => []
  | S f =>
      if e_h st <? N.of_nat (length input) then
        match min_ge input n with
        | None => []
        | Some m =>
            let delta := e_delta st + (m - n) * (e_h st + 1) in
            let n := m in
            let (st', out) := encode_pass input n b (mkE delta (e_bias st) (e_h st)) in
            out ++ encode_main f input (n + 1) b (mkE (e_delta st' + 1) (e_bias st') (e_h st'))
        end
      else []
  end.

(*     let n = initial_n; let delta = 0; let bias = initial_bias
       let h = b = the number of basic code points in the input
       copy them to the output in order, followed by a delimiter if b > 0
       <encode_main>                                                           *)
Definition spec_encode (input : list N) : list N :=
  let basics := filter basic input in
  let b := N.of_nat (length basics) in
  basics ++ (if 0 <? b then [delimiter] else [])
         ++ encode_main (length input) input initial_n b (mkE 0 initial_bias b).

(* ------------------------------------------------------------------ *)
(* section 6.2: decoding procedure                                     *)
(* ------------------------------------------------------------------ *)

(*         let oldi = i; let w = 1
           for k = base to infinity in steps of base do begin
             consume a code point, or fail if there was none to consume
             let digit = the code point's digit-value, fail if it has none
             let i = i + digit * w, fail on overflow
             let t = ...
             if digit < t then break
             let w = w * (base - t), fail on overflow
           end
   Result: the new i and the rest of the input; None = fail.                 *)
Fixpoint decode_int (input : list N) (i w k bias : N) : option (N * list N) :=
  match input with
  | [] => None
  | c :: r =>
      match digit_value c with
      | None => None
      | Some digit =>
          let i := i + digit * w in
          let t := threshold k bias in
          if digit <? t then Some (i, r)
          else decode_int r i (w * (base - t)) (k + base) bias
      end
  end.

Fixpoint insert_at (pos : nat) (x : N) (l : list N) : list N :=
  match pos, l with
  | O, _ => x :: l
  | S p, [] => [x]
  | S p, y :: r => y :: insert_at p x r
  end.

(*     while the input is not exhausted do begin
         <decode_int>
         let bias = adapt(i - oldi, length(output) + 1, test oldi is 0?)
         let n = n + i div (length(output) + 1), fail on overflow
         let i = i mod (length(output) + 1)
         {if n is a basic code point then fail}
         insert n into output at position i
         increment i
       end                                                                    *)
Fixpoint decode_main (fuel : nat) (input : list N) (n i bias : N) (output : list N)
  : option (list N) :=
  match input with
  | [] => Some output
  | _ =>
      match fuel with
      | O => None
      | S f =>
          match decode_int input i 1 base bias with
          | None => None
          | Some (i', rest) =>
              let len1 := N.of_nat (length output) + 1 in
              let bias := adapt (i' - i) len1 (i =? 0) in
              let n := n + i' / len1 in
              let i'' := i' mod len1 in
              if basic n then None
              else decode_main f rest n (i'' + 1) bias (insert_at (N.to_nat i'') n output)
          end
      end
  end.

(* position of the last delimiter, if any *)
Fixpoint split_last_delim (l : list N) : option (list N * list N) :=
  match l with
  | [] => None
  | c :: r =>
      match split_last_delim r with
      | Some (a, b) => Some (c :: a, b)
      | None => if c =? delimiter then Some ([], r) else None
      end
  end.

(*     let n = initial_n; let i = 0; let bias = initial_bias; let output = {empty}
       consume all code points before the last delimiter (if there is one)
         and copy them to output, fail if any of them is not a basic code point
       if more than zero code points were consumed then consume one more
         (which will be the last delimiter)
       <decode_main>                                                           *)
Definition spec_decode (input : list N) : option (list N) :=
  let '(literal, ext) :=
    match split_last_delim input with
    | Some (a, b) => match a with [] => ([], input) | _ => (a, b) end
    | None => ([], input)
    end in
  if forallb basic literal
  then decode_main (length ext) ext initial_n 0 initial_bias literal
  else None.

(* ------------------------------------------------------------------ *)
(* A host name: labels are separated by U+002E or one of the           *)
(* ideographic/fullwidth/halfwidth full stops U+3002, U+FF0E, U+FF61    *)
(* (UTS #46 section 4, step "break"); a label that has a non-basic code *)
(* point becomes "xn--" followed by its Punycode, any other label is    *)
(* left as it is; labels are joined by U+002E.                          *)
(* ------------------------------------------------------------------ *)
Definition label_separator (c : N) : bool :=
  (c =? 46) || (c =? 12290) || (c =? 65294) || (c =? 65377).

Definition ace_prefix : list N := [120; 110; 45; 45].     (* "xn--" *)

Definition spec_label (l : list N) : list N :=
  if forallb basic l then l else ace_prefix ++ spec_encode l.

(* [lab] = code points of the label being read *)
Fixpoint spec_host (cps : list N) (lab : list N) : list N :=
  match cps with
  | [] => spec_label lab
  | c :: r =>
      if label_separator c then spec_label lab ++ [46] ++ spec_host r []
      else spec_host r (lab ++ [c])
  end.
