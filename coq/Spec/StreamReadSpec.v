(* C06: the checkers the theorems are stated with (no proofs here, so that they can be
   extracted together with the model and run on the implementation's own traces).
   Proofs/StreamReadProofs.v shows that every trace of Model/StreamRead.v passes them. *)
From UV Require Import Lib.Base Model.StreamRead.

Local Open Scope Z_scope.

(* ---- exact byte stream ---- *)
Definition delivered_of (e : event) : list (Z * Z) :=
  match e with
  | ERead _ nread _ off len => if 0 <? nread then [(off, len)] else []
  | _ => []
  end.
Definition kernel_of (e : event) : list (Z * Z) :=
  match e with
  | ESys _ (Data n) off => [(off, n)]
  | _ => []
  end.
(* the (offset, length) chunks handed to read callbacks with nread > 0, in order *)
Definition delivered (tr : list event) : list (Z * Z) := flat_map delivered_of tr.
(* the (offset, length) chunks read()/recvmsg() returned, in order *)
Definition kernel (tr : list event) : list (Z * Z) := flat_map kernel_of tr.

(* chunks that follow one another without gap or overlap from p to q *)
Fixpoint chain (p : Z) (l : list (Z * Z)) (q : Z) : Prop :=
  match l with
  | [] => p = q
  | (off, len) :: l' => off = p /\ 0 < len /\ chain (p + len) l' q
  end.

(* the bytes of a chunk, for an arbitrary peer byte sequence *)
Definition bytes {A} (peer : Z -> A) (c : Z * Z) : list A :=
  map (fun i => peer (fst c + Z.of_nat i)) (seq 0 (Z.to_nat (snd c))).


(* ---- alloc/read pairing, silence ---- *)
Definition buf_cap (b : abuf) : Z := if refuses b then 0 else b_len b.
(* nread values after which the stream must be silent: UV_EOF and read errors
   (UV_ENOBUFS is the user's own refusal, not a read error) *)
Definition is_final (nread : Z) : bool := (nread <? 0) && negb (nread =? UV_ENOBUFS).

(* every alloc result is handed to exactly one read callback before the next
   alloc; a read callback carries either the outstanding buffer or (synthetic
   EOF) no buffer while none is outstanding; nread never exceeds the buffer;
   read()/recvmsg() is only ever given the outstanding buffer *)
Fixpoint paired (out : option (nat * Z)) (tr : list event) : bool :=
  match tr with
  | [] => match out with None => true | Some _ => false end
  | EAlloc id _ b :: tr' =>
      match out with None => paired (Some (id, buf_cap b)) tr' | Some _ => false end
  | ESys len _ _ :: tr' =>
      match out with Some (_, cap) => (len =? cap) && paired out tr' | None => false end
  | ERead _ nread buf _ _ :: tr' =>
      match buf, out with
      | Some i, Some (j, cap) => Nat.eqb i j && (nread <=? cap) && paired None tr'
      | None, None => paired None tr'
      | _, _ => false
      end
  | _ :: tr' => paired out tr'
  end.

(* no alloc/read callback while quiet; quiet after UV_EOF, a read error,
   uv_read_stop, uv_close; only a successful uv_read_start ends it, and none
   succeeds after uv_close *)
Fixpoint silent (quiet dead : bool) (tr : list event) : bool :=
  match tr with
  | [] => true
  | EAlloc _ _ _ :: tr' => negb quiet && silent quiet dead tr'
  | ERead _ nread _ _ _ :: tr' => negb quiet && silent (is_final nread) dead tr'
  | ERet O c :: tr' =>
      if c =? 0 then negb dead && silent false dead tr' else silent quiet dead tr'
  | ERet (S O) _ :: tr' => silent true dead tr'
  | ERet _ _ :: tr' => silent true true tr'
  | _ :: tr' => silent quiet dead tr'
  end.


(* ---- UV_EOF after all data ---- *)
(* What the trace says about the kernel side: [k_hup] = the latest epoll
   report had EPOLLHUP; [k_fin] = the kernel has said "that was all": read
   returned 0, or (strict) a read came back short while EPOLLHUP was up. *)
Record monB := mkB { k_hup : bool; k_fin : bool }.

Definition kstep (strict : bool) (m : monB) (e : event) : monB :=
  match e with
  | EPoll raw => mkB (has raw POLLHUP) (k_fin m)
  | ESys len (Data n) _ => mkB (k_hup m) (k_fin m || (strict && k_hup m && (n <? len)))
  | ESys _ Eof _ => mkB (k_hup m) true
  | _ => m
  end.

Definition runB (strict : bool) (m : monB) (tr : list event) : monB :=
  fold_left (kstep strict) tr m.

(* kernel hypothesis: once it has said "that was all", no more data comes.
   With strict = true this contains "a short read under EPOLLHUP means the
   socket buffer is empty". *)
Fixpoint kernel_ok (strict : bool) (m : monB) (tr : list event) : Prop :=
  match tr with
  | [] => True
  | e :: tr' =>
      match e with ESys _ (Data _) _ => k_fin m = false | _ => True end /\
      kernel_ok strict (kstep strict m e) tr'
  end.

Definition errno_ok (a : ans) : Prop := a <> Err 4095%positive.


(* no data is read after a UV_EOF callback: all data came before it *)
Definition eof_after_all_data (tr : list event) : Prop :=
  forall pre post tok buf off len, tr = pre ++ ERead tok UV_EOF buf off len :: post ->
  forall l n o, ~ In (ESys l (Data n) o) post.

Definition monB0 : monB := mkB false false.


Definition no_data (tr : list event) : bool :=
  forallb (fun e => match e with ESys _ (Data _) _ => false | _ => true end) tr.

Fixpoint eof_data_b (tr : list event) : bool :=
  match tr with
  | [] => true
  | ERead _ n _ _ _ :: tr' => (if n =? UV_EOF then no_data tr' else true) && eof_data_b tr'
  | _ :: tr' => eof_data_b tr'
  end.


(* ---- boolean forms, for running on a concrete trace ---- *)
Fixpoint chain_b (p : Z) (l : list (Z * Z)) : bool :=
  match l with
  | [] => true
  | (off, len) :: l' => (off =? p) && (0 <? len) && chain_b (p + len) l'
  end.

Fixpoint chunks_eqb (a b : list (Z * Z)) : bool :=
  match a, b with
  | [], [] => true
  | (o1, l1) :: a', (o2, l2) :: b' => (o1 =? o2) && (l1 =? l2) && chunks_eqb a' b'
  | _, _ => false
  end.

Definition exact_b (tr : list event) : bool :=
  chunks_eqb (delivered tr) (kernel tr) && chain_b 0 (kernel tr).

Definition no_crash_b (tr : list event) : bool :=
  forallb (fun e => match e with ECrash => false | _ => true end) tr.

(* verdict on a trace: (stream exact, alloc paired, silent until restart, no NULL call) *)
Definition monitor (tr : list event) : bool * bool * bool * bool :=
  (exact_b tr, paired None tr, silent true false tr, no_crash_b tr).
