(* C18 proofs, part 10: completeness of inet_pton6: every text of the RFC 4291
   grammar is accepted with the grammar's value. *)
From UV Require Import Lib.Base Model.Inet Spec.InetSpec Proofs.InetProofs4 Proofs.InetProofs6
  Proofs.InetProofs6s.
From Coq Require Import NArithRing.
Local Open Scope N_scope.

Lemma xdigit_hexval c d : xdigit_val c d -> hexval c = Some d /\ d < 16.
Proof.
  unfold xdigit_val, hexval. intros H.
  repeat match goal with |- context [?a <=? ?b] =>
    let E := fresh in destruct (a <=? b) eqn:E; [apply N.leb_le in E | apply N.leb_gt in E] end;
  cbn [andb]; try (exfalso; lia);
  (destruct H as [(Ha & Hb & ->) | [(Ha & Hb & ->) | (Ha & Hb & ->)]]; try (exfalso; lia));
  (split; [reflexivity|lia]).
Qed.

Lemma loop_h16_digits h v : h16_digits h v ->
  forall rest ct out cp seen val, seen + nlen h <= 4 ->
  pton6_loop (h ++ rest) ct out cp seen val =
  pton6_loop rest ct out cp (seen + nlen h) (val * 16 ^ nlen h + v).
Proof.
  induction 1 as [c d Hx | s v c d Hs IH Hx]; intros rest ct out cp seen val Hl.
  - destruct (xdigit_hexval _ _ Hx) as [Hh _]. change (nlen [c]) with 1 in *.
    simpl app. rewrite (loop_xdigit c d) by (auto; lia). rewrite N.pow_1_r. reflexivity.
  - destruct (xdigit_hexval _ _ Hx) as [Hh _]. rewrite nlen_app in *. change (nlen [c]) with 1 in *.
    rewrite <- app_assoc. simpl app. rewrite IH by lia.
    rewrite (loop_xdigit c d) by (auto; lia). f_equal; [lia|].
    rewrite N.pow_add_r, N.pow_1_r. ring.
Qed.

Lemma h16_digits_bound h v : h16_digits h v -> v < 16 ^ nlen h.
Proof.
  induction 1 as [c d Hx | s v c d Hs IH Hx].
  - destruct (xdigit_hexval _ _ Hx) as [_ Hd]. change (nlen [c]) with 1. rewrite N.pow_1_r. exact Hd.
  - destruct (xdigit_hexval _ _ Hx) as [_ Hd]. rewrite nlen_app. change (nlen [c]) with 1.
    rewrite N.pow_add_r, N.pow_1_r. lia.
Qed.

Lemma h16_facts h v : h16_text h v -> v < 65536 /\ nlen h <> 0 /\ nlen h <= 4.
Proof.
  intros [Hd Hl]. pose proof (h16_digits_bound _ _ Hd) as Hb.
  destruct (h16_digits_head _ _ Hd) as (c & t & -> & _).
  assert (Hn : nlen (c :: t) <= 4) by (unfold nlen; lia).
  split; [|split; [unfold nlen; simpl; lia|exact Hn]].
  assert (16 ^ nlen (c :: t) <= 16 ^ 4) by (apply N.pow_le_mono_r; lia).
  change (16 ^ 4) with 65536 in *. lia.
Qed.

(* a group at the start of a token *)
Lemma loop_h16 h v rest ct out cp :
  h16_text h v ->
  pton6_loop (h ++ rest) ct out cp 0 0 = pton6_loop rest ct out cp (nlen h) v.
Proof.
  intros Hh. destruct (h16_facts _ _ Hh) as (_ & _ & Hl). destruct Hh as [Hd _].
  rewrite (loop_h16_digits _ _ Hd) by lia. f_equal; lia.
Qed.

Lemma octet_len ds v : octet_text ds v -> (length ds <= 3)%nat.
Proof.
  intros (_ & HF & Hlz & Hv & Hle). rewrite <- Hv in Hle. clear Hv.
  destruct ds as [|c1 [|c2 [|c3 [|c4 t]]]]; simpl; try lia. exfalso.
  assert (c1 <> 48) by (intros ->; specialize (Hlz _ eq_refl); discriminate).
  repeat match goal with H : Forall _ (_ :: _) |- _ => inversion H; clear H; subst end.
  unfold dval in Hle. cbn [fold_left] in Hle.
  pose proof (fold_dstep_ge t (dstep (dstep (dstep (dstep 0 c1) c2) c3) c4)) as G.
  unfold digit, dstep in *. lia.
Qed.

Lemma loop_dotted s q out cp :
  dotted_quad s q -> nlen out + 4 <= 16 ->
  pton6_loop s s out cp 0 0 = pton6_finish (out ++ q) cp 0 0.
Proof.
  intros Hq Hl. pose proof (pton4_complete _ _ Hq) as P4.
  destruct Hq as (s0 & s1 & s2 & s3 & v0 & v1 & v2 & v3 & E & O0 & _).
  pose proof (octet_len _ _ O0) as Hlen. destruct O0 as (_ & HF & _).
  set (T := s) in *. rewrite E at 1.
  destruct (loop_decdigits s0 (46 :: s1 ++ 46 :: s2 ++ 46 :: s3) T out cp 0 0 HF) as [v' Hv'];
    [unfold nlen; lia|].
  rewrite Hv'. cbn [pton6_loop]. change (hexval 46) with (@None N). cbn [N.eqb Pos.eqb].
  assert (Eb : nlen out + 4 <=? 16 = true) by (apply N.leb_le; lia). rewrite Eb. cbn [andb].
  rewrite P4. reflexivity.
Qed.

Lemma tseq_ne s ws : tseq_text s ws -> s <> [].
Proof. intros H. destruct (tseq_head _ _ H) as (? & ? & -> & _). discriminate. Qed.

Lemma hi_small v : v < 65536 -> (v / 256) mod 256 = v / 256.
Proof. intros. apply N.mod_small. lia. Qed.

(* a tail sequence up to the end of the string *)
Lemma comp_tseq t ws : tseq_text t ws -> forall out cp,
  (length out + 2 * length ws <= 16)%nat ->
  pton6_loop t t out cp 0 0 = pton6_finish (out ++ bytes_of_words ws) cp 0 0.
Proof.
  induction 1 as [s v Hh | s a b c d Hq | s v t ws Hh Ht IH]; intros out cp Hl; cbn [length] in Hl.
  - destruct (h16_facts _ _ Hh) as (Hv & Hne & _).
    rewrite <- (app_nil_r s) at 1. rewrite (loop_h16 _ _ _ _ _ _ Hh). cbn [pton6_loop].
    rewrite finish_store by (auto; unfold nlen; lia). rewrite hi_small by exact Hv. reflexivity.
  - destruct (dotted_quad_bytes _ _ Hq) as (x0 & x1 & x2 & x3 & E & B0 & B1 & B2 & B3).
    inversion E; subst. rewrite (loop_dotted _ _ _ _ Hq) by (unfold nlen; lia).
    rewrite bw_quad by assumption. reflexivity.
  - destruct (h16_facts _ _ Hh) as (Hv & Hne & _).
    rewrite (loop_h16 _ _ _ _ _ _ Hh).
    rewrite loop_colon_store; [| exact Hne | eapply tseq_ne; eauto | unfold nlen; lia].
    rewrite IH by (rewrite app_length; cbn [length]; lia).
    rewrite hi_small by exact Hv. rewrite <- app_assoc. reflexivity.
Qed.

(* head groups followed by "::" *)
Lemma comp_hseq s1 ws1 : hseq_text s1 ws1 -> forall s2 out,
  (length out + 2 * length ws1 <= 16)%nat ->
  pton6_loop (s1 ++ 58 :: 58 :: s2) (s1 ++ 58 :: 58 :: s2) out None 0 0 =
  pton6_loop s2 s2 (out ++ bytes_of_words ws1)
             (Some (length (out ++ bytes_of_words ws1))) 0 0.
Proof.
  induction 1 as [s v Hh | s v t ws Hh Ht IH]; intros s2 out Hl; cbn [length] in Hl.
  - destruct (h16_facts _ _ Hh) as (Hv & Hne & _).
    rewrite (loop_h16 _ _ _ _ _ _ Hh).
    rewrite loop_colon_store; [| exact Hne | discriminate | unfold nlen; lia].
    rewrite loop_colon_gap. rewrite hi_small by exact Hv. reflexivity.
  - destruct (h16_facts _ _ Hh) as (Hv & Hne & _).
    rewrite <- app_assoc. cbn [app]. rewrite (loop_h16 _ _ _ _ _ _ Hh).
    assert (Hne2 : t ++ 58 :: 58 :: s2 <> []).
    { destruct (hseq_head _ _ Ht) as (? & ? & -> & _). discriminate. }
    rewrite loop_colon_store; [| exact Hne | exact Hne2 | unfold nlen; lia].
    rewrite IH by (rewrite app_length; cbn [length]; lia).
    rewrite hi_small by exact Hv. rewrite <- app_assoc. reflexivity.
Qed.

Lemma finish_none_fwd out : length out = 16%nat -> pton6_finish out None 0 0 = (0%Z, out).
Proof.
  intros H. unfold pton6_finish. cbn [N.eqb].
  assert (E : nlen out =? 16 = true) by (apply N.eqb_eq; unfold nlen; lia). rewrite E. reflexivity.
Qed.

Lemma finish_some_fwd out c :
  (length out < 16)%nat -> (c <= length out)%nat ->
  pton6_finish out (Some c) 0 0 =
  (0%Z, firstn c out ++ repeat 0 (16 - length out) ++ skipn c out).
Proof.
  intros Hl Hc. unfold pton6_finish. cbn [N.eqb].
  assert (E : nlen out =? 16 = false) by (apply N.eqb_neq; unfold nlen; lia). rewrite E.
  rewrite shift_spec by assumption. reflexivity.
Qed.

Lemma pton6_start_ne58 c t :
  c <> 58 -> inet_pton6 (c :: t) = pton6_loop (c :: t) (c :: t) [] None 0 0.
Proof. intros H. unfold inet_pton6. apply N.eqb_neq in H. rewrite H. reflexivity. Qed.

Lemma tail_fwd s2 ws2 out :
  opt_tseq s2 ws2 -> (length out + 2 * length ws2 < 16)%nat ->
  pton6_loop s2 s2 out (Some (length out)) 0 0 =
  (0%Z, out ++ repeat 0 (16 - length out - 2 * length ws2) ++ bytes_of_words ws2).
Proof.
  intros [[-> ->] | Ht] Hl.
  - cbn [pton6_loop]. rewrite finish_some_fwd by (simpl in Hl; lia).
    rewrite firstn_all, skipn_all. cbn [length bytes_of_words].
    replace (16 - length out - 2 * 0)%nat with (16 - length out)%nat by lia. reflexivity.
  - rewrite (comp_tseq _ _ Ht) by lia.
    rewrite finish_some_fwd by (rewrite app_length, bytes_of_words_len; lia).
    rewrite firstn_len_app by reflexivity.
    rewrite skipn_app, skipn_all, Nat.sub_diag. cbn [skipn app].
    rewrite app_length, bytes_of_words_len.
    replace (16 - (length out + 2 * length ws2))%nat
      with (16 - length out - 2 * length ws2)%nat by lia.
    reflexivity.
Qed.

Theorem pton6_complete s b : ip6_text s b -> inet_pton6 s = (0%Z, b).
Proof.
  intros [(ws & Ht & Hl & ->) | (s1 & s2 & ws1 & ws2 & -> & H1 & H2 & Hl & ->)].
  - destruct (tseq_head _ _ Ht) as (c & t & E & Hc). rewrite E. rewrite pton6_start_ne58 by exact Hc.
    rewrite <- E. rewrite (comp_tseq _ _ Ht) by (simpl; lia).
    cbn [app]. apply finish_none_fwd. rewrite bytes_of_words_len. lia.
  - rewrite !bytes_of_words_app, bytes_of_words_zeros.
    destruct H1 as [[-> ->] | Hh].
    + cbn [app]. rewrite pton6_start_gap.
      change (Some 0%nat) with (Some (@length N [])).
      rewrite (tail_fwd _ _ _ H2) by (simpl in *; lia).
      cbn [length app bytes_of_words].
      replace (2 * (8 - 0 - length ws2))%nat with (16 - 0 - 2 * length ws2)%nat by lia.
      reflexivity.
    + destruct (hseq_head _ _ Hh) as (c & t & E & Hc).
      assert (Es : s1 ++ 58 :: 58 :: s2 = c :: (t ++ 58 :: 58 :: s2)) by (rewrite E; reflexivity).
      rewrite Es. rewrite pton6_start_ne58 by exact Hc. rewrite <- Es.
      rewrite (comp_hseq _ _ Hh) by (simpl; lia). cbn [app].
      rewrite (tail_fwd _ _ _ H2) by (rewrite bytes_of_words_len; lia).
      rewrite bytes_of_words_len.
      replace (2 * (8 - length ws1 - length ws2))%nat
        with (16 - 2 * length ws1 - 2 * length ws2)%nat by lia.
      reflexivity.
Qed.

Theorem pton6_iff_grammar s b : inet_pton6 s = (0%Z, b) <-> ip6_text s b.
Proof. split; [apply pton6_sound | apply pton6_complete]. Qed.
