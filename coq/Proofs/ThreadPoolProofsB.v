(* C08, layer B: the slow-I/O marker and the counters slow_io_work_running / idle_threads
   (invariant InvB of ThreadPoolDefs.v) hold in every reachable state. *)
From UV Require Import Lib.Base Model.ThreadPool Proofs.ThreadPoolDefs.

Definition b2n (b : bool) : nat := if b then 1 else 0.

Lemma updf_same {A} (f : nat -> A) i v : updf f i v i = v.
Proof. unfold updf. rewrite Nat.eqb_refl. reflexivity. Qed.
Lemma updf_other {A} (f : nat -> A) i v j : j <> i -> updf f i v j = f j.
Proof. unfold updf. intros H. destruct (Nat.eqb_spec j i); congruence. Qed.

Lemma cnt_notin p (f : nat -> wpc) i v l :
  ~ In i l ->
  length (filter (fun j => p (updf f i v j)) l) = length (filter (fun j => p (f j)) l).
Proof.
  induction l as [|x l IH]; intros H; cbn [filter]; [reflexivity|].
  rewrite updf_other by (intros ->; apply H; left; reflexivity).
  destruct (p (f x)); cbn [length]; rewrite IH; auto; intros K; apply H; right; exact K.
Qed.

Lemma cnt_in p (f : nat -> wpc) i v l :
  NoDup l -> In i l ->
  length (filter (fun j => p (updf f i v j)) l) + b2n (p (f i)) =
  length (filter (fun j => p (f j)) l) + b2n (p v).
Proof.
  induction l as [|x l IH]; intros ND HI; [destruct HI|].
  inversion ND as [|? ? Hx ND']; subst.
  cbn [filter]. destruct HI as [->|HI].
  - rewrite updf_same. pose proof (cnt_notin p f i v l Hx) as K.
    destruct (p v), (p (f i)); cbn [length b2n]; lia.
  - assert (x <> i) by (intros ->; contradiction).
    rewrite updf_other by exact H.
    specialize (IH ND' HI).
    destruct (p (f x)); cbn [length]; lia.
Qed.

Lemma countw_updf p n f i v :
  i < n -> countw p n (updf f i v) + b2n (p (f i)) = countw p n f + b2n (p v).
Proof.
  intros H. unfold countw. apply cnt_in; [apply seq_NoDup | apply in_seq; lia].
Qed.

Lemma countw_pos p n f i : i < n -> p (f i) = true -> 1 <= countw p n f.
Proof.
  intros H Hp. unfold countw.
  assert (In i (filter (fun j => p (f j)) (seq 0 n))) as K.
  { apply filter_In. split; [apply in_seq; lia | exact Hp]. }
  destruct (filter (fun j => p (f j)) (seq 0 n)); [destruct K | cbn [length]; lia].
Qed.

(* ---- states that InvB cannot tell apart ---- *)
Definition sameB (s s' : state) : Prop :=
  wq s' = wq s /\ sp s' = sp s /\ running s' = running s /\ idle s' = idle s /\
  nreq s' = nreq s /\ wk s' = wk s /\ forall r, r_kind (reqs s' r) = r_kind (reqs s r).

Lemma sameB_refl s : sameB s s.
Proof. unfold sameB; intuition. Qed.
Lemma sameB_trans a b c : sameB a b -> sameB b c -> sameB a c.
Proof.
  unfold sameB. intros (A1 & A2 & A3 & A4 & A5 & A6 & A7) (B1 & B2 & B3 & B4 & B5 & B6 & B7).
  repeat split; try congruence.
Qed.

Lemma InvB_sameB c s s' : InvB c s -> sameB s s' -> InvB c s'.
Proof.
  intros H (E1 & E2 & E3 & E4 & E5 & E6 & E7). destruct H.
  constructor; rewrite ?E1, ?E2, ?E3, ?E4, ?E5, ?E6; auto.
  - intros r Hr. rewrite E7. auto.
  - intros r Hr. rewrite E7. auto.
  - intros w r b Hw. rewrite E7. eauto.
Qed.

Lemma sameB_emit s e : sameB s (emit s e).
Proof. unfold sameB; cbn; intuition. Qed.
Lemma sameB_sync s t o : sameB s (sync_ev s t o).
Proof. apply sameB_emit. Qed.
Lemma sameB_set_loop s l x : sameB s (set_loop s l x).
Proof. unfold sameB; cbn; intuition. Qed.
Lemma sameB_set_gmutex s v : sameB s (set_gmutex s v).
Proof. unfold sameB; cbn; intuition. Qed.
Lemma sameB_set_rst s r st : sameB s (set_rst s r st).
Proof.
  unfold sameB; cbn; repeat split; auto. intros r'. unfold updf.
  destruct (Nat.eqb_spec r' r); subst; reflexivity.
Qed.
Lemma sameB_set_rwork s r wf : sameB s (set_rwork s r wf).
Proof.
  unfold sameB; cbn; repeat split; auto. intros r'. unfold updf.
  destruct (Nat.eqb_spec r' r); subst; reflexivity.
Qed.

Ltac sB :=
  repeat first
    [ apply sameB_refl
    | eapply sameB_trans; [| apply sameB_emit]
    | eapply sameB_trans; [| apply sameB_sync]
    | eapply sameB_trans; [| apply sameB_set_loop]
    | eapply sameB_trans; [| apply sameB_set_gmutex]
    | eapply sameB_trans; [| apply sameB_set_rst]
    | eapply sameB_trans; [| apply sameB_set_rwork] ].

Lemma sameB_settle l s : sameB s (settle l s).
Proof. unfold settle. destruct (l_prog (lp s l)); sB. Qed.

Lemma sameB_deliver c l loc : forall s, sameB s (deliver c l loc s).
Proof.
  induction loc as [|r rest IH]; intros s; cbn [deliver].
  - eapply sameB_trans; [| apply sameB_settle]. sB.
  - destruct (c_beh c r).
    + eapply sameB_trans; [| apply IH]. sB.
    + sB.
Qed.

Lemma sameB_advance c l s : sameB s (advance c l s).
Proof.
  unfold advance.
  destruct (l_cb (pop_op (lp s l))).
  - destruct (l_in_done (pop_op (lp s l))).
    + eapply sameB_trans; [| apply sameB_deliver]. sB.
    + eapply sameB_trans; [| apply sameB_settle]. sB.
  - sB.
Qed.

(* ---- uv_cond_signal ---- *)
Lemma signal_spec c t aux s :
  wq (signal c t aux s) = wq s /\ sp (signal c t aux s) = sp s /\
  running (signal c t aux s) = running s /\ idle (signal c t aux s) = idle s /\
  nreq (signal c t aux s) = nreq s /\ reqs (signal c t aux s) = reqs s /\
  (wk (signal c t aux s) = wk s \/
   exists i, i < c_n c /\ wk s i = WWait false /\ wk (signal c t aux s) = updf (wk s) i (WWait true)).
Proof.
  unfold signal. cbn [sync_ev emit wk].
  destruct (waiters (c_n c) (wk s)) as [|a ws] eqn:E.
  - cbn. repeat split; auto.
  - cbn [set_worker set_wk wq sp running idle nreq reqs wk].
    repeat split; auto. right.
    set (i := nth (aux mod length (a :: ws)) (a :: ws) 0).
    assert (In i (waiters (c_n c) (wk s))) as Hi.
    { rewrite E. apply nth_In. apply Nat.mod_upper_bound. cbn [length]. lia. }
    unfold waiters in Hi. apply filter_In in Hi. destruct Hi as [Hs Hu].
    apply in_seq in Hs. exists i. split; [lia|]. split; [|reflexivity].
    unfold unsignalled in Hu. destruct (wk s i) as [| [] | |]; try discriminate. reflexivity.
Qed.

(* a worker changes pc without changing what InvB sees of it *)
Lemma InvB_neutral_worker c s s' i p' :
  InvB c s -> i < c_n c ->
  wq s' = wq s -> sp s' = sp s -> running s' = running s -> idle s' = idle s ->
  nreq s' = nreq s -> (forall r, r_kind (reqs s' r) = r_kind (reqs s r)) ->
  wk s' = updf (wk s) i p' ->
  slow_pc p' = slow_pc (wk s i) -> wait_pc p' = wait_pc (wk s i) -> p' <> WExited ->
  (forall r b, p' = WRun r b -> wk s i = WRun r b) ->
  InvB c s'.
Proof.
  intros H Hi E1 E2 E3 E4 E5 E7 E6 Hs Hw Hx Hr. destruct H.
  constructor; rewrite ?E1, ?E2, ?E3, ?E4, ?E5, ?E6; auto.
  - intros r Hq. rewrite E7. auto.
  - intros r Hq. rewrite E7. auto.
  - intros w r b. unfold updf. destruct (Nat.eqb_spec w i); subst.
    + intros K. rewrite E7. eauto.
    + intros K. rewrite E7. eauto.
  - pose proof (countw_updf slow_pc (c_n c) (wk s) i p' Hi) as K. rewrite Hs in K. lia.
  - pose proof (countw_updf wait_pc (c_n c) (wk s) i p' Hi) as K. rewrite Hw in K. lia.
  - intros w. unfold updf. destruct (Nat.eqb_spec w i); subst; auto.
  - intros w Hn. unfold updf. destruct (Nat.eqb_spec w i); subst; [lia | auto].
Qed.

Lemma InvB_signal c t aux s : InvB c s -> InvB c (signal c t aux s).
Proof.
  intros H. destruct (signal_spec c t aux s) as (E1 & E2 & E3 & E4 & E5 & E6 & [E7 | (i & Hi & Hw & E7)]).
  - apply (InvB_sameB c s); [exact H|]. unfold sameB. rewrite E6. intuition.
  - eapply (InvB_neutral_worker c s _ i (WWait true)); eauto.
    + intros r. rewrite E6. reflexivity.
    + rewrite Hw. reflexivity.
    + rewrite Hw. reflexivity.
    + discriminate.
    + discriminate.
Qed.

Lemma InvB_signal_if_idle c t aux s : InvB c s -> InvB c (signal_if_idle c t aux s).
Proof. intros H. unfold signal_if_idle. destruct (0 <? idle s); [apply InvB_signal|]; exact H. Qed.

Lemma signal_if_idle_spec c t aux s :
  wq (signal_if_idle c t aux s) = wq s /\ sp (signal_if_idle c t aux s) = sp s /\
  running (signal_if_idle c t aux s) = running s /\ nreq (signal_if_idle c t aux s) = nreq s /\
  reqs (signal_if_idle c t aux s) = reqs s /\
  (forall w r b, wk (signal_if_idle c t aux s) w = WRun r b <-> wk s w = WRun r b) /\
  (forall w b, wk (signal_if_idle c t aux s) w = WRelock b <-> wk s w = WRelock b).
Proof.
  unfold signal_if_idle. destruct (0 <? idle s); [| repeat split; auto].
  destruct (signal_spec c t aux s) as (E1 & E2 & E3 & E4 & E5 & E6 & [E7 | (i & Hi & Hw & E7)]);
    repeat split; auto; try (rewrite E7; auto; fail); rewrite E7; unfold updf;
    destruct (Nat.eqb_spec w i); subst; auto; try discriminate; rewrite Hw; discriminate.
Qed.

(* ---- list facts about the marker ---- *)
Lemma filter_marker_app q1 q2 :
  length (filter is_marker (q1 ++ q2)) = length (filter is_marker q1) + length (filter is_marker q2).
Proof. rewrite filter_app, app_length. reflexivity. Qed.

Lemma has_marker_app q1 q2 : has_marker (q1 ++ q2) = has_marker q1 || has_marker q2.
Proof. unfold has_marker. apply existsb_app. Qed.

Lemma has_marker_false_count q : has_marker q = false -> length (filter is_marker q) = 0.
Proof.
  induction q as [|x q IH]; cbn; [reflexivity|].
  destruct (is_marker x); cbn; [discriminate | exact IH].
Qed.

Lemma has_marker_remw r q : has_marker (remw r q) = has_marker q.
Proof.
  induction q as [|x q IH]; cbn; [reflexivity|].
  destruct x as [r'| |]; cbn.
  - destruct (Nat.eqb r' r); cbn; exact IH.
  - reflexivity.
  - exact IH.
Qed.

Lemma count_marker_remw r q : length (filter is_marker (remw r q)) = length (filter is_marker q).
Proof.
  unfold remw. induction q as [|x q IH]; cbn; [reflexivity|].
  destruct x as [r'| |]; cbn.
  - destruct (Nat.eqb r' r); cbn; exact IH.
  - f_equal. exact IH.
  - exact IH.
Qed.

Lemma In_remw r q i : In i (remw r q) -> In i q.
Proof. unfold remw. intros H. apply filter_In in H. tauto. Qed.
Lemma In_rem r q i : In i (rem r q) -> In i q.
Proof. unfold rem. intros H. apply filter_In in H. tauto. Qed.

(* ---- the initial state ---- *)
Lemma countw_const p n (f : nat -> wpc) v : (forall i, f i = v) -> p v = false -> countw p n f = 0.
Proof.
  intros Hf Hp. unfold countw.
  assert (forall l, filter (fun i => p (f i)) l = []) as K.
  { induction l as [|x l IH]; cbn; [reflexivity|]. rewrite Hf, Hp. exact IH. }
  rewrite K. reflexivity.
Qed.

Lemma InvB_init c progs : InvB c (init c progs).
Proof.
  constructor; cbn; try lia; try tauto; try discriminate.
  - rewrite (countw_const slow_pc (c_n c) _ (WRelock false)); auto.
  - rewrite (countw_const wait_pc (c_n c) _ (WRelock false)); auto.
Qed.

(* ---- effect of a possible uv_cond_signal on the worker table ---- *)
Definition sigrel (n : nat) (f f' : nat -> wpc) : Prop :=
  f' = f \/ exists i, i < n /\ f i = WWait false /\ f' = updf f i (WWait true).

Lemma sigrel_refl n f : sigrel n f f.
Proof. left. reflexivity. Qed.

Lemma sigrel_pt n f f' : sigrel n f f' ->
  forall w, f' w = f w \/ (f w = WWait false /\ f' w = WWait true).
Proof.
  intros [-> | (i & Hi & Hw & ->)] w; [left; reflexivity|].
  unfold updf. destruct (Nat.eqb_spec w i); subst; [right; auto | left; reflexivity].
Qed.

Lemma sigrel_counts n f f' : sigrel n f f' ->
  countw slow_pc n f' = countw slow_pc n f /\ countw wait_pc n f' = countw wait_pc n f.
Proof.
  intros [-> | (i & Hi & Hw & ->)]; [split; reflexivity|].
  pose proof (countw_updf slow_pc n f i (WWait true) Hi) as K1.
  pose proof (countw_updf wait_pc n f i (WWait true) Hi) as K2.
  rewrite Hw in K1, K2. cbn in K1, K2. lia.
Qed.

Lemma signal_if_idle_rel c t aux s :
  wq (signal_if_idle c t aux s) = wq s /\ sp (signal_if_idle c t aux s) = sp s /\
  running (signal_if_idle c t aux s) = running s /\ idle (signal_if_idle c t aux s) = idle s /\
  nreq (signal_if_idle c t aux s) = nreq s /\ reqs (signal_if_idle c t aux s) = reqs s /\
  sigrel (c_n c) (wk s) (wk (signal_if_idle c t aux s)).
Proof.
  unfold signal_if_idle. destruct (0 <? idle s).
  - destruct (signal_spec c t aux s) as (E1 & E2 & E3 & E4 & E5 & E6 & E7). unfold sigrel. intuition.
  - repeat split; auto. apply sigrel_refl.
Qed.

(* ---- worker transitions ---- *)
(* the general shape: worker w (pc WRelock false) leaves with pc p', possibly after a signal *)
Lemma InvB_leave c s s' w p' f' :
  InvB c s -> w < c_n c -> wk s w = WRelock false ->
  sigrel (c_n c) (wk s) f' -> wk s' = updf f' w p' ->
  nreq s' = nreq s -> (forall r, r_kind (reqs s' r) = r_kind (reqs s r)) ->
  length (filter is_marker (wq s')) <= 1 ->
  (sp s' <> [] -> has_marker (wq s') = true) ->
  (forall i, In i (wq s') -> In i (wq s)) ->
  (forall r, In r (sp s') -> In r (sp s)) ->
  running s' + b2n (slow_pc (WRelock false)) = running s + b2n (slow_pc p') ->
  running s' <= threshold (c_n c) ->
  idle s' = idle s + b2n (wait_pc p') ->
  p' <> WExited ->
  (forall r b, p' = WRun r b -> r < nreq s /\ (b = true <-> r_kind (reqs s r) = KSlow)) ->
  InvB c s'.
Proof.
  intros H Hw Hpc Hsig Ewk En Ek Hm Hsm Hq Hsp Hrun Hcap Hidle Hx Hr.
  destruct (sigrel_counts _ _ _ Hsig) as [C1 C2].
  pose proof (sigrel_pt _ _ _ Hsig) as Hpt.
  assert (f' w = WRelock false) as Hfw.
  { destruct (Hpt w) as [K | [K _]]; congruence. }
  destruct H. constructor.
  - exact Hm.
  - exact Hsm.
  - intros K. apply b_noexit. auto.
  - rewrite En. intros r [K | K]; apply b_lt; auto.
  - intros r K. rewrite Ek. auto.
  - intros r K. rewrite Ek. auto.
  - intros w0 r b. rewrite Ewk, En. unfold updf. destruct (Nat.eqb_spec w0 w); subst.
    + intros K. rewrite Ek. auto.
    + intros K. rewrite Ek. destruct (Hpt w0) as [K2 | [_ K2]]; [|congruence].
      apply (b_run_lt w0). congruence.
  - rewrite Ewk. pose proof (countw_updf slow_pc (c_n c) f' w p' Hw) as K.
    rewrite Hfw in K. cbn [slow_pc b2n] in *. lia.
  - exact Hcap.
  - rewrite Ewk. pose proof (countw_updf wait_pc (c_n c) f' w p' Hw) as K.
    rewrite Hfw in K. cbn [wait_pc b2n] in *. lia.
  - intros w0. rewrite Ewk. unfold updf. destruct (Nat.eqb_spec w0 w); subst; auto.
    destruct (Hpt w0) as [K | [_ K]]; rewrite K; [apply b_noexited | discriminate].
  - intros w0 Hn. rewrite Ewk. unfold updf. destruct (Nat.eqb_spec w0 w); subst; [lia|].
    destruct (Hpt w0) as [K | [K _]]; [rewrite K; auto|]. rewrite b_outside in K by exact Hn. discriminate.
Qed.

Lemma InvB_set_wq c s q' :
  InvB c s ->
  length (filter is_marker q') <= 1 ->
  (sp s <> [] -> has_marker q' = true) ->
  (forall i, In i q' -> In i (wq s)) ->
  InvB c (set_wq s q').
Proof.
  intros H Hm Hsm Hq. destruct H. constructor; cbn; auto.
  intros r [K | K]; apply b_lt; auto.
Qed.

Arguments threshold : simpl never.

Lemma kind_updf_st (f : nat -> req) r st r0 :
  r_kind (updf f r (mkReq (r_loop (f r)) (r_kind (f r)) (r_work (f r)) st) r0) = r_kind (f r0).
Proof. unfold updf. destruct (Nat.eqb_spec r0 r); subst; reflexivity. Qed.

Ltac leave_tac H :=
  cbn; try reflexivity; try lia; try discriminate; auto using sigrel_refl;
  try (destruct H; cbn in *; auto; fail).

Lemma marker_head_rest rest :
  length (filter is_marker (ISlowMsg :: rest)) <= 1 -> length (filter is_marker rest) = 0.
Proof. cbn. lia. Qed.

Lemma count0_has_marker q : length (filter is_marker q) = 0 -> has_marker q = false.
Proof.
  induction q as [|x q IH]; cbn; [reflexivity|].
  destruct (is_marker x); cbn; [discriminate | exact IH].
Qed.

Lemma InvB_wloop fuel : forall c t w aux s,
  InvB c s -> w < c_n c -> wk s w = WRelock false -> InvB c (wloop fuel c t w aux s).
Proof.
  induction fuel as [|fuel IH]; intros c t w aux s H Hw Hpc; cbn [wloop].
  - destruct (wait_pred c s).
    + eapply (InvB_leave c s _ w (WWait false) (wk s)); eauto using sigrel_refl; leave_tac H.
    + eapply (InvB_leave c s _ w (WRelock false) (wk s)); eauto using sigrel_refl; leave_tac H.
  - destruct (wait_pred c s).
    + eapply (InvB_leave c s _ w (WWait false) (wk s)); eauto using sigrel_refl; leave_tac H.
    + destruct (wq s) as [|[r| |] rest] eqn:Eq.
      * exact H.
      * (* IWork r :: rest *)
        pose proof H as H'. destruct H'. rewrite Eq in *.
        eapply (InvB_leave c s _ w (WRun r false) (wk s) H Hw Hpc); cbn.
        -- apply sigrel_refl.
        -- reflexivity.
        -- reflexivity.
        -- intros r0. apply kind_updf_st.
        -- exact b_marker.
        -- intros K. apply b_sp_marker in K. cbn in K. exact K.
        -- intros i K. rewrite Eq. right. exact K.
        -- auto.
        -- lia.
        -- exact b_cap.
        -- lia.
        -- discriminate.
        -- intros r0 b E. inversion E; subst. split.
           ++ apply b_lt. left. left. reflexivity.
           ++ split; [discriminate|]. intros K. exfalso. apply (b_kind_wq r0); [left; reflexivity | exact K].
      * (* ISlowMsg :: rest *)
        pose proof H as H'. destruct H'. rewrite Eq in *.
        pose proof (marker_head_rest rest b_marker) as Hm0.
        destruct (threshold (c_n c) <=? running s) eqn:Eth.
        -- apply IH; auto. apply InvB_set_wq; auto.
           ++ rewrite filter_marker_app. cbn. lia.
           ++ intros _. rewrite has_marker_app. cbn. apply orb_true_r.
           ++ intros i K. rewrite Eq. apply in_app_or in K. destruct K as [K | [<- | []]]; [right; exact K | left; reflexivity].
        -- destruct (sp s) as [|r sp'] eqn:Esp.
           ++ apply IH; auto. apply InvB_set_wq; auto.
              ** lia.
              ** intros i K. rewrite Eq. right. exact K.
           ++ apply Nat.leb_gt in Eth.
              assert (r < nreq s /\ r_kind (reqs s r) = KSlow) as [Hr1 Hr2].
              { split; [apply b_lt; right; left; reflexivity | apply b_kind_sp; left; reflexivity]. }
              destruct sp' as [|r2 sp''].
              ** eapply (InvB_leave c s _ w (WRun r true) (wk s) H Hw Hpc); cbn.
                 --- apply sigrel_refl.
                 --- reflexivity.
                 --- reflexivity.
                 --- intros r0. apply kind_updf_st.
                 --- lia.
                 --- congruence.
                 --- intros i K. rewrite Eq. right. exact K.
                 --- intros r0 K. destruct K.
                 --- lia.
                 --- lia.
                 --- lia.
                 --- discriminate.
                 --- intros r0 b E. inversion E; subst. split; [exact Hr1 | tauto].
              ** set (s1 := set_wq (set_sp (set_running (set_wq s rest) (S (running s))) (r2 :: sp''))
                                   (rest ++ [ISlowMsg])).
                 destruct (signal_if_idle_rel c t aux s1) as (E1 & E2 & E3 & E4 & E5 & E6 & E7).
                 eapply (InvB_leave c s _ w (WRun r true) (wk (signal_if_idle c t aux s1)) H Hw Hpc); cbn.
                 --- exact E7.
                 --- reflexivity.
                 --- fold s1. rewrite E5. reflexivity.
                 --- intros r0. rewrite kind_updf_st. fold s1. rewrite E6. reflexivity.
                 --- fold s1. rewrite E1. cbn. rewrite filter_marker_app. cbn. lia.
                 --- intros _. fold s1. rewrite E1. cbn. rewrite has_marker_app. cbn. apply orb_true_r.
                 --- fold s1. intros i K. rewrite E1 in K. cbn in K. rewrite Eq. apply in_app_or in K.
                     destruct K as [K | [<- | []]]; [right; exact K | left; reflexivity].
                 --- fold s1. intros r0 K. rewrite E2 in K. cbn in K. rewrite Esp. right. exact K.
                 --- fold s1. rewrite E3. cbn. lia.
                 --- fold s1. rewrite E3. cbn. lia.
                 --- fold s1. rewrite E4. cbn. lia.
                 --- discriminate.
                 --- intros r0 b E. inversion E; subst. split; [exact Hr1 | tauto].
      * (* IExit *)
        exfalso. destruct H. apply b_noexit. rewrite Eq. left. reflexivity.
Qed.

(* worker w changes its pc together with the counters *)
Lemma InvB_worker_set c s s' w p' :
  InvB c s -> w < c_n c ->
  wq s' = wq s -> sp s' = sp s -> nreq s' = nreq s ->
  (forall r, r_kind (reqs s' r) = r_kind (reqs s r)) ->
  wk s' = updf (wk s) w p' ->
  running s' + b2n (slow_pc (wk s w)) = running s + b2n (slow_pc p') ->
  running s' <= threshold (c_n c) ->
  idle s' + b2n (wait_pc (wk s w)) = idle s + b2n (wait_pc p') ->
  p' <> WExited ->
  (forall r b, p' = WRun r b -> wk s w = WRun r b) ->
  InvB c s'.
Proof.
  intros H Hw E1 E2 E5 E7 E6 Hrun Hcap Hidle Hx Hr. destruct H.
  constructor; rewrite ?E1, ?E2, ?E5; auto.
  - intros r Hq. rewrite E7. auto.
  - intros r Hq. rewrite E7. auto.
  - intros w0 r b. rewrite E6. unfold updf. destruct (Nat.eqb_spec w0 w); subst.
    + intros K. rewrite E7. eauto.
    + intros K. rewrite E7. eauto.
  - rewrite E6. pose proof (countw_updf slow_pc (c_n c) (wk s) w p' Hw) as K. lia.
  - rewrite E6. pose proof (countw_updf wait_pc (c_n c) (wk s) w p' Hw) as K. lia.
  - intros w0. rewrite E6. unfold updf. destruct (Nat.eqb_spec w0 w); subst; auto.
  - intros w0 Hn. rewrite E6. unfold updf. destruct (Nat.eqb_spec w0 w); subst; [lia | auto].
Qed.

Lemma InvB_wstep c s t w aux s' :
  InvB c s -> w < c_n c -> wstep c t w aux s = Some s' -> InvB c s'.
Proof.
  intros H Hw. unfold wstep. destruct (wk s w) as [slow | sg | r slow |] eqn:Epc.
  - destruct (is_free (gmutex s)); [|discriminate]. intros [= <-].
    apply InvB_wloop; [| exact Hw | cbn; apply updf_same].
    destruct slow.
    + assert (1 <= running s) as Hpos.
      { destruct H. rewrite b_running. apply (countw_pos slow_pc (c_n c) (wk s) w Hw). rewrite Epc. reflexivity. }
      eapply (InvB_worker_set c s _ w (WRelock false) H Hw); cbn; try reflexivity; rewrite ?Epc; cbn.
      * lia.
      * destruct H. lia.
      * lia.
      * discriminate.
      * discriminate.
    + eapply (InvB_worker_set c s _ w (WRelock false) H Hw); cbn; try reflexivity; rewrite ?Epc; cbn.
      * lia.
      * destruct H. lia.
      * lia.
      * discriminate.
      * discriminate.
  - destruct ((sg || (aux =? 1)) && is_free (gmutex s)); [|discriminate].
    intros [= <-].
    apply InvB_wloop; [| exact Hw | cbn; apply updf_same].
    assert (1 <= idle s) as Hpos.
    { destruct H. rewrite b_idle. apply (countw_pos wait_pc (c_n c) (wk s) w Hw). rewrite Epc. reflexivity. }
    eapply (InvB_worker_set c s _ w (WRelock false) H Hw); cbn; try reflexivity; rewrite ?Epc; cbn.
    + lia.
    + destruct H. lia.
    + lia.
    + discriminate.
    + discriminate.
  - intros [= <-]. unfold complete.
    eapply (InvB_worker_set c s _ w (WRelock slow) H Hw); cbn; try reflexivity; rewrite ?Epc; cbn.
    + intros r0. unfold updf.
      destruct (Nat.eqb_spec r0 r); subst; cbn; [|destruct (Nat.eqb_spec r0 r); subst; cbn; congruence].
      rewrite Nat.eqb_refl. reflexivity.
    + destruct slow; lia.
    + destruct H. lia.
    + lia.
    + discriminate.
    + discriminate.
  - discriminate.
Qed.
