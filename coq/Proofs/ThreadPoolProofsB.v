(* C08, layer B: the slow-I/O marker and the counters slow_io_work_running / idle_threads
   (invariant InvB of ThreadPoolDefs.v) hold in every reachable state. *)
From UV Require Import Lib.Base Model.ThreadPool Proofs.ThreadPoolDefs.

Definition b2n (b : bool) : nat := if b then 1 else 0.

Lemma updf_same {A} (f : nat -> A) i v : updf f i v i = v.
Proof. unfold updf. rewrite Nat.eqb_refl. reflexivity. Qed.
Lemma updf_other {A} (f : nat -> A) i v j : j <> i -> updf f i v j = f j.
Proof. unfold updf. intros H. destruct (Nat.eqb_spec j i); congruence. Qed.

Lemma cnt_notin p (f : nat -> wpc) i v l :
  ~ In i l ->
  length (filter (fun j => p (updf f i v j)) l) = length (filter (fun j => p (f j)) l).
Proof.
  induction l as [|x l IH]; intros H; cbn [filter]; [reflexivity|].
  rewrite updf_other by (intros ->; apply H; left; reflexivity).
  destruct (p (f x)); cbn [length]; rewrite IH; auto; intros K; apply H; right; exact K.
Qed.

Lemma cnt_in p (f : nat -> wpc) i v l :
  NoDup l -> In i l ->
  length (filter (fun j => p (updf f i v j)) l) + b2n (p (f i)) =
  length (filter (fun j => p (f j)) l) + b2n (p v).
Proof.
  induction l as [|x l IH]; intros ND HI; [destruct HI|].
  inversion ND as [|? ? Hx ND']; subst.
  cbn [filter]. destruct HI as [->|HI].
  - rewrite updf_same. pose proof (cnt_notin p f i v l Hx) as K.
    destruct (p v), (p (f i)); cbn [length b2n]; lia.
  - assert (x <> i) by (intros ->; contradiction).
    rewrite updf_other by exact H.
    specialize (IH ND' HI).
    destruct (p (f x)); cbn [length]; lia.
Qed.

Lemma countw_updf p n f i v :
  i < n -> countw p n (updf f i v) + b2n (p (f i)) = countw p n f + b2n (p v).
Proof.
  intros H. unfold countw. apply cnt_in; [apply seq_NoDup | apply in_seq; lia].
Qed.

Lemma countw_pos p n f i : i < n -> p (f i) = true -> 1 <= countw p n f.
Proof.
  intros H Hp. unfold countw.
  assert (In i (filter (fun j => p (f j)) (seq 0 n))) as K.
  { apply filter_In. split; [apply in_seq; lia | exact Hp]. }
  destruct (filter (fun j => p (f j)) (seq 0 n)); [destruct K | cbn [length]; lia].
Qed.

(* ---- states that InvB cannot tell apart ---- *)
Definition sameB (s s' : state) : Prop :=
  wq s' = wq s /\ sp s' = sp s /\ running s' = running s /\ idle s' = idle s /\
  nreq s' = nreq s /\ wk s' = wk s /\ forall r, r_kind (reqs s' r) = r_kind (reqs s r).

Lemma sameB_refl s : sameB s s.
Proof. unfold sameB; intuition. Qed.
Lemma sameB_trans a b c : sameB a b -> sameB b c -> sameB a c.
Proof.
  unfold sameB. intros (A1 & A2 & A3 & A4 & A5 & A6 & A7) (B1 & B2 & B3 & B4 & B5 & B6 & B7).
  repeat split; try congruence.
Qed.

Lemma InvB_sameB c s s' : InvB c s -> sameB s s' -> InvB c s'.
Proof.
  intros H (E1 & E2 & E3 & E4 & E5 & E6 & E7). destruct H.
  constructor; rewrite ?E1, ?E2, ?E3, ?E4, ?E5, ?E6; auto.
  - intros r Hr. rewrite E7. auto.
  - intros r Hr. rewrite E7. auto.
  - intros w r b Hw. rewrite E7. eauto.
Qed.

Lemma sameB_emit s e : sameB s (emit s e).
Proof. unfold sameB; cbn; intuition. Qed.
Lemma sameB_sync s t o : sameB s (sync_ev s t o).
Proof. apply sameB_emit. Qed.
Lemma sameB_set_loop s l x : sameB s (set_loop s l x).
Proof. unfold sameB; cbn; intuition. Qed.
Lemma sameB_set_gmutex s v : sameB s (set_gmutex s v).
Proof. unfold sameB; cbn; intuition. Qed.
Lemma sameB_set_rst s r st : sameB s (set_rst s r st).
Proof.
  unfold sameB; cbn; repeat split; auto. intros r'. unfold updf.
  destruct (Nat.eqb_spec r' r); subst; reflexivity.
Qed.
Lemma sameB_set_rwork s r wf : sameB s (set_rwork s r wf).
Proof.
  unfold sameB; cbn; repeat split; auto. intros r'. unfold updf.
  destruct (Nat.eqb_spec r' r); subst; reflexivity.
Qed.

Ltac sB :=
  repeat first
    [ apply sameB_refl
    | eapply sameB_trans; [| apply sameB_emit]
    | eapply sameB_trans; [| apply sameB_sync]
    | eapply sameB_trans; [| apply sameB_set_loop]
    | eapply sameB_trans; [| apply sameB_set_gmutex]
    | eapply sameB_trans; [| apply sameB_set_rst]
    | eapply sameB_trans; [| apply sameB_set_rwork] ].

Lemma sameB_settle l s : sameB s (settle l s).
Proof. unfold settle. destruct (l_prog (lp s l)); sB. Qed.

Lemma sameB_deliver c l loc : forall s, sameB s (deliver c l loc s).
Proof.
  induction loc as [|r rest IH]; intros s; cbn [deliver].
  - eapply sameB_trans; [| apply sameB_settle]. sB.
  - destruct (c_beh c r).
    + eapply sameB_trans; [| apply IH]. sB.
    + sB.
Qed.

Lemma sameB_advance c l s : sameB s (advance c l s).
Proof.
  unfold advance.
  destruct (l_cb (pop_op (lp s l))).
  - destruct (l_in_done (pop_op (lp s l))).
    + eapply sameB_trans; [| apply sameB_deliver]. sB.
    + eapply sameB_trans; [| apply sameB_settle]. sB.
  - sB.
Qed.

(* ---- uv_cond_signal ---- *)
Lemma signal_spec c t aux s :
  wq (signal c t aux s) = wq s /\ sp (signal c t aux s) = sp s /\
  running (signal c t aux s) = running s /\ idle (signal c t aux s) = idle s /\
  nreq (signal c t aux s) = nreq s /\ reqs (signal c t aux s) = reqs s /\
  (wk (signal c t aux s) = wk s \/
   exists i, i < c_n c /\ wk s i = WWait false /\ wk (signal c t aux s) = updf (wk s) i (WWait true)).
Proof.
  unfold signal. cbn [sync_ev emit wk].
  destruct (waiters (c_n c) (wk s)) as [|a ws] eqn:E.
  - cbn. repeat split; auto.
  - cbn [set_worker set_wk wq sp running idle nreq reqs wk].
    repeat split; auto. right.
    set (i := nth (aux mod length (a :: ws)) (a :: ws) 0).
    assert (In i (waiters (c_n c) (wk s))) as Hi.
    { rewrite E. apply nth_In. apply Nat.mod_upper_bound. cbn [length]. lia. }
    unfold waiters in Hi. apply filter_In in Hi. destruct Hi as [Hs Hu].
    apply in_seq in Hs. exists i. split; [lia|]. split; [|reflexivity].
    unfold unsignalled in Hu. destruct (wk s i) as [| [] | |]; try discriminate. reflexivity.
Qed.

(* a worker changes pc without changing what InvB sees of it *)
Lemma InvB_neutral_worker c s s' i p' :
  InvB c s -> i < c_n c ->
  wq s' = wq s -> sp s' = sp s -> running s' = running s -> idle s' = idle s ->
  nreq s' = nreq s -> (forall r, r_kind (reqs s' r) = r_kind (reqs s r)) ->
  wk s' = updf (wk s) i p' ->
  slow_pc p' = slow_pc (wk s i) -> wait_pc p' = wait_pc (wk s i) -> p' <> WExited ->
  (forall r b, p' = WRun r b -> wk s i = WRun r b) ->
  InvB c s'.
Proof.
  intros H Hi E1 E2 E3 E4 E5 E7 E6 Hs Hw Hx Hr. destruct H.
  constructor; rewrite ?E1, ?E2, ?E3, ?E4, ?E5, ?E6; auto.
  - intros r Hq. rewrite E7. auto.
  - intros r Hq. rewrite E7. auto.
  - intros w r b. unfold updf. destruct (Nat.eqb_spec w i); subst.
    + intros K. rewrite E7. eauto.
    + intros K. rewrite E7. eauto.
  - pose proof (countw_updf slow_pc (c_n c) (wk s) i p' Hi) as K. rewrite Hs in K. lia.
  - pose proof (countw_updf wait_pc (c_n c) (wk s) i p' Hi) as K. rewrite Hw in K. lia.
  - intros w. unfold updf. destruct (Nat.eqb_spec w i); subst; auto.
  - intros w Hn. unfold updf. destruct (Nat.eqb_spec w i); subst; [lia | auto].
Qed.

Lemma InvB_signal c t aux s : InvB c s -> InvB c (signal c t aux s).
Proof.
  intros H. destruct (signal_spec c t aux s) as (E1 & E2 & E3 & E4 & E5 & E6 & [E7 | (i & Hi & Hw & E7)]).
  - apply (InvB_sameB c s); [exact H|]. unfold sameB. rewrite E6. intuition.
  - eapply (InvB_neutral_worker c s _ i (WWait true)); eauto.
    + intros r. rewrite E6. reflexivity.
    + rewrite Hw. reflexivity.
    + rewrite Hw. reflexivity.
    + discriminate.
    + discriminate.
Qed.

Lemma InvB_signal_if_idle c t aux s : InvB c s -> InvB c (signal_if_idle c t aux s).
Proof. intros H. unfold signal_if_idle. destruct (0 <? idle s); [apply InvB_signal|]; exact H. Qed.

Lemma signal_if_idle_spec c t aux s :
  wq (signal_if_idle c t aux s) = wq s /\ sp (signal_if_idle c t aux s) = sp s /\
  running (signal_if_idle c t aux s) = running s /\ nreq (signal_if_idle c t aux s) = nreq s /\
  reqs (signal_if_idle c t aux s) = reqs s /\
  (forall w r b, wk (signal_if_idle c t aux s) w = WRun r b <-> wk s w = WRun r b) /\
  (forall w b, wk (signal_if_idle c t aux s) w = WRelock b <-> wk s w = WRelock b).
Proof.
  unfold signal_if_idle. destruct (0 <? idle s); [| repeat split; auto].
  destruct (signal_spec c t aux s) as (E1 & E2 & E3 & E4 & E5 & E6 & [E7 | (i & Hi & Hw & E7)]);
    repeat split; auto; try (rewrite E7; auto; fail); rewrite E7; unfold updf;
    destruct (Nat.eqb_spec w i); subst; auto; try discriminate; rewrite Hw; discriminate.
Qed.

(* ---- list facts about the marker ---- *)
Lemma filter_marker_app q1 q2 :
  length (filter is_marker (q1 ++ q2)) = length (filter is_marker q1) + length (filter is_marker q2).
Proof. rewrite filter_app, app_length. reflexivity. Qed.

Lemma has_marker_app q1 q2 : has_marker (q1 ++ q2) = has_marker q1 || has_marker q2.
Proof. unfold has_marker. apply existsb_app. Qed.

Lemma has_marker_false_count q : has_marker q = false -> length (filter is_marker q) = 0.
Proof.
  induction q as [|x q IH]; cbn; [reflexivity|].
  destruct (is_marker x); cbn; [discriminate | exact IH].
Qed.

Lemma has_marker_remw r q : has_marker (remw r q) = has_marker q.
Proof.
  induction q as [|x q IH]; cbn; [reflexivity|].
  destruct x as [r'| |]; cbn.
  - destruct (Nat.eqb r' r); cbn; exact IH.
  - reflexivity.
  - exact IH.
Qed.

Lemma count_marker_remw r q : length (filter is_marker (remw r q)) = length (filter is_marker q).
Proof.
  unfold remw. induction q as [|x q IH]; cbn; [reflexivity|].
  destruct x as [r'| |]; cbn.
  - destruct (Nat.eqb r' r); cbn; exact IH.
  - f_equal. exact IH.
  - exact IH.
Qed.

Lemma In_remw r q i : In i (remw r q) -> In i q.
Proof. unfold remw. intros H. apply filter_In in H. tauto. Qed.
Lemma In_rem r q i : In i (rem r q) -> In i q.
Proof. unfold rem. intros H. apply filter_In in H. tauto. Qed.

(* ---- the initial state ---- *)
Lemma countw_const p n (f : nat -> wpc) v : (forall i, f i = v) -> p v = false -> countw p n f = 0.
Proof.
  intros Hf Hp. unfold countw.
  assert (forall l, filter (fun i => p (f i)) l = []) as K.
  { induction l as [|x l IH]; cbn; [reflexivity|]. rewrite Hf, Hp. exact IH. }
  rewrite K. reflexivity.
Qed.

Lemma InvB_init c progs : InvB c (init c progs).
Proof.
  constructor; cbn; try lia; try tauto; try discriminate.
  - rewrite (countw_const slow_pc (c_n c) _ (WRelock false)); auto.
  - rewrite (countw_const wait_pc (c_n c) _ (WRelock false)); auto.
Qed.

(* ---- effect of a possible uv_cond_signal on the worker table ---- *)
Definition sigrel (n : nat) (f f' : nat -> wpc) : Prop :=
  f' = f \/ exists i, i < n /\ f i = WWait false /\ f' = updf f i (WWait true).

Lemma sigrel_refl n f : sigrel n f f.
Proof. left. reflexivity. Qed.

Lemma sigrel_pt n f f' : sigrel n f f' ->
  forall w, f' w = f w \/ (f w = WWait false /\ f' w = WWait true).
Proof.
  intros [-> | (i & Hi & Hw & ->)] w; [left; reflexivity|].
  unfold updf. destruct (Nat.eqb_spec w i); subst; [right; auto | left; reflexivity].
Qed.

Lemma sigrel_counts n f f' : sigrel n f f' ->
  countw slow_pc n f' = countw slow_pc n f /\ countw wait_pc n f' = countw wait_pc n f.
Proof.
  intros [-> | (i & Hi & Hw & ->)]; [split; reflexivity|].
  pose proof (countw_updf slow_pc n f i (WWait true) Hi) as K1.
  pose proof (countw_updf wait_pc n f i (WWait true) Hi) as K2.
  rewrite Hw in K1, K2. cbn in K1, K2. lia.
Qed.

Lemma signal_if_idle_rel c t aux s :
  wq (signal_if_idle c t aux s) = wq s /\ sp (signal_if_idle c t aux s) = sp s /\
  running (signal_if_idle c t aux s) = running s /\ idle (signal_if_idle c t aux s) = idle s /\
  nreq (signal_if_idle c t aux s) = nreq s /\ reqs (signal_if_idle c t aux s) = reqs s /\
  sigrel (c_n c) (wk s) (wk (signal_if_idle c t aux s)).
Proof.
  unfold signal_if_idle. destruct (0 <? idle s).
  - destruct (signal_spec c t aux s) as (E1 & E2 & E3 & E4 & E5 & E6 & E7). unfold sigrel. intuition.
  - repeat split; auto. apply sigrel_refl.
Qed.

(* ---- worker transitions ---- *)
(* the general shape: worker w (pc WRelock false) leaves with pc p', possibly after a signal *)
Lemma InvB_leave c s s' w p' f' :
  InvB c s -> w < c_n c -> wk s w = WRelock false ->
  sigrel (c_n c) (wk s) f' -> wk s' = updf f' w p' ->
  nreq s' = nreq s -> (forall r, r_kind (reqs s' r) = r_kind (reqs s r)) ->
  length (filter is_marker (wq s')) <= 1 ->
  (sp s' <> [] -> has_marker (wq s') = true) ->
  (forall i, In i (wq s') -> In i (wq s)) ->
  (forall r, In r (sp s') -> In r (sp s)) ->
  running s' + b2n (slow_pc (WRelock false)) = running s + b2n (slow_pc p') ->
  running s' <= threshold (c_n c) ->
  idle s' = idle s + b2n (wait_pc p') ->
  p' <> WExited ->
  (forall r b, p' = WRun r b -> r < nreq s /\ (b = true <-> r_kind (reqs s r) = KSlow)) ->
  InvB c s'.
Proof.
  intros H Hw Hpc Hsig Ewk En Ek Hm Hsm Hq Hsp Hrun Hcap Hidle Hx Hr.
  destruct (sigrel_counts _ _ _ Hsig) as [C1 C2].
  pose proof (sigrel_pt _ _ _ Hsig) as Hpt.
  assert (f' w = WRelock false) as Hfw.
  { destruct (Hpt w) as [K | [K _]]; congruence. }
  destruct H. constructor.
  - exact Hm.
  - exact Hsm.
  - intros K. apply b_noexit. auto.
  - rewrite En. intros r [K | K]; apply b_lt; auto.
  - intros r K. rewrite Ek. auto.
  - intros r K. rewrite Ek. auto.
  - intros w0 r b. rewrite Ewk, En. unfold updf. destruct (Nat.eqb_spec w0 w); subst.
    + intros K. rewrite Ek. auto.
    + intros K. rewrite Ek. destruct (Hpt w0) as [K2 | [_ K2]]; [|congruence].
      apply (b_run_lt w0). congruence.
  - rewrite Ewk. pose proof (countw_updf slow_pc (c_n c) f' w p' Hw) as K.
    rewrite Hfw in K. cbn [slow_pc b2n] in *. lia.
  - exact Hcap.
  - rewrite Ewk. pose proof (countw_updf wait_pc (c_n c) f' w p' Hw) as K.
    rewrite Hfw in K. cbn [wait_pc b2n] in *. lia.
  - intros w0. rewrite Ewk. unfold updf. destruct (Nat.eqb_spec w0 w); subst; auto.
    destruct (Hpt w0) as [K | [_ K]]; rewrite K; [apply b_noexited | discriminate].
  - intros w0 Hn. rewrite Ewk. unfold updf. destruct (Nat.eqb_spec w0 w); subst; [lia|].
    destruct (Hpt w0) as [K | [K _]]; [rewrite K; auto|]. rewrite b_outside in K by exact Hn. discriminate.
Qed.

Lemma InvB_set_wq c s q' :
  InvB c s ->
  length (filter is_marker q') <= 1 ->
  (sp s <> [] -> has_marker q' = true) ->
  (forall i, In i q' -> In i (wq s)) ->
  InvB c (set_wq s q').
Proof.
  intros H Hm Hsm Hq. destruct H. constructor; cbn; auto.
  intros r [K | K]; apply b_lt; auto.
Qed.

Arguments threshold : simpl never.

Lemma kind_updf_st (f : nat -> req) r st r0 :
  r_kind (updf f r (mkReq (r_loop (f r)) (r_kind (f r)) (r_work (f r)) st) r0) = r_kind (f r0).
Proof. unfold updf. destruct (Nat.eqb_spec r0 r); subst; reflexivity. Qed.

Ltac leave_tac H :=
  cbn; try reflexivity; try lia; try discriminate; auto using sigrel_refl;
  try (destruct H; cbn in *; auto; fail).

Lemma marker_head_rest rest :
  length (filter is_marker (ISlowMsg :: rest)) <= 1 -> length (filter is_marker rest) = 0.
Proof. cbn. lia. Qed.

Lemma count0_has_marker q : length (filter is_marker q) = 0 -> has_marker q = false.
Proof.
  induction q as [|x q IH]; cbn; [reflexivity|].
  destruct (is_marker x); cbn; [discriminate | exact IH].
Qed.

Lemma InvB_wloop fuel : forall c t w aux s,
  InvB c s -> w < c_n c -> wk s w = WRelock false -> InvB c (wloop fuel c t w aux s).
Proof.
  induction fuel as [|fuel IH]; intros c t w aux s H Hw Hpc; cbn [wloop].
  - destruct (wait_pred c s).
    + eapply (InvB_leave c s _ w (WWait false) (wk s)); eauto using sigrel_refl; leave_tac H.
    + eapply (InvB_leave c s _ w (WRelock false) (wk s)); eauto using sigrel_refl; leave_tac H.
  - destruct (wait_pred c s).
    + eapply (InvB_leave c s _ w (WWait false) (wk s)); eauto using sigrel_refl; leave_tac H.
    + destruct (wq s) as [|[r| |] rest] eqn:Eq.
      * exact H.
      * (* IWork r :: rest *)
        pose proof H as H'. destruct H'. rewrite Eq in *.
        eapply (InvB_leave c s _ w (WRun r false) (wk s) H Hw Hpc); cbn.
        -- apply sigrel_refl.
        -- reflexivity.
        -- reflexivity.
        -- intros r0. apply kind_updf_st.
        -- exact b_marker.
        -- intros K. apply b_sp_marker in K. cbn in K. exact K.
        -- intros i K. rewrite Eq. right. exact K.
        -- auto.
        -- lia.
        -- exact b_cap.
        -- lia.
        -- discriminate.
        -- intros r0 b E. inversion E; subst. split.
           ++ apply b_lt. left. left. reflexivity.
           ++ split; [discriminate|]. intros K. exfalso. apply (b_kind_wq r0); [left; reflexivity | exact K].
      * (* ISlowMsg :: rest *)
        pose proof H as H'. destruct H'. rewrite Eq in *.
        pose proof (marker_head_rest rest b_marker) as Hm0.
        destruct (threshold (c_n c) <=? running s) eqn:Eth.
        -- apply IH; auto. apply InvB_set_wq; auto.
           ++ rewrite filter_marker_app. cbn. lia.
           ++ intros _. rewrite has_marker_app. cbn. apply orb_true_r.
           ++ intros i K. rewrite Eq. apply in_app_or in K. destruct K as [K | [<- | []]]; [right; exact K | left; reflexivity].
        -- destruct (sp s) as [|r sp'] eqn:Esp.
           ++ apply IH; auto. apply InvB_set_wq; auto.
              ** lia.
              ** intros i K. rewrite Eq. right. exact K.
           ++ apply Nat.leb_gt in Eth.
              assert (r < nreq s /\ r_kind (reqs s r) = KSlow) as [Hr1 Hr2].
              { split; [apply b_lt; right; left; reflexivity | apply b_kind_sp; left; reflexivity]. }
              destruct sp' as [|r2 sp''].
              ** eapply (InvB_leave c s _ w (WRun r true) (wk s) H Hw Hpc); cbn.
                 --- apply sigrel_refl.
                 --- reflexivity.
                 --- reflexivity.
                 --- intros r0. apply kind_updf_st.
                 --- lia.
                 --- congruence.
                 --- intros i K. rewrite Eq. right. exact K.
                 --- intros r0 K. destruct K.
                 --- lia.
                 --- lia.
                 --- lia.
                 --- discriminate.
                 --- intros r0 b E. inversion E; subst. split; [exact Hr1 | tauto].
              ** set (s1 := set_wq (set_sp (set_running (set_wq s rest) (S (running s))) (r2 :: sp''))
                                   (rest ++ [ISlowMsg])).
                 destruct (signal_if_idle_rel c t aux s1) as (E1 & E2 & E3 & E4 & E5 & E6 & E7).
                 eapply (InvB_leave c s _ w (WRun r true) (wk (signal_if_idle c t aux s1)) H Hw Hpc); cbn.
                 --- exact E7.
                 --- reflexivity.
                 --- fold s1. rewrite E5. reflexivity.
                 --- intros r0. rewrite kind_updf_st. fold s1. rewrite E6. reflexivity.
                 --- fold s1. rewrite E1. cbn. rewrite filter_marker_app. cbn. lia.
                 --- intros _. fold s1. rewrite E1. cbn. rewrite has_marker_app. cbn. apply orb_true_r.
                 --- fold s1. intros i K. rewrite E1 in K. cbn in K. rewrite Eq. apply in_app_or in K.
                     destruct K as [K | [<- | []]]; [right; exact K | left; reflexivity].
                 --- fold s1. intros r0 K. rewrite E2 in K. cbn in K. rewrite Esp. right. exact K.
                 --- fold s1. rewrite E3. cbn. lia.
                 --- fold s1. rewrite E3. cbn. lia.
                 --- fold s1. rewrite E4. cbn. lia.
                 --- discriminate.
                 --- intros r0 b E. inversion E; subst. split; [exact Hr1 | tauto].
      * (* IExit *)
        exfalso. destruct H. apply b_noexit. rewrite Eq. left. reflexivity.
Qed.

(* worker w changes its pc together with the counters *)
Lemma InvB_worker_set c s s' w p' :
  InvB c s -> w < c_n c ->
  wq s' = wq s -> sp s' = sp s -> nreq s' = nreq s ->
  (forall r, r_kind (reqs s' r) = r_kind (reqs s r)) ->
  wk s' = updf (wk s) w p' ->
  running s' + b2n (slow_pc (wk s w)) = running s + b2n (slow_pc p') ->
  running s' <= threshold (c_n c) ->
  idle s' + b2n (wait_pc (wk s w)) = idle s + b2n (wait_pc p') ->
  p' <> WExited ->
  (forall r b, p' = WRun r b -> wk s w = WRun r b) ->
  InvB c s'.
Proof.
  intros H Hw E1 E2 E5 E7 E6 Hrun Hcap Hidle Hx Hr. destruct H.
  constructor; rewrite ?E1, ?E2, ?E5; auto.
  - intros r Hq. rewrite E7. auto.
  - intros r Hq. rewrite E7. auto.
  - intros w0 r b. rewrite E6. unfold updf. destruct (Nat.eqb_spec w0 w); subst.
    + intros K. rewrite E7. eauto.
    + intros K. rewrite E7. eauto.
  - rewrite E6. pose proof (countw_updf slow_pc (c_n c) (wk s) w p' Hw) as K. lia.
  - rewrite E6. pose proof (countw_updf wait_pc (c_n c) (wk s) w p' Hw) as K. lia.
  - intros w0. rewrite E6. unfold updf. destruct (Nat.eqb_spec w0 w); subst; auto.
  - intros w0 Hn. rewrite E6. unfold updf. destruct (Nat.eqb_spec w0 w); subst; [lia | auto].
Qed.

Lemma some_eq {A} (a b : A) : Some a = Some b -> a = b.
Proof. congruence. Qed.

Lemma InvB_wstep c s t w aux s' :
  InvB c s -> w < c_n c -> wstep c t w aux s = Some s' -> InvB c s'.
Proof.
  intros H Hw. unfold wstep. destruct (wk s w) as [slow | sg | r slow |] eqn:Epc.
  - destruct (is_free (gmutex s)); [|discriminate]. intros E; apply some_eq in E; subst s'.
    apply InvB_wloop; [| exact Hw | cbn; apply updf_same].
    destruct slow.
    + assert (1 <= running s) as Hpos.
      { destruct H. rewrite b_running. apply (countw_pos slow_pc (c_n c) (wk s) w Hw). rewrite Epc. reflexivity. }
      eapply (InvB_worker_set c s _ w (WRelock false) H Hw); cbn; try reflexivity; rewrite ?Epc; cbn.
      * lia.
      * destruct H. lia.
      * lia.
      * discriminate.
      * discriminate.
    + eapply (InvB_worker_set c s _ w (WRelock false) H Hw); cbn; try reflexivity; rewrite ?Epc; cbn.
      * lia.
      * destruct H. lia.
      * lia.
      * discriminate.
      * discriminate.
  - destruct ((sg || (aux =? 1)) && is_free (gmutex s)); [|discriminate].
    intros E; apply some_eq in E; subst s'.
    apply InvB_wloop; [| exact Hw | cbn; apply updf_same].
    assert (1 <= idle s) as Hpos.
    { destruct H. rewrite b_idle. apply (countw_pos wait_pc (c_n c) (wk s) w Hw). rewrite Epc. reflexivity. }
    eapply (InvB_worker_set c s _ w (WRelock false) H Hw); cbn; try reflexivity; rewrite ?Epc; cbn.
    + lia.
    + destruct H. lia.
    + lia.
    + discriminate.
    + discriminate.
  - intros E; apply some_eq in E; subst s'. unfold complete.
    eapply (InvB_worker_set c s _ w (WRelock slow) H Hw); cbn; try reflexivity; rewrite ?Epc; cbn.
    + intros r0. unfold updf.
      destruct (Nat.eqb_spec r0 r); subst; cbn; [|destruct (Nat.eqb_spec r0 r); subst; cbn; congruence].
      rewrite Nat.eqb_refl. reflexivity.
    + destruct slow; lia.
    + destruct H. lia.
    + lia.
    + discriminate.
    + discriminate.
  - discriminate.
Qed.

Ltac sBe :=
  repeat first
    [ eapply sameB_trans; [| apply sameB_advance]
    | eapply sameB_trans; [| apply sameB_deliver]
    | eapply sameB_trans; [| apply sameB_settle]
    | eapply sameB_trans; [| apply sameB_emit]
    | eapply sameB_trans; [| apply sameB_sync]
    | eapply sameB_trans; [| apply sameB_set_loop]
    | eapply sameB_trans; [| apply sameB_set_gmutex]
    | eapply sameB_trans; [| apply sameB_set_rst]
    | eapply sameB_trans; [| apply sameB_set_rwork] ];
  apply sameB_refl.

(* uv__work_cancel unlinks r *)
Lemma InvB_remove c s r :
  InvB c s -> InvB c (set_sp (set_wq s (remw r (wq s))) (rem r (sp s))).
Proof.
  intros H. destruct H. constructor; cbn; auto.
  - rewrite count_marker_remw. exact b_marker.
  - intros K. rewrite has_marker_remw. apply b_sp_marker. intros E. rewrite E in K. apply K. reflexivity.
  - intros K. apply b_noexit. eapply In_remw. exact K.
  - intros r0 [K | K]; apply b_lt; [left; eapply In_remw | right; eapply In_rem]; exact K.
  - intros r0 K. apply b_kind_wq. eapply In_remw. exact K.
  - intros r0 K. apply b_kind_sp. eapply In_rem. exact K.
Qed.

(* uv__work_submit: the new request nreq s of kind k is linked *)
Lemma InvB_enqueue c s l k (s' : state) :
  InvB c s ->
  wk s' = wk s -> running s' = running s -> idle s' = idle s -> nreq s' = S (nreq s) ->
  reqs s' = updf (reqs s) (nreq s) (mkReq l k WFn Queued) ->
  match k with
  | KSlow => sp s' = sp s ++ [nreq s] /\
             wq s' = (if has_marker (wq s) then wq s else wq s ++ [ISlowMsg])
  | _ => sp s' = sp s /\ wq s' = wq s ++ [IWork (nreq s)]
  end ->
  InvB c s'.
Proof.
  intros H Ewk Erun Eidle En Ereqs Hq.
  assert (forall r0, r0 < nreq s -> r_kind (reqs s' r0) = r_kind (reqs s r0)) as Hk.
  { intros r0 Hr. rewrite Ereqs. unfold updf. destruct (Nat.eqb_spec r0 (nreq s)); [lia | reflexivity]. }
  assert (r_kind (reqs s' (nreq s)) = k) as Hk2.
  { rewrite Ereqs. unfold updf. rewrite Nat.eqb_refl. reflexivity. }
  assert (sp s' = sp s /\ wq s' = wq s ++ [IWork (nreq s)] /\ k <> KSlow \/
          k = KSlow /\ sp s' = sp s ++ [nreq s] /\
          wq s' = (if has_marker (wq s) then wq s else wq s ++ [ISlowMsg])) as Hq'.
  { destruct k; [left | left | right]; intuition; discriminate. }
  clear Hq. destruct H.
  constructor; rewrite ?Ewk, ?Erun, ?Eidle, ?En; auto.
  - destruct Hq' as [(_ & -> & _) | (_ & _ & ->)].
    + rewrite filter_marker_app. cbn. lia.
    + destruct (has_marker (wq s)) eqn:E; [exact b_marker|].
      rewrite filter_marker_app, (has_marker_false_count _ E). cbn. lia.
  - destruct Hq' as [(-> & -> & _) | (_ & _ & ->)].
    + intros K. rewrite has_marker_app. rewrite (b_sp_marker K). reflexivity.
    + intros _. destruct (has_marker (wq s)) eqn:E; [exact E|].
      rewrite has_marker_app. cbn. apply orb_true_r.
  - destruct Hq' as [(_ & -> & _) | (_ & _ & ->)].
    + intros K. apply in_app_or in K. destruct K as [K | [K | []]]; [auto | discriminate].
    + destruct (has_marker (wq s)); [exact b_noexit|].
      intros K. apply in_app_or in K. destruct K as [K | [K | []]]; [auto | discriminate].
  - intros r0 K.
    assert (In (IWork r0) (wq s) \/ In r0 (sp s) \/ r0 = nreq s) as K'.
    { destruct Hq' as [(E1 & E2 & _) | (_ & E1 & E2)]; rewrite E1, E2 in K.
      - destruct K as [K | K]; [|tauto]. apply in_app_or in K.
        destruct K as [K | [K | []]]; [tauto|]. inversion K. tauto.
      - destruct K as [K | K].
        + destruct (has_marker (wq s)); [tauto|]. apply in_app_or in K.
          destruct K as [K | [K | []]]; [tauto | discriminate].
        + apply in_app_or in K. destruct K as [K | [K | []]]; [tauto | subst; tauto]. }
    destruct K' as [K' | [K' | ->]]; [| | lia].
    + specialize (b_lt r0 (or_introl K')). lia.
    + specialize (b_lt r0 (or_intror K')). lia.
  - intros r0 K.
    destruct Hq' as [(_ & E2 & Hns) | (_ & _ & E2)]; rewrite E2 in K.
    + apply in_app_or in K. destruct K as [K | [K | []]].
      * rewrite Hk; [auto | apply b_lt; tauto].
      * assert (r0 = nreq s) as -> by congruence. rewrite Hk2. exact Hns.
    + assert (In (IWork r0) (wq s)) as K'.
      { destruct (has_marker (wq s)); [exact K|]. apply in_app_or in K.
        destruct K as [K | [K | []]]; [exact K | discriminate]. }
      rewrite Hk; [auto | apply b_lt; tauto].
  - intros r0 K.
    destruct Hq' as [(E1 & _ & _) | (Hs & E1 & _)]; rewrite E1 in K.
    + rewrite Hk; [auto | apply b_lt; tauto].
    + apply in_app_or in K. destruct K as [K | [K | []]].
      * rewrite Hk; [auto | apply b_lt; tauto].
      * subst r0. rewrite Hk2. exact Hs.
  - intros w r0 b K. destruct (b_run_lt w r0 b K) as [K1 K2]. split; [lia|].
    rewrite Hk; auto.
Qed.

Lemma InvB_post c s l aux k x :
  InvB c s ->
  InvB c (post c l aux (nreq s) k
            (set_loop (set_req (set_nreq (emit s (ESubmit (nreq s) l k)) (S (nreq s))) (nreq s)
                               (mkReq l k WFn Queued)) l x)).
Proof.
  intros H. unfold post. destruct k.
  - eapply InvB_sameB; [| apply sameB_sync]. apply InvB_signal_if_idle.
    eapply (InvB_enqueue c s l KCpu _ H); cbn; auto.
  - eapply InvB_sameB; [| apply sameB_sync]. apply InvB_signal_if_idle.
    eapply (InvB_enqueue c s l KFast _ H); cbn; auto.
  - cbn [sync_ev emit set_sp wq sp]. 
    match goal with |- context [has_marker ?q] => change q with (wq s) end.
    destruct (has_marker (wq s)) eqn:E.
    + eapply InvB_sameB; [| apply sameB_emit].
      eapply (InvB_enqueue c s l KSlow _ H); cbn; auto. rewrite E. auto.
    + eapply InvB_sameB; [| apply sameB_emit]. apply InvB_signal_if_idle.
      eapply (InvB_enqueue c s l KSlow _ H); cbn; auto. rewrite E. auto.
Qed.

Lemma InvB_lstep c s l aux s' :
  InvB c s -> lstep c l aux s = Some s' -> InvB c s'.
Proof.
  intros H. unfold lstep.
  destruct (l_pc (lp s l)) as [| r | r | | |] eqn:Epc.
  - destruct (cur_op (lp s l)) as [[k | r | |]|]; [| | | |discriminate].
    4: { intros E; apply some_eq in E; subst s'. eapply InvB_sameB; [exact H | sBe]. }
    + destruct (is_free (gmutex s)); [|discriminate].
      intros E; apply some_eq in E; subst s'.
      eapply InvB_sameB; [| apply sameB_advance]. apply InvB_post. exact H.
    + destruct (valid_cancel s l r).
      * destruct (is_free (gmutex s)); [|discriminate].
        intros E; apply some_eq in E; subst s'. eapply InvB_sameB; [exact H | sBe].
      * intros E; apply some_eq in E; subst s'. eapply InvB_sameB; [exact H | sBe].
    + destruct (l_cb (lp s l)).
      * destruct ((l_active (lp s l) =? 0) || l_stop (lp s l)); [| destruct (l_pending (lp s l))];
          intros E; apply some_eq in E; subst s'; (eapply InvB_sameB; [exact H | sBe]).
      * intros E; apply some_eq in E; subst s'. eapply InvB_sameB; [exact H | sBe].
  - match goal with |- context [if ?b then _ else _] => destruct b eqn:Ec end;
      intros E; apply some_eq in E; subst s'.
    + eapply InvB_sameB; [| sBe]. apply (InvB_remove c (sync_ev s l (SLockQ l)) r).
      eapply InvB_sameB; [exact H | sBe].
    + eapply InvB_sameB; [exact H | sBe].
  - intros E; apply some_eq in E; subst s'. eapply InvB_sameB; [exact H | sBe].
  - intros E; apply some_eq in E; subst s'. eapply InvB_sameB; [exact H | sBe].
  - destruct (l_pending (lp s l)); [|discriminate].
    intros E; apply some_eq in E; subst s'. eapply InvB_sameB; [exact H | sBe].
  - discriminate.
Qed.

Lemma InvB_step c s t aux s' : InvB c s -> step c s t aux = Some s' -> InvB c s'.
Proof.
  intros H. unfold step. destruct (t <? c_loops c).
  - apply InvB_lstep. exact H.
  - destruct (t - c_loops c <? c_n c) eqn:E; [|discriminate].
    apply Nat.ltb_lt in E. apply InvB_wstep; assumption.
Qed.

Theorem invB_reachable : forall c progs s, reachable c progs s -> InvB c s.
Proof.
  intros c progs. apply reachable_ind.
  - apply InvB_init.
  - intros s t aux s' _ H E. eapply InvB_step; eauto.
Qed.

Lemma threshold_lt : forall n, 2 <= n -> threshold n < n.
Proof. intros n H. unfold threshold. apply Nat.div_lt_upper_bound; lia. Qed.

Lemma threshold_pos : forall n, 1 <= n -> 1 <= threshold n.
Proof. intros n H. unfold threshold. apply Nat.div_le_lower_bound; lia. Qed.

(* ---- a worker that finds non-slow work queued always leaves with a request ---- *)
Lemma wstep_prefix c s t w aux s' :
  InvB c s -> w < c_n c ->
  (exists b, wk s w = WRelock b) \/ (exists sg, wk s w = WWait sg) ->
  wstep c t w aux s = Some s' ->
  exists s2, s' = wloop wloop_fuel c t w aux s2 /\ InvB c s2 /\ wk s2 w = WRelock false /\
             wq s2 = wq s /\ sp s2 = sp s /\ reqs s2 = reqs s.
Proof.
  intros H Hw Hpc. unfold wstep. destruct Hpc as [[slow Epc] | [sg Epc]]; rewrite Epc.
  - destruct (is_free (gmutex s)); [|discriminate]. intros E; apply some_eq in E; subst s'.
    eexists. split; [reflexivity|]. split; [| split; [cbn; apply updf_same | split; [| split]]].
    + destruct slow.
      * assert (1 <= running s) as Hpos.
        { destruct H. rewrite b_running. apply (countw_pos slow_pc (c_n c) (wk s) w Hw). rewrite Epc. reflexivity. }
        eapply (InvB_worker_set c s _ w (WRelock false) H Hw); cbn; try reflexivity; rewrite ?Epc; cbn;
          try discriminate; try lia. destruct H. lia.
      * eapply (InvB_worker_set c s _ w (WRelock false) H Hw); cbn; try reflexivity; rewrite ?Epc; cbn;
          try discriminate; try lia. destruct H. lia.
    + destruct slow; reflexivity.
    + destruct slow; reflexivity.
    + destruct slow; reflexivity.
  - destruct ((sg || (aux =? 1)) && is_free (gmutex s)); [|discriminate].
    intros E; apply some_eq in E; subst s'.
    eexists. split; [reflexivity|]. split; [| split; [cbn; apply updf_same | split; [| split]]]; try reflexivity.
    assert (1 <= idle s) as Hpos.
    { destruct H. rewrite b_idle. apply (countw_pos wait_pc (c_n c) (wk s) w Hw). rewrite Epc. reflexivity. }
    eapply (InvB_worker_set c s _ w (WRelock false) H Hw); cbn; try reflexivity; rewrite ?Epc; cbn;
      try discriminate; try lia. destruct H. lia.
Qed.

Lemma head_is_work (q : list item) r :
  In (IWork r) q -> length (filter is_marker q) = 0 -> ~ In IExit q ->
  exists r0 rest, q = IWork r0 :: rest.
Proof.
  destruct q as [|[r0| |] rest]; cbn; intros Hin Hm Hx.
  - destruct Hin.
  - eauto.
  - discriminate.
  - exfalso. apply Hx. left. reflexivity.
Qed.

Lemma wait_pred_work c s r0 rest : wq s = IWork r0 :: rest -> wait_pred c s = false.
Proof. unfold wait_pred. intros ->. reflexivity. Qed.

Lemma wloop_takes c t w aux s fuel r :
  InvB c s -> In (IWork r) (wq s) ->
  exists r' b', wk (wloop (S (S fuel)) c t w aux s) w = WRun r' b' /\
    (b' = false -> In (IWork r') (wq s)) /\
    (b' = true -> In r' (sp s) /\ running s < threshold (c_n c)).
Proof.
  intros H Hin. pose proof H as H'. destruct H'.
  destruct (wq s) as [|[r0| |] rest] eqn:Eq.
  - destruct Hin.
  - (* head is work *)
    cbn [wloop]. rewrite (wait_pred_work c s r0 rest Eq). rewrite Eq.
    exists r0, false. split; [cbn; apply updf_same | split; [intros _; left; reflexivity | discriminate]].
  - (* head is the marker *)
    assert (In (IWork r) rest) as Hin' by (destruct Hin as [K|K]; [discriminate | exact K]).
    pose proof (marker_head_rest rest b_marker) as Hm0.
    assert (~ In IExit rest) as Hx by (intros K; apply b_noexit; right; exact K).
    destruct (head_is_work rest r Hin' Hm0 Hx) as (r0 & rest' & Erest).
    cbn [wloop].
    assert (wait_pred c s = false) as Ewp.
    { unfold wait_pred. rewrite Eq, Erest. reflexivity. }
    rewrite Ewp, Eq.
    destruct (threshold (c_n c) <=? running s) eqn:Eth.
    + (* re-queue the marker, take the next item *)
      cbn [wloop].
      assert (wait_pred c (set_wq s (rest ++ [ISlowMsg])) = false) as Ewp2.
      { unfold wait_pred. cbn [set_wq wq]. rewrite Erest. cbn. reflexivity. }
      rewrite Ewp2. cbn [set_wq wq]. rewrite Erest. cbn [app].
      exists r0, false. split; [cbn; apply updf_same | split; [| discriminate]].
      intros _. right. left. reflexivity.
    + destruct (sp s) as [|r1 sp'] eqn:Esp.
      * cbn [wloop].
        assert (wait_pred c (set_wq s rest) = false) as Ewp2.
        { unfold wait_pred. cbn [set_wq wq]. rewrite Erest. reflexivity. }
        rewrite Ewp2. cbn [set_wq wq]. rewrite Erest.
        exists r0, false. split; [cbn; apply updf_same | split; [| discriminate]].
        intros _. right. left. reflexivity.
      * exists r1, true. split; [cbn; apply updf_same | split; [discriminate|]].
        intros _. split; [left; reflexivity | apply Nat.leb_gt; exact Eth].
  - exfalso. apply b_noexit. left. reflexivity.
Qed.

Theorem worker_takes_when_work_queued :
  forall c progs s t aux s' w r,
    reachable c progs s ->
    c_loops c <= t -> w = t - c_loops c -> w < c_n c ->
    (exists b, wk s w = WRelock b) \/ (exists sg, wk s w = WWait sg) ->
    In (IWork r) (wq s) ->
    step c s t aux = Some s' ->
    exists r' b', wk s' w = WRun r' b' /\
      (b' = false -> In (IWork r') (wq s) /\ r_kind (reqs s r') <> KSlow) /\
      (b' = true -> In r' (sp s) /\ r_kind (reqs s r') = KSlow).
Proof.
  intros c progs s t aux s' w r Hr Ht Ew Hw Hpc Hin Hstep.
  pose proof (invB_reachable c progs s Hr) as H.
  unfold step in Hstep.
  destruct (t <? c_loops c) eqn:E1; [apply Nat.ltb_lt in E1; lia|].
  rewrite <- Ew in Hstep.
  destruct (w <? c_n c) eqn:E2; [| apply Nat.ltb_ge in E2; lia].
  destruct (wstep_prefix c s t w aux s' H Hw Hpc Hstep) as (s2 & -> & H2 & Hpc2 & Eq & Esp & Er).
  rewrite <- Eq in Hin.
  destruct (wloop_takes c t w aux s2 1 r H2 Hin) as (r' & b' & K1 & K2 & K3).
  exists r', b'. split; [exact K1|]. destruct H. split.
  - intros Hb. specialize (K2 Hb). rewrite Eq in K2. split; [exact K2 | apply b_kind_wq; exact K2].
  - intros Hb. destruct (K3 Hb) as [K4 _]. rewrite Esp in K4. split; [exact K4 | apply b_kind_sp; exact K4].
Qed.

Print Assumptions invB_reachable.
Print Assumptions worker_takes_when_work_queued.
