(* C18 proofs, part 1: inet_pton4 = dotted-quad grammar, uv__strscpy, inet_ntop4
   (bounded, ENOSPC iff, round trip). *)
From UV Require Import Lib.Base Model.Inet Spec.InetSpec.
Local Open Scope N_scope.

(* ------------------------------------------------------------------ *)
(* small facts                                                         *)
(* ------------------------------------------------------------------ *)
Lemma is_digit_true c : is_digit c = true <-> digit c.
Proof. unfold is_digit, digit. rewrite andb_true_iff, !N.leb_le. tauto. Qed.

Lemma is_digit_false c : is_digit c = false <-> ~ digit c.
Proof.
  rewrite <- is_digit_true. destruct (is_digit c); split; intros; try congruence; tauto.
Qed.

Lemma fold_dstep_ge ds : forall x, x <= fold_left dstep ds x.
Proof.
  induction ds as [|c ds IH]; intros x; simpl; [lia|].
  specialize (IH (dstep x c)). unfold dstep in *. lia.
Qed.

Lemma loop_dot r done cur k :
  pton4_loop (46 :: r) done cur true k =
  if k =? 4 then (UV_EINVAL, []) else pton4_loop r (done ++ [cur]) 0 false k.
Proof. reflexivity. Qed.

Lemma loop_digit_step c r done cur saw k :
  digit c ->
  pton4_loop (c :: r) done cur saw k =
  let nw := dstep cur c in
  if saw && (cur =? 0) then (UV_EINVAL, [])
  else if 255 <? nw then (UV_EINVAL, [])
  else if saw then pton4_loop r done nw true k
  else if 4 <? k + 1 then (UV_EINVAL, [])
  else pton4_loop r done nw true (k + 1).
Proof.
  intros H. apply is_digit_true in H. cbn [pton4_loop]. rewrite H. reflexivity.
Qed.

Lemma loop_other c r done cur saw k :
  ~ digit c -> (c <> 46 \/ saw = false) ->
  pton4_loop (c :: r) done cur saw k = (UV_EINVAL, []).
Proof.
  intros H H1. apply is_digit_false in H. cbn [pton4_loop]. rewrite H.
  destruct H1 as [H1|H1].
  - apply N.eqb_neq in H1. rewrite H1. reflexivity.
  - rewrite H1, andb_false_r. reflexivity.
Qed.

Lemma not_digit_46 : ~ digit 46.
Proof. unfold digit. lia. Qed.

(* ------------------------------------------------------------------ *)
(* grammar -> accepted with the grammar's value                        *)
(* ------------------------------------------------------------------ *)
Lemma loop_digits ds : forall rest done cur k,
  Forall digit ds -> (ds <> [] -> cur <> 0) -> fold_left dstep ds cur <= 255 ->
  pton4_loop (ds ++ rest) done cur true k =
  pton4_loop rest done (fold_left dstep ds cur) true k.
Proof.
  induction ds as [|c ds IH]; intros rest done cur k HF Hnz Hle; [reflexivity|].
  inversion HF as [|? ? Hc HF']; subst.
  assert (Hcur : cur <> 0) by (apply Hnz; discriminate).
  simpl app. rewrite loop_digit_step by assumption. cbv zeta.
  apply N.eqb_neq in Hcur. rewrite Hcur. cbn [andb].
  simpl fold_left in *.
  pose proof (fold_dstep_ge ds (dstep cur c)) as Hge.
  assert (Hnw : 255 <? dstep cur c = false) by (apply N.ltb_ge; lia).
  rewrite Hnw. apply IH; auto.
  intros _. apply N.eqb_neq in Hcur. unfold dstep. lia.
Qed.

Lemma loop_octet ds v rest done k :
  octet_text ds v -> k < 4 ->
  pton4_loop (ds ++ rest) done 0 false k = pton4_loop rest done v true (k + 1).
Proof.
  intros (Hne & HF & Hlz & Hv & Hle) Hk.
  destruct ds as [|c t]; [congruence|].
  inversion HF as [|? ? Hc HF']; subst.
  simpl app. rewrite loop_digit_step by assumption. cbv zeta. cbn [andb].
  assert (Hd : dstep 0 c = c - 48) by (unfold dstep; lia).
  unfold dval in *. simpl fold_left in *.
  pose proof (fold_dstep_ge t (dstep 0 c)) as Hge.
  assert (H1 : 255 <? dstep 0 c = false) by (apply N.ltb_ge; lia).
  assert (H2 : 4 <? k + 1 = false) by (apply N.ltb_ge; lia).
  rewrite H1, H2. apply loop_digits; auto.
  intros Ht Hz. rewrite Hd in Hz. destruct Hc as [Hc1 Hc2].
  assert (c = 48) by lia. subst c. specialize (Hlz t eq_refl). contradiction.
Qed.

Lemma pton4_complete s b : dotted_quad s b -> inet_pton4 s = (0%Z, b).
Proof.
  intros (s0 & s1 & s2 & s3 & v0 & v1 & v2 & v3 & -> & H0 & H1 & H2 & H3 & ->).
  unfold inet_pton4.
  rewrite (loop_octet s0 v0) by (auto; lia). rewrite loop_dot. cbn [N.eqb N.add Pos.eqb Pos.add Pos.succ].
  rewrite (loop_octet s1 v1) by (auto; lia). rewrite loop_dot. cbn [N.eqb N.add Pos.eqb Pos.add Pos.succ].
  rewrite (loop_octet s2 v2) by (auto; lia). rewrite loop_dot. cbn [N.eqb N.add Pos.eqb Pos.add Pos.succ].
  rewrite <- (app_nil_r s3).
  rewrite (loop_octet s3 v3) by (auto; lia). reflexivity.
Qed.

(* ------------------------------------------------------------------ *)
(* accepted -> in the grammar                                          *)
(* ------------------------------------------------------------------ *)
Lemma res_neq b : (UV_EINVAL, @nil N) <> (0%Z, b).
Proof. unfold UV_EINVAL. congruence. Qed.

Lemma sound_in_octet s : forall done cur k b,
  cur <= 255 ->
  pton4_loop s done cur true k = (0%Z, b) ->
  exists ds rest, s = ds ++ rest /\ Forall digit ds /\ (ds <> [] -> cur <> 0) /\
    fold_left dstep ds cur <= 255 /\
    (rest = [] \/ exists r, rest = 46 :: r) /\
    pton4_loop rest done (fold_left dstep ds cur) true k = (0%Z, b).
Proof.
  induction s as [|c s IH]; intros done cur k b Hcur H.
  - exists [], []. repeat split; auto.
  - destruct (is_digit c) eqn:Hd.
    + apply is_digit_true in Hd. rewrite loop_digit_step in H by assumption. cbv zeta in H.
      cbn [andb] in H.
      destruct (cur =? 0) eqn:Hc0; [exfalso; exact (res_neq _ H)|].
      destruct (255 <? dstep cur c) eqn:Hnw; [exfalso; exact (res_neq _ H)|].
      apply N.ltb_ge in Hnw.
      apply IH in H; [|exact Hnw]. destruct H as (ds & rest & -> & HF & Hnz & Hle & Hrest & Hl).
      exists (c :: ds), rest. repeat split; auto.
      intros _. apply N.eqb_neq. exact Hc0.
    + apply is_digit_false in Hd.
      destruct (N.eq_dec c 46) as [->|Hne].
      * exists [], (46 :: s). repeat split; eauto.
      * rewrite loop_other in H by auto. exfalso; exact (res_neq _ H).
Qed.

Lemma sound_octet_start s done k b :
  k < 4 ->
  pton4_loop s done 0 false k = (0%Z, b) ->
  exists ds v rest, s = ds ++ rest /\ octet_text ds v /\
    (rest = [] \/ exists r, rest = 46 :: r) /\
    pton4_loop rest done v true (k + 1) = (0%Z, b).
Proof.
  intros Hk H. destruct s as [|c s].
  - cbn [pton4_loop] in H. apply N.ltb_lt in Hk. rewrite Hk in H. exfalso; exact (res_neq _ H).
  - destruct (is_digit c) eqn:Hd.
    + apply is_digit_true in Hd. rewrite loop_digit_step in H by assumption. cbv zeta in H.
      cbn [andb] in H.
      assert (Hd0 : dstep 0 c = c - 48) by (unfold dstep; lia).
      destruct (255 <? dstep 0 c) eqn:Hnw; [exfalso; exact (res_neq _ H)|].
      destruct (4 <? k + 1) eqn:H4; [exfalso; exact (res_neq _ H)|].
      apply N.ltb_ge in Hnw.
      apply sound_in_octet in H; [|exact Hnw].
      destruct H as (ds & rest & -> & HF & Hnz & Hle & Hrest & Hl).
      exists (c :: ds), (fold_left dstep ds (dstep 0 c)), rest.
      repeat split; auto; try discriminate.
      intros t Ht. inversion Ht; subst.
      destruct t as [|x t]; auto. exfalso. apply Hnz; [discriminate|]. rewrite Hd0. reflexivity.
    + apply is_digit_false in Hd. rewrite loop_other in H by auto.
      exfalso; exact (res_neq _ H).
Qed.
