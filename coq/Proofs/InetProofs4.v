(* C18 proofs, part 1: inet_pton4 = dotted-quad grammar, uv__strscpy, inet_ntop4
   (bounded, ENOSPC iff, round trip). *)
From UV Require Import Lib.Base Model.Inet Spec.InetSpec.
Local Open Scope N_scope.

(* ------------------------------------------------------------------ *)
(* small facts                                                         *)
(* ------------------------------------------------------------------ *)
Lemma is_digit_true c : is_digit c = true <-> digit c.
Proof. unfold is_digit, digit. rewrite andb_true_iff, !N.leb_le. tauto. Qed.

Lemma is_digit_false c : is_digit c = false <-> ~ digit c.
Proof.
  rewrite <- is_digit_true. destruct (is_digit c); split; intros; try congruence; tauto.
Qed.

Lemma fold_dstep_ge ds : forall x, x <= fold_left dstep ds x.
Proof.
  induction ds as [|c ds IH]; intros x; simpl; [lia|].
  specialize (IH (dstep x c)). unfold dstep in *. lia.
Qed.

Lemma loop_dot r done cur k :
  pton4_loop (46 :: r) done cur true k =
  if k =? 4 then (UV_EINVAL, []) else pton4_loop r (done ++ [cur]) 0 false k.
Proof. reflexivity. Qed.

Lemma loop_digit_step c r done cur saw k :
  digit c ->
  pton4_loop (c :: r) done cur saw k =
  let nw := dstep cur c in
  if saw && (cur =? 0) then (UV_EINVAL, [])
  else if 255 <? nw then (UV_EINVAL, [])
  else if saw then pton4_loop r done nw true k
  else if 4 <? k + 1 then (UV_EINVAL, [])
  else pton4_loop r done nw true (k + 1).
Proof.
  intros H. apply is_digit_true in H. cbn [pton4_loop]. rewrite H. reflexivity.
Qed.

Lemma loop_other c r done cur saw k :
  ~ digit c -> (c <> 46 \/ saw = false) ->
  pton4_loop (c :: r) done cur saw k = (UV_EINVAL, []).
Proof.
  intros H H1. apply is_digit_false in H. cbn [pton4_loop]. rewrite H.
  destruct H1 as [H1|H1].
  - apply N.eqb_neq in H1. rewrite H1. reflexivity.
  - rewrite H1, andb_false_r. reflexivity.
Qed.

Lemma not_digit_46 : ~ digit 46.
Proof. unfold digit. lia. Qed.

(* ------------------------------------------------------------------ *)
(* grammar -> accepted with the grammar's value                        *)
(* ------------------------------------------------------------------ *)
Lemma loop_digits ds : forall rest done cur k,
  Forall digit ds -> (ds <> [] -> cur <> 0) -> fold_left dstep ds cur <= 255 ->
  pton4_loop (ds ++ rest) done cur true k =
  pton4_loop rest done (fold_left dstep ds cur) true k.
Proof.
  induction ds as [|c ds IH]; intros rest done cur k HF Hnz Hle; [reflexivity|].
  inversion HF as [|? ? Hc HF']; subst.
  assert (Hcur : cur <> 0) by (apply Hnz; discriminate).
  simpl app. rewrite loop_digit_step by assumption. cbv zeta.
  apply N.eqb_neq in Hcur. rewrite Hcur. cbn [andb].
  simpl fold_left in *.
  pose proof (fold_dstep_ge ds (dstep cur c)) as Hge.
  assert (Hnw : 255 <? dstep cur c = false) by (apply N.ltb_ge; lia).
  rewrite Hnw. apply IH; auto.
  intros _. apply N.eqb_neq in Hcur. unfold dstep. lia.
Qed.

Lemma loop_octet ds v rest done k :
  octet_text ds v -> k < 4 ->
  pton4_loop (ds ++ rest) done 0 false k = pton4_loop rest done v true (k + 1).
Proof.
  intros (Hne & HF & Hlz & Hv & Hle) Hk.
  destruct ds as [|c t]; [congruence|].
  inversion HF as [|? ? Hc HF']; subst.
  simpl app. rewrite loop_digit_step by assumption. cbv zeta. cbn [andb].
  assert (Hd : dstep 0 c = c - 48) by (unfold dstep; lia).
  unfold dval in *. simpl fold_left in *.
  pose proof (fold_dstep_ge t (dstep 0 c)) as Hge.
  assert (H1 : 255 <? dstep 0 c = false) by (apply N.ltb_ge; lia).
  assert (H2 : 4 <? k + 1 = false) by (apply N.ltb_ge; lia).
  rewrite H1, H2. apply loop_digits; auto.
  intros Ht Hz. rewrite Hd in Hz. destruct Hc as [Hc1 Hc2].
  assert (c = 48) by lia. subst c. specialize (Hlz t eq_refl). contradiction.
Qed.

Lemma pton4_complete s b : dotted_quad s b -> inet_pton4 s = (0%Z, b).
Proof.
  intros (s0 & s1 & s2 & s3 & v0 & v1 & v2 & v3 & -> & H0 & H1 & H2 & H3 & ->).
  unfold inet_pton4.
  rewrite (loop_octet s0 v0) by (auto; lia). rewrite loop_dot. cbn [N.eqb N.add Pos.eqb Pos.add Pos.succ].
  rewrite (loop_octet s1 v1) by (auto; lia). rewrite loop_dot. cbn [N.eqb N.add Pos.eqb Pos.add Pos.succ].
  rewrite (loop_octet s2 v2) by (auto; lia). rewrite loop_dot. cbn [N.eqb N.add Pos.eqb Pos.add Pos.succ].
  rewrite <- (app_nil_r s3).
  rewrite (loop_octet s3 v3) by (auto; lia). reflexivity.
Qed.

(* ------------------------------------------------------------------ *)
(* accepted -> in the grammar                                          *)
(* ------------------------------------------------------------------ *)
Lemma res_neq b : (UV_EINVAL, @nil N) <> (0%Z, b).
Proof. unfold UV_EINVAL. congruence. Qed.

Lemma sound_in_octet s : forall done cur k b,
  cur <= 255 ->
  pton4_loop s done cur true k = (0%Z, b) ->
  exists ds rest, s = ds ++ rest /\ Forall digit ds /\ (ds <> [] -> cur <> 0) /\
    fold_left dstep ds cur <= 255 /\
    (rest = [] \/ exists r, rest = 46 :: r) /\
    pton4_loop rest done (fold_left dstep ds cur) true k = (0%Z, b).
Proof.
  induction s as [|c s IH]; intros done cur k b Hcur H.
  - exists [], []. repeat split; auto.
  - destruct (is_digit c) eqn:Hd.
    + apply is_digit_true in Hd. rewrite loop_digit_step in H by assumption. cbv zeta in H.
      cbn [andb] in H.
      destruct (cur =? 0) eqn:Hc0; [exfalso; exact (res_neq _ H)|].
      destruct (255 <? dstep cur c) eqn:Hnw; [exfalso; exact (res_neq _ H)|].
      apply N.ltb_ge in Hnw.
      apply IH in H; [|exact Hnw]. destruct H as (ds & rest & -> & HF & Hnz & Hle & Hrest & Hl).
      exists (c :: ds), rest. repeat split; auto.
      intros _. apply N.eqb_neq. exact Hc0.
    + apply is_digit_false in Hd.
      destruct (N.eq_dec c 46) as [->|Hne].
      * exists [], (46 :: s). repeat split; eauto.
      * rewrite loop_other in H by auto. exfalso; exact (res_neq _ H).
Qed.

Lemma sound_octet_start s done k b :
  k < 4 ->
  pton4_loop s done 0 false k = (0%Z, b) ->
  exists ds v rest, s = ds ++ rest /\ octet_text ds v /\
    (rest = [] \/ exists r, rest = 46 :: r) /\
    pton4_loop rest done v true (k + 1) = (0%Z, b).
Proof.
  intros Hk H. destruct s as [|c s].
  - cbn [pton4_loop] in H. apply N.ltb_lt in Hk. rewrite Hk in H. exfalso; exact (res_neq _ H).
  - destruct (is_digit c) eqn:Hd.
    + apply is_digit_true in Hd. rewrite loop_digit_step in H by assumption. cbv zeta in H.
      cbn [andb] in H.
      assert (Hd0 : dstep 0 c = c - 48) by (unfold dstep; lia).
      destruct (255 <? dstep 0 c) eqn:Hnw; [exfalso; exact (res_neq _ H)|].
      destruct (4 <? k + 1) eqn:H4; [exfalso; exact (res_neq _ H)|].
      apply N.ltb_ge in Hnw.
      apply sound_in_octet in H; [|exact Hnw].
      destruct H as (ds & rest & -> & HF & Hnz & Hle & Hrest & Hl).
      exists (c :: ds), (fold_left dstep ds (dstep 0 c)), rest.
      repeat split; auto; try discriminate.
      intros t Ht. inversion Ht; subst.
      destruct t as [|x t]; auto. exfalso. apply Hnz; [discriminate|]. rewrite Hd0. reflexivity.
    + apply is_digit_false in Hd. rewrite loop_other in H by auto.
      exfalso; exact (res_neq _ H).
Qed.

Lemma pton4_sound s b : inet_pton4 s = (0%Z, b) -> dotted_quad s b.
Proof.
  unfold inet_pton4. intros H.
  apply sound_octet_start in H; [|lia].
  destruct H as (s0 & v0 & r0 & -> & O0 & [->|[r0' ->]] & H).
  { cbn in H. exfalso; exact (res_neq _ H). }
  rewrite loop_dot in H. cbn [N.eqb N.add Pos.eqb Pos.add Pos.succ app] in H.
  apply sound_octet_start in H; [|lia].
  destruct H as (s1 & v1 & r1 & -> & O1 & [->|[r1' ->]] & H).
  { cbn in H. exfalso; exact (res_neq _ H). }
  rewrite loop_dot in H. cbn [N.eqb N.add Pos.eqb Pos.add Pos.succ app] in H.
  apply sound_octet_start in H; [|lia].
  destruct H as (s2 & v2 & r2 & -> & O2 & [->|[r2' ->]] & H).
  { cbn in H. exfalso; exact (res_neq _ H). }
  rewrite loop_dot in H. cbn [N.eqb N.add Pos.eqb Pos.add Pos.succ app] in H.
  apply sound_octet_start in H; [|lia].
  destruct H as (s3 & v3 & r3 & -> & O3 & [->|[r3' ->]] & H).
  - cbn in H. inversion H; subst.
    exists s0, s1, s2, s3, v0, v1, v2, v3. rewrite app_nil_r.
    repeat (split; [first [reflexivity | assumption]|]). reflexivity.
  - rewrite loop_dot in H. cbn in H. exfalso; exact (res_neq _ H).
Qed.

(* every result is (0, four bytes) or (UV_EINVAL, nothing written) *)
Lemma pton4_loop_codes s : forall done cur saw k,
  pton4_loop s done cur saw k = (UV_EINVAL, []) \/
  exists b, pton4_loop s done cur saw k = (0%Z, b).
Proof.
  induction s as [|c s IH]; intros; cbn [pton4_loop].
  - destruct (k <? 4); eauto.
  - destruct (is_digit c).
    + destruct (saw && (cur =? 0)); auto. destruct (255 <? _); auto.
      destruct saw; auto. destruct (4 <? k + 1); auto.
    + destruct ((c =? 46) && saw); auto. destruct (k =? 4); auto.
Qed.

Theorem pton4_iff_grammar s :
  (forall b, inet_pton4 s = (0%Z, b) <-> dotted_quad s b) /\
  ((forall b, ~ dotted_quad s b) -> inet_pton4 s = (UV_EINVAL, [])).
Proof.
  split.
  - intros b; split; [apply pton4_sound | apply pton4_complete].
  - intros Hn. destruct (pton4_loop_codes s [] 0 false 0) as [H|[b H]]; [exact H|].
    exfalso. apply (Hn b). apply pton4_sound. exact H.
Qed.

(* a string with a NUL inside is cut there by the public entry point *)
Lemma cstr_no_nul s : ~ In 0 (cstr s).
Proof.
  induction s as [|c s IH]; simpl; auto.
  destruct (c =? 0) eqn:E; simpl; auto.
  intros [H|H]; auto. subst. discriminate.
Qed.

Lemma cstr_id s : ~ In 0 s -> cstr s = s.
Proof.
  induction s as [|c s IH]; simpl; auto. intros H.
  destruct (c =? 0) eqn:E.
  - apply N.eqb_eq in E. subst. tauto.
  - f_equal. apply IH. tauto.
Qed.

Theorem uv_inet_pton4_iff_grammar s b :
  uv_inet_pton AF_INET s = (0%Z, b) <-> dotted_quad (cstr s) b.
Proof. unfold uv_inet_pton. cbn. apply pton4_iff_grammar. Qed.

(* ------------------------------------------------------------------ *)
(* uv__strscpy                                                         *)
(* ------------------------------------------------------------------ *)
Lemma nlen_app a b : nlen (a ++ b) = nlen a + nlen b.
Proof. unfold nlen. rewrite app_length. lia. Qed.

Lemma nlen_cons (a : N) b : nlen (a :: b) = 1 + nlen b.
Proof. unfold nlen. simpl length. lia. Qed.

Lemma strscpy_fits s : forall i n acc,
  i = nlen acc -> i + nlen s < n ->
  strscpy_loop s i n acc =
  ((if SSIZE_MAX <? i + nlen s then UV_E2BIG else Z.of_N (i + nlen s)), acc ++ s ++ [0]).
Proof.
  induction s as [|c s IH]; intros i n acc Hi Hn; cbn [strscpy_loop].
  - unfold nlen in Hn; simpl in Hn. assert (E : n <=? i = false) by (apply N.leb_gt; lia).
    rewrite E. unfold nlen. simpl length. rewrite N.add_0_r. reflexivity.
  - rewrite nlen_cons in *. assert (E : n <=? i = false) by (apply N.leb_gt; lia).
    rewrite E. rewrite IH.
    + rewrite <- app_assoc. simpl. replace (i + 1 + nlen s) with (i + (1 + nlen s)) by lia.
      reflexivity.
    + rewrite nlen_app. unfold nlen at 2. simpl. lia.
    + lia.
Qed.

Lemma removelast_snoc {A} (l : list A) x : removelast (l ++ [x]) = l.
Proof. apply removelast_last. Qed.

Lemma firstn_len_app {A} (l r : list A) k : k = length l -> firstn k (l ++ r) = l.
Proof.
  intros ->. rewrite <- (Nat.add_0_r (length l)), firstn_app_2. simpl. apply app_nil_r.
Qed.

Lemma strscpy_trunc s : forall i n acc,
  i = nlen acc -> i <= n -> 0 < n -> n <= i + nlen s ->
  strscpy_loop s i n acc = (UV_E2BIG, firstn (N.to_nat n - 1) (acc ++ s) ++ [0]).
Proof.
  induction s as [|c s IH]; intros i n acc Hi Hle Hn Hge; cbn [strscpy_loop].
  - unfold nlen in Hge; simpl in Hge. assert (i = n) by lia. subst n.
    rewrite N.leb_refl. assert (E : i =? 0 = false) by (apply N.eqb_neq; lia). rewrite E.
    rewrite app_nil_r. f_equal. f_equal.
    destruct acc as [|a acc] using rev_ind; [unfold nlen in Hi; simpl in Hi; lia|].
    rewrite removelast_snoc. rewrite Hi, nlen_app. unfold nlen. simpl length.
    symmetry. apply firstn_len_app. lia.
  - destruct (n <=? i) eqn:E.
    + apply N.leb_le in E. assert (i = n) by lia. subst n.
      assert (E0 : i =? 0 = false) by (apply N.eqb_neq; lia). rewrite E0.
      f_equal. f_equal.
      destruct acc as [|a acc] using rev_ind; [unfold nlen in Hi; simpl in Hi; lia|].
      rewrite removelast_snoc. rewrite Hi, nlen_app. unfold nlen. simpl length.
      rewrite <- app_assoc. symmetry. apply firstn_len_app. lia.
    + apply N.leb_gt in E. rewrite IH.
      * rewrite <- app_assoc. reflexivity.
      * rewrite nlen_app. unfold nlen at 2. simpl. lia.
      * lia.
      * lia.
      * rewrite nlen_cons in Hge. lia.
Qed.

Theorem strscpy_spec s n :
  let r := uv_strscpy s n in
  let t := cstr s in
  nlen (snd r) <= n /\
  (n = 0 -> r = (0%Z, [])) /\
  (0 < n -> nlen t < n -> nlen t <= SSIZE_MAX -> r = (Z.of_N (nlen t), t ++ [0])) /\
  (0 < n -> n <= nlen t -> r = (UV_E2BIG, firstn (N.to_nat n - 1) t ++ [0])).
Proof.
  cbv zeta. unfold uv_strscpy.
  destruct (N.eq_dec n 0) as [->|Hn].
  - assert (E : strscpy_loop (cstr s) 0 0 [] = (0%Z, [])) by (destruct (cstr s); reflexivity).
    rewrite E. repeat split; auto; try lia. unfold nlen; simpl; lia.
  - destruct (N.lt_ge_cases (nlen (cstr s)) n) as [Hlt|Hge].
    + rewrite strscpy_fits by (auto; simpl; lia). simpl app. rewrite N.add_0_l.
      repeat split; try lia.
      * cbn [snd]. rewrite nlen_app. unfold nlen at 2. simpl. lia.
      * intros _ _ Hs. apply N.ltb_ge in Hs. rewrite Hs. reflexivity.
    + rewrite strscpy_trunc by (auto; simpl; lia). simpl app.
      repeat split; try lia.
      cbn [snd]. rewrite nlen_app. unfold nlen. simpl length. rewrite firstn_length. lia.
Qed.

(* ------------------------------------------------------------------ *)
(* inet_ntop4                                                          *)
(* ------------------------------------------------------------------ *)
Lemma dec_u8_len v : (1 <= length (dec_u8 v) <= 3)%nat.
Proof. unfold dec_u8. destruct (v <? 10); [|destruct (v <? 100)]; simpl; lia. Qed.

Lemma fmt4_len src : 7 <= nlen (fmt4 src) /\ nlen (fmt4 src) <= 15.
Proof.
  unfold fmt4, nlen. rewrite !app_length. simpl length.
  pose proof (dec_u8_len (byte_at src 0)). pose proof (dec_u8_len (byte_at src 1)).
  pose proof (dec_u8_len (byte_at src 2)). pose proof (dec_u8_len (byte_at src 3)). lia.
Qed.

Lemma firstn_all2 {A} (l : list A) n : (length l <= n)%nat -> firstn n l = l.
Proof. apply firstn_all2. Qed.

Theorem ntop4_spec src size :
  let text := fmt4 src in
  (size <= nlen text -> inet_ntop4 src size = (UV_ENOSPC, [])) /\
  (nlen text < size -> inet_ntop4 src size = (0%Z, text ++ [0])).
Proof.
  cbv zeta. unfold inet_ntop4. pose proof (fmt4_len src) as [Hlo Hhi].
  assert (E0 : nlen (fmt4 src) <=? 0 = false) by (apply N.leb_gt; lia). rewrite E0. cbn [orb].
  rewrite firstn_all2 by (unfold nlen in Hhi; lia).
  split; intros H.
  - apply N.leb_le in H. rewrite H. reflexivity.
  - assert (E : size <=? nlen (fmt4 src) = false) by (apply N.leb_gt; lia). rewrite E.
    rewrite strscpy_fits by (auto; simpl; lia). reflexivity.
Qed.

(* never writes at an index >= size; UV_ENOSPC iff text + NUL does not fit *)
Theorem ntop4_bounded src size :
  let r := inet_ntop4 src size in
  nlen (snd r) <= size /\
  (fst r = UV_ENOSPC <-> size < nlen (fmt4 src) + 1) /\
  (fst r = 0%Z \/ fst r = UV_ENOSPC) /\
  (fst r <> 0%Z -> snd r = []).
Proof.
  cbv zeta. destruct (ntop4_spec src size) as [H1 H2].
  destruct (N.le_gt_cases size (nlen (fmt4 src))) as [H|H].
  - rewrite (H1 H). cbn [fst snd]. repeat split; auto; try lia. unfold nlen; simpl; lia.
  - rewrite (H2 H). cbn [fst snd]. repeat split; auto; try lia.
    + rewrite nlen_app. unfold nlen at 2. simpl. lia.
    + unfold UV_ENOSPC. discriminate.
Qed.

Lemma dec_u8_octet v : v < 256 -> octet_text (dec_u8 v) v.
Proof.
  intros Hv. unfold dec_u8, octet_text, dval, digit.
  destruct (v <? 10) eqn:E1; [|destruct (v <? 100) eqn:E2].
  - apply N.ltb_lt in E1. repeat split; try discriminate; try lia.
    + repeat constructor; lia.
    + intros t Ht. inversion Ht. reflexivity.
    + cbn [fold_left]. unfold dstep. lia.
  - apply N.ltb_ge in E1. apply N.ltb_lt in E2. repeat split; try discriminate; try lia.
    + repeat constructor; lia.
    + intros t Ht. exfalso. apply (f_equal (hd 0)) in Ht. cbn [hd] in Ht. lia.
    + cbn [fold_left]. unfold dstep. lia.
  - apply N.ltb_ge in E1. apply N.ltb_ge in E2. repeat split; try discriminate; try lia.
    + repeat constructor; lia.
    + intros t Ht. exfalso. apply (f_equal (hd 0)) in Ht. cbn [hd] in Ht. lia.
    + cbn [fold_left]. unfold dstep. lia.
Qed.

Lemma fmt4_dotted a b c d :
  a < 256 -> b < 256 -> c < 256 -> d < 256 -> dotted_quad (fmt4 [a; b; c; d]) [a; b; c; d].
Proof.
  intros. exists (dec_u8 a), (dec_u8 b), (dec_u8 c), (dec_u8 d), a, b, c, d.
  split; [reflexivity|]. repeat (split; [apply dec_u8_octet; assumption|]). reflexivity.
Qed.

(* all 2^32 addresses: four octets, each < 256 *)
Theorem ntop4_pton4_roundtrip a b c d size :
  a < 256 -> b < 256 -> c < 256 -> d < 256 -> 16 <= size ->
  exists t, uv_inet_ntop AF_INET [a; b; c; d] size = (0%Z, t ++ [0]) /\
            ~ In 0 t /\
            uv_inet_pton AF_INET (t ++ [0]) = (0%Z, [a; b; c; d]).
Proof.
  intros Ha Hb Hc Hd Hs. exists (fmt4 [a; b; c; d]).
  assert (Hnz : ~ In 0 (fmt4 [a; b; c; d])).
  { destruct (fmt4_dotted a b c d Ha Hb Hc Hd)
      as (s0 & s1 & s2 & s3 & v0 & v1 & v2 & v3 & E & O0 & O1 & O2 & O3 & _).
    rewrite E. intros Hin.
    assert (Hoct : forall s v, octet_text s v -> ~ In 0 s).
    { intros s v (_ & HF & _) Hi. rewrite Forall_forall in HF. apply HF in Hi.
      unfold digit in Hi. lia. }
    apply in_app_or in Hin. destruct Hin as [Hin|[Hin|Hin]];
      [exact (Hoct _ _ O0 Hin)|discriminate|].
    apply in_app_or in Hin. destruct Hin as [Hin|[Hin|Hin]];
      [exact (Hoct _ _ O1 Hin)|discriminate|].
    apply in_app_or in Hin. destruct Hin as [Hin|[Hin|Hin]];
      [exact (Hoct _ _ O2 Hin)|discriminate|].
    exact (Hoct _ _ O3 Hin). }
  split; [|split; [exact Hnz|]].
  - unfold uv_inet_ntop. cbn [Z.eqb AF_INET Pos.eqb].
    apply ntop4_spec. pose proof (fmt4_len [a; b; c; d]). lia.
  - unfold uv_inet_pton. cbn [Z.eqb AF_INET Pos.eqb].
    assert (E : cstr (fmt4 [a; b; c; d] ++ [0]) = fmt4 [a; b; c; d]).
    { clear -Hnz. induction (fmt4 [a; b; c; d]) as [|x l IH]; [reflexivity|].
      simpl. destruct (x =? 0) eqn:E0.
      - apply N.eqb_eq in E0. subst. exfalso. apply Hnz. left; reflexivity.
      - f_equal. apply IH. intros H. apply Hnz. right; exact H. }
    rewrite E. apply pton4_complete. apply fmt4_dotted; assumption.
Qed.
