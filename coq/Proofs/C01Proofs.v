(* C01 - loop liveness: the theorems about Model/LoopCore.v, on top of the
   invariant of Proofs/LoopCoreInv.v. *)
From UV Require Import Lib.Base Model.Heap Model.Timer Model.LoopCore
  Proofs.HeapProofs Proofs.TimerProofs Proofs.LoopCoreInv Proofs.UvRunAlt.
Local Open Scope Z_scope.

(* ------------------------------------------------------------------ *)
(* 1. the counters are exact                                          *)
(* ------------------------------------------------------------------ *)
(* What the invariant says, without the vocabulary of LoopCoreInv.v.
   [pend] is the part of a close batch that uv__run_closing_handles has
   detached and not yet finished ([] outside uv__run_closing_handles). *)
Definition counters_exact (s : lstate) (pend : list nat) : Prop :=
  nact s = Z.of_nat (length (filter (fun h => h_active h && h_ref h) (hs s))) /\
  (forall h, In h (hs s) -> h_closing h = true -> h_active h = false) /\
  nact s = Z.of_nat (length (filter (fun h => h_active h && h_ref h && negb (h_closing h)) (hs s))) /\
  nreq s = Z.of_nat (length (filter (fun w => negb (w_delivered w)) (works s))) /\
  NoDup (closing s ++ pend) /\
  (forall i, In i (closing s ++ pend) <->
             exists h, nth_error (hs s) i = Some h /\ h_closing h = true /\ h_closed h = false).

Lemma filter_ext_in_len {A} (p q : A -> bool) l :
  (forall x, In x l -> p x = q x) -> length (filter p l) = length (filter q l).
Proof.
  induction l as [|x xs IH]; intros H; simpl; [reflexivity|].
  rewrite (H x (or_introl eq_refl)). destruct (q x); simpl; rewrite IH; auto;
    intros y Hy; apply H; right; exact Hy.
Qed.

Lemma LInv_counters_exact s pend : LInv s pend -> counters_exact s pend.
Proof.
  intros Hinv. pose proof Hinv as [HI WI].
  assert (Hcl : forall h, In h (hs s) -> h_closing h = true -> h_active h = false).
  { intros h Hin. apply (LInvG_in_hs_hok s pend [] h Hinv Hin). }
  unfold counters_exact. split; [|split; [|split; [|split; [|split]]]].
  - apply (hi_nact _ _ HI).
  - exact Hcl.
  - rewrite (hi_nact _ _ HI). unfold countZ. f_equal.
    apply filter_ext_in_len. intros h Hin. unfold p_ar.
    destruct (h_closing h) eqn:Ec; [rewrite (Hcl h Hin Ec); reflexivity|].
    rewrite andb_true_r. reflexivity.
  - apply (wi_nreq _ _ WI).
  - apply (hi_nodup _ _ HI).
  - intros i. rewrite (hi_cl _ _ HI i). split.
    + intros (Hi & Hc & Hd). exists (hget s i). split; [apply hget_nth_error; exact Hi|auto].
    + intros (h & Hi & Hc & Hd). apply nth_error_hget in Hi. destruct Hi as (<- & Hi). auto.
Qed.

Theorem counter_exact t0 m os beh : counters_exact (fst (lrun (linit t0 m) os beh)) [].
Proof. apply LInv_counters_exact, LInv_reachable. Qed.

(* ... and after every step in between: the invariant (hence [counters_exact])
   is kept by every API call, by every user callback and by every phase *)
Theorem counter_exact_steps :
  (forall s pend o, LInv s pend -> LInv (fst (lapi s o)) pend) /\
  (forall s pend os, LInv s pend -> LInv (fst (lapis s os)) pend) /\
  (forall s pend beh tag i, LInv s pend -> LInv (fst (callback s beh tag i)) pend) /\
  (forall s pend beh k tag, LInv s pend -> LInv (fst (run_watchers s beh k tag)) pend) /\
  (forall s pend beh t, LInv s pend -> LInv (fst (io_poll s beh t)) pend) /\
  (forall l s pend beh, LInv s (l ++ pend) -> LInv (fst (run_closing l s beh)) pend) /\
  (forall s pend beh, LInv s pend -> LInv (fst (l_run_timers s beh)) pend) /\
  (forall s beh mode, LInv s [] -> LInv (fst (iteration s beh mode)) []) /\
  (forall fuel s beh mode, LInv s [] -> LInv (fst (uv_run fuel s beh mode)) []) /\
  (forall s os beh, LInv s [] -> LInv (fst (lrun s os beh)) []).
Proof.
  split; [intros; apply LInvG_lapi; assumption|].
  split; [intros; apply LInvG_lapis; assumption|].
  split; [intros; apply LInvG_callback; assumption|].
  split; [intros; apply LInvG_run_watchers; assumption|].
  split; [intros; apply LInvG_io_poll; assumption|].
  split; [intros; apply LInvG_run_closing; assumption|].
  split; [intros; apply LInvG_l_run_timers; assumption|].
  split; [intros; apply LInvG_iteration; assumption|].
  split; [intros; apply LInvG_uv_run; assumption|].
  intros; apply LInvG_lrun; assumption.
Qed.

(* ------------------------------------------------------------------ *)
(* 1b. every snapshot in a trace, also those taken inside callbacks     *)
(* ------------------------------------------------------------------ *)
(* A snapshot event [VObs n r fl] carries loop->active_handles, the request
   counter and the (active, ref, closing, closed) flags of every handle. *)
Definition fl_counted (x : bool * bool * bool * bool) : bool :=
  let '(a, r, c, d) := x in a && r && negb c.
Definition fl_ok (x : bool * bool * bool * bool) : Prop :=
  let '(a, r, c, d) := x in (c = true -> a = false) /\ (d = true -> c = true).
Definition ev_obs_ok (e : levent) : Prop :=
  match e with
  | VObs n r fl => n = Z.of_nat (length (filter fl_counted fl)) /\ Forall fl_ok fl /\ 0 <= r
  | _ => True
  end.
Definition tr_ok (evs : list levent) : Prop := Forall ev_obs_ok evs.

Lemma filter_map_len {A B} (p : B -> bool) (g : A -> B) l :
  length (filter p (map g l)) = length (filter (fun x => p (g x)) l).
Proof. induction l as [|x xs IH]; simpl; [reflexivity|]. destruct (p (g x)); simpl; rewrite IH; reflexivity. Qed.

Lemma obs_ok s pend wpend : LInvG s pend wpend -> ev_obs_ok (obs s).
Proof.
  intros Hinv. pose proof Hinv as [HI _]. unfold obs, ev_obs_ok. split; [|split].
  - rewrite (hi_nact _ _ HI). unfold countZ. f_equal. rewrite filter_map_len.
    apply filter_ext_in_len. intros h Hin. unfold p_ar, fl_counted.
    destruct (LInvG_in_hs_hok s pend wpend h Hinv Hin) as (K1 & _).
    destruct (h_closing h) eqn:Ec; [rewrite (K1 eq_refl); reflexivity|].
    rewrite andb_true_r. reflexivity.
  - apply Forall_forall. intros x Hx. apply in_map_iff in Hx. destruct Hx as (h & <- & Hin).
    exact (LInvG_in_hs_hok s pend wpend h Hinv Hin).
  - apply (LInvG_counts_nonneg s pend wpend Hinv).
Qed.

Lemma tr_ok_app a b : tr_ok a -> tr_ok b -> tr_ok (a ++ b).
Proof. intros; apply Forall_app; split; assumption. Qed.

Lemma tr_lapi s pend wpend o : LInvG s pend wpend -> tr_ok (snd (lapi s o)).
Proof.
  intros Hinv. unfold tr_ok.
  destruct o as [k hascb|i cb t r|i|i r|i hascb|i|i|i|i|i|x| |d| | | |m| ]; cbn [lapi].
  - destruct k; cbn [snd]; repeat constructor.
  - destruct (usable s i && kind_is s i KTimer); [destruct (l_timer_start s i cb t r)|];
      cbn [snd]; repeat constructor.
  - destruct (usable s i && kind_is s i KTimer); [destruct (l_timer_again s i)|];
      cbn [snd]; repeat constructor.
  - destruct (usable s i && kind_is s i KTimer); cbn [snd]; repeat constructor.
  - destruct (usable s i && is_watcher s i && negb (h_closing (hget s i)));
      [destruct (watcher_start s i hascb)|]; cbn [snd]; repeat constructor.
  - destruct (usable s i); [destruct (kind_is s i KTimer); [|destruct (is_watcher s i)]|];
      cbn [snd]; repeat constructor.
  - destruct (usable s i); cbn [snd]; repeat constructor.
  - destruct (usable s i); cbn [snd]; repeat constructor.
  - destruct (usable s i && negb (h_closing (hget s i))); cbn [snd]; repeat constructor.
  - destruct (usable s i && kind_is s i KAsync); cbn [snd]; repeat constructor.
  - cbn [snd]; repeat constructor.
  - cbn [snd]; repeat constructor.
  - cbn [snd]; repeat constructor.
  - cbn [snd]; repeat constructor.
  - cbn [snd]. constructor; [|constructor]. exact (obs_ok s pend wpend Hinv).
  - cbn [snd]; repeat constructor.
  - cbn [snd]; repeat constructor.
  - cbn [snd]; repeat constructor.
Qed.

Lemma tr_lapis os : forall s pend wpend, LInvG s pend wpend -> tr_ok (snd (lapis s os)).
Proof.
  induction os as [|o os IH]; intros s pend wpend Hinv; cbn [lapis]; [constructor|].
  pose proof (LInvG_lapi s pend wpend o Hinv) as I1. pose proof (tr_lapi s pend wpend o Hinv) as T1.
  destruct (lapi s o) as [s1 e1]. cbn [fst snd] in *.
  specialize (IH s1 pend wpend I1). destruct (lapis s1 os) as [s2 e2]. cbn [snd] in *.
  apply tr_ok_app; assumption.
Qed.

Lemma tr_callback s pend wpend beh tag i :
  LInvG s pend wpend -> tr_ok (snd (callback s beh tag i)).
Proof.
  intros Hinv. unfold callback.
  set (s1 := set_cbcount s _). set (ops := if Nat.eqb _ _ then _ else _).
  assert (I1 : LInvG s1 pend wpend) by (eapply LInvG_core; [|exact Hinv]; reflexivity).
  pose proof (tr_lapis ops s1 pend wpend I1) as T2.
  destruct (lapis s1 ops) as [s2 evs]. cbn [snd] in *. repeat constructor. exact T2.
Qed.

Lemma tr_run_lq fuel : forall s pend wpend beh k tag,
  LInvG s pend wpend -> tr_ok (snd (run_lq fuel s beh k tag)).
Proof.
  induction fuel as [|f IH]; intros s pend wpend beh k tag Hinv; cbn [run_lq]; [constructor|].
  destruct (lq s) as [|i rest]; [constructor|].
  set (s2 := wq_set _ _ _).
  assert (I2 : LInvG s2 pend wpend).
  { eapply LInvG_core; [|exact Hinv]. subst s2. rewrite hcore_wq_set. reflexivity. }
  pose proof (LInvG_callback s2 pend wpend beh tag i I2) as I3.
  pose proof (tr_callback s2 pend wpend beh tag i I2) as T3.
  destruct (callback s2 beh tag i) as [s3 e1]. cbn [fst snd] in *.
  specialize (IH s3 pend wpend beh k tag I3).
  destruct (run_lq f s3 beh k tag) as [s4 e2]. cbn [snd] in *. apply tr_ok_app; assumption.
Qed.

Lemma tr_run_watchers s pend wpend beh k tag :
  LInvG s pend wpend -> tr_ok (snd (run_watchers s beh k tag)).
Proof.
  intros Hinv. unfold run_watchers. eapply tr_run_lq.
  eapply LInvG_core; [|exact Hinv].
  change (hcore (set_lq (wq_set s k []) (wq_get s k))) with (hcore (wq_set s k [])).
  apply hcore_wq_set.
Qed.

Lemma tr_run_alq fuel : forall s pend wpend beh,
  LInvG s pend wpend -> tr_ok (snd (run_alq fuel s beh)).
Proof.
  induction fuel as [|f IH]; intros s pend wpend beh Hinv; cbn [run_alq]; [constructor|].
  destruct (alq s) as [|i rest]; [constructor|].
  set (s2 := set_async _ _).
  assert (I2 : LInvG s2 pend wpend) by (eapply LInvG_core; [|exact Hinv]; reflexivity).
  assert (I4 : LInvG (fst (if h_pending (hget s2 i)
                           then let s3 := upd_h s2 i (with_pending false) in
                                if h_hascb (hget s2 i) then callback s3 beh 4 i else (s3, [])
                           else (s2, []))) pend wpend /\
               tr_ok (snd (if h_pending (hget s2 i)
                           then let s3 := upd_h s2 i (with_pending false) in
                                if h_hascb (hget s2 i) then callback s3 beh 4 i else (s3, [])
                           else (s2, [])))).
  { destruct (h_pending (hget s2 i)); [|split; [exact I2|constructor]]. cbv zeta.
    assert (I3 : LInvG (upd_h s2 i (with_pending false)) pend wpend)
      by (apply LInvG_upd_h_inert; [apply flags_same_pending|exact I2]).
    destruct (h_hascb (hget s2 i)); [split; [apply LInvG_callback|eapply tr_callback]; exact I3|].
    split; [exact I3|constructor]. }
  destruct (if h_pending (hget s2 i) then _ else _) as [s4 e1]. cbn [fst snd] in I4.
  destruct I4 as [I4 T4]. specialize (IH s4 pend wpend beh I4).
  destruct (run_alq f s4 beh) as [s5 e2]. cbn [snd] in *. apply tr_ok_app; assumption.
Qed.

Lemma tr_run_wq l : forall s pend wpend beh,
  LInvG s pend (l ++ wpend) -> tr_ok (snd (run_wq l s beh)).
Proof.
  induction l as [|w rest IH]; intros s pend wpend beh Hinv; cbn [run_wq]; [constructor|].
  pose proof (LInvG_wq_deliver s pend w (rest ++ wpend) Hinv) as I2.
  set (s2 := set_works _ _) in *.
  assert (I3 : LInvG (fst (if w_has_after (nth w (works s) (mkW false false))
                           then callback s2 beh 5 w else (s2, []))) pend (rest ++ wpend) /\
               tr_ok (snd (if w_has_after (nth w (works s) (mkW false false))
                           then callback s2 beh 5 w else (s2, [])))).
  { destruct (w_has_after _); [split; [apply LInvG_callback|eapply tr_callback]; exact I2|].
    split; [exact I2|constructor]. }
  destruct (if w_has_after _ then _ else _) as [s3 e1]. cbn [fst snd] in I3.
  destruct I3 as [I3 T3]. specialize (IH s3 pend wpend beh I3).
  destruct (run_wq rest s3 beh) as [s4 e2]. cbn [snd] in *. apply tr_ok_app; assumption.
Qed.

Lemma tr_io_poll s pend beh timeout :
  LInvG s pend [] -> tr_ok (snd (io_poll s beh timeout)).
Proof.
  intros Hinv. unfold io_poll. destruct (efd s).
  - set (s1 := set_efd (update_time s) false).
    assert (I1 : LInvG s1 pend []) by (apply LInvG_poll_wakeup; exact Hinv).
    assert (I2 : LInvG (fst (if wq_pending s1
                             then let s' := set_wqp s1 false in
                                  let l := wq s' in run_wq l (set_wq s' []) beh
                             else (s1, []))) pend [] /\
                 tr_ok (snd (if wq_pending s1
                             then let s' := set_wqp s1 false in
                                  let l := wq s' in run_wq l (set_wq s' []) beh
                             else (s1, [])))).
    { destruct (wq_pending s1); [|split; [exact I1|constructor]]. cbv zeta.
      split; [apply LInvG_run_wq|eapply tr_run_wq]; apply LInvG_detach_wq; exact I1. }
    destruct (if wq_pending s1 then _ else _) as [s2 e1]. cbn [fst snd] in I2.
    destruct I2 as [I2 T2].
    set (s3 := set_alq _ _).
    assert (I3 : LInvG s3 pend []) by (eapply LInvG_core; [|exact I2]; reflexivity).
    pose proof (tr_run_alq (length (async_q s2)) s3 pend [] beh I3) as T4.
    destruct (run_alq (length (async_q s2)) s3 beh) as [s4 e2]. cbn [snd] in *.
    constructor; [exact I|]. apply tr_ok_app; assumption.
  - destruct (timeout =? 0); cbn [snd]; [repeat constructor|].
    destruct (timeout <? 0); cbn [snd]; [repeat constructor|].
    destruct (metrics s); [destruct (timeout - (clock s - now (ts s)) <=? 0)|];
      cbn [snd]; repeat constructor.
Qed.

Lemma tr_run_closing l : forall s pend wpend beh,
  LInvG s (l ++ pend) wpend -> tr_ok (snd (run_closing l s beh)).
Proof.
  induction l as [|i rest IH]; intros s pend wpend beh Hinv; cbn [run_closing]; [constructor|].
  pose proof (LInvG_finish_close s i (rest ++ pend) wpend Hinv) as I2.
  pose proof (LInvG_callback _ (rest ++ pend) wpend beh 6 i I2) as I3.
  pose proof (tr_callback _ (rest ++ pend) wpend beh 6 i I2) as T3.
  destruct (callback _ beh 6 i) as [s3 e1]. cbn [fst snd] in *.
  specialize (IH s3 pend wpend beh I3).
  destruct (run_closing rest s3 beh) as [s4 e2]. cbn [snd] in *. apply tr_ok_app; assumption.
Qed.

Lemma tr_l_fire fuel : forall s pend wpend beh,
  LInvG s pend wpend -> tr_ok (snd (l_fire fuel s beh)).
Proof.
  induction fuel as [|f IH]; intros s pend wpend beh Hinv; cbn [l_fire]; [constructor|].
  destruct (ready (ts s)) as [|i rest] eqn:Er; [constructor|].
  pose proof (LInvG_fire_step s pend wpend i rest Hinv Er) as I1.
  set (s0 := set_ts s _) in *.
  pose proof (LInvG_callback _ pend wpend beh 0 i I1) as I2.
  pose proof (tr_callback _ pend wpend beh 0 i I1) as T2.
  destruct (callback (fst (l_timer_again s0 i)) beh 0 i) as [s2 e1]. cbn [fst snd] in *.
  specialize (IH s2 pend wpend beh I2).
  destruct (l_fire f s2 beh) as [s3 e2]. cbn [snd] in *. apply tr_ok_app; assumption.
Qed.

Lemma tr_l_run_timers s pend wpend beh :
  LInvG s pend wpend -> tr_ok (snd (l_run_timers s beh)).
Proof. intros Hinv. unfold l_run_timers. eapply tr_l_fire. apply LInvG_l_collect. exact Hinv. Qed.

Lemma tr_iteration s beh mode : LInvG s [] [] -> tr_ok (snd (iteration s beh mode)).
Proof.
  intros Hinv. unfold iteration.
  pose proof (LInvG_run_watchers s [] [] beh KIdle 1 Hinv) as I1.
  pose proof (tr_run_watchers s [] [] beh KIdle 1 Hinv) as T1.
  destruct (run_watchers s beh KIdle 1) as [s1 e1]. cbn [fst snd] in *.
  pose proof (LInvG_run_watchers s1 [] [] beh KPrepare 2 I1) as I2.
  pose proof (tr_run_watchers s1 [] [] beh KPrepare 2 I1) as T2.
  destruct (run_watchers s1 beh KPrepare 2) as [s2 e2]. cbn [fst snd] in *.
  match goal with |- context [io_poll _ beh ?t] => set (timeout := t) end.
  assert (I2' : LInvG (set_dirty s2 false) [] []) by (eapply LInvG_core; [|exact I2]; reflexivity).
  pose proof (LInvG_io_poll _ [] beh timeout I2') as I3.
  pose proof (tr_io_poll _ [] beh timeout I2') as T3.
  destruct (io_poll (set_dirty s2 false) beh timeout) as [s3 e3]. cbn [fst snd] in *.
  pose proof (LInvG_run_watchers s3 [] [] beh KCheck 3 I3) as I4.
  pose proof (tr_run_watchers s3 [] [] beh KCheck 3 I3) as T4.
  destruct (run_watchers s3 beh KCheck 3) as [s4 e4]. cbn [fst snd] in *.
  pose proof (LInvG_run_closing (closing s4) (set_closing s4 []) [] [] beh (LInvG_detach_closing _ _ I4)) as I5.
  pose proof (tr_run_closing (closing s4) (set_closing s4 []) [] [] beh (LInvG_detach_closing _ _ I4)) as T5.
  destruct (run_closing (closing s4) (set_closing s4 []) beh) as [s5 e5]. cbn [fst snd] in *.
  pose proof (tr_l_run_timers _ [] [] beh (LInvG_update_time _ _ _ I5)) as T7.
  destruct (l_run_timers (update_time s5) beh) as [s7 e6]. cbn [snd] in *.
  repeat apply tr_ok_app; assumption.
Qed.

Lemma tr_run_loop fuel : forall s beh mode,
  LInvG s [] [] -> tr_ok (snd (fst (run_loop fuel s beh mode))).
Proof.
  induction fuel as [|f IH]; intros s beh mode Hinv; cbn [run_loop]; [constructor|].
  pose proof (LInvG_iteration s beh mode Hinv) as I1.
  pose proof (tr_iteration s beh mode Hinv) as T1.
  destruct (iteration s beh mode) as [s1 e1]. cbn [fst snd] in *.
  destruct (negb (Nat.eqb mode 0)); [exact T1|].
  destruct (loop_alive s1 && negb (stop_flag s1)); [|exact T1].
  specialize (IH s1 beh mode I1).
  destruct (run_loop f s1 beh mode) as [[s2 e2] r2]. cbn [fst snd] in *. apply tr_ok_app; assumption.
Qed.

Lemma tr_uv_run fuel s beh mode : LInvG s [] [] -> tr_ok (snd (uv_run fuel s beh mode)).
Proof.
  intros Hinv. rewrite uv_run_alt_eq. unfold uv_run_alt.
  set (s0 := if loop_alive s then s else update_time s).
  assert (I0 : LInvG s0 [] []) by (subst s0; destruct (loop_alive s); [|apply LInvG_update_time]; exact Hinv).
  assert (I1 : LInvG (fst (if Nat.eqb mode 0 && loop_alive s && negb (stop_flag s0)
                           then l_run_timers (update_time s0) beh else (s0, []))) [] [] /\
               tr_ok (snd (if Nat.eqb mode 0 && loop_alive s && negb (stop_flag s0)
                           then l_run_timers (update_time s0) beh else (s0, [])))).
  { destruct (Nat.eqb mode 0 && loop_alive s && negb (stop_flag s0)); [|split; [exact I0|constructor]].
    split; [apply LInvG_l_run_timers|eapply tr_l_run_timers]; apply LInvG_update_time; exact I0. }
  destruct (if Nat.eqb mode 0 && loop_alive s && negb (stop_flag s0) then _ else _) as [s1 e0].
  cbn [fst snd] in I1. destruct I1 as [I1 T1].
  set (rr := if Nat.eqb mode 0 && loop_alive s && negb (stop_flag s0) && stop_flag s1
             then loop_alive s1 else loop_alive s).
  assert (T2 : tr_ok (snd (fst (if loop_alive s && negb (stop_flag s1)
                                then run_loop fuel s1 beh mode else (s1, [], rr))))).
  { destruct (loop_alive s && negb (stop_flag s1)); [apply tr_run_loop; exact I1|constructor]. }
  destruct (if loop_alive s && negb (stop_flag s1) then _ else _) as [[s2 e1] r'].
  cbn [fst snd] in *. apply tr_ok_app; [exact T1|]. apply tr_ok_app; [exact T2|]. repeat constructor.
Qed.

Lemma tr_lrun os : forall s beh, LInvG s [] [] -> tr_ok (snd (lrun s os beh)).
Proof.
  induction os as [|o os IH]; intros s beh Hinv; [constructor|].
  assert (Hgen : forall s1 e1, lapi s o = (s1, e1) ->
                 tr_ok (snd (let '(s1, e1) := lapi s o in
                             let '(s2, e2) := lrun s1 os beh in (s2, e1 ++ e2)))).
  { intros s1 e1 E. rewrite E. pose proof (LInvG_lapi s [] [] o Hinv) as I1.
    pose proof (tr_lapi s [] [] o Hinv) as T1. rewrite E in I1, T1. cbn [fst snd] in *.
    specialize (IH s1 beh I1). destruct (lrun s1 os beh) as [s2 e2]. cbn [snd] in *.
    apply tr_ok_app; assumption. }
  destruct o as [k hascb|i cb t r|i|i r|i hascb|i|i|i|i|i|a| |d| | | |m| ]; cbn [lrun];
    try (eapply Hgen; apply surjective_pairing).
  - pose proof (LInvG_uv_run run_fuel s beh m Hinv) as I1.
    pose proof (tr_uv_run run_fuel s beh m Hinv) as T1.
    destruct (uv_run run_fuel s beh m) as [s1 e1]. cbn [fst snd] in *.
    specialize (IH s1 beh I1). destruct (lrun s1 os beh) as [s2 e2]. cbn [snd] in *.
    constructor; [exact I|]. apply tr_ok_app; assumption.
  - specialize (IH s beh Hinv). destruct (lrun s os beh) as [s2 e2]. cbn [snd] in *.
    constructor; [exact I|exact IH].
Qed.

(* every snapshot in the trace of every script - also those taken by
   callbacks, inside any phase, inside a close batch - has
   active_handles = number of handles active, referenced and not closing *)
Theorem obs_counter_exact t0 m os beh :
  Forall ev_obs_ok (snd (lrun (linit t0 m) os beh)).
Proof. apply tr_lrun. apply LInvG_init. Qed.

(* ------------------------------------------------------------------ *)
(* 2. uv_loop_alive                                                   *)
(* ------------------------------------------------------------------ *)
Definition outstanding (s : lstate) : Prop :=
  (exists i h, nth_error (hs s) i = Some h /\ h_active h = true /\ h_ref h = true /\ h_closing h = false) \/
  0 < nreq s \/
  (exists i h, nth_error (hs s) i = Some h /\ h_closing h = true /\ h_closed h = false).

Theorem alive_iff s : LInv s [] -> (loop_alive s = true <-> outstanding s).
Proof.
  intros Hinv. unfold loop_alive, outstanding.
  rewrite !orb_true_iff, !Z.ltb_lt.
  rewrite (LInvG_nact_pos s [] [] Hinv).
  rewrite <- (LInvG_closing_nonempty s [] Hinv).
  assert (Hne : negb (match closing s with [] => true | _ => false end) = true <-> closing s <> [])
    by (destruct (closing s); cbn; split; congruence).
  rewrite Hne. tauto.
Qed.

(* inside a close batch: what uv__loop_alive does compute.  The handles of
   the detached batch [pend] are not seen. *)
Lemma NoDup_app_disj {A} (a b : list A) x : NoDup (a ++ b) -> In x a -> ~ In x b.
Proof.
  induction a as [|y a IH]; simpl; intros Hn Hin; [contradiction|].
  inversion Hn as [|? ? Hny Hn']; subst. destruct Hin as [->|Hin].
  - intros Hb. apply Hny. apply in_or_app; right; exact Hb.
  - apply IH; assumption.
Qed.

Theorem alive_iff_in_batch s pend : LInv s pend ->
  (loop_alive s = true <->
   (exists i h, nth_error (hs s) i = Some h /\ h_active h = true /\ h_ref h = true /\ h_closing h = false) \/
   0 < nreq s \/
   (exists i h, nth_error (hs s) i = Some h /\ h_closing h = true /\ h_closed h = false /\ ~ In i pend)).
Proof.
  intros Hinv. pose proof Hinv as [HI _]. unfold loop_alive.
  rewrite !orb_true_iff, !Z.ltb_lt.
  rewrite (LInvG_nact_pos s pend [] Hinv).
  assert (Hne : negb (match closing s with [] => true | _ => false end) = true <->
                exists i h, nth_error (hs s) i = Some h /\ h_closing h = true /\ h_closed h = false /\ ~ In i pend).
  { split.
    - destruct (closing s) as [|i l] eqn:E; cbn; [discriminate|]. intros _.
      assert (Hin : In i (closing s)) by (rewrite E; left; reflexivity).
      assert (Hin' : In i (closing s ++ pend)) by (apply in_or_app; left; exact Hin).
      apply (hi_cl _ _ HI) in Hin'. destruct Hin' as (Hi & Hc & Hd).
      exists i, (hget s i). split; [apply hget_nth_error; exact Hi|]. repeat split; auto.
      apply (NoDup_app_disj (closing s) pend i (hi_nodup _ _ HI) Hin).
    - intros (i & h & Hi & Hc & Hd & Hnp). apply nth_error_hget in Hi. destruct Hi as (<- & Hi).
      assert (Hin : In i (closing s ++ pend)) by (apply (hi_cl _ _ HI); auto).
      apply in_app_or in Hin. destruct Hin as [Hin|Hin]; [|contradiction].
      destruct (closing s); [destruct Hin|reflexivity]. }
  rewrite Hne. tauto.
Qed.

Lemma lrun_app a : forall s b beh,
  lrun s (a ++ b) beh =
  let '(s1, e1) := lrun s a beh in let '(s2, e2) := lrun s1 b beh in (s2, e1 ++ e2).
Proof.
  induction a as [|o a IH]; intros s b beh.
  - simpl. destruct (lrun s b beh). reflexivity.
  - assert (Hgen : forall s1 e1,
             (let '(s2, e2) := lrun s1 (a ++ b) beh in (s2, e1 ++ e2)) =
             (let '(s1', e1') := (let '(s2, e2) := lrun s1 a beh in (s2, e1 ++ e2)) in
              let '(s2, e2) := lrun s1' b beh in (s2, e1' ++ e2))).
    { intros s1 e1. rewrite IH. destruct (lrun s1 a beh) as [s2 e2].
      destruct (lrun s2 b beh) as [s3 e3]. rewrite app_assoc. reflexivity. }
    destruct o as [k hascb|i cb t r|i|i r|i hascb|i|i|i|i|i|x| |d| | | |m| ];
      simpl app; cbn [lrun];
      try (destruct (lapi s _) as [s1 e1]; apply Hgen).
    + destruct (uv_run run_fuel s beh m) as [s1 e1]. rewrite IH.
      destruct (lrun s1 a beh) as [s2 e2]. destruct (lrun s2 b beh) as [s3 e3].
      simpl. rewrite app_assoc. reflexivity.
    + rewrite IH. destruct (lrun s a beh) as [s2 e2]. destruct (lrun s2 b beh) as [s3 e3].
      reflexivity.
Qed.

(* every uv_loop_alive() made at top level, anywhere in any script, reports
   exactly the outstanding-work predicate of the state it is made in *)
Theorem alive_toplevel t0 m pre post beh :
  let s := fst (lrun (linit t0 m) pre beh) in
  snd (lrun (linit t0 m) (pre ++ LAlive :: post) beh) =
    snd (lrun (linit t0 m) pre beh) ++ VAlive (loop_alive s) :: snd (lrun s post beh) /\
  (loop_alive s = true <-> outstanding s).
Proof.
  cbv zeta. split.
  - rewrite lrun_app. destruct (lrun (linit t0 m) pre beh) as [s1 e1]. cbn [fst snd lrun lapi].
    destruct (lrun s1 post beh) as [s2 e2]. reflexivity.
  - apply alive_iff. apply LInv_reachable.
Qed.

(* known finding 1: inside a close batch the predicate is not what
   uv_loop_alive() reports.  Two prepare handles closed together; the first
   close callback asks uv_loop_alive() and takes a snapshot: "not alive"
   although handle 0 is closing and its close callback has not run. *)
Definition kf1_script : list lop :=
  [LInit KPrepare false; LInit KPrepare false; LClose 0; LClose 1; LRun 2].
Definition kf1_beh (k : nat) : list lop := match k with O => [LAlive; LObs] | _ => [] end.

Theorem alive_inside_close_batch_refuted :
  exists tr1 tr2 n r fl,
    snd (lrun (linit 0 false) kf1_script kf1_beh) = tr1 ++ VAlive false :: VObs n r fl :: tr2 /\
    exists x, In x fl /\ snd (fst x) = true /\ snd x = false.
Proof.
  exists [VRunStart 2 true; VPoll 0 false true false false; VCb 6 1 0; VAlive false],
         [VCb 6 0 0; VAlive false; VRun false], 0, 0,
         [(false, true, true, false); (false, false, true, true)].
  split; [vm_compute; reflexivity|].
  exists (false, true, true, false). split; [left; reflexivity|split; reflexivity].
Qed.

(* ------------------------------------------------------------------ *)
(* 3. the value returned by uv_run                                    *)
(* ------------------------------------------------------------------ *)
Lemma run_loop_result fuel : forall s beh mode,
  snd (run_loop fuel s beh mode) = loop_alive (fst (fst (run_loop fuel s beh mode))).
Proof.
  induction fuel as [|f IH]; intros s beh mode; cbn [run_loop]; [reflexivity|].
  destruct (iteration s beh mode) as [s1 e1].
  destruct (negb (Nat.eqb mode 0)); [reflexivity|].
  destruct (loop_alive s1 && negb (stop_flag s1)); [|reflexivity].
  specialize (IH s1 beh mode). destruct (run_loop f s1 beh mode) as [[s2 e2] r2]. exact IH.
Qed.

(* The result of uv_run is uv__loop_alive of the state it returns in - on
   every path, including the one where the timer pass that precedes the first
   iteration of UV_RUN_DEFAULT sets the stop flag (there the liveness is
   sampled again: the "fix:" commit for known finding 2). *)
Theorem run_result fuel s beh mode :
  exists e, snd (uv_run fuel s beh mode) = e ++ [VRun (loop_alive (fst (uv_run fuel s beh mode)))].
Proof.
  rewrite uv_run_alt_eq. unfold uv_run_alt.
  destruct (loop_alive s) eqn:Ea.
  - (* alive at entry *)
    rewrite andb_true_r in *.
    destruct (Nat.eqb mode 0 && negb (stop_flag s)) eqn:Em.
    + destruct (l_run_timers (update_time s) beh) as [s1 e0].
      destruct (stop_flag s1) eqn:Es1.
      * cbn [negb andb fst snd]. exists e0.
        change (loop_alive (set_stop s1 false)) with (loop_alive s1). reflexivity.
      * cbn [negb andb].
        pose proof (run_loop_result fuel s1 beh mode) as Hr.
        destruct (run_loop fuel s1 beh mode) as [[s2 e1] r']. cbn [fst snd] in *.
        exists (e0 ++ e1). rewrite app_assoc. subst r'. reflexivity.
    + cbn [andb].
      destruct (stop_flag s) eqn:Es.
      * cbn [negb andb fst snd]. exists []. cbn.
        change (loop_alive (set_stop s false)) with (loop_alive s). rewrite Ea. reflexivity.
      * cbn [negb andb].
        pose proof (run_loop_result fuel s beh mode) as Hr.
        destruct (run_loop fuel s beh mode) as [[s2 e1] r']. cbn [fst snd] in *.
        exists e1. subst r'. reflexivity.
  - rewrite andb_false_r. cbn [andb fst snd]. exists [].
    change (loop_alive (set_stop (update_time s) false)) with (loop_alive s). rewrite Ea. reflexivity.
Qed.

(* for reachable states the result is the outstanding-work predicate of the
   state uv_run returns in *)
Theorem run_result_outstanding t0 m pre beh mode :
  let s := fst (lrun (linit t0 m) pre beh) in
  exists e r, snd (uv_run run_fuel s beh mode) = e ++ [VRun r] /\
              (r = true <-> outstanding (fst (uv_run run_fuel s beh mode))).
Proof.
  cbv zeta. destruct (run_result run_fuel (fst (lrun (linit t0 m) pre beh)) beh mode) as (e & He).
  exists e, (loop_alive (fst (uv_run run_fuel (fst (lrun (linit t0 m) pre beh)) beh mode))).
  split; [exact He|]. apply alive_iff. apply LInv_uv_run. apply LInv_reachable.
Qed.

(* where a top-level uv_run sits in the trace of a script *)
Theorem run_toplevel t0 m pre post beh mode :
  let s := fst (lrun (linit t0 m) pre beh) in
  snd (lrun (linit t0 m) (pre ++ LRun mode :: post) beh) =
    snd (lrun (linit t0 m) pre beh) ++ VRunStart mode (loop_alive s) :: snd (uv_run run_fuel s beh mode) ++
    snd (lrun (fst (uv_run run_fuel s beh mode)) post beh).
Proof.
  cbv zeta. rewrite lrun_app. destruct (lrun (linit t0 m) pre beh) as [s1 e1]. cbn [fst snd lrun].
  destruct (uv_run run_fuel s1 beh mode) as [s2 e2]. cbn [fst snd].
  destruct (lrun s2 post beh) as [s3 e3]. reflexivity.
Qed.

(* the failing input of (former) known finding 2, on the repaired code: one due
   non-repeating timer whose callback calls uv_stop(); uv_run(DEFAULT) now
   returns 0 with nothing outstanding *)
Example run_default_stop_in_initial_timer_pass :
  let os := [LInit KTimer true; LTStart 0 (Some 1%nat) 0 0; LRun 0] in
  let beh := fun _ : nat => [LStopLoop] in
  exists e, snd (lrun (linit 0 false) os beh) = e ++ [VRun false] /\
            loop_alive (fst (lrun (linit 0 false) os beh)) = false /\
            nact (fst (lrun (linit 0 false) os beh)) = 0 /\
            nreq (fst (lrun (linit 0 false) os beh)) = 0 /\
            closing (fst (lrun (linit 0 false) os beh)) = [].
Proof.
  cbv zeta. exists [VRet 0; VRunStart 0 true; VCb 0 0 0; VAlive false; VStopReq].
  vm_compute. repeat split; reflexivity.
Qed.

(* run_loop with a flag telling whether the fuel ran out *)
Fixpoint run_loopX (fuel : nat) (s : lstate) (beh : nat -> list lop) (mode : nat)
  : lstate * list levent * bool * bool :=
  match fuel with
  | O => (s, [], loop_alive s, true)
  | S f =>
      let '(s1, e1) := iteration s beh mode in
      let r := loop_alive s1 in
      if negb (Nat.eqb mode 0) then (s1, e1, r, false)
      else if r && negb (stop_flag s1) then
        let '(s2, e2, r2, x) := run_loopX f s1 beh mode in (s2, e1 ++ e2, r2, x)
      else (s1, e1, r, false)
  end.

Lemma run_loopX_agrees fuel : forall s beh mode,
  fst (run_loopX fuel s beh mode) = run_loop fuel s beh mode.
Proof.
  induction fuel as [|f IH]; intros s beh mode; cbn [run_loopX run_loop]; [reflexivity|].
  destruct (iteration s beh mode) as [s1 e1].
  destruct (negb (Nat.eqb mode 0)); [reflexivity|].
  destruct (loop_alive s1 && negb (stop_flag s1)); [|reflexivity].
  specialize (IH s1 beh mode). destruct (run_loopX f s1 beh mode) as [[[s2 e2] r2] x].
  cbn [fst] in IH. rewrite <- IH. reflexivity.
Qed.

Theorem run_default_returns_only_when fuel : forall s beh s' e r x,
  run_loopX fuel s beh 0 = (s', e, r, x) ->
  r = loop_alive s' /\ (x = false -> r = false \/ stop_flag s' = true).
Proof.
  induction fuel as [|f IH]; intros s beh s' e r x; cbn [run_loopX].
  - intros H; inversion H; subst. split; [reflexivity|discriminate].
  - destruct (iteration s beh 0) as [s1 e1]. cbn [Nat.eqb negb].
    destruct (loop_alive s1 && negb (stop_flag s1)) eqn:Ec.
    + specialize (IH s1 beh). destruct (run_loopX f s1 beh 0) as [[[s2 e2] r2] x2].
      intros H; inversion H; subst. apply (IH s' e2 r x eq_refl).
    + intros H; inversion H; subst. split; [reflexivity|]. intros _.
      destruct (loop_alive s'); [|left; reflexivity]. right.
      cbn [andb] in Ec. apply negb_false_iff in Ec. exact Ec.
Qed.

(* the same at the level of uv_run: [uv_runX] also returns the stop flag as
   it was just before uv_run clears it, and the fuel flag *)
Definition uv_runX (fuel : nat) (s : lstate) (beh : nat -> list lop) (mode : nat)
  : (lstate * list levent) * (bool * bool * bool) :=
  let r := loop_alive s in
  let s0 := if r then s else update_time s in
  let '(s1, e0) :=
    if Nat.eqb mode 0 && r && negb (stop_flag s0)
    then l_run_timers (update_time s0) beh else (s0, []) in
  let '(s2, e1, r', x) :=
    if r && negb (stop_flag s1) then run_loopX fuel s1 beh mode
    else (s1, [], (if Nat.eqb mode 0 && r && negb (stop_flag s0) && stop_flag s1
                   then loop_alive s1 else r), false) in
  ((set_stop s2 false, e0 ++ e1 ++ [VRun r']), (r', stop_flag s2, x)).

Lemma uv_runX_agrees fuel s beh mode : fst (uv_runX fuel s beh mode) = uv_run fuel s beh mode.
Proof.
  rewrite uv_run_alt_eq. unfold uv_runX, uv_run_alt.
  destruct (if Nat.eqb mode 0 && loop_alive s && negb _ then _ else _) as [s1 e0].
  destruct (loop_alive s && negb (stop_flag s1)).
  - pose proof (run_loopX_agrees fuel s1 beh mode) as H.
    destruct (run_loopX fuel s1 beh mode) as [[[s2 e1] r'] x]. cbn [fst] in H. rewrite <- H. reflexivity.
  - reflexivity.
Qed.

Theorem uv_run_default_returns_only_when fuel s beh :
  let '(_, (r, stopped, exhausted)) := uv_runX fuel s beh 0 in
  (exists e, snd (uv_run fuel s beh 0) = e ++ [VRun r]) /\
  (r = true -> stopped = true \/ exhausted = true).
Proof.
  pose proof (uv_runX_agrees fuel s beh 0) as Hag. unfold uv_runX in *.
  destruct (if Nat.eqb 0 0 && loop_alive s && negb _ then _ else _) as [s1 e0].
  destruct (loop_alive s && negb (stop_flag s1)) eqn:Ec.
  - pose proof (run_default_returns_only_when fuel s1 beh) as H.
    destruct (run_loopX fuel s1 beh 0) as [[[s2 e1] r'] x].
    destruct (H s2 e1 r' x eq_refl) as (H1 & H2). cbn [fst] in Hag. rewrite <- Hag. cbn [snd].
    split; [exists (e0 ++ e1); rewrite app_assoc; reflexivity|].
    intros Hr. destruct x; [right; reflexivity|left].
    destruct (H2 eq_refl) as [H3|H3]; [congruence|exact H3].
  - cbn [fst] in Hag. rewrite <- Hag. cbn [snd].
    split; [exists e0; reflexivity|]. intros Hr. left.
    destruct (stop_flag s1) eqn:Es1; [reflexivity|].
    rewrite andb_false_r in Hr. rewrite Hr in Ec. cbn in Ec. discriminate Ec.
Qed.

(* ------------------------------------------------------------------ *)
(* 4. uv_ref / uv_unref                                               *)
(* ------------------------------------------------------------------ *)
Lemma hget_upd_h_proj {B} (g : hrec -> B) s i f j :
  (forall h, g (f h) = g h) -> g (hget (upd_h s i f) j) = g (hget s j).
Proof.
  intros Hg. unfold hget, upd_h; cbn [hs set_hs].
  destruct (Nat.eq_dec i j) as [<-|Hne].
  - destruct (Nat.lt_ge_cases i (length (hs s))) as [L|G].
    + rewrite nth_upd_same by exact L. apply Hg.
    + rewrite upd_overflow by exact G. reflexivity.
  - rewrite nth_upd_other by exact Hne. reflexivity.
Qed.

Lemma handle_ref_fix s i : h_ref (hget s i) = true -> handle_ref s i = s.
Proof. intros H. unfold handle_ref. rewrite H. reflexivity. Qed.

Lemma handle_unref_fix s i : h_ref (hget s i) = false -> handle_unref s i = s.
Proof. intros H. unfold handle_unref. rewrite H. reflexivity. Qed.

Lemma set_hs_twice s l1 l2 : set_hs (set_hs s l1) l2 = set_hs s l2.
Proof. reflexivity. Qed.

Theorem ref_idempotent s i : handle_ref (handle_ref s i) i = handle_ref s i.
Proof.
  destruct (h_ref (hget s i)) eqn:Er; [rewrite !(handle_ref_fix s i Er); reflexivity|].
  destruct (Nat.lt_ge_cases i (length (hs s))) as [L|G].
  - apply handle_ref_fix. unfold handle_ref. rewrite Er.
    destruct (h_closing (hget s i)); [|destruct (h_active (hget s i))];
      unfold hget, upd_h; cbn [hs set_hs set_nact]; rewrite nth_upd_same by exact L; reflexivity.
  - assert (E : forall s', (length (hs s') <= i)%nat -> handle_ref s' i = upd_h s' i (with_ref true)).
    { intros s' G'. unfold handle_ref. rewrite hget_overflow by exact G'. reflexivity. }
    rewrite (E s G). rewrite E by (unfold upd_h; cbn [hs set_hs]; rewrite upd_length; exact G).
    unfold upd_h. cbn [hs set_hs]. rewrite set_hs_twice.
    rewrite (upd_overflow i _ (upd i _ _)) by (rewrite upd_length; exact G). reflexivity.
Qed.

Theorem unref_idempotent s i : handle_unref (handle_unref s i) i = handle_unref s i.
Proof.
  destruct (h_ref (hget s i)) eqn:Er; [|rewrite !(handle_unref_fix s i Er); reflexivity].
  destruct (Nat.lt_ge_cases i (length (hs s))) as [L|G].
  - apply handle_unref_fix. unfold handle_unref. rewrite Er.
    destruct (h_closing (hget s i)); [|destruct (h_active (hget s i))];
      unfold hget, upd_h; cbn [hs set_hs set_nact]; rewrite nth_upd_same by exact L; reflexivity.
  - rewrite hget_overflow in Er by exact G. discriminate.
Qed.

(* everything but the REF bit of handle [i] and the counter is untouched *)
Definition same_but_ref (s s' : lstate) : Prop :=
  set_nact (set_hs s' (hs s)) (nact s) = s /\
  length (hs s') = length (hs s) /\
  forall j, h_kind (hget s' j) = h_kind (hget s j) /\
            h_active (hget s' j) = h_active (hget s j) /\
            h_closing (hget s' j) = h_closing (hget s j) /\
            h_closed (hget s' j) = h_closed (hget s j) /\
            h_hascb (hget s' j) = h_hascb (hget s j) /\
            h_pending (hget s' j) = h_pending (hget s j).

Lemma same_but_ref_refl s : same_but_ref s s.
Proof. split; [destruct s; reflexivity|split; [reflexivity|intros j; repeat split]]. Qed.

Lemma same_but_ref_upd s i b n : same_but_ref s (set_nact (upd_h s i (with_ref b)) n).
Proof.
  split; [destruct s; reflexivity|split].
  - unfold upd_h; cbn [hs set_hs set_nact]. apply upd_length.
  - intros j. change (hget (set_nact (upd_h s i (with_ref b)) n) j) with (hget (upd_h s i (with_ref b)) j).
    repeat split.
    + apply (hget_upd_h_proj h_kind); reflexivity.
    + apply (hget_upd_h_proj h_active); reflexivity.
    + apply (hget_upd_h_proj h_closing); reflexivity.
    + apply (hget_upd_h_proj h_closed); reflexivity.
    + apply (hget_upd_h_proj h_hascb); reflexivity.
    + apply (hget_upd_h_proj h_pending); reflexivity.
Qed.

Lemma set_nact_self s : set_nact s (nact s) = s.
Proof. destruct s; reflexivity. Qed.

Theorem ref_unref_keep_active s i :
  same_but_ref s (handle_ref s i) /\ same_but_ref s (handle_unref s i).
Proof.
  split.
  - unfold handle_ref. destruct (h_ref (hget s i)); [apply same_but_ref_refl|].
    destruct (h_closing (hget s i)); [|destruct (h_active (hget s i))];
      apply same_but_ref_upd.
  - unfold handle_unref. destruct (h_ref (hget s i)); [|apply same_but_ref_refl].
    destruct (h_closing (hget s i)); [|destruct (h_active (hget s i))];
      apply same_but_ref_upd.
Qed.

(* ------------------------------------------------------------------ *)
(* 5. uv_loop_close                                                   *)
(* ------------------------------------------------------------------ *)
Theorem loop_close_ebusy_iff s :
  loop_close_code s = UV_EBUSY <-> 0 < nreq s \/ exists h, In h (hs s) /\ h_closed h = false.
Proof.
  unfold loop_close_code.
  destruct ((0 <? nreq s) || existsb (fun h => negb (h_closed h)) (hs s)) eqn:E.
  - split; [intros _|reflexivity]. apply orb_true_iff in E. destruct E as [E|E].
    + left. apply Z.ltb_lt. exact E.
    + right. apply existsb_exists in E. destruct E as (h & Hin & Hc). exists h.
      split; [exact Hin|apply negb_true_iff; exact Hc].
  - split; [unfold UV_EBUSY; discriminate|]. intros H. exfalso.
    apply orb_false_iff in E. destruct E as [E1 E2]. destruct H as [H|(h & Hin & Hc)].
    + apply Z.ltb_ge in E1. lia.
    + assert (existsb (fun h => negb (h_closed h)) (hs s) = true); [|congruence].
      apply existsb_exists. exists h. split; [exact Hin|rewrite Hc; reflexivity].
Qed.

Theorem loop_close_toplevel t0 m pre post beh :
  let s := fst (lrun (linit t0 m) pre beh) in
  snd (lrun (linit t0 m) (pre ++ LLoopClose :: post) beh) =
    snd (lrun (linit t0 m) pre beh) ++ VLoopClose (loop_close_code s) :: snd (lrun s post beh) /\
  (loop_close_code s = UV_EBUSY <-> 0 < nreq s \/ exists h, In h (hs s) /\ h_closed h = false) /\
  (loop_close_code s <> UV_EBUSY -> loop_close_code s = 0).
Proof.
  cbv zeta. split; [|split; [apply loop_close_ebusy_iff|]].
  - rewrite lrun_app. destruct (lrun (linit t0 m) pre beh) as [s1 e1]. cbn [fst snd lrun].
    destruct (lrun s1 post beh) as [s2 e2]. reflexivity.
  - unfold loop_close_code. destruct (_ || _); [congruence|reflexivity].
Qed.

(* ------------------------------------------------------------------ *)
(* the invariant in a non-trivial reachable state                      *)
(* ------------------------------------------------------------------ *)
Definition ex_script : list lop :=
  [LInit KTimer false; LInit KIdle false; LInit KAsync true; LInit KPrepare false;
   LTStart 0 (Some 7%nat) 50 0; LStart 1 true; LStart 3 true; LUnref 3;
   LWork true; LClose 1; LRun 2; LWork false; LClose 3].

Example invariant_example :
  let s := fst (lrun (linit 5 true) ex_script (fun _ => [])) in
  LInv s [] /\ counters_exact s [] /\
  length (hs s) = 4%nat /\ nact s = 2 /\ nreq s = 1 /\ closing s = [3%nat] /\
  map (fun h => (h_active h, h_ref h, h_closing h, h_closed h)) (hs s) =
    [(true, true, false, false); (false, false, true, true);
     (true, true, false, false); (false, false, true, false)] /\
  loop_alive s = true.
Proof.
  cbv zeta. split; [apply LInv_reachable|]. split; [apply counter_exact|].
  vm_compute. repeat split; reflexivity.
Qed.
