(* Proofs about Model/Inotify.v (C17, fs_event half): watcher-list safety. *)
From UV Require Import Lib.Base Model.Inotify.

Local Open Scope Z_scope.

(* ------------------------------------------------------------------ *)
(* the association list                                                *)
(* ------------------------------------------------------------------ *)
Lemma find_upd_w l wd f wd' :
  (forall w, w_wd (f w) = w_wd w) ->
  find_w (upd_w l wd f) wd' =
  if wd' =? wd then option_map f (find_w l wd) else find_w l wd'.
Proof.
  intros F. induction l as [|w l IH]; cbn [upd_w find_w].
  - destruct (wd' =? wd); reflexivity.
  - destruct (Z.eqb_spec (w_wd w) wd) as [E|E]; cbn [find_w].
    + rewrite F. destruct (Z.eqb_spec wd' wd) as [E'|E'].
      * subst. rewrite Z.eqb_refl. reflexivity.
      * destruct (Z.eqb_spec (w_wd w) wd'); [lia|reflexivity].
    + destruct (Z.eqb_spec (w_wd w) wd') as [E'|E'].
      * destruct (Z.eqb_spec wd' wd); [lia|reflexivity].
      * exact IH.
Qed.

Lemma find_del_other l wd wd' : wd' <> wd -> find_w (del_w l wd) wd' = find_w l wd'.
Proof.
  intros N. induction l as [|w l IH]; cbn [del_w find_w]; auto.
  destruct (Z.eqb_spec (w_wd w) wd) as [E|E].
  - destruct (Z.eqb_spec (w_wd w) wd'); [lia|reflexivity].
  - cbn [find_w]. destruct (w_wd w =? wd'); auto.
Qed.

Lemma find_app l x wd' :
  find_w (l ++ [x]) wd' =
  match find_w l wd' with Some w => Some w | None => if w_wd x =? wd' then Some x else None end.
Proof.
  induction l as [|w l IH]; cbn [app find_w]; auto.
  destruct (w_wd w =? wd'); auto.
Qed.

Lemma find_none_notin l wd : find_w l wd = None -> ~ In wd (map w_wd l).
Proof.
  induction l as [|w l IH]; cbn [find_w map]; [tauto|].
  destruct (Z.eqb_spec (w_wd w) wd); [discriminate|].
  intros H [E|I]; [lia|]. apply IH; auto.
Qed.

Lemma find_some_wd l wd w : find_w l wd = Some w -> w_wd w = wd.
Proof.
  induction l as [|x l IH]; cbn [find_w]; [discriminate|].
  destruct (Z.eqb_spec (w_wd x) wd); auto. intros E; injection E as <-; auto.
Qed.

Lemma find_some_in l wd w : find_w l wd = Some w -> In wd (map w_wd l).
Proof.
  induction l as [|x l IH]; cbn [find_w map]; [discriminate|].
  destruct (Z.eqb_spec (w_wd x) wd) as [E|E].
  - intros _. left. exact E.
  - intros F. right. apply IH; auto.
Qed.

Lemma map_upd_w l wd f : (forall w, w_wd (f w) = w_wd w) -> map w_wd (upd_w l wd f) = map w_wd l.
Proof.
  intros F. induction l as [|w l IH]; cbn [upd_w map]; auto.
  destruct (w_wd w =? wd); cbn [map]; rewrite ?F, ?IH; auto.
Qed.

Lemma del_w_keys l wd : NoDup (map w_wd l) -> NoDup (map w_wd (del_w l wd)) /\
                        (forall x, In x (map w_wd (del_w l wd)) -> In x (map w_wd l)) /\
                        find_w (del_w l wd) wd = None.
Proof.
  induction l as [|w l IH]; cbn [del_w map find_w]; intros ND.
  - repeat split; auto.
  - inversion ND as [|a b Hn Hd]; subst.
    destruct (Z.eqb_spec (w_wd w) wd) as [E|E].
    + assert (F : find_w l wd = None).
      { destruct (find_w l wd) eqn:F; auto.
        exfalso. apply Hn. rewrite E. eapply find_some_in; eauto. }
      repeat split; auto. intros x I. right; exact I.
    + destruct (IH Hd) as (A & B & C). cbn [map find_w]. repeat split.
      * constructor; auto.
      * intros x [<-|I]; [left; auto|right; auto].
      * destruct (Z.eqb_spec (w_wd w) wd); [lia|exact C].
Qed.

(* ------------------------------------------------------------------ *)
(* C17_list_not_freed_while_iterating                                  *)
(* ------------------------------------------------------------------ *)
Theorem maybe_free_respects_iterating :
  forall s wd w, find_w (wls s) wd = Some w -> w_iter w = true -> maybe_free s wd = (s, []).
Proof. intros s wd w F I. unfold maybe_free. rewrite F, I. reflexivity. Qed.

(* the list with descriptor wd is in the tree and marked as being iterated *)
Definition Iter (s : ist) (wd : Z) : Prop :=
  exists w, find_w (wls s) wd = Some w /\ w_iter w = true.

Lemma Iter_upd_w s wd wd0 f :
  (forall w, w_wd (f w) = w_wd w) -> (forall w, w_iter (f w) = w_iter w) ->
  Iter s wd -> Iter (set_wls s (upd_w (wls s) wd0 f)) wd.
Proof.
  intros F1 F2 (w & Fw & Iw). unfold Iter. cbn [wls set_wls]. rewrite find_upd_w by auto.
  destruct (Z.eqb_spec wd wd0) as [->|N].
  - rewrite Fw. cbn. exists (f w). rewrite F2. auto.
  - exists w. auto.
Qed.

Lemma Iter_maybe_free s wd wd0 : Iter s wd -> Iter (fst (maybe_free s wd0)) wd.
Proof.
  intros (w & Fw & Iw). unfold maybe_free.
  destruct (find_w (wls s) wd0) as [w0|] eqn:F0; cbn [fst]; [|exists w; auto].
  destruct (negb (w_iter w0) && match w_hs w0 with [] => true | _ => false end) eqn:Cnd; cbn [fst];
    [|exists w; auto].
  destruct (Z.eq_dec wd wd0) as [->|N].
  - rewrite Fw in F0. injection F0 as <-. rewrite Iw in Cnd. discriminate.
  - exists w. cbn [wls set_wls]. rewrite find_del_other by auto. auto.
Qed.

Lemma Iter_ev_start s h cb base wd0 wd : Iter s wd -> Iter (fst (ev_start s h cb base wd0)) wd.
Proof.
  intros H. unfold ev_start. destruct (e_active (gete s h)); auto.
  destruct (wd0 <? 0); auto. cbn [fst].
  set (s1 := match find_w (wls s) wd0 with Some _ => s | None => _ end).
  assert (H1 : Iter s1 wd).
  { unfold s1. destruct (find_w (wls s) wd0) eqn:F0; auto.
    destruct H as (w & Fw & Iw). exists w. cbn [wls set_wls]. rewrite find_app, Fw. auto. }
  pose proof (Iter_upd_w s1 wd wd0
                (fun w => mkW (w_wd w) (w_base w) (w_hs w ++ [h]) (w_local w) (w_iter w))
                (fun _ => eq_refl) (fun _ => eq_refl) H1) as (w & Fw & Iw).
  exists w. auto.
Qed.

Lemma Iter_ev_stop s h wd : Iter s wd -> Iter (fst (ev_stop s h)) wd.
Proof.
  intros H. unfold ev_stop. destruct (negb (e_active (gete s h))); auto.
  apply Iter_maybe_free.
  set (s1 := upd_e s h _).
  assert (H1 : Iter s1 wd) by exact H.
  apply Iter_upd_w; auto.
Qed.

Lemma Iter_iapi s o wd : Iter s wd -> Iter (fst (iapi s o)) wd.
Proof.
  intros H. destruct o; cbn [iapi]; auto.
  - destruct (ivalid s h && negb (e_closing (gete s h))); auto.
    pose proof (Iter_ev_start s h cb base wd0 wd H) as X.
    destruct (ev_start s h cb base wd0); auto.
  - destruct (ivalid s h && negb (e_closed (gete s h))); auto.
    pose proof (Iter_ev_stop s h wd H) as X. destruct (ev_stop s h); auto.
  - destruct (ivalid s h && negb (e_closing (gete s h))); auto.
    unfold ev_close.
    set (s0 := upd_e s h _).
    assert (H0 : Iter s0 wd) by exact H.
    pose proof (Iter_ev_stop s0 h wd H0) as X. destruct (ev_stop s0 h) as [s1 ev]. exact X.
Qed.

Lemma Iter_iapis os : forall s wd, Iter s wd -> Iter (fst (iapis s os)) wd.
Proof.
  induction os as [|o os IH]; intros s wd H; cbn [iapis]; auto.
  pose proof (Iter_iapi s o wd H) as X. destruct (iapi s o) as [s1 e1]. cbn [fst] in X.
  pose proof (IH s1 wd X) as Y. destruct (iapis s1 os) as [s2 e2]. exact Y.
Qed.

(* whatever the callbacks do (stop every handle of the list, close them, start
   others on the same path), the list stays in the tree, marked, until the
   iteration over it is finished *)
Theorem list_not_freed_while_iterating :
  forall fuel s wd name bits beh cnt,
  Iter s wd -> Iter (fst (fst (dispatch_loop fuel s wd name bits beh cnt))) wd.
Proof.
  induction fuel as [|f IH]; intros s wd name bits beh cnt H; cbn [dispatch_loop]; auto.
  destruct (find_w (wls s) wd) as [w|] eqn:Fw; auto.
  destruct (w_local w) as [|h rest] eqn:Lw; auto.
  set (s1 := set_wls s _).
  assert (H1 : Iter s1 wd).
  { unfold s1. apply Iter_upd_w; auto. }
  pose proof (Iter_iapis (beh cnt) s1 wd H1) as X.
  destruct (iapis s1 (beh cnt)) as [s2 e2]. cbn [fst] in X.
  pose proof (IH s2 wd name bits beh (S cnt) X) as Y.
  destruct (dispatch_loop f s2 wd name bits beh (S cnt)) as [[s3 e3] n3]. exact Y.
Qed.

(* ------------------------------------------------------------------ *)
(* C17_list_freed_iff_empty                                            *)
(* ------------------------------------------------------------------ *)
(* no list that is not being iterated is empty (nothing leaks), keys are unique *)
Definition NoEmpty (s : ist) : Prop :=
  NoDup (map w_wd (wls s)) /\
  forall wd w, find_w (wls s) wd = Some w -> w_iter w = false -> w_hs w <> [].

(* a list is removed (IRm) only by maybe_free, only when it is empty and not iterated *)
Theorem freed_only_if_empty :
  forall s wd s' ev, maybe_free s wd = (s', ev) -> ev <> [] ->
  exists w, find_w (wls s) wd = Some w /\ w_hs w = [] /\ w_iter w = false /\
            ev = [IRm wd] /\ find_w (wls s') wd = find_w (del_w (wls s) wd) wd.
Proof.
  intros s wd s' ev. unfold maybe_free.
  destruct (find_w (wls s) wd) as [w|] eqn:F; [|intros E; injection E as <- <-; tauto].
  destruct (w_iter w) eqn:I; cbn [negb andb]; [intros E; injection E as <- <-; tauto|].
  destruct (w_hs w) eqn:Hs; [|intros E; injection E as <- <-; tauto].
  intros E _. injection E as <- <-. exists w. cbn [wls set_wls]. auto.
Qed.

Lemma NoEmpty_maybe_free s wd :
  NoDup (map w_wd (wls s)) ->
  (forall wd' w, wd' <> wd -> find_w (wls s) wd' = Some w -> w_iter w = false -> w_hs w <> []) ->
  NoEmpty (fst (maybe_free s wd)).
Proof.
  intros ND H. unfold maybe_free.
  destruct (find_w (wls s) wd) as [w0|] eqn:F0; cbn [fst].
  - destruct (negb (w_iter w0) && match w_hs w0 with [] => true | _ => false end) eqn:Cnd; cbn [fst].
    + destruct (del_w_keys (wls s) wd ND) as (A & B & C). split; [exact A|].
      intros wd' w Fw Iw. cbn [wls set_wls] in Fw.
      destruct (Z.eq_dec wd' wd) as [->|N]; [congruence|].
      rewrite find_del_other in Fw by auto. eapply H; eauto.
    + split; auto. intros wd' w Fw Iw.
      destruct (Z.eq_dec wd' wd) as [->|N]; [|eapply H; eauto].
      rewrite Fw in F0. injection F0 as <-. rewrite Iw in Cnd. cbn in Cnd.
      destruct (w_hs w); [discriminate|discriminate].
  - split; auto. intros wd' w Fw Iw.
    destruct (Z.eq_dec wd' wd) as [->|N]; [congruence|eapply H; eauto].
Qed.

Lemma NoDup_snoc {A} (l : list A) x : NoDup l -> ~ In x l -> NoDup (l ++ [x]).
Proof.
  induction l as [|a l IH]; cbn [app]; intros ND N.
  - constructor; [intros []|constructor].
  - inversion ND as [|a' l' Hn Hd]; subst. constructor.
    + rewrite in_app_iff. cbn. intros [I|[I|[]]]; [auto|]. apply N. left; auto.
    + apply IH; auto. intros I. apply N. right; auto.
Qed.

Lemma NoEmpty_ev_start s h cb base wd0 : NoEmpty s -> NoEmpty (fst (ev_start s h cb base wd0)).
Proof.
  intros [ND H]. unfold ev_start. destruct (e_active (gete s h)); [split; auto|].
  destruct (wd0 <? 0); [split; auto|]. cbn [fst].
  set (s1 := match find_w (wls s) wd0 with Some _ => s | None => _ end).
  assert (H1 : NoDup (map w_wd (wls s1)) /\
               forall wd w, wd <> wd0 -> find_w (wls s1) wd = Some w -> w_iter w = false -> w_hs w <> []).
  { unfold s1. destruct (find_w (wls s) wd0) eqn:F0.
    - split; auto. intros; eapply H; eauto.
    - cbn [wls set_wls]. split.
      + rewrite map_app. cbn [map]. apply NoDup_snoc; auto.
        apply find_none_notin; auto.
      + intros wd w N Fw Iw. rewrite find_app in Fw.
        destruct (find_w (wls s) wd) eqn:F; [injection Fw as <-; eapply H; eauto|].
        cbn [w_wd] in Fw. destruct (Z.eqb_spec wd0 wd); [lia|discriminate]. }
  destruct H1 as [ND1 H1]. split.
  - cbn [wls upd_e set_ehs set_wls]. rewrite map_upd_w by reflexivity. exact ND1.
  - intros wd w Fw Iw. cbn [wls upd_e set_ehs set_wls] in Fw. rewrite find_upd_w in Fw by reflexivity.
    destruct (Z.eqb_spec wd wd0) as [->|N].
    + destruct (find_w (wls s1) wd0); [|discriminate]. cbn in Fw. injection Fw as <-. cbn [w_hs].
      destruct (w_hs w0); discriminate.
    + eapply H1; eauto.
Qed.

Lemma NoEmpty_upd_w s wd f :
  (forall w, w_wd (f w) = w_wd w) -> (forall w, w_iter (f w) = false -> w_hs (f w) <> []) ->
  NoEmpty s -> NoEmpty (set_wls s (upd_w (wls s) wd f)).
Proof.
  intros F1 F2 [ND H]. split; cbn [wls set_wls].
  - rewrite map_upd_w; auto.
  - intros wd' w Fw Iw. rewrite find_upd_w in Fw by auto.
    destruct (wd' =? wd); [|eapply H; eauto].
    destruct (find_w (wls s) wd); [|discriminate]. cbn in Fw. injection Fw as <-. auto.
Qed.

Lemma NoEmpty_ev_stop s h : NoEmpty s -> NoEmpty (fst (ev_stop s h)).
Proof.
  intros [ND H]. unfold ev_stop. destruct (negb (e_active (gete s h))); [split; auto|].
  apply NoEmpty_maybe_free; cbn [wls set_wls upd_e set_ehs].
  - rewrite map_upd_w; auto.
  - intros wd' w N Fw Iw. rewrite find_upd_w in Fw by auto.
    destruct (Z.eqb_spec wd' (e_wd (gete s h))); [lia|]. eapply H; eauto.
Qed.

Lemma NoEmpty_iapi s o : NoEmpty s -> NoEmpty (fst (iapi s o)).
Proof.
  intros H. destruct o; cbn [iapi]; auto.
  - destruct (ivalid s h && negb (e_closing (gete s h))); auto.
    pose proof (NoEmpty_ev_start s h cb base wd H) as X. destruct (ev_start s h cb base wd); auto.
  - destruct (ivalid s h && negb (e_closed (gete s h))); auto.
    pose proof (NoEmpty_ev_stop s h H) as X. destruct (ev_stop s h); auto.
  - destruct (ivalid s h && negb (e_closing (gete s h))); auto.
    unfold ev_close. set (s0 := upd_e s h _).
    assert (H0 : NoEmpty s0) by exact H.
    pose proof (NoEmpty_ev_stop s0 h H0) as X. destruct (ev_stop s0 h) as [s1 ev]. exact X.
Qed.

Lemma NoEmpty_iapis os : forall s, NoEmpty s -> NoEmpty (fst (iapis s os)).
Proof.
  induction os as [|o os IH]; intros s H; cbn [iapis]; auto.
  pose proof (NoEmpty_iapi s o H) as X. destruct (iapi s o) as [s1 e1]. cbn [fst] in X.
  pose proof (IH s1 X) as Y. destruct (iapis s1 os) as [s2 e2]. exact Y.
Qed.

Lemma NoEmpty_dispatch_loop fuel : forall s wd name bits beh cnt,
  NoEmpty s -> NoEmpty (fst (fst (dispatch_loop fuel s wd name bits beh cnt))).
Proof.
  induction fuel as [|f IH]; intros s wd name bits beh cnt H; cbn [dispatch_loop]; auto.
  destruct (find_w (wls s) wd) as [w|] eqn:Fw; auto.
  destruct (w_local w) as [|h rest] eqn:Lw; auto.
  set (s1 := set_wls s _).
  assert (H1 : NoEmpty s1).
  { unfold s1. apply NoEmpty_upd_w; auto. intros w0 _. cbn [w_hs]. destruct (w_hs w0); discriminate. }
  pose proof (NoEmpty_iapis (beh cnt) s1 H1) as X.
  destruct (iapis s1 (beh cnt)) as [s2 e2]. cbn [fst] in X.
  pose proof (IH s2 wd name bits beh (S cnt) X) as Y.
  destruct (dispatch_loop f s2 wd name bits beh (S cnt)) as [[s3 e3] n3]. exact Y.
Qed.

Lemma NoEmpty_dispatch_one s e beh cnt : NoEmpty s -> NoEmpty (fst (fst (dispatch_one s e beh cnt))).
Proof.
  intros H. unfold dispatch_one. destruct e as [[wd mask] nm].
  destruct (find_w (wls s) wd) as [w|] eqn:Fw; auto.
  set (s1 := set_wls s _).
  assert (H1 : NoEmpty s1).
  { unfold s1. apply NoEmpty_upd_w; auto. cbn. discriminate. }
  pose proof (NoEmpty_dispatch_loop (length (w_hs w)) s1 wd
                (match nm with Some n => n | None => w_base w end) (ev_bits mask) beh cnt H1) as X.
  destruct (dispatch_loop (length (w_hs w)) s1 wd _ (ev_bits mask) beh cnt) as [[s2 e2] n2]. cbn [fst] in X.
  destruct X as [ND2 H2].
  set (s3 := set_wls s2 _).
  assert (X3 : NoEmpty (fst (maybe_free s3 wd))).
  { apply NoEmpty_maybe_free; unfold s3; cbn [wls set_wls].
    - rewrite map_upd_w; auto.
    - intros wd' w' N Fw' Iw'. rewrite find_upd_w in Fw' by auto.
      destruct (Z.eqb_spec wd' wd); [lia|]. eapply H2; eauto. }
  destruct (maybe_free s3 wd) as [s4 e4]. exact X3.
Qed.

Lemma NoEmpty_dispatch evs : forall s beh cnt, NoEmpty s -> NoEmpty (fst (fst (dispatch s evs beh cnt))).
Proof.
  induction evs as [|e evs IH]; intros s beh cnt H; cbn [dispatch]; auto.
  pose proof (NoEmpty_dispatch_one s e beh cnt H) as X.
  destruct (dispatch_one s e beh cnt) as [[s1 e1] n1]. cbn [fst] in X.
  pose proof (IH s1 beh n1 X) as Y. destruct (dispatch s1 evs beh n1) as [[s2 e2] n2]. exact Y.
Qed.

Lemma NoEmpty_init : NoEmpty iinit.
Proof. split; cbn; [constructor|discriminate]. Qed.

Lemma wls_fold_upd_e (f : ehandle -> ehandle) l : forall s,
  wls (fold_left (fun s h => upd_e s h f) l s) = wls s.
Proof. induction l as [|h l IH]; intros s; cbn [fold_left]; auto. rewrite IH. reflexivity. Qed.

(* in every state reached by any script (any events, any callback behaviour):
   no list outside an iteration is empty, and the descriptors are unique *)
Theorem list_freed_when_empty : forall os s beh cnt, NoEmpty s -> NoEmpty (fst (irun s os beh cnt)).
Proof.
  induction os as [|o os IH]; intros s beh cnt H; [exact H|].
  destruct o; cbn [irun].
  5:{ pose proof (NoEmpty_dispatch evs s beh cnt H) as X.
      destruct (dispatch s evs beh cnt) as [[s1 e1] n1]. cbn [fst] in X.
      unfold run_eclosing.
      set (s2 := set_eclosing _ []).
      assert (X2 : NoEmpty s2).
      { unfold s2, NoEmpty. cbn [wls set_eclosing]. rewrite wls_fold_upd_e. exact X. }
      pose proof (IH s2 beh n1 X2) as Y. destruct (irun s2 os beh n1); exact Y. }
  all: match goal with
       | |- context [iapi ?s0 ?o] =>
           pose proof (NoEmpty_iapi s0 o H) as X; destruct (iapi s0 o) as [s1 e1]; cbn [fst] in X;
           pose proof (IH s1 beh cnt X) as Y; destruct (irun s1 os beh cnt); exact Y
       end.
Qed.

(* ------------------------------------------------------------------ *)
(* C17_event_reaches_all, for callbacks that make no API call          *)
(* ------------------------------------------------------------------ *)
Lemma dispatch_loop_quiet fuel : forall s wd name bits cnt w,
  find_w (wls s) wd = Some w -> (length (w_local w) <= fuel)%nat ->
  snd (fst (dispatch_loop fuel s wd name bits (fun _ => []) cnt)) =
  map (fun h => ICb h (e_cb (gete s h)) name bits) (w_local w).
Proof.
  induction fuel as [|f IH]; intros s wd name bits cnt w Fw L; cbn [dispatch_loop].
  - destruct (w_local w); [reflexivity|cbn in L; lia].
  - rewrite Fw. destruct (w_local w) as [|h rest] eqn:Lw; [reflexivity|].
    cbn [iapis].
    set (s1 := set_wls s _).
    assert (F1 : find_w (wls s1) wd = Some (mkW (w_wd w) (w_base w) (w_hs w ++ [h]) rest (w_iter w))).
    { unfold s1. cbn [wls set_wls]. rewrite find_upd_w by auto. rewrite Z.eqb_refl, Fw. reflexivity. }
    pose proof (IH s1 wd name bits (S cnt) _ F1) as X. cbn [w_local] in X.
    cbn in L. specialize (X ltac:(lia)).
    destruct (dispatch_loop f s1 wd name bits (fun _ => []) (S cnt)) as [[s3 e3] n3].
    cbn [fst snd] in *. cbn [map app]. rewrite X. reflexivity.
Qed.

(* the event bits *)
Lemma ev_bits_spec mask :
  0 <= mask ->
  ev_bits mask =
  (if Z.eqb (Z.land mask 6) 0 then 0 else UV_CHANGE) +
  (if Z.eqb (Z.land mask (Z.lnot 6)) 0 then 0 else UV_RENAME).
Proof. intros _. reflexivity. Qed.

Theorem event_reaches_all_quiet :
  forall s wd mask nm w cnt,
  find_w (wls s) wd = Some w ->
  exists tail,
    snd (fst (dispatch_one s (wd, mask, nm) (fun _ => []) cnt)) =
      map (fun h => ICb h (e_cb (gete s h)) (match nm with Some n => n | None => w_base w end)
                        (ev_bits mask)) (w_hs w) ++ tail /\
    (tail = [] \/ tail = [IRm wd]).
Proof.
  intros s wd mask nm w cnt Fw. unfold dispatch_one. rewrite Fw.
  set (s1 := set_wls s _).
  assert (F1 : find_w (wls s1) wd = Some (mkW (w_wd w) (w_base w) [] (w_hs w) true)).
  { unfold s1. cbn [wls set_wls]. rewrite find_upd_w by auto. rewrite Z.eqb_refl, Fw. reflexivity. }
  pose proof (dispatch_loop_quiet (length (w_hs w)) s1 wd
                (match nm with Some n => n | None => w_base w end) (ev_bits mask) cnt _ F1 (le_n _)) as X.
  cbn [w_local] in X.
  destruct (dispatch_loop (length (w_hs w)) s1 wd _ (ev_bits mask) (fun _ => []) cnt) as [[s2 e2] n2].
  cbn [fst snd] in X.
  set (s3 := set_wls s2 _).
  unfold maybe_free.
  destruct (find_w (wls s3) wd) as [w3|]; cbn [fst snd].
  - destruct (negb (w_iter w3) && match w_hs w3 with [] => true | _ => false end); cbn [fst snd].
    + exists [IRm wd]. rewrite X. auto.
    + exists []. rewrite X. auto.
  - exists []. rewrite X. auto.
Qed.

(* ------------------------------------------------------------------ *)
(* C17_no_cb_for_stopped                                               *)
(* ------------------------------------------------------------------ *)
(* a handle that is stopped is in no list and no local queue of its descriptor:
   ev_stop unlinks it from both *)
Lemma rm_nat_not_in h l : ~ In h (rm_nat h l).
Proof.
  unfold rm_nat. intros I. apply filter_In in I. destruct I as [_ E].
  rewrite Nat.eqb_refl in E. discriminate.
Qed.

Theorem stop_unlinks :
  forall s h w',
  NoDup (map w_wd (wls s)) ->
  e_active (gete s h) = true ->
  find_w (wls (fst (ev_stop s h))) (e_wd (gete s h)) = Some w' ->
  ~ In h (w_hs w') /\ ~ In h (w_local w').
Proof.
  intros s h w' ND A. unfold ev_stop. rewrite A. cbn [negb].
  set (wd := e_wd (gete s h)).
  set (s2 := set_wls _ _).
  assert (ND2 : NoDup (map w_wd (wls s2))).
  { unfold s2. cbn [wls set_wls upd_e set_ehs]. rewrite map_upd_w; auto. }
  assert (F2 : forall w2, find_w (wls s2) wd = Some w2 -> ~ In h (w_hs w2) /\ ~ In h (w_local w2)).
  { unfold s2. cbn [wls set_wls upd_e set_ehs]. intros w2. rewrite find_upd_w by auto.
    rewrite Z.eqb_refl. destruct (find_w (wls s) wd); [|discriminate]. cbn. intros E. injection E as <-.
    cbn [w_hs w_local]. split; apply rm_nat_not_in. }
  unfold maybe_free. destruct (find_w (wls s2) wd) as [w2|] eqn:E2; cbn [fst]; [|rewrite E2; discriminate].
  destruct (negb (w_iter w2) && match w_hs w2 with [] => true | _ => false end); cbn [fst].
  - cbn [wls set_wls]. destruct (del_w_keys (wls s2) wd ND2) as (_ & _ & C). rewrite C. discriminate.
  - rewrite E2. intros E. injection E as <-. apply F2; auto.
Qed.

(* dispatch calls back only the handle it takes from the head of the local queue *)
Theorem cb_is_head_of_local :
  forall f s wd name bits beh cnt w h rest,
  find_w (wls s) wd = Some w -> w_local w = h :: rest ->
  exists s' evs n, dispatch_loop (S f) s wd name bits beh cnt = (s', ICb h (e_cb (gete s h)) name bits :: evs, n).
Proof.
  intros f s wd name bits beh cnt w h rest Fw Lw. cbn [dispatch_loop]. rewrite Fw, Lw.
  set (s1 := set_wls s _).
  destruct (iapis s1 (beh cnt)) as [s2 e2].
  destruct (dispatch_loop f s2 wd name bits beh (S cnt)) as [[s3 e3] n3].
  exists s3, (e2 ++ e3), n3. reflexivity.
Qed.
