(* Proofs about Model/Inotify.v (C17, fs_event half): watcher-list safety. *)
From UV Require Import Lib.Base Model.Inotify.

Local Open Scope Z_scope.

(* ------------------------------------------------------------------ *)
(* the association list                                                *)
(* ------------------------------------------------------------------ *)
Lemma find_upd_w l wd f wd' :
  (forall w, w_wd (f w) = w_wd w) ->
  find_w (upd_w l wd f) wd' =
  if wd' =? wd then option_map f (find_w l wd) else find_w l wd'.
Proof.
  intros F. induction l as [|w l IH]; cbn [upd_w find_w].
  - destruct (wd' =? wd); reflexivity.
  - destruct (Z.eqb_spec (w_wd w) wd) as [E|E]; cbn [find_w].
    + rewrite F. destruct (Z.eqb_spec wd' wd) as [E'|E'].
      * subst. rewrite Z.eqb_refl. reflexivity.
      * destruct (Z.eqb_spec (w_wd w) wd'); [lia|reflexivity].
    + destruct (Z.eqb_spec (w_wd w) wd') as [E'|E'].
      * destruct (Z.eqb_spec wd' wd); [lia|reflexivity].
      * exact IH.
Qed.

Lemma find_del_other l wd wd' : wd' <> wd -> find_w (del_w l wd) wd' = find_w l wd'.
Proof.
  intros N. induction l as [|w l IH]; cbn [del_w find_w]; auto.
  destruct (Z.eqb_spec (w_wd w) wd) as [E|E].
  - destruct (Z.eqb_spec (w_wd w) wd'); [lia|reflexivity].
  - cbn [find_w]. destruct (w_wd w =? wd'); auto.
Qed.

Lemma find_app l x wd' :
  find_w (l ++ [x]) wd' =
  match find_w l wd' with Some w => Some w | None => if w_wd x =? wd' then Some x else None end.
Proof.
  induction l as [|w l IH]; cbn [app find_w]; auto.
  destruct (w_wd w =? wd'); auto.
Qed.

Lemma find_none_notin l wd : find_w l wd = None -> ~ In wd (map w_wd l).
Proof.
  induction l as [|w l IH]; cbn [find_w map]; [tauto|].
  destruct (Z.eqb_spec (w_wd w) wd); [discriminate|].
  intros H [E|I]; [lia|]. apply IH; auto.
Qed.

Lemma find_some_wd l wd w : find_w l wd = Some w -> w_wd w = wd.
Proof.
  induction l as [|x l IH]; cbn [find_w]; [discriminate|].
  destruct (Z.eqb_spec (w_wd x) wd); auto. intros E; injection E as <-; auto.
Qed.

Lemma find_some_in l wd w : find_w l wd = Some w -> In wd (map w_wd l).
Proof.
  induction l as [|x l IH]; cbn [find_w map]; [discriminate|].
  destruct (Z.eqb_spec (w_wd x) wd) as [E|E].
  - intros _. left. exact E.
  - intros F. right. apply IH; auto.
Qed.

Lemma map_upd_w l wd f : (forall w, w_wd (f w) = w_wd w) -> map w_wd (upd_w l wd f) = map w_wd l.
Proof.
  intros F. induction l as [|w l IH]; cbn [upd_w map]; auto.
  destruct (w_wd w =? wd); cbn [map]; rewrite ?F, ?IH; auto.
Qed.

Lemma del_w_keys l wd : NoDup (map w_wd l) -> NoDup (map w_wd (del_w l wd)) /\
                        (forall x, In x (map w_wd (del_w l wd)) -> In x (map w_wd l)) /\
                        find_w (del_w l wd) wd = None.
Proof.
  induction l as [|w l IH]; cbn [del_w map find_w]; intros ND.
  - repeat split; auto.
  - inversion ND as [|a b Hn Hd]; subst.
    destruct (Z.eqb_spec (w_wd w) wd) as [E|E].
    + assert (F : find_w l wd = None).
      { destruct (find_w l wd) eqn:F; auto.
        exfalso. apply Hn. rewrite E. eapply find_some_in; eauto. }
      repeat split; auto. intros x I. right; exact I.
    + destruct (IH Hd) as (A & B & C). cbn [map find_w]. repeat split.
      * constructor; auto.
      * intros x [<-|I]; [left; auto|right; auto].
      * destruct (Z.eqb_spec (w_wd w) wd); [lia|exact C].
Qed.

(* ------------------------------------------------------------------ *)
(* C17_list_not_freed_while_iterating                                  *)
(* ------------------------------------------------------------------ *)
Theorem maybe_free_respects_iterating :
  forall s wd w, find_w (wls s) wd = Some w -> w_iter w = true -> maybe_free s wd = (s, []).
Proof. intros s wd w F I. unfold maybe_free. rewrite F, I. reflexivity. Qed.

(* the list with descriptor wd is in the tree and marked as being iterated *)
Definition Iter (s : ist) (wd : Z) : Prop :=
  exists w, find_w (wls s) wd = Some w /\ w_iter w = true.

Lemma Iter_upd_w s wd wd0 f :
  (forall w, w_wd (f w) = w_wd w) -> (forall w, w_iter (f w) = w_iter w) ->
  Iter s wd -> Iter (set_wls s (upd_w (wls s) wd0 f)) wd.
Proof.
  intros F1 F2 (w & Fw & Iw). unfold Iter. cbn [wls set_wls]. rewrite find_upd_w by auto.
  destruct (Z.eqb_spec wd wd0) as [->|N].
  - rewrite Fw. cbn. exists (f w). rewrite F2. auto.
  - exists w. auto.
Qed.

Lemma Iter_maybe_free s wd wd0 : Iter s wd -> Iter (fst (maybe_free s wd0)) wd.
Proof.
  intros (w & Fw & Iw). unfold maybe_free.
  destruct (find_w (wls s) wd0) as [w0|] eqn:F0; cbn [fst]; [|exists w; auto].
  destruct (negb (w_iter w0) && match w_hs w0 with [] => true | _ => false end) eqn:Cnd; cbn [fst];
    [|exists w; auto].
  destruct (Z.eq_dec wd wd0) as [->|N].
  - rewrite Fw in F0. injection F0 as <-. rewrite Iw in Cnd. discriminate.
  - exists w. cbn [wls set_wls]. rewrite find_del_other by auto. auto.
Qed.

Lemma Iter_ev_start s h cb base wd0 wd : Iter s wd -> Iter (fst (ev_start s h cb base wd0)) wd.
Proof.
  intros H. unfold ev_start. destruct (e_active (gete s h)); auto.
  destruct (wd0 <? 0); auto. cbn [fst].
  set (s1 := match find_w (wls s) wd0 with Some _ => s | None => _ end).
  assert (H1 : Iter s1 wd).
  { unfold s1. destruct (find_w (wls s) wd0) eqn:F0; auto.
    destruct H as (w & Fw & Iw). exists w. cbn [wls set_wls]. rewrite find_app, Fw. auto. }
  pose proof (Iter_upd_w s1 wd wd0
                (fun w => mkW (w_wd w) (w_base w) (w_hs w ++ [h]) (w_local w) (w_iter w))
                (fun _ => eq_refl) (fun _ => eq_refl) H1) as (w & Fw & Iw).
  exists w. auto.
Qed.

Lemma Iter_ev_stop s h wd : Iter s wd -> Iter (fst (ev_stop s h)) wd.
Proof.
  intros H. unfold ev_stop. destruct (negb (e_active (gete s h))); auto.
  apply Iter_maybe_free.
  set (s1 := upd_e s h _).
  assert (H1 : Iter s1 wd) by exact H.
  apply Iter_upd_w; auto.
Qed.

Lemma Iter_iapi s o wd : Iter s wd -> Iter (fst (iapi s o)) wd.
Proof.
  intros H. destruct o; cbn [iapi]; auto.
  - destruct (ivalid s h && negb (e_closing (gete s h))); auto.
    pose proof (Iter_ev_start s h cb base wd0 wd H) as X.
    destruct (ev_start s h cb base wd0); auto.
  - destruct (ivalid s h && negb (e_closed (gete s h))); auto.
    pose proof (Iter_ev_stop s h wd H) as X. destruct (ev_stop s h); auto.
  - destruct (ivalid s h && negb (e_closing (gete s h))); auto.
    unfold ev_close.
    set (s0 := upd_e s h _).
    assert (H0 : Iter s0 wd) by exact H.
    pose proof (Iter_ev_stop s0 h wd H0) as X. destruct (ev_stop s0 h) as [s1 ev]. exact X.
Qed.

Lemma Iter_iapis os : forall s wd, Iter s wd -> Iter (fst (iapis s os)) wd.
Proof.
  induction os as [|o os IH]; intros s wd H; cbn [iapis]; auto.
  pose proof (Iter_iapi s o wd H) as X. destruct (iapi s o) as [s1 e1]. cbn [fst] in X.
  pose proof (IH s1 wd X) as Y. destruct (iapis s1 os) as [s2 e2]. exact Y.
Qed.

(* whatever the callbacks do (stop every handle of the list, close them, start
   others on the same path), the list stays in the tree, marked, until the
   iteration over it is finished *)
Theorem list_not_freed_while_iterating :
  forall fuel s wd name bits beh cnt,
  Iter s wd -> Iter (fst (fst (dispatch_loop fuel s wd name bits beh cnt))) wd.
Proof.
  induction fuel as [|f IH]; intros s wd name bits beh cnt H; cbn [dispatch_loop]; auto.
  destruct (find_w (wls s) wd) as [w|] eqn:Fw; auto.
  destruct (w_local w) as [|h rest] eqn:Lw; auto.
  set (s1 := set_wls s _).
  assert (H1 : Iter s1 wd).
  { unfold s1. apply Iter_upd_w; auto. }
  pose proof (Iter_iapis (beh cnt) s1 wd H1) as X.
  destruct (iapis s1 (beh cnt)) as [s2 e2]. cbn [fst] in X.
  pose proof (IH s2 wd name bits beh (S cnt) X) as Y.
  destruct (dispatch_loop f s2 wd name bits beh (S cnt)) as [[s3 e3] n3]. exact Y.
Qed.

(* ------------------------------------------------------------------ *)
(* C17_list_freed_iff_empty                                            *)
(* ------------------------------------------------------------------ *)
(* no list that is not being iterated is empty (nothing leaks), keys are unique *)
Definition NoEmpty (s : ist) : Prop :=
  NoDup (map w_wd (wls s)) /\
  forall wd w, find_w (wls s) wd = Some w -> w_iter w = false -> w_hs w <> [].

(* a list is removed (IRm) only by maybe_free, only when it is empty and not iterated *)
Theorem freed_only_if_empty :
  forall s wd s' ev, maybe_free s wd = (s', ev) -> ev <> [] ->
  exists w, find_w (wls s) wd = Some w /\ w_hs w = [] /\ w_iter w = false /\
            ev = [IRm wd] /\ find_w (wls s') wd = find_w (del_w (wls s) wd) wd.
Proof.
  intros s wd s' ev. unfold maybe_free.
  destruct (find_w (wls s) wd) as [w|] eqn:F; [|intros E; injection E as <- <-; tauto].
  destruct (w_iter w) eqn:I; cbn [negb andb]; [intros E; injection E as <- <-; tauto|].
  destruct (w_hs w) eqn:Hs; [|intros E; injection E as <- <-; tauto].
  intros E _. injection E as <- <-. exists w. cbn [wls set_wls]. auto.
Qed.

Lemma NoEmpty_maybe_free s wd :
  NoDup (map w_wd (wls s)) ->
  (forall wd' w, wd' <> wd -> find_w (wls s) wd' = Some w -> w_iter w = false -> w_hs w <> []) ->
  NoEmpty (fst (maybe_free s wd)).
Proof.
  intros ND H. unfold maybe_free.
  destruct (find_w (wls s) wd) as [w0|] eqn:F0; cbn [fst].
  - destruct (negb (w_iter w0) && match w_hs w0 with [] => true | _ => false end) eqn:Cnd; cbn [fst].
    + destruct (del_w_keys (wls s) wd ND) as (A & B & C). split; [exact A|].
      intros wd' w Fw Iw. cbn [wls set_wls] in Fw.
      destruct (Z.eq_dec wd' wd) as [->|N]; [congruence|].
      rewrite find_del_other in Fw by auto. eapply H; eauto.
    + split; auto. intros wd' w Fw Iw.
      destruct (Z.eq_dec wd' wd) as [->|N]; [|eapply H; eauto].
      rewrite Fw in F0. injection F0 as <-. rewrite Iw in Cnd. cbn in Cnd.
      destruct (w_hs w); [discriminate|discriminate].
  - split; auto. intros wd' w Fw Iw.
    destruct (Z.eq_dec wd' wd) as [->|N]; [congruence|eapply H; eauto].
Qed.

Lemma NoDup_snoc {A} (l : list A) x : NoDup l -> ~ In x l -> NoDup (l ++ [x]).
Proof.
  induction l as [|a l IH]; cbn [app]; intros ND N.
  - constructor; [intros []|constructor].
  - inversion ND as [|a' l' Hn Hd]; subst. constructor.
    + rewrite in_app_iff. cbn. intros [I|[I|[]]]; [auto|]. apply N. left; auto.
    + apply IH; auto. intros I. apply N. right; auto.
Qed.

Lemma NoEmpty_ev_start s h cb base wd0 : NoEmpty s -> NoEmpty (fst (ev_start s h cb base wd0)).
Proof.
  intros [ND H]. unfold ev_start. destruct (e_active (gete s h)); [split; auto|].
  destruct (wd0 <? 0); [split; auto|]. cbn [fst].
  set (s1 := match find_w (wls s) wd0 with Some _ => s | None => _ end).
  assert (H1 : NoDup (map w_wd (wls s1)) /\
               forall wd w, wd <> wd0 -> find_w (wls s1) wd = Some w -> w_iter w = false -> w_hs w <> []).
  { unfold s1. destruct (find_w (wls s) wd0) eqn:F0.
    - split; auto. intros; eapply H; eauto.
    - cbn [wls set_wls]. split.
      + rewrite map_app. cbn [map]. apply NoDup_snoc; auto.
        apply find_none_notin; auto.
      + intros wd w N Fw Iw. rewrite find_app in Fw.
        destruct (find_w (wls s) wd) eqn:F; [injection Fw as <-; eapply H; eauto|].
        cbn [w_wd] in Fw. destruct (Z.eqb_spec wd0 wd); [lia|discriminate]. }
  destruct H1 as [ND1 H1]. split.
  - cbn [wls upd_e set_ehs set_wls]. rewrite map_upd_w by reflexivity. exact ND1.
  - intros wd w Fw Iw. cbn [wls upd_e set_ehs set_wls] in Fw. rewrite find_upd_w in Fw by reflexivity.
    destruct (Z.eqb_spec wd wd0) as [->|N].
    + destruct (find_w (wls s1) wd0); [|discriminate]. cbn in Fw. injection Fw as <-. cbn [w_hs].
      destruct (w_hs w0); discriminate.
    + eapply H1; eauto.
Qed.

Lemma NoEmpty_upd_w s wd f :
  (forall w, w_wd (f w) = w_wd w) -> (forall w, w_iter (f w) = false -> w_hs (f w) <> []) ->
  NoEmpty s -> NoEmpty (set_wls s (upd_w (wls s) wd f)).
Proof.
  intros F1 F2 [ND H]. split; cbn [wls set_wls].
  - rewrite map_upd_w; auto.
  - intros wd' w Fw Iw. rewrite find_upd_w in Fw by auto.
    destruct (wd' =? wd); [|eapply H; eauto].
    destruct (find_w (wls s) wd); [|discriminate]. cbn in Fw. injection Fw as <-. auto.
Qed.

Lemma NoEmpty_ev_stop s h : NoEmpty s -> NoEmpty (fst (ev_stop s h)).
Proof.
  intros [ND H]. unfold ev_stop. destruct (negb (e_active (gete s h))); [split; auto|].
  apply NoEmpty_maybe_free; cbn [wls set_wls upd_e set_ehs].
  - rewrite map_upd_w; auto.
  - intros wd' w N Fw Iw. rewrite find_upd_w in Fw by auto.
    destruct (Z.eqb_spec wd' (e_wd (gete s h))); [lia|]. eapply H; eauto.
Qed.

Lemma NoEmpty_iapi s o : NoEmpty s -> NoEmpty (fst (iapi s o)).
Proof.
  intros H. destruct o; cbn [iapi]; auto.
  - destruct (ivalid s h && negb (e_closing (gete s h))); auto.
    pose proof (NoEmpty_ev_start s h cb base wd H) as X. destruct (ev_start s h cb base wd); auto.
  - destruct (ivalid s h && negb (e_closed (gete s h))); auto.
    pose proof (NoEmpty_ev_stop s h H) as X. destruct (ev_stop s h); auto.
  - destruct (ivalid s h && negb (e_closing (gete s h))); auto.
    unfold ev_close. set (s0 := upd_e s h _).
    assert (H0 : NoEmpty s0) by exact H.
    pose proof (NoEmpty_ev_stop s0 h H0) as X. destruct (ev_stop s0 h) as [s1 ev]. exact X.
Qed.

Lemma NoEmpty_iapis os : forall s, NoEmpty s -> NoEmpty (fst (iapis s os)).
Proof.
  induction os as [|o os IH]; intros s H; cbn [iapis]; auto.
  pose proof (NoEmpty_iapi s o H) as X. destruct (iapi s o) as [s1 e1]. cbn [fst] in X.
  pose proof (IH s1 X) as Y. destruct (iapis s1 os) as [s2 e2]. exact Y.
Qed.

Lemma NoEmpty_dispatch_loop fuel : forall s wd name bits beh cnt,
  NoEmpty s -> NoEmpty (fst (fst (dispatch_loop fuel s wd name bits beh cnt))).
Proof.
  induction fuel as [|f IH]; intros s wd name bits beh cnt H; cbn [dispatch_loop]; auto.
  destruct (find_w (wls s) wd) as [w|] eqn:Fw; auto.
  destruct (w_local w) as [|h rest] eqn:Lw; auto.
  set (s1 := set_wls s _).
  assert (H1 : NoEmpty s1).
  { unfold s1. apply NoEmpty_upd_w; auto. intros w0 _. cbn [w_hs]. destruct (w_hs w0); discriminate. }
  pose proof (NoEmpty_iapis (beh cnt) s1 H1) as X.
  destruct (iapis s1 (beh cnt)) as [s2 e2]. cbn [fst] in X.
  pose proof (IH s2 wd name bits beh (S cnt) X) as Y.
  destruct (dispatch_loop f s2 wd name bits beh (S cnt)) as [[s3 e3] n3]. exact Y.
Qed.

Lemma NoEmpty_dispatch_one s e beh cnt : NoEmpty s -> NoEmpty (fst (fst (dispatch_one s e beh cnt))).
Proof.
  intros H. unfold dispatch_one. destruct e as [[wd mask] nm].
  destruct (find_w (wls s) wd) as [w|] eqn:Fw; auto.
  set (s1 := set_wls s _).
  assert (H1 : NoEmpty s1).
  { unfold s1. apply NoEmpty_upd_w; auto. cbn. discriminate. }
  pose proof (NoEmpty_dispatch_loop (length (w_hs w)) s1 wd
                (match nm with Some n => n | None => w_base w end) (ev_bits mask) beh cnt H1) as X.
  destruct (dispatch_loop (length (w_hs w)) s1 wd _ (ev_bits mask) beh cnt) as [[s2 e2] n2]. cbn [fst] in X.
  destruct X as [ND2 H2].
  set (s3 := set_wls s2 _).
  assert (X3 : NoEmpty (fst (maybe_free s3 wd))).
  { apply NoEmpty_maybe_free; unfold s3; cbn [wls set_wls].
    - rewrite map_upd_w; auto.
    - intros wd' w' N Fw' Iw'. rewrite find_upd_w in Fw' by auto.
      destruct (Z.eqb_spec wd' wd); [lia|]. eapply H2; eauto. }
  destruct (maybe_free s3 wd) as [s4 e4]. exact X3.
Qed.

Lemma NoEmpty_dispatch evs : forall s beh cnt, NoEmpty s -> NoEmpty (fst (fst (dispatch s evs beh cnt))).
Proof.
  induction evs as [|e evs IH]; intros s beh cnt H; cbn [dispatch]; auto.
  pose proof (NoEmpty_dispatch_one s e beh cnt H) as X.
  destruct (dispatch_one s e beh cnt) as [[s1 e1] n1]. cbn [fst] in X.
  pose proof (IH s1 beh n1 X) as Y. destruct (dispatch s1 evs beh n1) as [[s2 e2] n2]. exact Y.
Qed.

Lemma NoEmpty_init : NoEmpty iinit.
Proof. split; cbn; [constructor|discriminate]. Qed.

Lemma wls_fold_upd_e (f : ehandle -> ehandle) l : forall s,
  wls (fold_left (fun s h => upd_e s h f) l s) = wls s.
Proof. induction l as [|h l IH]; intros s; cbn [fold_left]; auto. rewrite IH. reflexivity. Qed.

(* ---------------- generic: an invariant through a whole script, fork included ---------------- *)
Lemma irun_p_inv (P : ist -> Prop) (E : ievent -> Prop) :
  (forall s o, P s -> P (fst (iapi s o)) /\ Forall E (snd (iapi s o))) ->
  (forall s evs beh cnt, P s -> P (fst (fst (dispatch s evs beh cnt))) /\
                                Forall E (snd (fst (dispatch s evs beh cnt)))) ->
  (forall s, P s -> P (fst (run_eclosing s)) /\ Forall E (snd (run_eclosing s))) ->
  (forall s wds, P s -> P (fst (inotify_fork s wds)) /\ Forall E (snd (inotify_fork s wds))) ->
  E IChildExit ->
  forall os par s beh cnt,
  match par with Some (sp, _) => P sp | None => True end -> P s ->
  P (fst (irun_p par s os beh cnt)) /\ Forall E (snd (irun_p par s os beh cnt)).
Proof.
  intros Pa Pd Pc Pf Ee.
  induction os as [|o os IH]; intros par s beh cnt Hp H; [split; [exact H|constructor]|].
  assert (Api : forall o', (let '(s1, e1) := iapi s o' in
                            let '(s2, e2) := irun_p par s1 os beh cnt in (s2, e1 ++ e2)) =
                           (let '(s1, e1) := iapi s o' in
                            let '(s2, e2) := irun_p par s1 os beh cnt in (s2, e1 ++ e2)) ->
                     P (fst (let '(s1, e1) := iapi s o' in
                             let '(s2, e2) := irun_p par s1 os beh cnt in (s2, e1 ++ e2))) /\
                     Forall E (snd (let '(s1, e1) := iapi s o' in
                                    let '(s2, e2) := irun_p par s1 os beh cnt in (s2, e1 ++ e2)))).
  { intros o' _. destruct (Pa s o' H) as [X XO]. destruct (iapi s o') as [s1 e1]. cbn [fst snd] in *.
    destruct (IH par s1 beh cnt Hp X) as [Y YO]. destruct (irun_p par s1 os beh cnt) as [s2 e2].
    cbn [fst snd] in *. split; auto. apply Forall_app. auto. }
  destruct o; cbn [irun_p]; try (apply Api; reflexivity).
  - destruct (Pd s evs beh cnt H) as [X XO].
    destruct (dispatch s evs beh cnt) as [[s1 e1] n1]. cbn [fst snd] in *.
    destruct (Pc s1 X) as [X2 XO2]. destruct (run_eclosing s1) as [s2 e2]. cbn [fst snd] in *.
    destruct (IH par s2 beh n1 Hp X2) as [Y YO]. destruct (irun_p par s2 os beh n1) as [s3 e3].
    cbn [fst snd] in *. split; auto. apply Forall_app. split; auto. apply Forall_app. auto.
  - destruct par as [[sp np]|].
    + apply IH; auto.
    + destruct (Pf s wds H) as [X XO]. destruct (inotify_fork s wds) as [sc ec]. cbn [fst snd] in *.
      destruct (IH (Some (s, cnt)) sc beh (cnt + child_cb_offset)%nat H X) as [Y YO].
      destruct (irun_p (Some (s, cnt)) sc os beh (cnt + child_cb_offset)) as [s3 e3].
      cbn [fst snd] in *. split; auto. apply Forall_app. auto.
  - destruct par as [[sp np]|].
    + destruct (IH None sp beh np I Hp) as [Y YO]. destruct (irun_p None sp os beh np) as [s3 e3].
      cbn [fst snd] in *. split; auto.
    + apply IH; auto.
Qed.

(* uv__inotify_fork is made of the operations below: whatever they keep, it keeps *)
Lemma len_ehs_maybe_free s wd : length (ehs (fst (maybe_free s wd))) = length (ehs s).
Proof.
  unfold maybe_free. destruct (find_w (wls s) wd) as [w|]; auto.
  destruct (negb (w_iter w) && _); reflexivity.
Qed.

Lemma len_ehs_ev_stop s h : length (ehs (fst (ev_stop s h))) = length (ehs s).
Proof.
  unfold ev_stop. destruct (negb (e_active (gete s h))); auto.
  rewrite len_ehs_maybe_free. cbn [ehs set_wls upd_e set_ehs]. apply upd_length.
Qed.

Lemma len_ehs_ev_start s h cb b wd : length (ehs (fst (ev_start s h cb b wd))) = length (ehs s).
Proof.
  unfold ev_start. destruct (e_active (gete s h)); auto. destruct (wd <? 0); auto. cbn [fst].
  cbn [ehs upd_e set_ehs set_wls]. rewrite upd_length.
  destruct (find_w (wls s) wd); reflexivity.
Qed.

Lemma inotify_fork_inv (P : ist -> Prop) (Q : nat -> Prop) :
  (forall s wd, P s -> P (set_iter s wd true)) ->
  (forall s h, P s -> P (fst (ev_stop s h))) ->
  (forall s wd, P s -> P (fst (maybe_free (set_iter s wd false) wd))) ->
  (forall s h cb b wd, Q h -> P s -> P (fst (ev_start s h cb b wd))) ->
  forall s wds, (forall h b, In (h, b) (fork_tmp s) -> Q h) -> P s -> P (fst (inotify_fork s wds)).
Proof.
  intros Pi Ps Pm Pst s wds HQ H. unfold inotify_fork.
  assert (A : forall l acc, P (fst acc) -> P (fst (fold_left fork_list l acc))).
  { induction l as [|w l IH]; intros [s0 e0] H0; cbn [fold_left]; auto.
    apply IH. unfold fork_list. cbn [fst] in H0.
    assert (B : forall hl acc, P (fst acc) ->
                P (fst (fold_left (fun acc h => let '(s0, e0) := acc in let '(s1, e1) := ev_stop s0 h in
                                                (s1, e0 ++ e1)) hl acc))).
    { induction hl as [|h hl IHh]; intros [s1 e1] H1; cbn [fold_left]; auto.
      apply IHh. cbn [fst] in H1. pose proof (Ps s1 h H1) as X. destruct (ev_stop s1 h). exact X. }
    pose proof (B (w_hs w) (set_iter s0 (w_wd w) true, []) (Pi _ _ H0)) as X.
    unfold stop_all. destruct (fold_left _ (w_hs w) (set_iter s0 (w_wd w) true, [])) as [s1 e1].
    cbn [fst] in X. pose proof (Pm s1 (w_wd w) X) as Y.
    destruct (maybe_free (set_iter s1 (w_wd w) false) (w_wd w)) as [s2 e2]. exact Y. }
  pose proof (A (sort_w (wls s)) (s, []) H) as X.
  destruct (fold_left fork_list (sort_w (wls s)) (s, [])) as [s1 e1]. cbn [fst] in X.
  assert (C : forall tmp wl s0, (forall h b, In (h, b) tmp -> Q h) -> P s0 -> P (fst (restart tmp wl s0))).
  { induction tmp as [|[h b] tmp IH]; intros wl s0 Hq H0; cbn [restart]; auto.
    pose proof (Pst s0 h (e_cb (gete s0 h)) b (match wl with w :: _ => w | [] => -9 end)
                    (Hq h b (or_introl eq_refl)) H0) as Y.
    destruct (ev_start s0 h (e_cb (gete s0 h)) b _) as [s' r]. cbn [fst] in Y.
    destruct (r =? 0); auto. apply IH; auto. intros h' b' I. apply (Hq h' b'). right. exact I. }
  pose proof (C (fork_tmp s) wds s1 HQ X) as Y.
  destruct (restart (fork_tmp s) wds s1) as [s2 r]. exact Y.
Qed.

Lemma NoEmpty_fork s wds : NoEmpty s -> NoEmpty (fst (inotify_fork s wds)).
Proof.
  apply (inotify_fork_inv NoEmpty (fun _ => True)); auto.
  - intros s0 wd H. unfold set_iter. apply NoEmpty_upd_w; auto. cbn. discriminate.
  - intros s0 h H. apply NoEmpty_ev_stop; auto.
  - intros s0 wd [ND H]. apply NoEmpty_maybe_free; unfold set_iter; cbn [wls set_wls].
    + rewrite map_upd_w; auto.
    + intros wd' w' N Fw' Iw'. rewrite find_upd_w in Fw' by auto.
      destruct (Z.eqb_spec wd' wd); [lia|]. eapply H; eauto.
  - intros s0 h cb b wd _ H. apply NoEmpty_ev_start; auto.
Qed.

(* in every state reached by any script (any events, any callback behaviour):
   no list outside an iteration is empty, and the descriptors are unique *)
Theorem list_freed_when_empty : forall os s beh cnt, NoEmpty s -> NoEmpty (fst (irun s os beh cnt)).
Proof.
  intros os s beh cnt H. unfold irun.
  apply (irun_p_inv NoEmpty (fun _ => True)); auto.
  - intros s0 o H0. split; [apply NoEmpty_iapi; auto|apply Forall_forall; auto].
  - intros s0 evs b c H0. split; [apply NoEmpty_dispatch; auto|apply Forall_forall; auto].
  - intros s0 H0. split; [|apply Forall_forall; auto]. unfold run_eclosing. cbn [fst].
    unfold NoEmpty. cbn [wls set_eclosing]. rewrite wls_fold_upd_e. exact H0.
  - intros s0 wds H0. split; [apply NoEmpty_fork; auto|apply Forall_forall; auto].
Qed.

(* ------------------------------------------------------------------ *)
(* C17_event_reaches_all, for callbacks that make no API call          *)
(* ------------------------------------------------------------------ *)
Lemma dispatch_loop_quiet fuel : forall s wd name bits cnt w,
  find_w (wls s) wd = Some w -> (length (w_local w) <= fuel)%nat ->
  snd (fst (dispatch_loop fuel s wd name bits (fun _ => []) cnt)) =
  map (fun h => ICb h (e_cb (gete s h)) name bits (e_active (gete s h))) (w_local w).
Proof.
  induction fuel as [|f IH]; intros s wd name bits cnt w Fw L; cbn [dispatch_loop].
  - destruct (w_local w); [reflexivity|cbn in L; lia].
  - rewrite Fw. destruct (w_local w) as [|h rest] eqn:Lw; [reflexivity|].
    cbn [iapis].
    set (s1 := set_wls s _).
    assert (F1 : find_w (wls s1) wd = Some (mkW (w_wd w) (w_base w) (w_hs w ++ [h]) rest (w_iter w))).
    { unfold s1. cbn [wls set_wls]. rewrite find_upd_w by auto. rewrite Z.eqb_refl, Fw. reflexivity. }
    pose proof (IH s1 wd name bits (S cnt) _ F1) as X. cbn [w_local] in X.
    cbn in L. specialize (X ltac:(lia)).
    destruct (dispatch_loop f s1 wd name bits (fun _ => []) (S cnt)) as [[s3 e3] n3].
    cbn [fst snd] in *. cbn [map app]. rewrite X. reflexivity.
Qed.

(* the event bits *)
Lemma land_lor_nonzero m a b : Z.land m (Z.lor a b) <> 0 <-> Z.land m a <> 0 \/ Z.land m b <> 0.
Proof.
  rewrite Z.land_lor_distr_r, Z.lor_eq_0_iff.
  destruct (Z.eq_dec (Z.land m a) 0), (Z.eq_dec (Z.land m b) 0); tauto.
Qed.

Theorem ev_bits_spec : forall mask,
  let change := Z.land mask IN_ATTRIB <> 0 \/ Z.land mask IN_MODIFY <> 0 in
  let rename := Z.land mask (Z.lnot (Z.lor (Z.lor IN_ATTRIB IN_MODIFY) IN_ISDIR)) <> 0 in
  (change -> rename -> ev_bits mask = UV_CHANGE + UV_RENAME) /\
  (change -> ~ rename -> ev_bits mask = UV_CHANGE) /\
  (~ change -> rename -> ev_bits mask = UV_RENAME) /\
  (~ change -> ~ rename -> ev_bits mask = 0).
Proof.
  intros mask change rename. unfold ev_bits.
  assert (C : Z.land mask (Z.lor IN_ATTRIB IN_MODIFY) <> 0 <-> change) by apply land_lor_nonzero.
  destruct (Z.eqb_spec (Z.land mask (Z.lor IN_ATTRIB IN_MODIFY)) 0) as [E1|E1];
  destruct (Z.eqb_spec (Z.land mask (Z.lnot (Z.lor (Z.lor IN_ATTRIB IN_MODIFY) IN_ISDIR))) 0) as [E2|E2];
    unfold rename; repeat split; intros; try reflexivity; try tauto.
Qed.

(* chmod of a watched directory (IN_ATTRIB|IN_ISDIR) is UV_CHANGE only; create / delete / move of a
   subdirectory is UV_RENAME; the failing input of the repaired finding, on the old mapping *)
Lemma ev_bits_examples :
  ev_bits (Z.lor IN_ATTRIB IN_ISDIR) = UV_CHANGE /\ ev_bits (Z.lor IN_MODIFY IN_ISDIR) = UV_CHANGE /\
  ev_bits (Z.lor 256 IN_ISDIR) = UV_RENAME /\ ev_bits (Z.lor 512 IN_ISDIR) = UV_RENAME /\
  ev_bits (Z.lor 64 IN_ISDIR) = UV_RENAME /\ ev_bits (Z.lor 128 IN_ISDIR) = UV_RENAME /\
  ev_bits IN_ATTRIB = UV_CHANGE /\ ev_bits 1024 = UV_RENAME /\ ev_bits 32768 = UV_RENAME /\
  ev_bits_old (Z.lor IN_ATTRIB IN_ISDIR) = UV_CHANGE + UV_RENAME.
Proof. vm_compute. repeat split; reflexivity. Qed.

Theorem event_reaches_all_quiet :
  forall s wd mask nm w cnt,
  find_w (wls s) wd = Some w ->
  exists tail,
    snd (fst (dispatch_one s (wd, mask, nm) (fun _ => []) cnt)) =
      map (fun h => ICb h (e_cb (gete s h)) (match nm with Some n => n | None => w_base w end)
                        (ev_bits mask) (e_active (gete s h))) (w_hs w) ++ tail /\
    (tail = [] \/ tail = [IRm wd]).
Proof.
  intros s wd mask nm w cnt Fw. unfold dispatch_one. rewrite Fw.
  set (s1 := set_wls s _).
  assert (F1 : find_w (wls s1) wd = Some (mkW (w_wd w) (w_base w) [] (w_hs w) true)).
  { unfold s1. cbn [wls set_wls]. rewrite find_upd_w by auto. rewrite Z.eqb_refl, Fw. reflexivity. }
  pose proof (dispatch_loop_quiet (length (w_hs w)) s1 wd
                (match nm with Some n => n | None => w_base w end) (ev_bits mask) cnt _ F1 (le_n _)) as X.
  cbn [w_local] in X.
  destruct (dispatch_loop (length (w_hs w)) s1 wd _ (ev_bits mask) (fun _ => []) cnt) as [[s2 e2] n2].
  cbn [fst snd] in X.
  set (s3 := set_wls s2 _).
  unfold maybe_free.
  destruct (find_w (wls s3) wd) as [w3|]; cbn [fst snd].
  - destruct (negb (w_iter w3) && match w_hs w3 with [] => true | _ => false end); cbn [fst snd].
    + exists [IRm wd]. rewrite X. auto.
    + exists []. rewrite X. auto.
  - exists []. rewrite X. auto.
Qed.

(* ------------------------------------------------------------------ *)
(* C17_no_cb_for_stopped                                               *)
(* ------------------------------------------------------------------ *)
(* a handle that is stopped is in no list and no local queue of its descriptor:
   ev_stop unlinks it from both *)
Lemma rm_nat_not_in h l : ~ In h (rm_nat h l).
Proof.
  unfold rm_nat. intros I. apply filter_In in I. destruct I as [_ E].
  rewrite Nat.eqb_refl in E. discriminate.
Qed.

Theorem stop_unlinks :
  forall s h w',
  NoDup (map w_wd (wls s)) ->
  e_active (gete s h) = true ->
  find_w (wls (fst (ev_stop s h))) (e_wd (gete s h)) = Some w' ->
  ~ In h (w_hs w') /\ ~ In h (w_local w').
Proof.
  intros s h w' ND A. unfold ev_stop. rewrite A. cbn [negb].
  set (wd := e_wd (gete s h)).
  set (s2 := set_wls _ _).
  assert (ND2 : NoDup (map w_wd (wls s2))).
  { unfold s2. cbn [wls set_wls upd_e set_ehs]. rewrite map_upd_w; auto. }
  assert (F2 : forall w2, find_w (wls s2) wd = Some w2 -> ~ In h (w_hs w2) /\ ~ In h (w_local w2)).
  { unfold s2. cbn [wls set_wls upd_e set_ehs]. intros w2. rewrite find_upd_w by auto.
    rewrite Z.eqb_refl. destruct (find_w (wls s) wd); [|discriminate]. cbn. intros E. injection E as <-.
    cbn [w_hs w_local]. split; apply rm_nat_not_in. }
  unfold maybe_free. destruct (find_w (wls s2) wd) as [w2|] eqn:E2; cbn [fst]; [|rewrite E2; discriminate].
  destruct (negb (w_iter w2) && match w_hs w2 with [] => true | _ => false end); cbn [fst].
  - cbn [wls set_wls]. destruct (del_w_keys (wls s2) wd ND2) as (_ & _ & C). rewrite C. discriminate.
  - rewrite E2. intros E. injection E as <-. apply F2; auto.
Qed.

(* dispatch calls back only the handle it takes from the head of the local queue *)
Theorem cb_is_head_of_local :
  forall f s wd name bits beh cnt w h rest,
  find_w (wls s) wd = Some w -> w_local w = h :: rest ->
  exists s' evs n, dispatch_loop (S f) s wd name bits beh cnt =
                   (s', ICb h (e_cb (gete s h)) name bits (e_active (gete s h)) :: evs, n).
Proof.
  intros f s wd name bits beh cnt w h rest Fw Lw. cbn [dispatch_loop]. rewrite Fw, Lw.
  set (s1 := set_wls s _).
  destruct (iapis s1 (beh cnt)) as [s2 e2].
  destruct (dispatch_loop f s2 wd name bits beh (S cnt)) as [[s3 e3] n3].
  exists s3, (e2 ++ e3), n3. reflexivity.
Qed.

(* ------------------------------------------------------------------ *)
(* C17_no_cb_for_stopped: list membership                              *)
(* ------------------------------------------------------------------ *)
From UV Require Import Proofs.FsPollProofs.
From Coq Require Import Permutation.

Lemma gete_upd_e s h f h' :
  gete (upd_e s h f) h' =
  if Nat.eqb h h' && Nat.ltb h (length (ehs s)) then f (gete s h') else gete s h'.
Proof.
  unfold gete, upd_e, set_ehs. cbn [ehs].
  destruct (Nat.eqb_spec h h') as [->|N]; cbn [andb].
  - destruct (Nat.ltb_spec h' (length (ehs s))).
    + apply nth_upd_same; auto.
    + rewrite nth_upd_out by auto. reflexivity.
  - apply nth_upd_other; auto.
Qed.

(* the handles linked in the list of descriptor wd (in w->watchers or in the local queue of
   the iteration) are active handles whose wd is wd, each linked once; descriptors are unique *)
Definition Mem (s : ist) : Prop :=
  NoDup (map w_wd (wls s)) /\
  (forall wd w h, find_w (wls s) wd = Some w -> In h (w_hs w) \/ In h (w_local w) ->
                  e_active (gete s h) = true /\ e_wd (gete s h) = wd) /\
  (forall wd w, find_w (wls s) wd = Some w -> NoDup (w_hs w ++ w_local w)).

Lemma active_lt s h : e_active (gete s h) = true -> (h < length (ehs s))%nat.
Proof.
  intros A. destruct (Nat.lt_ge_cases h (length (ehs s))); auto.
  unfold gete in A. rewrite nth_overflow in A by auto. discriminate.
Qed.

(* a handle update that keeps active and wd *)
Lemma Mem_upd_e_keep s h f :
  (forall e, e_active (f e) = e_active e /\ e_wd (f e) = e_wd e) -> Mem s -> Mem (upd_e s h f).
Proof.
  intros F (ND & M & NL). split; [exact ND|]. split; [|exact NL].
  intros wd w h' Fw I. change (wls (upd_e s h f)) with (wls s) in Fw.
  destruct (M wd w h' Fw I) as [A B]. rewrite gete_upd_e.
  destruct (Nat.eqb h h' && Nat.ltb h (length (ehs s))); auto.
  destruct (F (gete s h')) as [F1 F2]. rewrite F1, F2. auto.
Qed.

Lemma NoDup_snoc_mid {A} (a b : list A) x :
  NoDup (a ++ b) -> ~ In x a -> ~ In x b -> NoDup ((a ++ [x]) ++ b).
Proof.
  intros N Na Nb. rewrite <- app_assoc. cbn [app].
  apply (Permutation_NoDup (Permutation_middle a b x)).
  constructor; auto. rewrite in_app_iff. tauto.
Qed.

Lemma NoDup_app_l {A} (a b : list A) : NoDup (a ++ b) -> NoDup a.
Proof.
  induction a as [|x a IH]; cbn [app]; intros N; [constructor|].
  inversion N as [|y l Hn Hd]; subst. constructor; [|apply IH; auto].
  intros I. apply Hn. apply in_app_iff. auto.
Qed.

Lemma rm_nat_app h a b : rm_nat h (a ++ b) = rm_nat h a ++ rm_nat h b.
Proof. unfold rm_nat. apply filter_app. Qed.

Lemma in_rm_nat h x l : In x (rm_nat h l) <-> In x l /\ x <> h.
Proof.
  unfold rm_nat. rewrite filter_In. split; intros [A B]; split; auto.
  - intros ->. rewrite Nat.eqb_refl in B. discriminate.
  - destruct (Nat.eqb_spec h x); [congruence|reflexivity].
Qed.

Lemma Mem_maybe_free s wd : Mem s -> Mem (fst (maybe_free s wd)).
Proof.
  intros (ND & M & NL). unfold maybe_free.
  destruct (find_w (wls s) wd) as [w0|] eqn:F0; cbn [fst]; [|exact (conj ND (conj M NL))].
  destruct (negb (w_iter w0) && match w_hs w0 with [] => true | _ => false end); cbn [fst];
    [|exact (conj ND (conj M NL))].
  destruct (del_w_keys (wls s) wd ND) as (A & B & C).
  split; [exact A|]. cbn [wls set_wls]. change (gete (set_wls s (del_w (wls s) wd))) with (gete s).
  split.
  - intros wd' w h Fw I. destruct (Z.eq_dec wd' wd) as [->|N]; [congruence|].
    rewrite find_del_other in Fw by auto. eapply M; eauto.
  - intros wd' w Fw. destruct (Z.eq_dec wd' wd) as [->|N]; [congruence|].
    rewrite find_del_other in Fw by auto. eapply NL; eauto.
Qed.

Lemma Mem_ev_stop s h : Mem s -> Mem (fst (ev_stop s h)).
Proof.
  intros (ND & M & NL). unfold ev_stop. destruct (e_active (gete s h)) eqn:Ah; cbn [negb]; [|exact (conj ND (conj M NL))].
  apply Mem_maybe_free.
  set (wd := e_wd (gete s h)).
  set (s1 := upd_e s h _).
  assert (G1 : forall h', h' <> h -> gete s1 h' = gete s h').
  { intros h' Ne. unfold s1. rewrite gete_upd_e. destruct (Nat.eqb_spec h h'); [congruence|reflexivity]. }
  split; [cbn [wls set_wls]; rewrite map_upd_w; auto|].
  cbn [wls set_wls]. change (wls s1) with (wls s).
  change (gete (set_wls s1 (upd_w (wls s) wd
           (fun w => mkW (w_wd w) (w_base w) (rm_nat h (w_hs w)) (rm_nat h (w_local w)) (w_iter w)))))
    with (gete s1).
  split.
  - intros wd' w h' Fw I. rewrite find_upd_w in Fw by auto.
    destruct (Z.eqb_spec wd' wd) as [->|N].
    + destruct (find_w (wls s) wd) as [w0|] eqn:F0; [|discriminate]. cbn in Fw. injection Fw as <-.
      cbn [w_hs w_local] in I. rewrite !in_rm_nat in I.
      assert (Ne : h' <> h) by tauto. rewrite G1 by auto. apply (M wd w0 h' F0). tauto.
    + assert (Ne : h' <> h).
      { intros ->. destruct (M wd' w h Fw I) as [_ E]. fold wd in E. congruence. }
      rewrite G1 by auto. apply (M wd' w h' Fw I).
  - intros wd' w Fw. rewrite find_upd_w in Fw by auto.
    destruct (Z.eqb_spec wd' wd) as [->|N]; [|eapply NL; eauto].
    destruct (find_w (wls s) wd) as [w0|] eqn:F0; [|discriminate]. cbn in Fw. injection Fw as <-.
    cbn [w_hs w_local]. rewrite <- rm_nat_app. unfold rm_nat. apply NoDup_filter. eapply NL; eauto.
Qed.

Lemma Mem_ev_start s h cb base wd0 :
  (h < length (ehs s))%nat -> Mem s -> Mem (fst (ev_start s h cb base wd0)).
Proof.
  intros Lh (ND & M & NL). unfold ev_start.
  destruct (e_active (gete s h)) eqn:Ah; [exact (conj ND (conj M NL))|].
  destruct (wd0 <? 0); [exact (conj ND (conj M NL))|]. cbn [fst].
  set (s1 := match find_w (wls s) wd0 with Some _ => s | None => _ end).
  assert (E1 : ehs s1 = ehs s) by (unfold s1; destruct (find_w (wls s) wd0); reflexivity).
  assert (H1 : NoDup (map w_wd (wls s1)) /\
               (forall wd w, find_w (wls s1) wd = Some w ->
                  (forall h', In h' (w_hs w) \/ In h' (w_local w) -> e_active (gete s h') = true /\ e_wd (gete s h') = wd) /\
                  NoDup (w_hs w ++ w_local w)) /\
               (exists w, find_w (wls s1) wd0 = Some w)).
  { unfold s1. destruct (find_w (wls s) wd0) as [wx|] eqn:F0.
    - split; [auto|]. split; [|eauto]. intros wd w Fw. split; [intros h' I; eapply M; eauto|eapply NL; eauto].
    - cbn [wls set_wls]. split; [rewrite map_app; cbn [map]; apply NoDup_snoc; auto; apply find_none_notin; auto|].
      split.
      + intros wd w Fw. rewrite find_app in Fw.
        destruct (find_w (wls s) wd) eqn:F.
        * injection Fw as <-. split; [intros h' I; eapply M; eauto|eapply NL; eauto].
        * cbn [w_wd] in Fw. destruct (wd0 =? wd); [|discriminate]. injection Fw as <-.
          cbn. split; [intros h' [[]|[]]|constructor].
      + rewrite find_app, F0. cbn [w_wd]. rewrite Z.eqb_refl. eauto. }
  destruct H1 as (ND1 & M1 & (w00 & F00)).
  set (f := fun w => mkW (w_wd w) (w_base w) (w_hs w ++ [h]) (w_local w) (w_iter w)).
  set (g := fun e => mkE true (e_closing e) (e_closed e) wd0 cb).
  assert (Gh : gete (upd_e (set_wls s1 (upd_w (wls s1) wd0 f)) h g) h = g (gete s h)).
  { rewrite gete_upd_e, Nat.eqb_refl. cbn [andb ehs set_wls]. rewrite E1.
    destruct (Nat.ltb_spec h (length (ehs s))); [|lia]. unfold gete. cbn [ehs set_wls]. rewrite E1. reflexivity. }
  assert (Go : forall h', h' <> h -> gete (upd_e (set_wls s1 (upd_w (wls s1) wd0 f)) h g) h' = gete s h').
  { intros h' Ne. rewrite gete_upd_e. destruct (Nat.eqb_spec h h'); [congruence|].
    unfold gete. cbn [ehs set_wls]. rewrite E1. reflexivity. }
  split; [cbn [wls upd_e set_ehs set_wls]; rewrite map_upd_w; auto|].
  cbn [wls upd_e set_ehs set_wls].
  change (gete (set_ehs (set_wls s1 (upd_w (wls s1) wd0 f)) (upd h g (ehs (set_wls s1 (upd_w (wls s1) wd0 f))))))
    with (gete (upd_e (set_wls s1 (upd_w (wls s1) wd0 f)) h g)).
  assert (Inact : forall wd w, find_w (wls s1) wd = Some w -> ~ In h (w_hs w) /\ ~ In h (w_local w)).
  { intros wd w Fw. destruct (M1 wd w Fw) as [Mw _].
    split; intros I; destruct (Mw h) as [A _]; auto; congruence. }
  split.
  - intros wd w h' Fw I. rewrite find_upd_w in Fw by auto.
    destruct (Z.eqb_spec wd wd0) as [->|N].
    + rewrite F00 in Fw. cbn in Fw. injection Fw as <-. cbn [f w_hs w_local] in I.
      destruct (Nat.eq_dec h' h) as [->|Ne]; [rewrite Gh; cbn; auto|].
      rewrite Go by auto. destruct (M1 wd0 w00 F00) as [Mw _]. apply Mw.
      destruct I as [I|I]; [|right; exact I]. apply in_app_iff in I.
      destruct I as [I|[I|[]]]; [left; exact I|congruence].
    + destruct (M1 wd w Fw) as [Mw _]. destruct (Inact wd w Fw) as [I1 I2].
      assert (Ne : h' <> h) by (intros ->; tauto).
      rewrite Go by auto. apply Mw; auto.
  - intros wd w Fw. rewrite find_upd_w in Fw by auto.
    destruct (Z.eqb_spec wd wd0) as [->|N]; [|apply (M1 wd w Fw)].
    rewrite F00 in Fw. cbn in Fw. injection Fw as <-. cbn [f w_hs w_local].
    destruct (M1 wd0 w00 F00) as [_ Nw]. destruct (Inact wd0 w00 F00) as [I1 I2].
    apply NoDup_snoc_mid; auto.
Qed.

Lemma Mem_iapi s o : Mem s -> Mem (fst (iapi s o)).
Proof.
  intros H. destruct o; cbn [iapi]; auto.
  - cbn [fst]. destruct H as (ND & M & NL). split; [exact ND|]. split; [|exact NL].
    intros wd w h Fw I. change (wls (set_ehs s (ehs s ++ [mkE false false false (-1) 0]))) with (wls s) in Fw.
    destruct (M wd w h Fw I) as [A B].
    assert (E : gete (set_ehs s (ehs s ++ [mkE false false false (-1) 0])) h = gete s h).
    { unfold gete, set_ehs. cbn [ehs]. apply app_nth1. apply active_lt; auto. }
    rewrite E. auto.
  - destruct (ivalid s h && negb (e_closing (gete s h))) eqn:G; auto.
    apply andb_true_iff in G. destruct G as [V _]. unfold ivalid in V. apply Nat.ltb_lt in V.
    pose proof (Mem_ev_start s h cb base wd V H) as X. destruct (ev_start s h cb base wd); auto.
  - destruct (ivalid s h && negb (e_closed (gete s h))); auto.
    pose proof (Mem_ev_stop s h H) as X. destruct (ev_stop s h); auto.
  - destruct (ivalid s h && negb (e_closing (gete s h))); auto.
    unfold ev_close. set (s0 := upd_e s h _).
    assert (H0 : Mem s0) by (apply Mem_upd_e_keep; auto).
    pose proof (Mem_ev_stop s0 h H0) as X. destruct (ev_stop s0 h) as [s1 ev]. cbn [fst] in *.
    exact X.
Qed.

Lemma Mem_iapis os : forall s, Mem s -> Mem (fst (iapis s os)).
Proof.
  induction os as [|o os IH]; intros s H; cbn [iapis]; auto.
  pose proof (Mem_iapi s o H) as X. destruct (iapi s o) as [s1 e1]. cbn [fst] in X.
  pose proof (IH s1 X) as Y. destruct (iapis s1 os) as [s2 e2]. exact Y.
Qed.

Definition okI (e : ievent) : Prop := match e with ICb _ _ _ _ a => a = true | _ => True end.

Lemma iapis_okI os : forall s, Forall okI (snd (iapis s os)).
Proof.
  induction os as [|o os IH]; intros s; cbn [iapis]; [constructor|].
  assert (A : Forall okI (snd (iapi s o))).
  { destruct o; cbn [iapi]; try (cbn; repeat constructor; fail).
    - destruct (ivalid s h && negb (e_closing (gete s h))); [|constructor].
      destruct (ev_start s h cb base wd). cbn. repeat constructor.
    - destruct (ivalid s h && negb (e_closed (gete s h))); [|constructor].
      unfold ev_stop. destruct (negb (e_active (gete s h))); [cbn; repeat constructor|].
      unfold maybe_free. destruct (find_w _ _); [|cbn; repeat constructor].
      destruct (negb (w_iter w) && _); cbn; repeat constructor.
    - destruct (ivalid s h && negb (e_closing (gete s h))); [|constructor].
      unfold ev_close, ev_stop. destruct (negb (e_active _)); [cbn; constructor|].
      unfold maybe_free. destruct (find_w _ _); [|cbn; constructor].
      destruct (negb (w_iter w) && _); cbn; repeat constructor. }
  destruct (iapi s o) as [s1 e1]. specialize (IH s1). destruct (iapis s1 os) as [s2 e2].
  cbn [snd] in *. apply Forall_app. auto.
Qed.

Lemma Mem_upd_w_same_members s wd f :
  (forall w, w_wd (f w) = w_wd w) ->
  (forall w h, In h (w_hs (f w)) \/ In h (w_local (f w)) -> In h (w_hs w) \/ In h (w_local w)) ->
  (forall w, NoDup (w_hs w ++ w_local w) -> NoDup (w_hs (f w) ++ w_local (f w))) ->
  Mem s -> Mem (set_wls s (upd_w (wls s) wd f)).
Proof.
  intros F1 F2 F3 (ND & M & NL). split; [cbn [wls set_wls]; rewrite map_upd_w; auto|].
  cbn [wls set_wls]. change (gete (set_wls s (upd_w (wls s) wd f))) with (gete s).
  split.
  - intros wd' w h Fw I. rewrite find_upd_w in Fw by auto.
    destruct (Z.eqb_spec wd' wd) as [->|N]; [|eapply M; eauto].
    destruct (find_w (wls s) wd) as [w0|] eqn:F0; [|discriminate]. cbn in Fw. injection Fw as <-.
    eapply M; eauto.
  - intros wd' w Fw. rewrite find_upd_w in Fw by auto.
    destruct (Z.eqb_spec wd' wd) as [->|N]; [|eapply NL; eauto].
    destruct (find_w (wls s) wd) as [w0|] eqn:F0; [|discriminate]. cbn in Fw. injection Fw as <-.
    apply F3. eapply NL; eauto.
Qed.

Lemma dispatch_loop_Mem fuel : forall s wd name bits beh cnt,
  Mem s ->
  Mem (fst (fst (dispatch_loop fuel s wd name bits beh cnt))) /\
  Forall okI (snd (fst (dispatch_loop fuel s wd name bits beh cnt))).
Proof.
  induction fuel as [|f IH]; intros s wd name bits beh cnt H; cbn [dispatch_loop]; [split; [auto|constructor]|].
  destruct (find_w (wls s) wd) as [w|] eqn:Fw; [|split; [auto|constructor]].
  destruct (w_local w) as [|h rest] eqn:Lw; [split; [auto|constructor]|].
  set (s1 := set_wls s _).
  assert (Ah : e_active (gete s1 h) = true).
  { change (gete s1 h) with (gete s h). destruct H as (_ & M & _).
    apply (M wd w h Fw). right. rewrite Lw. left. reflexivity. }
  assert (H1 : Mem s1).
  { unfold s1. destruct H as (ND & M & NL).
    split; [cbn [wls set_wls]; rewrite map_upd_w; auto|].
    cbn [wls set_wls]. split.
    - intros wd' w' h' Fw' I. rewrite find_upd_w in Fw' by auto.
      destruct (Z.eqb_spec wd' wd) as [->|N]; [|eapply M; eauto].
      rewrite Fw in Fw'. cbn in Fw'. injection Fw' as <-. cbn [w_hs w_local] in I.
      apply (M wd w h' Fw). rewrite Lw. rewrite in_app_iff in I. cbn in *. tauto.
    - intros wd' w' Fw'. rewrite find_upd_w in Fw' by auto.
      destruct (Z.eqb_spec wd' wd) as [->|N]; [|eapply NL; eauto].
      rewrite Fw in Fw'. cbn in Fw'. injection Fw' as <-. cbn [w_hs w_local].
      pose proof (NL wd w Fw) as X. rewrite Lw in X. rewrite <- app_assoc. exact X. }
  pose proof (Mem_iapis (beh cnt) s1 H1) as X.
  pose proof (iapis_okI (beh cnt) s1) as XO.
  destruct (iapis s1 (beh cnt)) as [s2 e2]. cbn [fst snd] in *.
  pose proof (IH s2 wd name bits beh (S cnt) X) as [Y YO].
  destruct (dispatch_loop f s2 wd name bits beh (S cnt)) as [[s3 e3] n3]. cbn [fst snd] in *.
  split; [exact Y|]. constructor; [exact Ah|]. apply Forall_app. auto.
Qed.

Lemma dispatch_one_Mem s e beh cnt :
  Mem s -> Mem (fst (fst (dispatch_one s e beh cnt))) /\ Forall okI (snd (fst (dispatch_one s e beh cnt))).
Proof.
  intros H. unfold dispatch_one. destruct e as [[wd mask] nm].
  destruct (find_w (wls s) wd) as [w|] eqn:Fw; [|split; [auto|constructor]].
  set (s1 := set_wls s _).
  assert (H1 : Mem s1).
  { unfold s1. apply Mem_upd_w_same_members; auto.
    - intros w0 h I. cbn [w_hs w_local] in I. destruct I as [[]|I]; auto.
    - intros w0 N. cbn [w_hs w_local app]. apply NoDup_app_l in N. exact N. }
  pose proof (dispatch_loop_Mem (length (w_hs w)) s1 wd
                (match nm with Some n => n | None => w_base w end) (ev_bits mask) beh cnt H1) as [X XO].
  destruct (dispatch_loop (length (w_hs w)) s1 wd _ (ev_bits mask) beh cnt) as [[s2 e2] n2]. cbn [fst snd] in *.
  set (s3 := set_wls s2 _).
  assert (H3 : Mem s3) by (unfold s3; apply Mem_upd_w_same_members; auto).
  pose proof (Mem_maybe_free s3 wd H3) as Y.
  assert (YO : Forall okI (snd (maybe_free s3 wd))).
  { unfold maybe_free. destruct (find_w (wls s3) wd) as [wz|]; [|cbn; constructor].
    destruct (negb (w_iter wz) && _); cbn; repeat constructor. }
  destruct (maybe_free s3 wd) as [s4 e4]. cbn [fst snd] in *.
  split; [exact Y|]. apply Forall_app. auto.
Qed.

Lemma dispatch_Mem evs : forall s beh cnt,
  Mem s -> Mem (fst (fst (dispatch s evs beh cnt))) /\ Forall okI (snd (fst (dispatch s evs beh cnt))).
Proof.
  induction evs as [|e evs IH]; intros s beh cnt H; cbn [dispatch]; [split; [auto|constructor]|].
  pose proof (dispatch_one_Mem s e beh cnt H) as [X XO].
  destruct (dispatch_one s e beh cnt) as [[s1 e1] n1]. cbn [fst snd] in *.
  pose proof (IH s1 beh n1 X) as [Y YO]. destruct (dispatch s1 evs beh n1) as [[s2 e2] n2].
  cbn [fst snd] in *. split; [exact Y|]. apply Forall_app. auto.
Qed.

Lemma Mem_fold_closed l : forall s, Mem s ->
  Mem (fold_left (fun s h => upd_e s h (fun e => mkE (e_active e) (e_closing e) true (e_wd e) (e_cb e))) l s).
Proof.
  induction l as [|h l IH]; intros s H; cbn [fold_left]; auto.
  apply IH. apply Mem_upd_e_keep; auto.
Qed.

Lemma Mem_init : Mem iinit.
Proof. split; [constructor|]. split; cbn; intros; discriminate. Qed.

(* C17_no_cb_for_stopped: in the trace of every script -- any kernel answers, any events, any API
   calls made from inside the callbacks -- every fs_event callback goes to a handle that is
   active at that moment ([ICb]'s last field is that ghost) *)
Lemma in_insert_w w x l : In x (insert_w w l) <-> x = w \/ In x l.
Proof.
  induction l as [|y l IH]; cbn [insert_w]; [cbn; intuition|].
  destruct (w_wd w <? w_wd y); cbn [In]; [intuition|]. rewrite IH. intuition.
Qed.

Lemma in_sort_w x l : In x (sort_w l) <-> In x l.
Proof.
  induction l as [|y l IH]; cbn [sort_w fold_right]; [tauto|].
  fold (sort_w l). rewrite in_insert_w, IH. cbn. intuition.
Qed.

Lemma find_in_nodup l w : NoDup (map w_wd l) -> In w l -> find_w l (w_wd w) = Some w.
Proof.
  induction l as [|x l IH]; cbn [map find_w]; intros ND I; [destruct I|].
  inversion ND as [|a b Hn Hd]; subst. destruct I as [->|I]; [rewrite Z.eqb_refl; reflexivity|].
  destruct (Z.eqb_spec (w_wd x) (w_wd w)) as [E|E]; [|apply IH; auto].
  exfalso. apply Hn. rewrite E. apply in_map. exact I.
Qed.

Lemma fork_tmp_members s h b :
  Mem s -> In (h, b) (fork_tmp s) -> (h < length (ehs s))%nat.
Proof.
  intros (ND & M & _) I. unfold fork_tmp in I. apply in_flat_map in I. destruct I as (w & Iw & Ih).
  apply (proj1 (in_sort_w _ _)) in Iw. apply in_map_iff in Ih. destruct Ih as (h0 & E & Ih). injection E as <- _.
  apply active_lt. apply (M (w_wd w) w h0 (find_in_nodup _ _ ND Iw)). left. exact Ih.
Qed.

Lemma Mem_fork s wds : Mem s -> Mem (fst (inotify_fork s wds)).
Proof.
  intros H.
  pose proof (inotify_fork_inv (fun s' => Mem s' /\ length (ehs s') = length (ehs s))
                               (fun h => (h < length (ehs s))%nat)) as X.
  apply X; auto.
  - intros s0 wd [M L]. split; [|exact L]. unfold set_iter. apply Mem_upd_w_same_members; auto.
  - intros s0 h [M L]. split; [apply Mem_ev_stop; auto|rewrite len_ehs_ev_stop; exact L].
  - intros s0 wd [M L]. split; [|rewrite len_ehs_maybe_free; exact L].
    apply Mem_maybe_free. unfold set_iter. apply Mem_upd_w_same_members; auto.
  - intros s0 h cb b wd Q [M L]. split; [|rewrite len_ehs_ev_start; exact L].
    apply Mem_ev_start; auto. rewrite L. exact Q.
  - intros h b I. eapply fork_tmp_members; eauto.
Qed.

Lemma maybe_free_okI s wd : Forall okI (snd (maybe_free s wd)).
Proof.
  unfold maybe_free. destruct (find_w (wls s) wd) as [wz|]; [|constructor].
  destruct (negb (w_iter wz) && _); cbn; repeat constructor.
Qed.

Lemma ev_stop_okI s h : Forall okI (snd (ev_stop s h)).
Proof. unfold ev_stop. destruct (negb (e_active (gete s h))); [constructor|apply maybe_free_okI]. Qed.

Lemma fork_okI s wds : Forall okI (snd (inotify_fork s wds)).
Proof.
  unfold inotify_fork.
  assert (A : forall l acc, Forall okI (snd acc) -> Forall okI (snd (fold_left fork_list l acc))).
  { induction l as [|w l IH]; intros [s0 e0] H0; cbn [fold_left]; auto.
    apply IH. unfold fork_list. cbn [snd] in H0.
    assert (B : forall hl acc, Forall okI (snd acc) ->
                Forall okI (snd (fold_left (fun acc h => let '(s0, e0) := acc in let '(s1, e1) := ev_stop s0 h in
                                                         (s1, e0 ++ e1)) hl acc))).
    { induction hl as [|h hl IHh]; intros [s1 e1] H1; cbn [fold_left]; auto.
      apply IHh. cbn [snd] in H1. pose proof (ev_stop_okI s1 h) as X. destruct (ev_stop s1 h).
      cbn [snd] in *. apply Forall_app. auto. }
    pose proof (B (w_hs w) (set_iter s0 (w_wd w) true, []) (Forall_nil _)) as X.
    unfold stop_all. destruct (fold_left _ (w_hs w) (set_iter s0 (w_wd w) true, [])) as [s1 e1].
    cbn [snd] in X. pose proof (maybe_free_okI (set_iter s1 (w_wd w) false) (w_wd w)) as Y.
    destruct (maybe_free (set_iter s1 (w_wd w) false) (w_wd w)) as [s2 e2]. cbn [snd] in *.
    apply Forall_app. split; auto. apply Forall_app. auto. }
  pose proof (A (sort_w (wls s)) (s, []) (Forall_nil _)) as X.
  destruct (fold_left fork_list (sort_w (wls s)) (s, [])) as [s1 e1]. cbn [snd] in X.
  destruct (restart (fork_tmp s) wds s1) as [s2 r]. cbn [snd]. apply Forall_app. split; auto.
  repeat constructor.
Qed.

Lemma Mem_okI_irun_p os par s beh cnt :
  match par with Some (sp, _) => Mem sp | None => True end -> Mem s ->
  Mem (fst (irun_p par s os beh cnt)) /\ Forall okI (snd (irun_p par s os beh cnt)).
Proof.
  apply (irun_p_inv Mem okI).
  - intros s0 o H0. split; [apply Mem_iapi; auto|].
    pose proof (iapis_okI [o] s0) as X. cbn [iapis] in X. destruct (iapi s0 o). cbn [snd] in *.
    rewrite app_nil_r in X. exact X.
  - intros s0 evs b c H0. apply dispatch_Mem; auto.
  - intros s0 H0. unfold run_eclosing. cbn [fst snd]. split.
    + exact (Mem_fold_closed (eclosing s0) s0 H0).
    + apply Forall_forall. intros e I. apply in_map_iff in I. destruct I as (h & <- & _). exact I.
  - intros s0 wds H0. split; [apply Mem_fork; auto|apply fork_okI].
  - exact I.
Qed.

Theorem no_cb_for_stopped : forall os s beh cnt,
  Mem s -> Forall okI (snd (irun s os beh cnt)).
Proof. intros os s beh cnt H. unfold irun. apply Mem_okI_irun_p; auto. Qed.

(* ------------------------------------------------------------------ *)
(* C17_event_reaches_all with API calls inside the callbacks           *)
(* ------------------------------------------------------------------ *)
Definition cbs_of (h : nat) (l : list ievent) : list ievent :=
  filter (fun e => match e with ICb h' _ _ _ _ => Nat.eqb h h' | _ => false end) l.

Lemma cbs_of_app h a b : cbs_of h (a ++ b) = cbs_of h a ++ cbs_of h b.
Proof. apply filter_app. Qed.

Lemma iapis_no_cb h os : forall s, cbs_of h (snd (iapis s os)) = [].
Proof.
  induction os as [|o os IH]; intros s; cbn [iapis]; auto.
  assert (A : cbs_of h (snd (iapi s o)) = []).
  { destruct o; cbn [iapi]; auto.
    - destruct (ivalid s h0 && negb (e_closing (gete s h0))); auto.
      destruct (ev_start s h0 cb base wd). reflexivity.
    - destruct (ivalid s h0 && negb (e_closed (gete s h0))); auto.
      unfold ev_stop. destruct (negb (e_active (gete s h0))); auto.
      unfold maybe_free. destruct (find_w _ _) as [wz|]; auto.
      destruct (negb (w_iter wz) && _); reflexivity.
    - destruct (ivalid s h0 && negb (e_closing (gete s h0))); auto.
      unfold ev_close, ev_stop. destruct (negb (e_active _)); auto.
      unfold maybe_free. destruct (find_w _ _) as [wz|]; auto.
      destruct (negb (w_iter wz) && _); reflexivity. }
  destruct (iapi s o) as [s1 e1]. specialize (IH s1). destruct (iapis s1 os) as [s2 e2].
  cbn [snd] in *. rewrite cbs_of_app, A, IH. reflexivity.
Qed.

Lemma Mem_loop_step s wd w h rest :
  Mem s -> find_w (wls s) wd = Some w -> w_local w = h :: rest ->
  Mem (set_wls s (upd_w (wls s) wd (fun w => mkW (w_wd w) (w_base w) (w_hs w ++ [h]) rest (w_iter w)))).
Proof.
  intros (ND & M & NL) Fw Lw.
  split; [cbn [wls set_wls]; rewrite map_upd_w; auto|].
  cbn [wls set_wls]. split.
  - intros wd' w' h' Fw' I. rewrite find_upd_w in Fw' by auto.
    destruct (Z.eqb_spec wd' wd) as [->|N]; [|eapply M; eauto].
    rewrite Fw in Fw'. cbn in Fw'. injection Fw' as <-. cbn [w_hs w_local] in I.
    apply (M wd w h' Fw). rewrite Lw. rewrite in_app_iff in I. cbn in *. tauto.
  - intros wd' w' Fw'. rewrite find_upd_w in Fw' by auto.
    destruct (Z.eqb_spec wd' wd) as [->|N]; [|eapply NL; eauto].
    rewrite Fw in Fw'. cbn in Fw'. injection Fw' as <-. cbn [w_hs w_local].
    pose proof (NL wd w Fw) as X. rewrite Lw in X. rewrite <- app_assoc. exact X.
Qed.

(* the list wd is being iterated, its local queue has at most n entries, and h is / is not in it *)
Definition Tr (wd : Z) (h : nat) (n : nat) (inl : bool) (s : ist) : Prop :=
  Mem s /\ exists w, find_w (wls s) wd = Some w /\ w_iter w = true /\ (length (w_local w) <= n)%nat /\
                     (if inl then In h (w_local w) else ~ In h (w_local w)).

Definition touches (h : nat) (o : iop) : Prop := o = IStop h \/ o = IClose h.

Lemma length_rm_nat h l : (length (rm_nat h l) <= length l)%nat.
Proof. unfold rm_nat. induction l as [|x l IH]; cbn; auto. destruct (negb (Nat.eqb h x)); cbn; lia. Qed.

Lemma gete_maybe_free s wd h : gete (fst (maybe_free s wd)) h = gete s h.
Proof.
  unfold maybe_free. destruct (find_w (wls s) wd) as [wz|]; auto.
  destruct (negb (w_iter wz) && _); reflexivity.
Qed.

Lemma Tr_stop wd h n inl s h' :
  (inl = true -> h' <> h) -> Tr wd h n inl s ->
  Tr wd h n inl (fst (ev_stop s h')) /\ (h' <> h -> gete (fst (ev_stop s h')) h = gete s h).
Proof.
  intros Ne (M & w & Fw & Iw & Ln & P).
  split.
  - split; [apply Mem_ev_stop; auto|].
    unfold ev_stop. destruct (negb (e_active (gete s h'))); [exists w; auto|].
    set (wd' := e_wd (gete s h')).
    set (g := fun w => mkW (w_wd w) (w_base w) (rm_nat h' (w_hs w)) (rm_nat h' (w_local w)) (w_iter w)).
    set (s2 := set_wls _ _).
    assert (F2 : exists w2, find_w (wls s2) wd = Some w2 /\ w_iter w2 = true /\ (length (w_local w2) <= n)%nat /\
                            (if inl then In h (w_local w2) else ~ In h (w_local w2))).
    { unfold s2. cbn [wls set_wls upd_e set_ehs]. rewrite find_upd_w by auto.
      destruct (Z.eqb_spec wd wd') as [E|E]; [|exists w; auto].
      rewrite <- E, Fw. cbn. exists (g w). split; auto. cbn [g w_iter w_local]. split; auto.
      split; [pose proof (length_rm_nat h' (w_local w)); lia|].
      destruct inl; rewrite in_rm_nat; [split; auto; intros X; apply (Ne eq_refl); auto|tauto]. }
    destruct F2 as (w2 & F2 & I2 & L2 & P2).
    unfold maybe_free. destruct (find_w (wls s2) wd') as [w0|] eqn:F0; cbn [fst]; [|exists w2; auto].
    destruct (negb (w_iter w0) && match w_hs w0 with [] => true | _ => false end) eqn:Cnd; cbn [fst];
      [|exists w2; auto].
    destruct (Z.eq_dec wd wd') as [E|E].
    + rewrite <- E, F2 in F0. injection F0 as <-. rewrite I2 in Cnd. discriminate.
    + exists w2. cbn [wls set_wls]. rewrite find_del_other by auto. auto.
  - intros N. unfold ev_stop. destruct (negb (e_active (gete s h'))); auto.
    rewrite gete_maybe_free. change (gete (set_wls ?a ?b) h) with (gete a h). rewrite gete_upd_e.
    destruct (Nat.eqb_spec h' h); [congruence|reflexivity].
Qed.

Lemma Tr_iapi wd h n inl s o :
  (inl = true -> ~ touches h o) -> Tr wd h n inl s ->
  Tr wd h n inl (fst (iapi s o)) /\ (inl = true -> gete (fst (iapi s o)) h = gete s h).
Proof.
  intros NT T. pose proof T as (M & w & Fw & Iw & Ln & P).
  assert (Act : inl = true -> e_active (gete s h) = true).
  { intros ->. destruct M as (_ & Mm & _). apply (Mm wd w h Fw). right. exact P. }
  destruct o; cbn [iapi].
  - (* IInit *)
    cbn [fst]. split.
    + split; [apply (Mem_iapi s IInit M)|]. exists w. auto.
    + intros E. unfold gete, set_ehs. cbn [ehs]. apply app_nth1. apply active_lt. fold (gete s h). auto.
  - (* IStart *)
    destruct (ivalid s h0 && negb (e_closing (gete s h0))) eqn:G; [|cbn [fst]; auto].
    pose proof (Mem_iapi s (IStart h0 cb base wd0) M) as MM. cbn [iapi] in MM. rewrite G in MM.
    unfold ev_start in *.
    destruct (e_active (gete s h0)) eqn:A0; [cbn [fst]; auto|].
    destruct (wd0 <? 0); [cbn [fst]; auto|]. cbn [fst] in *.
    set (s1 := match find_w (wls s) wd0 with Some _ => s | None => _ end) in *.
    assert (F1 : find_w (wls s1) wd = Some w).
    { unfold s1. destruct (find_w (wls s) wd0); auto. cbn [wls set_wls]. rewrite find_app, Fw. reflexivity. }
    split.
    + split; [exact MM|]. cbn [wls upd_e set_ehs set_wls]. rewrite find_upd_w by auto.
      destruct (Z.eqb_spec wd wd0) as [E0|E0]; [|exists w; auto]. rewrite <- E0, F1. cbn.
      eexists. split; [reflexivity|]. cbn [w_iter w_local]. auto.
    + intros E. rewrite gete_upd_e.
      destruct (Nat.eqb_spec h0 h) as [->|N]; [rewrite (Act E) in A0; discriminate|].
      unfold gete. cbn [ehs set_wls]. unfold s1. destruct (find_w (wls s) wd0); reflexivity.
  - (* IStop *)
    destruct (ivalid s h0 && negb (e_closed (gete s h0))); [|cbn [fst]; auto].
    assert (Ne : inl = true -> h0 <> h).
    { intros E X. apply (NT E). left. congruence. }
    destruct (Tr_stop wd h n inl s h0 Ne T) as [T1 G1].
    destruct (ev_stop s h0) as [s1 ev]. cbn [fst] in *. split; auto.
  - (* IClose *)
    destruct (ivalid s h0 && negb (e_closing (gete s h0))); [|cbn [fst]; auto].
    assert (Ne : inl = true -> h0 <> h).
    { intros E X. apply (NT E). right. congruence. }
    unfold ev_close. set (s0 := upd_e s h0 _).
    assert (T0 : Tr wd h n inl s0).
    { split; [apply Mem_upd_e_keep; auto|]. exists w. auto. }
    destruct (Tr_stop wd h n inl s0 h0 Ne T0) as [T1 G1].
    destruct (ev_stop s0 h0) as [s1 ev]. cbn [fst] in *. split.
    + destruct T1 as (M1 & X). split; [exact M1|exact X].
    + intros E. change (gete (set_eclosing s1 (h0 :: eclosing s1)) h) with (gete s1 h).
      rewrite (G1 (Ne E)). unfold s0. rewrite gete_upd_e.
      destruct (Nat.eqb_spec h0 h); [exfalso; apply (Ne E); auto|reflexivity].
  - cbn [fst]. auto.
  - cbn [fst]. auto.
  - cbn [fst]. auto.
  - cbn [fst]. auto.
Qed.

Lemma Tr_iapis wd h n inl os : forall s,
  (inl = true -> Forall (fun o => ~ touches h o) os) -> Tr wd h n inl s ->
  Tr wd h n inl (fst (iapis s os)) /\ (inl = true -> gete (fst (iapis s os)) h = gete s h).
Proof.
  induction os as [|o os IH]; intros s NT T; cbn [iapis]; [auto|].
  assert (NT1 : inl = true -> ~ touches h o) by (intros E; specialize (NT E); inversion NT; auto).
  assert (NT2 : inl = true -> Forall (fun o => ~ touches h o) os) by (intros E; specialize (NT E); inversion NT; auto).
  destruct (Tr_iapi wd h n inl s o NT1 T) as [T1 G1].
  destruct (iapi s o) as [s1 e1]. cbn [fst] in *.
  destruct (IH s1 NT2 T1) as [T2 G2].
  destruct (iapis s1 os) as [s2 e2]. cbn [fst] in *. split; auto.
  intros E. rewrite (G2 E). auto.
Qed.

Lemma loop_zero wd h name bits beh fuel : forall s cnt n,
  Tr wd h n false s -> cbs_of h (snd (fst (dispatch_loop fuel s wd name bits beh cnt))) = [].
Proof.
  induction fuel as [|f IH]; intros s cnt n T; cbn [dispatch_loop]; auto.
  destruct T as (M & w & Fw & Iw & Ln & P). rewrite Fw.
  destruct (w_local w) as [|h0 rest] eqn:Lw; auto.
  set (s1 := set_wls s _).
  assert (T1 : Tr wd h n false s1).
  { split; [apply (Mem_loop_step s wd w h0 rest); auto|].
    unfold s1. cbn [wls set_wls]. rewrite find_upd_w by auto. rewrite Z.eqb_refl, Fw. cbn.
    eexists. split; [reflexivity|]. cbn [w_iter w_local]. split; auto. split; [cbn in Ln; lia|].
    intros X. apply P. right. exact X. }
  destruct (Tr_iapis wd h n false (beh cnt) s1 (fun E => ltac:(discriminate)) T1) as [T2 _].
  pose proof (iapis_no_cb h (beh cnt) s1) as Z.
  destruct (iapis s1 (beh cnt)) as [s2 e2]. cbn [fst snd] in *.
  pose proof (IH s2 (S cnt) n T2) as Y.
  destruct (dispatch_loop f s2 wd name bits beh (S cnt)) as [[s3 e3] n3]. cbn [fst snd] in *.
  cbn [cbs_of filter]. destruct (Nat.eqb_spec h h0) as [->|N].
  - exfalso. apply P. left. reflexivity.
  - fold (cbs_of h (e2 ++ e3)). rewrite cbs_of_app, Z, Y. reflexivity.
Qed.

Lemma loop_one wd h name bits beh fuel : forall s cnt,
  (forall k, Forall (fun o => ~ touches h o) (beh k)) ->
  Tr wd h fuel true s ->
  cbs_of h (snd (fst (dispatch_loop fuel s wd name bits beh cnt))) =
  [ICb h (e_cb (gete s h)) name bits true].
Proof.
  induction fuel as [|f IH]; intros s cnt NT T.
  - destruct T as (_ & w & _ & _ & Ln & P). destruct (w_local w); [destruct P|cbn in Ln; lia].
  - cbn [dispatch_loop]. pose proof T as (M & w & Fw & Iw & Ln & P). rewrite Fw.
    destruct (w_local w) as [|h0 rest] eqn:Lw; [destruct P|].
    set (s1 := set_wls s _).
    assert (M1 : Mem s1) by (apply (Mem_loop_step s wd w h0 rest); auto).
    assert (F1 : find_w (wls s1) wd = Some (mkW (w_wd w) (w_base w) (w_hs w ++ [h0]) rest (w_iter w))).
    { unfold s1. cbn [wls set_wls]. rewrite find_upd_w by auto. rewrite Z.eqb_refl, Fw. reflexivity. }
    destruct (Nat.eq_dec h0 h) as [->|N].
    + (* h's turn *)
      assert (Nr : ~ In h rest).
      { destruct M as (_ & _ & NL). pose proof (NL wd w Fw) as X. rewrite Lw in X.
        apply NoDup_remove_2 in X. intros I. apply X. apply in_app_iff. auto. }
      assert (T1 : Tr wd h f false s1).
      { split; [exact M1|]. eexists. split; [exact F1|]. cbn [w_iter w_local]. split; auto.
        split; [cbn in Ln; lia|exact Nr]. }
      destruct (Tr_iapis wd h f false (beh cnt) s1 (fun E => ltac:(discriminate)) T1) as [T2 _].
      pose proof (iapis_no_cb h (beh cnt) s1) as Z.
      destruct (iapis s1 (beh cnt)) as [s2 e2]. cbn [fst snd] in *.
      pose proof (loop_zero wd h name bits beh f s2 (S cnt) f T2) as Y.
      destruct (dispatch_loop f s2 wd name bits beh (S cnt)) as [[s3 e3] n3]. cbn [fst snd] in *.
      cbn [cbs_of filter]. rewrite Nat.eqb_refl. fold (cbs_of h (e2 ++ e3)).
      rewrite cbs_of_app, Z, Y. cbn [app].
      change (gete s1 h) with (gete s h).
      destruct M as (_ & Mm & _). destruct (Mm wd w h Fw) as [A _]; [right; rewrite Lw; left; reflexivity|].
      rewrite A. reflexivity.
    + assert (Ir : In h rest) by (destruct P as [X|X]; [congruence|exact X]).
      assert (T1 : Tr wd h f true s1).
      { split; [exact M1|]. eexists. split; [exact F1|]. cbn [w_iter w_local]. split; auto.
        split; [cbn in Ln; lia|exact Ir]. }
      destruct (Tr_iapis wd h f true (beh cnt) s1 (fun _ => NT cnt) T1) as [T2 G2].
      pose proof (iapis_no_cb h (beh cnt) s1) as Z.
      destruct (iapis s1 (beh cnt)) as [s2 e2]. cbn [fst snd] in *.
      pose proof (IH s2 (S cnt) NT T2) as Y.
      destruct (dispatch_loop f s2 wd name bits beh (S cnt)) as [[s3 e3] n3]. cbn [fst snd] in *.
      cbn [cbs_of filter]. destruct (Nat.eqb_spec h h0); [congruence|].
      fold (cbs_of h (e2 ++ e3)). rewrite cbs_of_app, Z, Y. cbn [app].
      rewrite (G2 eq_refl). reflexivity.
Qed.

(* C17_event_reaches_all: for every event, every handle h that is in the event's watcher list
   when dispatch starts and that no callback stops or closes gets exactly one callback, with the
   event's name (or the list's base name) and the mapped bits -- whatever else the callbacks do
   (start/stop/close of any other handle on the same path or elsewhere, start of h itself) *)
Theorem event_reaches_all :
  forall s wd mask nm w beh cnt h,
  Mem s -> find_w (wls s) wd = Some w -> In h (w_hs w) ->
  (forall k, Forall (fun o => o <> IStop h /\ o <> IClose h) (beh k)) ->
  cbs_of h (snd (fst (dispatch_one s (wd, mask, nm) beh cnt))) =
  [ICb h (e_cb (gete s h)) (match nm with Some n => n | None => w_base w end) (ev_bits mask) true].
Proof.
  intros s wd mask nm w beh cnt h M Fw Ih NT.
  assert (NT' : forall k, Forall (fun o => ~ touches h o) (beh k)).
  { intros k. eapply Forall_impl; [|apply (NT k)]. intros o [A B] [X|X]; auto. }
  unfold dispatch_one. rewrite Fw.
  set (s1 := set_wls s _).
  assert (T1 : Tr wd h (length (w_hs w)) true s1).
  { split.
    - unfold s1. apply Mem_upd_w_same_members; auto.
      + intros w0 h0 I. cbn [w_hs w_local] in I. destruct I as [[]|I]; auto.
      + intros w0 N. cbn [w_hs w_local app]. apply NoDup_app_l in N. exact N.
    - unfold s1. cbn [wls set_wls]. rewrite find_upd_w by auto. rewrite Z.eqb_refl, Fw. cbn.
      eexists. split; [reflexivity|]. cbn [w_iter w_local]. auto. }
  pose proof (loop_one wd h (match nm with Some n => n | None => w_base w end) (ev_bits mask) beh
                       (length (w_hs w)) s1 cnt NT' T1) as X.
  destruct (dispatch_loop (length (w_hs w)) s1 wd _ (ev_bits mask) beh cnt) as [[s2 e2] n2]. cbn [fst snd] in *.
  set (s3 := set_wls s2 _).
  assert (Z : cbs_of h (snd (maybe_free s3 wd)) = []).
  { unfold maybe_free. destruct (find_w (wls s3) wd) as [wz|]; auto.
    destruct (negb (w_iter wz) && _); reflexivity. }
  destruct (maybe_free s3 wd) as [s4 e4]. cbn [fst snd] in *.
  rewrite cbs_of_app, X, Z. reflexivity.
Qed.

Theorem Mem_irun : forall os s beh cnt, Mem s -> Mem (fst (irun s os beh cnt)).
Proof. intros os s beh cnt H. unfold irun. apply Mem_okI_irun_p; auto. Qed.

(* ------------------------------------------------------------------ *)
(* uv__inotify_fork: the handles that were watching go on watching the same paths *)
(* ------------------------------------------------------------------ *)
(* outside uv__inotify_read no list is being iterated and no local queue is in use *)
Definition Quiet (s : ist) : Prop :=
  forall wd w, find_w (wls s) wd = Some w -> w_local w = [] /\ w_iter w = false.

Lemma gete_maybe_free' s wd h : gete (fst (maybe_free s wd)) h = gete s h.
Proof. apply gete_maybe_free. Qed.

(* stopping a member of the list that is being iterated *)
Lemma stop_member t wd wt h :
  Mem t -> find_w (wls t) wd = Some wt -> w_iter wt = true -> In h (w_hs wt) ->
  let t' := fst (ev_stop t h) in
  find_w (wls t') wd = Some (mkW (w_wd wt) (w_base wt) (rm_nat h (w_hs wt)) (rm_nat h (w_local wt)) true) /\
  (forall wd', wd' <> wd -> find_w (wls t') wd' = find_w (wls t) wd') /\
  (forall h', h' <> h -> gete t' h' = gete t h') /\
  e_active (gete t' h) = false /\ e_cb (gete t' h) = e_cb (gete t h) /\
  length (ehs t') = length (ehs t).
Proof.
  intros M Fw Iw Ih. destruct (proj1 (proj2 M) wd wt h Fw (or_introl Ih)) as [A E].
  cbv zeta. unfold ev_stop. rewrite A, E. cbn [negb].
  set (g := fun w => mkW (w_wd w) (w_base w) (rm_nat h (w_hs w)) (rm_nat h (w_local w)) (w_iter w)).
  set (t1 := upd_e t h _). set (t2 := set_wls t1 _).
  assert (F2 : find_w (wls t2) wd = Some (g wt)).
  { unfold t2. cbn [wls set_wls]. change (wls t1) with (wls t). rewrite find_upd_w by auto.
    rewrite Z.eqb_refl, Fw. reflexivity. }
  assert (NF : maybe_free t2 wd = (t2, [])).
  { eapply maybe_free_respects_iterating; [exact F2|]. cbn. exact Iw. }
  rewrite NF. cbn [fst].
  split; [rewrite F2; unfold g; rewrite Iw; reflexivity|].
  split; [intros wd' N; unfold t2; cbn [wls set_wls]; change (wls t1) with (wls t);
          rewrite find_upd_w by auto; destruct (Z.eqb_spec wd' wd); [lia|reflexivity]|].
  assert (Lh : (h < length (ehs t))%nat) by (apply active_lt; exact A).
  split; [intros h' N; change (gete t2 h') with (gete t1 h'); unfold t1; rewrite gete_upd_e;
          destruct (Nat.eqb_spec h h'); [congruence|reflexivity]|].
  change (gete t2 h) with (gete t1 h). unfold t1. rewrite gete_upd_e, Nat.eqb_refl. cbn [andb].
  destruct (Nat.ltb_spec h (length (ehs t))); [|lia]. cbn.
  repeat split; auto. cbn [ehs t2 set_wls t1 upd_e set_ehs]. apply upd_length.
Qed.

Fixpoint rm_all (hl : list nat) (l : list nat) : list nat :=
  match hl with [] => l | h :: hl' => rm_all hl' (rm_nat h l) end.

Lemma in_rm_all hl : forall l x, In x (rm_all hl l) <-> In x l /\ ~ In x hl.
Proof.
  induction hl as [|h hl IH]; intros l x; cbn [rm_all]; [cbn; tauto|].
  rewrite IH, in_rm_nat. cbn. intuition.
Qed.

Lemma rm_all_self l : rm_all l l = [].
Proof.
  destruct (rm_all l l) as [|x r] eqn:E; auto. exfalso.
  assert (I : In x (rm_all l l)) by (rewrite E; left; reflexivity).
  apply in_rm_all in I. tauto.
Qed.

(* stopping every handle of one list, then the deferred free: the list is gone, the others are as they were *)
Lemma stop_all_members hl : forall t wt wd,
  Mem t -> find_w (wls t) wd = Some wt -> w_iter wt = true -> w_wd wt = wd ->
  NoDup hl -> incl hl (w_hs wt) ->
  let t' := fst (stop_all t hl) in
  Mem t' /\
  find_w (wls t') wd = Some (mkW wd (w_base wt) (rm_all hl (w_hs wt)) (rm_all hl (w_local wt)) true) /\
  (forall wd', wd' <> wd -> find_w (wls t') wd' = find_w (wls t) wd') /\
  (forall h', ~ In h' hl -> gete t' h' = gete t h') /\
  (forall h', In h' hl -> e_active (gete t' h') = false /\ e_cb (gete t' h') = e_cb (gete t h')) /\
  length (ehs t') = length (ehs t).
Proof.
  unfold stop_all.
  assert (G : forall hl t e0, fst (fold_left (fun acc h => let '(s0, e0) := acc in let '(s1, e1) := ev_stop s0 h in
                                               (s1, e0 ++ e1)) hl (t, e0)) =
                              fold_left (fun s h => fst (ev_stop s h)) hl t).
  { induction hl0 as [|h hl0 IH]; intros t e0; cbn [fold_left]; auto.
    destruct (ev_stop t h) as [s1 e1] eqn:E. rewrite IH. cbn [fst]. reflexivity. }
  induction hl as [|h hl IH]; intros t wt wd M Fw Iw Ew ND Inc; cbv zeta; rewrite G; cbn [fold_left rm_all].
  - split; auto. split; [rewrite Fw; destruct wt; cbn in *; subst; reflexivity|].
    split; [auto|]. split; [auto|]. split; [intros x []|reflexivity].
  - inversion ND as [|a b Hn Hd]; subst.
    assert (Ih : In h (w_hs wt)) by (apply Inc; left; reflexivity).
    destruct (stop_member t (w_wd wt) wt h M Fw Iw Ih) as (S1 & S2 & S3 & S4 & S5 & S6).
    set (t1 := fst (ev_stop t h)) in *.
    assert (M1 : Mem t1) by (apply Mem_ev_stop; exact M).
    set (wt1 := mkW (w_wd wt) (w_base wt) (rm_nat h (w_hs wt)) (rm_nat h (w_local wt)) true) in *.
    assert (Inc1 : incl hl (w_hs wt1)).
    { intros x I. cbn [wt1 w_hs]. apply in_rm_nat. split; [apply Inc; right; exact I|]. intros ->. auto. }
    pose proof (IH t1 wt1 (w_wd wt) M1 S1 eq_refl eq_refl Hd Inc1) as X. cbv zeta in X. rewrite G in X.
    destruct X as (X1 & X2 & X3 & X4 & X5 & X6).
    split; [exact X1|]. split; [exact X2|]. split; [intros wd' N; rewrite X3, S2; auto|].
    split.
    + intros h' N. rewrite X4 by (intros I; apply N; right; exact I). apply S3. intros ->. apply N. left; auto.
    + split; [|congruence].
      intros h' [<-|I].
      * rewrite X4 by exact Hn. split; auto.
      * destruct (X5 h' I) as [A B]. split; auto. rewrite B. rewrite S3; auto. intros ->. auto.
Qed.

Lemma rm_all_nil hl : rm_all hl [] = [].
Proof. induction hl; cbn; auto. Qed.

Lemma fork_list_spec t e w :
  Mem t -> find_w (wls t) (w_wd w) = Some w -> w_local w = [] ->
  let t2 := fst (fork_list (t, e) w) in
  Mem t2 /\ find_w (wls t2) (w_wd w) = None /\
  (forall wd', wd' <> w_wd w -> find_w (wls t2) wd' = find_w (wls t) wd') /\
  (forall h, ~ In h (w_hs w) -> gete t2 h = gete t h) /\
  (forall h, In h (w_hs w) -> e_active (gete t2 h) = false /\ e_cb (gete t2 h) = e_cb (gete t h)) /\
  length (ehs t2) = length (ehs t).
Proof.
  intros M Fw Lw. cbv zeta. unfold fork_list.
  set (wd := w_wd w).
  set (t0 := set_iter t wd true).
  assert (M0 : Mem t0) by (unfold t0, set_iter; apply Mem_upd_w_same_members; auto).
  set (w0 := mkW (w_wd w) (w_base w) (w_hs w) (w_local w) true).
  assert (F0 : find_w (wls t0) wd = Some w0).
  { unfold t0, set_iter. cbn [wls set_wls]. rewrite find_upd_w by auto. unfold wd. rewrite Z.eqb_refl, Fw. reflexivity. }
  assert (O0 : forall wd', wd' <> wd -> find_w (wls t0) wd' = find_w (wls t) wd').
  { intros wd' N. unfold t0, set_iter. cbn [wls set_wls]. rewrite find_upd_w by auto.
    destruct (Z.eqb_spec wd' wd); [lia|reflexivity]. }
  assert (NDh : NoDup (w_hs w)).
  { destruct M as (_ & _ & NL). pose proof (NL wd w Fw) as X. apply NoDup_app_l in X. exact X. }
  pose proof (stop_all_members (w_hs w) t0 w0 wd M0 F0 eq_refl eq_refl NDh (incl_refl _)) as X.
  cbv zeta in X. destruct (stop_all t0 (w_hs w)) as [t1 e1]. cbn [fst] in X.
  destruct X as (M1 & F1 & O1 & G1 & A1 & L1).
  cbn [w0 w_hs w_local w_base] in F1. rewrite rm_all_self, Lw, rm_all_nil in F1.
  set (t1' := set_iter t1 wd false).
  assert (M1' : Mem t1') by (unfold t1', set_iter; apply Mem_upd_w_same_members; auto).
  assert (F1' : find_w (wls t1') wd = Some (mkW wd (w_base w) [] [] false)).
  { unfold t1', set_iter. cbn [wls set_wls]. rewrite find_upd_w by auto. rewrite Z.eqb_refl, F1. reflexivity. }
  assert (MF : maybe_free t1' wd = (set_wls t1' (del_w (wls t1') wd), [IRm wd])).
  { unfold maybe_free. rewrite F1'. reflexivity. }
  rewrite MF. cbn [fst].
  destruct (del_w_keys (wls t1') wd (proj1 M1')) as (_ & _ & Dn).
  split.
  - pose proof (Mem_maybe_free t1' wd M1') as Y. rewrite MF in Y. exact Y.
  - split; [cbn [wls set_wls]; exact Dn|].
    split.
    + intros wd' N. cbn [wls set_wls]. rewrite find_del_other by auto.
      unfold t1', set_iter. cbn [wls set_wls]. rewrite find_upd_w by auto.
      destruct (Z.eqb_spec wd' wd); [lia|]. rewrite O1, O0; auto.
    + split; [intros h N; change (gete (set_wls t1' (del_w (wls t1') wd)) h) with (gete t1 h);
              rewrite G1; auto|].
      split; [intros h I; change (gete (set_wls t1' (del_w (wls t1') wd)) h) with (gete t1 h);
              destruct (A1 h I) as [A B]; split; auto|].
      exact L1.
Qed.

Definition members (L : list wlist) : list nat := flat_map w_hs L.

Lemma fork_lists_spec L : forall t e,
  Mem t -> NoDup (map w_wd L) ->
  (forall w, In w L -> find_w (wls t) (w_wd w) = Some w /\ w_local w = []) ->
  let t2 := fst (fold_left fork_list L (t, e)) in
  Mem t2 /\ (forall w, In w L -> find_w (wls t2) (w_wd w) = None) /\
  (forall wd', ~ In wd' (map w_wd L) -> find_w (wls t2) wd' = find_w (wls t) wd') /\
  (forall h, ~ In h (members L) -> gete t2 h = gete t h) /\
  (forall h, In h (members L) -> e_active (gete t2 h) = false /\ e_cb (gete t2 h) = e_cb (gete t h)) /\
  length (ehs t2) = length (ehs t).
Proof.
  induction L as [|w L IH]; intros t e M ND HL; cbv zeta; cbn [fold_left].
  - cbn [fst members flat_map map]. split; [exact M|]. split; [intros w []|]. split; [auto|].
    split; [auto|]. split; [intros h []|reflexivity].
  - inversion ND as [|a b Hn Hd]; subst.
    destruct (HL w (or_introl eq_refl)) as [Fw Lw].
    pose proof (fork_list_spec t e w M Fw Lw) as X. cbv zeta in X.
    destruct (fork_list (t, e) w) as [t1 e1]. cbn [fst] in X.
    destruct X as (M1 & F1 & O1 & G1 & A1 & L1).
    assert (HL1 : forall w', In w' L -> find_w (wls t1) (w_wd w') = Some w' /\ w_local w' = []).
    { intros w' I. destruct (HL w' (or_intror I)) as [A B]. split; auto. rewrite O1; auto.
      intros E. apply Hn. rewrite <- E. apply in_map. exact I. }
    (* members of different lists are different handles *)
    assert (Disj : forall h, In h (w_hs w) -> ~ In h (members L)).
    { intros h Ih Im. unfold members in Im. apply in_flat_map in Im. destruct Im as (w' & Iw' & Ih').
      destruct (HL w' (or_intror Iw')) as [Fw' _].
      destruct (proj1 (proj2 M) _ _ h Fw (or_introl Ih)) as [_ E1].
      destruct (proj1 (proj2 M) _ _ h Fw' (or_introl Ih')) as [_ E2].
      apply Hn. rewrite <- E1, E2. apply in_map. exact Iw'. }
    pose proof (IH t1 e1 M1 Hd HL1) as Y. cbv zeta in Y.
    destruct (fold_left fork_list L (t1, e1)) as [t2 e2]. cbn [fst] in *.
    destruct Y as (M2 & F2 & O2 & G2 & A2 & L2).
    split; [exact M2|]. split.
    + intros w' [<-|I]; [|apply F2; exact I]. rewrite O2; auto.
    + split.
      * intros wd' N. cbn [map] in N. rewrite O2 by (intros I; apply N; right; exact I).
        apply O1. intros E. apply N. left. auto.
      * split.
        -- intros h N. unfold members in N. cbn [flat_map] in N. rewrite in_app_iff in N.
           rewrite G2 by (intros I; apply N; right; exact I). apply G1. intros I. apply N. left. exact I.
        -- split; [|congruence].
           intros h I. unfold members in I. cbn [flat_map] in I. apply in_app_iff in I.
           destruct I as [I|I].
           ++ rewrite G2 by (apply Disj; exact I). apply A1. exact I.
           ++ destruct (A2 h I) as [A B]. split; auto. rewrite B. rewrite G1; [reflexivity|].
              intros I'. apply (Disj h I' I).
Qed.

(* a successful uv_fs_event_start *)
Lemma ev_start_spec t h cb b v :
  e_active (gete t h) = false -> 0 <= v -> (h < length (ehs t))%nat ->
  let t' := fst (ev_start t h cb b v) in
  snd (ev_start t h cb b v) = 0 /\
  e_active (gete t' h) = true /\ e_wd (gete t' h) = v /\ e_cb (gete t' h) = cb /\
  (forall h', h' <> h -> gete t' h' = gete t h') /\
  (exists w', find_w (wls t') v = Some w' /\
              w_base w' = match find_w (wls t) v with Some w0 => w_base w0 | None => b end) /\
  (forall v', v' <> v -> find_w (wls t') v' = find_w (wls t) v') /\
  length (ehs t') = length (ehs t).
Proof.
  intros A V L. cbv zeta. unfold ev_start. rewrite A.
  destruct (Z.ltb_spec v 0) as [X|_]; [lia|]. cbn [fst snd].
  set (t1 := match find_w (wls t) v with Some _ => t | None => _ end).
  set (f := fun w => mkW (w_wd w) (w_base w) (w_hs w ++ [h]) (w_local w) (w_iter w)).
  assert (E1 : ehs t1 = ehs t) by (unfold t1; destruct (find_w (wls t) v); reflexivity).
  assert (F1 : exists w1, find_w (wls t1) v = Some w1 /\
                          w_base w1 = match find_w (wls t) v with Some w0 => w_base w0 | None => b end).
  { unfold t1. destruct (find_w (wls t) v) as [w0|] eqn:F0; [exists w0; auto|].
    cbn [wls set_wls]. rewrite find_app, F0. cbn [w_wd]. rewrite Z.eqb_refl. eexists. split; reflexivity. }
  assert (O1 : forall v', v' <> v -> find_w (wls t1) v' = find_w (wls t) v').
  { intros v' N. unfold t1. destruct (find_w (wls t) v); auto. cbn [wls set_wls]. rewrite find_app.
    destruct (find_w (wls t) v'); auto. cbn [w_wd]. destruct (Z.eqb_spec v v'); [lia|reflexivity]. }
  split; [reflexivity|].
  rewrite gete_upd_e, Nat.eqb_refl. cbn [andb ehs set_wls]. rewrite E1.
  destruct (Nat.ltb_spec h (length (ehs t))); [|lia]. cbn [e_active e_wd e_cb].
  split; [reflexivity|]. split; [reflexivity|]. split; [reflexivity|].
  split.
  - intros h' N. rewrite gete_upd_e. destruct (Nat.eqb_spec h h'); [congruence|].
    unfold gete. cbn [ehs set_wls]. rewrite E1. reflexivity.
  - split.
    + destruct F1 as (w1 & F1 & B1). cbn [wls upd_e set_ehs set_wls]. rewrite find_upd_w by auto.
      rewrite Z.eqb_refl, F1. cbn. eexists. split; [reflexivity|]. exact B1.
    + split.
      * intros v' N. cbn [wls upd_e set_ehs set_wls]. rewrite find_upd_w by auto.
        destruct (Z.eqb_spec v' v); [lia|]. apply O1; auto.
      * cbn [ehs upd_e set_ehs set_wls]. rewrite upd_length, E1. reflexivity.
Qed.

(* restarting: tmp = the handles to restart with the base name of their old list, wds = the
   descriptors the kernel gives; equal descriptors only for equal base names (same inode) *)
Lemma restart_spec tmp : forall wds t,
  length wds = length tmp -> Forall (fun v => 0 <= v) wds ->
  NoDup (map fst tmp) ->
  (forall h b, In (h, b) tmp -> e_active (gete t h) = false /\ (h < length (ehs t))%nat) ->
  (forall i j h1 b1 h2 b2, nth_error tmp i = Some (h1, b1) -> nth_error tmp j = Some (h2, b2) ->
                           nth i wds 0 = nth j wds 0 -> b1 = b2) ->
  (forall i h b w0, nth_error tmp i = Some (h, b) -> find_w (wls t) (nth i wds 0) = Some w0 -> w_base w0 = b) ->
  let t' := fst (restart tmp wds t) in
  snd (restart tmp wds t) = 0 /\
  (forall h, ~ In h (map fst tmp) -> gete t' h = gete t h) /\
  (forall i h b, nth_error tmp i = Some (h, b) ->
     e_active (gete t' h) = true /\ e_cb (gete t' h) = e_cb (gete t h) /\
     exists w', find_w (wls t') (e_wd (gete t' h)) = Some w' /\ w_base w' = b).
Proof.
  induction tmp as [|[h b] tmp IH]; intros wds t Len Pos ND Ina Cons Good; cbv zeta; cbn [restart].
  - cbn. split; auto. split; auto. intros i h b E. destruct i; discriminate.
  - destruct wds as [|v wds]; [discriminate|]. cbn [tl].
    inversion Pos as [|a l Pv Pl]; subst. cbn [map fst] in ND. inversion ND as [|a l Hn Hd]; subst.
    destruct (Ina h b (or_introl eq_refl)) as [A L].
    destruct (ev_start_spec t h (e_cb (gete t h)) b v A Pv L) as (R & S1 & S2 & S3 & S4 & S5 & S6 & S7).
    destruct (ev_start t h (e_cb (gete t h)) b v) as [t1 r] eqn:Es. cbn [fst snd] in *. subst r.
    cbn [Z.eqb].
    assert (Ina1 : forall h' b', In (h', b') tmp -> e_active (gete t1 h') = false /\ (h' < length (ehs t1))%nat).
    { intros h' b' I. assert (N : h' <> h) by (intros ->; apply Hn; apply in_map_iff; exists (h, b'); auto).
      rewrite S4 by auto. rewrite S7. apply (Ina h' b'). right. exact I. }
    assert (Cons1 : forall i j h1 b1 h2 b2, nth_error tmp i = Some (h1, b1) -> nth_error tmp j = Some (h2, b2) ->
                    nth i wds 0 = nth j wds 0 -> b1 = b2).
    { intros i j h1 b1 h2 b2 E1 E2 E. apply (Cons (S i) (S j) h1 b1 h2 b2); auto. }
    assert (Good1 : forall i h' b' w0, nth_error tmp i = Some (h', b') ->
                    find_w (wls t1) (nth i wds 0) = Some w0 -> w_base w0 = b').
    { intros i h' b' w0 E F. destruct (Z.eq_dec (nth i wds 0) v) as [Ev|Nv].
      - rewrite Ev in F. destruct S5 as (w' & F' & B'). rewrite F' in F. injection F as <-.
        assert (Eb : b' = b) by (apply (Cons (S i) 0%nat h' b' h b); auto).
        subst b'. rewrite B'. destruct (find_w (wls t) v) as [w0|] eqn:F0; auto.
        apply (Good 0%nat h b w0); auto.
      - rewrite S6 in F by auto. apply (Good (S i) h' b' w0); auto. }
    assert (Len1 : length wds = length tmp) by (cbn in Len; lia).
    pose proof (IH wds t1 Len1 Pl Hd Ina1 Cons1 Good1) as X. cbv zeta in X.
    destruct (restart tmp wds t1) as [t2 r2] eqn:Er. cbn [fst snd] in *.
    destruct X as (R2 & G2 & P2).
    split; [exact R2|]. split.
    + intros h' N. cbn [map fst] in N. rewrite G2 by (intros I; apply N; right; exact I).
      apply S4. intros ->. apply N. left; reflexivity.
    + intros i h' b' E. destruct i as [|i].
      * cbn in E. injection E as <- <-. rewrite G2 by exact Hn. rewrite S1, S3, S2.
        split; auto. split; auto.
        (* the list of v still has base b at the end: nothing re-bases it *)
        destruct S5 as (w' & F' & B').
        assert (Keep : forall tmp' wds' s0, (exists w1, find_w (wls s0) v = Some w1 /\ w_base w1 = w_base w') ->
                       exists w2, find_w (wls (fst (restart tmp' wds' s0))) v = Some w2 /\ w_base w2 = w_base w').
        { clear. induction tmp' as [|[h0 b0] tmp' IH']; intros wds' s0 Hx; cbn [restart]; auto.
          set (v0 := match wds' with w :: _ => w | [] => -9 end).
          assert (Y : exists w2, find_w (wls (fst (ev_start s0 h0 (e_cb (gete s0 h0)) b0 v0))) v = Some w2 /\
                                 w_base w2 = w_base w').
          { destruct Hx as (w1 & F1 & B1). unfold ev_start.
            destruct (e_active (gete s0 h0)); [exists w1; auto|]. destruct (v0 <? 0); [exists w1; auto|].
            cbn [fst]. set (s1 := match find_w (wls s0) v0 with Some _ => s0 | None => _ end).
            assert (F1' : find_w (wls s1) v = Some w1).
            { unfold s1. destruct (find_w (wls s0) v0); auto. cbn [wls set_wls]. rewrite find_app, F1. reflexivity. }
            cbn [wls upd_e set_ehs set_wls]. rewrite find_upd_w by auto.
            destruct (Z.eqb_spec v v0) as [Ev|Nv]; [rewrite <- Ev, F1'; cbn; eexists; split; [reflexivity|exact B1]|exists w1; auto]. }
          destruct (ev_start s0 h0 (e_cb (gete s0 h0)) b0 v0) as [s1 r1]. cbn [fst] in Y.
          destruct (r1 =? 0); [apply IH'; exact Y|exact Y]. }
        destruct (Keep tmp wds t1 (ex_intro _ w' (conj F' eq_refl))) as (w2 & F2 & B2).
        rewrite Er in F2. cbn [fst] in F2.
        exists w2. split; [|rewrite B2, B'; destruct (find_w (wls t) v) as [w0|] eqn:F0; auto;
                            apply (Good 0%nat h b w0); auto].
        exact F2.
      * cbn in E. destruct (P2 i h' b' E) as (A2 & C2 & W2).
        assert (N : h' <> h).
        { intros ->. apply Hn. apply in_map_iff. exists (h, b'). split; auto. eapply nth_error_In; eauto. }
        split; auto. split; [rewrite C2; rewrite S4; auto|exact W2].
Qed.

Lemma find_some_in' l wd w : find_w l wd = Some w -> In w l.
Proof.
  induction l as [|x l IH]; cbn [find_w]; [discriminate|].
  destruct (w_wd x =? wd); [intros E; injection E as <-; left; reflexivity|intros F; right; auto].
Qed.

Lemma perm_insert_w w l : Permutation (insert_w w l) (w :: l).
Proof.
  induction l as [|x l IH]; cbn [insert_w]; auto.
  destruct (w_wd w <? w_wd x); auto.
  eapply perm_trans; [apply perm_skip; exact IH|]. apply perm_swap.
Qed.

Lemma perm_sort_w l : Permutation (sort_w l) l.
Proof.
  induction l as [|x l IH]; cbn [sort_w fold_right]; auto. fold (sort_w l).
  eapply perm_trans; [apply perm_insert_w|]. apply perm_skip. exact IH.
Qed.

Lemma tmp_fst s : map fst (fork_tmp s) = members (sort_w (wls s)).
Proof.
  unfold fork_tmp, members. induction (sort_w (wls s)) as [|w L IH]; cbn [flat_map map]; auto.
  rewrite map_app, IH, map_map. cbn [fst]. rewrite map_id. reflexivity.
Qed.

Lemma tmp_entry s h b :
  In (h, b) (fork_tmp s) -> exists w, In w (wls s) /\ In h (w_hs w) /\ b = w_base w.
Proof.
  unfold fork_tmp. intros I. apply in_flat_map in I. destruct I as (w & Iw & Ih).
  apply (proj1 (in_sort_w _ _)) in Iw. apply in_map_iff in Ih. destruct Ih as (h0 & E & Ih).
  injection E as <- <-. exists w. auto.
Qed.

Lemma members_nodup L t :
  Mem t -> NoDup (map w_wd L) -> (forall w, In w L -> find_w (wls t) (w_wd w) = Some w) ->
  NoDup (members L).
Proof.
  intros M. induction L as [|w L IH]; intros ND HL; cbn [members flat_map]; [constructor|].
  inversion ND as [|a b Hn Hd]; subst. fold (members L).
  assert (N1 : NoDup (w_hs w)).
  { destruct M as (_ & _ & NL). pose proof (NL _ _ (HL w (or_introl eq_refl))) as X.
    apply NoDup_app_l in X. exact X. }
  assert (N2 : NoDup (members L)) by (apply IH; auto; intros w' I; apply HL; right; exact I).
  assert (D : forall h, In h (w_hs w) -> ~ In h (members L)).
  { intros h Ih Im. unfold members in Im. apply in_flat_map in Im. destruct Im as (w' & Iw' & Ih').
    destruct (proj1 (proj2 M) _ _ h (HL w (or_introl eq_refl)) (or_introl Ih)) as [_ E1].
    destruct (proj1 (proj2 M) _ _ h (HL w' (or_intror Iw')) (or_introl Ih')) as [_ E2].
    apply Hn. rewrite <- E1, E2. apply in_map. exact Iw'. }
  clear -N1 N2 D. induction (w_hs w) as [|x l IHl]; cbn [app]; auto.
  inversion N1 as [|a b Hx Hl]; subst. constructor.
  - rewrite in_app_iff. intros [I|I]; [auto|]. apply (D x); [left; reflexivity|exact I].
  - apply IHl; auto. intros h I. apply D. right. exact I.
Qed.

(* uv__inotify_fork keeps the watchers: with the kernel giving equal descriptors on the new inotify
   instance exactly to the handles of one old list ([phi] injective), uv_loop_fork's inotify part
   returns 0, every handle that was linked in a watcher list is active afterwards, with its callback,
   in a list whose path (base name) is the path of its old list; every other handle is untouched *)
Theorem fork_keeps_watchers :
  forall s wds (phi : Z -> Z),
  Mem s -> Quiet s ->
  (forall wd, 0 <= phi wd) -> (forall a b, phi a = phi b -> a = b) ->
  wds = map (fun hb => phi (e_wd (gete s (fst hb)))) (fork_tmp s) ->
  let s' := fst (inotify_fork s wds) in
  (exists ev, snd (inotify_fork s wds) = ev ++ [IRet 0]) /\
  (forall wd w h, find_w (wls s) wd = Some w -> In h (w_hs w) ->
     e_active (gete s' h) = true /\ e_cb (gete s' h) = e_cb (gete s h) /\
     exists w', find_w (wls s') (e_wd (gete s' h)) = Some w' /\ w_base w' = w_base w) /\
  (forall h, (forall wd w, find_w (wls s) wd = Some w -> ~ In h (w_hs w)) -> gete s' h = gete s h).
Proof.
  intros s wds phi M Q Pos Inj Ew. cbv zeta. unfold inotify_fork.
  set (L := sort_w (wls s)).
  assert (NDL : NoDup (map w_wd L)).
  { eapply Permutation_NoDup; [|exact (proj1 M)]. apply Permutation_map. apply Permutation_sym. apply perm_sort_w. }
  assert (HL : forall w, In w L -> find_w (wls s) (w_wd w) = Some w /\ w_local w = []).
  { intros w I. apply (proj1 (in_sort_w _ _)) in I.
    pose proof (find_in_nodup _ _ (proj1 M) I) as F. split; auto. apply (Q _ _ F). }
  pose proof (fork_lists_spec L s [] M NDL HL) as X. cbv zeta in X.
  destruct (fold_left fork_list L (s, [])) as [s1 e1]. cbn [fst] in X.
  destruct X as (M1 & F1 & O1 & G1 & A1 & L1).
  assert (AllNone : forall wd, find_w (wls s1) wd = None).
  { intros wd. destruct (in_dec Z.eq_dec wd (map w_wd L)) as [I|N].
    - apply in_map_iff in I. destruct I as (w & <- & Iw). apply F1; auto.
    - rewrite O1 by auto. destruct (find_w (wls s) wd) as [w|] eqn:F; auto. exfalso. apply N.
      pose proof (find_some_in _ _ _ F) as I. apply in_map_iff in I. destruct I as (w0 & E & I0).
      apply in_map_iff. exists w0. split; auto. apply in_sort_w. exact I0. }
  set (g := fun hb : nat * nat => phi (e_wd (gete s (fst hb)))) in *.
  assert (Nth : forall i h b, nth_error (fork_tmp s) i = Some (h, b) -> nth i wds 0 = phi (e_wd (gete s h))).
  { intros i h b E. rewrite Ew. apply nth_error_nth. rewrite (map_nth_error g _ _ E). reflexivity. }
  assert (Ent : forall h b, In (h, b) (fork_tmp s) ->
                exists w, find_w (wls s) (w_wd w) = Some w /\ In h (w_hs w) /\ b = w_base w /\
                          e_wd (gete s h) = w_wd w /\ e_active (gete s h) = true).
  { intros h b I. destruct (tmp_entry s h b I) as (w & Iw & Ih & Eb).
    pose proof (find_in_nodup _ _ (proj1 M) Iw) as F.
    destruct (proj1 (proj2 M) _ _ h F (or_introl Ih)) as [A E]. exists w. auto. }
  pose proof (restart_spec (fork_tmp s) wds s1) as R. cbv zeta in R.
  destruct R as (R0 & RG & RP).
  - rewrite Ew. apply map_length.
  - rewrite Ew. apply Forall_forall. intros v I. apply in_map_iff in I. destruct I as (x & <- & _). apply Pos.
  - rewrite tmp_fst. apply (members_nodup L s M NDL). intros w I. apply HL. exact I.
  - intros h b I. destruct (Ent h b I) as (w & F & Ih & _ & _ & A).
    assert (Im : In h (members L)).
    { unfold members. apply in_flat_map. exists w. split; auto. apply in_sort_w. eapply find_some_in' ; eauto. }
    split; [apply A1; exact Im|]. rewrite L1. apply active_lt. exact A.
  - intros i j h1 b1 h2 b2 E1 E2 E. rewrite (Nth i h1 b1 E1), (Nth j h2 b2 E2) in E. apply Inj in E.
    destruct (Ent h1 b1 (nth_error_In _ _ E1)) as (w1 & Fw1 & _ & B1 & W1 & _).
    destruct (Ent h2 b2 (nth_error_In _ _ E2)) as (w2 & Fw2 & _ & B2 & W2 & _).
    rewrite W1, W2 in E. rewrite E in Fw1. rewrite Fw1 in Fw2. injection Fw2 as <-. congruence.
  - intros i h b w0 _ F. rewrite AllNone in F. discriminate.
  - destruct (restart (fork_tmp s) wds s1) as [s2 r]. cbn [fst snd] in *. subst r.
    split; [exists e1; reflexivity|]. split.
    + intros wd w h F Ih.
      assert (I : In (h, w_base w) (fork_tmp s)).
      { unfold fork_tmp. apply in_flat_map. exists w. split.
        - apply in_sort_w. eapply find_some_in'; eauto.
        - apply (in_map (fun h0 => (h0, w_base w))). exact Ih. }
      destruct (In_nth_error _ _ I) as (i & E).
      destruct (RP i h (w_base w) E) as (A & C & W).
      split; auto. split; [|exact W].
      rewrite C. apply A1. unfold members. apply in_flat_map. exists w. split; auto.
      apply in_sort_w. eapply find_some_in'; eauto.
    + intros h Nm. rewrite RG.
      * apply G1. intros I. unfold members in I. apply in_flat_map in I. destruct I as (w & Iw & Ih).
        destruct (HL w Iw) as [F _]. apply (Nm _ _ F Ih).
      * rewrite tmp_fst. intros I. unfold members in I. apply in_flat_map in I. destruct I as (w & Iw & Ih).
        destruct (HL w Iw) as [F _]. apply (Nm _ _ F Ih).
Qed.
