(* C20: the custom semaphore of thread.c (uv__custom_sem_*; Model/Thread.v, semaphore
   part) never lets more waiters through than the initial value plus the posts, for
   every program of every thread and every schedule. *)
From UV Require Import Lib.Base Model.Thread.

Local Open Scope Z_scope.

Definition sb2z (b : bool) : Z := if b then 1 else 0.

Fixpoint scnt (f : spc -> bool) (l : list sthread) : Z :=
  match l with [] => 0 | th :: r => sb2z (f (st_pc th)) + scnt f r end.

Lemma scnt_nonneg f l : 0 <= scnt f l.
Proof. induction l as [|th r IH]; cbn [scnt]; [lia|]. unfold sb2z. destruct (f (st_pc th)); lia. Qed.

Lemma scnt_upd f t g l th :
  nth_error l t = Some th ->
  scnt f (upd t g l) = scnt f l - sb2z (f (st_pc th)) + sb2z (f (st_pc (g th))).
Proof.
  revert t; induction l as [|x r IH]; intros [|t] H; cbn [nth_error upd scnt] in *; try discriminate.
  - inversion H; subst. lia.
  - rewrite (IH _ H). lia.
Qed.

Fixpoint secount (p : sevent -> bool) (tr : list sevent) : Z :=
  match tr with [] => 0 | e :: r => sb2z (p e) + secount p r end.
Definition is_inc e := match e with SEInc _ => true | _ => false end.
Definition is_dec e := match e with SEDec _ => true | _ => false end.
Definition is_pass e :=
  match e with
  | SERet _ SWait 0 => true
  | SERet _ STry 0 => true
  | _ => false
  end.
Definition incs := secount is_inc.      (* sem->value++ executed: posts under way or done *)
Definition decs := secount is_dec.
Definition passes := secount is_pass.   (* uv_sem_wait returned / uv_sem_trywait returned 0 *)

(* decremented, not yet returned *)
Definition spend (p : spc) : bool :=
  match p with SWUnl | STUnl true => true | _ => false end.

Lemma spend_signal_nth k l : scnt spend (ssignal_nth k l) = scnt spend l.
Proof.
  revert k; induction l as [|th r IH]; intros k; cbn [ssignal_nth scnt]; [reflexivity|].
  destruct (swaiting th) eqn:W.
  - destruct k; cbn [scnt].
    + unfold swaiting in W. destruct (st_pc th) as [| | | |[]| | |]; try discriminate. reflexivity.
    + rewrite IH. reflexivity.
  - cbn [scnt]. rewrite IH. reflexivity.
Qed.

Lemma spend_ssignal s k : scnt spend (s_ths (ssignal s k)) = scnt spend (s_ths s).
Proof.
  unfold ssignal. destruct (scount_waiting (s_ths s)); [reflexivity|].
  cbn [s_ths]. apply spend_signal_nth.
Qed.

Lemma nth_signal_nth_pc k l t th :
  nth_error l t = Some th -> swaiting th = false ->
  nth_error (ssignal_nth k l) t = Some th.
Proof.
  revert k t; induction l as [|x r IH]; intros k [|t] H W; cbn [nth_error ssignal_nth] in *; try discriminate.
  - inversion H; subst. rewrite W. reflexivity.
  - destruct (swaiting x); [destruct k|]; cbn [nth_error]; auto.
Qed.

Record SInv (init : Z) (s : sstate) : Prop := mkSInv {
  si_val : 0 <= s_value s < two32;
  si_bound : decs (s_trace s) + s_value s <= init + incs (s_trace s);
  si_rets : passes (s_trace s) + scnt spend (s_ths s) = decs (s_trace s)
}.

Ltac sunf :=
  unfold incs, decs, passes in *;
  cbn [secount is_inc is_dec is_pass sb2z] in *.
Ltac sstate := cbn [s_value s_owner s_ths s_trace].

Lemma wrap32_le z : 0 <= z -> 0 <= wrap32 z <= z /\ wrap32 z < two32.
Proof.
  intros. unfold wrap32, two32.
  pose proof (Z.mod_pos_bound z 4294967296 ltac:(lia)).
  pose proof (Z.mod_le z 4294967296 H ltac:(lia)). lia.
Qed.
Lemma wrap32_id z : 0 <= z < two32 -> wrap32 z = z.
Proof. intros. unfold wrap32. apply Z.mod_small; lia. Qed.

Lemma sfinish_inv init s t th op code p0 :
  SInv init s -> nth_error (s_ths s) t = Some th -> st_pc th = p0 ->
  sb2z (spend p0) = sb2z (is_pass (SERet t op code)) ->
  SInv init (sfinish s t op code).
Proof.
  intros [V B R] Hn Hpc Hp. unfold sfinish, semit; sstate.
  constructor; sstate; auto; unfold incs, decs, passes in *; cbn [secount];
    change (is_inc (SERet t op code)) with false; change (is_dec (SERet t op code)) with false;
    cbn [sb2z]; try lia.
  rewrite (scnt_upd _ _ _ _ _ Hn). rewrite Hpc.
  cbv zeta. cbn [st_pc].
  assert (E : spend (match tl (st_prog th) with [] => SDone | _ :: _ => SIdle end) = false)
    by (destruct (tl (st_prog th)); reflexivity).
  rewrite E. cbn [sb2z]. lia.
Qed.

Lemma sset_pc_inv init s t th p v tr :
  nth_error (s_ths s) t = Some th ->
  0 <= v < two32 ->
  decs tr + v <= init + incs tr ->
  passes tr + (scnt spend (s_ths s) - sb2z (spend (st_pc th)) + sb2z (spend p)) = decs tr ->
  forall o, SInv init (mkS v o (upd t (fun th => mkST p (st_prog th)) (s_ths s)) tr).
Proof.
  intros Hn V B R o. constructor; sstate; auto.
  rewrite (scnt_upd _ _ _ _ _ Hn). cbn [st_pc]. exact R.
Qed.

Lemma sgate_inv init s t th o :
  SInv init s -> nth_error (s_ths s) t = Some th -> spend (st_pc th) = false ->
  SInv init (sgate (sset_owner s o) t).
Proof.
  intros [V B R] Hn Hp. unfold sgate, sset_owner; sstate.
  destruct (s_value s =? 0) eqn:E.
  - unfold sset_pc; sstate. apply (sset_pc_inv init s t th); auto.
    rewrite Hp. cbn [spend sb2z]. lia.
  - unfold sset_pc, semit, sset_value; sstate.
    apply (sset_pc_inv init s t th); auto; sunf.
    + rewrite wrap32_id by lia. lia.
    + rewrite wrap32_id by lia. lia.
    + rewrite Hp. cbn [spend sb2z]. lia.
Qed.

Lemma sstep_inv init s c s' op : SInv init s -> sstep s c = Some (s', op) -> SInv init s'.
Proof.
  intros I. pose proof I as [V B R]. unfold sstep, sget.
  destruct (nth_error (s_ths s) (who c)) as [th|] eqn:Hn; [|discriminate].
  destruct (st_pc th) eqn:Hpc.
  - (* SIdle *)
    destruct (st_prog th) as [|[] rest] eqn:Hprog; [discriminate| | |].
    + destruct (is_free (s_owner s)); [|discriminate]. intros E; inversion E; subst; clear E.
      pose proof (wrap32_le (s_value s + 1)) as W.
      unfold sset_pc, semit, sset_value, sset_owner; sstate.
      apply (sset_pc_inv init s (who c) th); auto; sunf; try lia.
      rewrite Hpc. cbn [spend]. destruct (wrap32 (s_value s + 1) =? 1); cbn [spend sb2z]; lia.
    + destruct (is_free (s_owner s)); [|discriminate]. intros E; inversion E; subst; clear E.
      eapply sgate_inv; eauto; try (rewrite Hpc; reflexivity).
    + destruct (is_free (s_owner s)).
      * unfold sset_owner; sstate. destruct (s_value s =? 0) eqn:E0; intros E; inversion E; subst; clear E.
        -- unfold sset_pc; sstate. apply (sset_pc_inv init s (who c) th); auto.
           rewrite Hpc. cbn [spend sb2z]. lia.
        -- unfold sset_pc, semit, sset_value; sstate.
           apply (sset_pc_inv init s (who c) th); auto; sunf; rewrite ?wrap32_id by lia; try lia.
           rewrite Hpc. cbn [spend sb2z]. lia.
      * intros E; inversion E; subst; clear E.
        eapply sfinish_inv; eauto; try (rewrite Hpc; reflexivity).
  - (* SPSig *)
    intros E; inversion E; subst; clear E.
    assert (Hn' : nth_error (s_ths (ssignal s (aux c))) (who c) = Some th).
    { unfold ssignal. destruct (scount_waiting (s_ths s)); auto. cbn [s_ths].
      apply nth_signal_nth_pc; auto. unfold swaiting. rewrite Hpc. reflexivity. }
    unfold sset_pc.
    assert (Vs : s_value (ssignal s (aux c)) = s_value s) by (unfold ssignal; destruct (scount_waiting _); reflexivity).
    assert (Ts : s_trace (ssignal s (aux c)) = s_trace s) by (unfold ssignal; destruct (scount_waiting _); reflexivity).
    apply (sset_pc_inv init (ssignal s (aux c)) (who c) th); auto; rewrite ?Vs, ?Ts; auto.
    rewrite spend_ssignal, Hpc. cbn [spend sb2z]. lia.
  - intros E; inversion E; subst; clear E.
    eapply sfinish_inv; eauto; try (rewrite Hpc; reflexivity); try (destruct I; constructor; auto).
  - intros E; inversion E; subst; clear E.
    unfold sset_pc, sset_owner; sstate. apply (sset_pc_inv init s (who c) th); auto.
    rewrite Hpc. cbn [spend sb2z]. lia.
  - destruct ((sg || (aux c =? 1)%nat) && is_free (s_owner s)); [|discriminate].
    intros E; inversion E; subst; clear E.
    eapply sgate_inv; eauto; try (rewrite Hpc; reflexivity).
  - intros E; inversion E; subst; clear E.
    eapply sfinish_inv; eauto; try (rewrite Hpc; reflexivity); try (destruct I; constructor; auto).
  - intros E; inversion E; subst; clear E.
    eapply sfinish_inv; eauto; try (destruct ok; reflexivity); try (rewrite Hpc; destruct ok; reflexivity); try (destruct I; constructor; auto).
  - discriminate.
Qed.

Lemma srun_inv init sched : forall s, SInv init s -> SInv init (srun s sched).
Proof.
  induction sched as [|c r IH]; intros s I; [exact I|].
  change (srun s (c :: r)) with (srun (sstep_state s c) r). apply IH.
  unfold sstep_state. destruct (sstep s c) as [[s' op]|] eqn:E; auto.
  eapply sstep_inv; eauto.
Qed.

Lemma scnt_init progs :
  scnt spend (map (fun p => mkST (match p with [] => SDone | _ => SIdle end) p) progs) = 0.
Proof.
  induction progs as [|p l IH]; cbn [map scnt]; [reflexivity|].
  cbn [st_pc]. destruct p; rewrite IH; reflexivity.
Qed.

Lemma sinit_inv value progs : 0 <= value < two32 -> SInv value (sinit value progs).
Proof.
  intros H. unfold sinit. constructor; sstate; sunf; auto; try lia.
  rewrite scnt_init. reflexivity.
Qed.

(* for every initial value, every program of every thread, every schedule (with spurious
   wake-ups and any choice of the signalled waiter), after every step:
   returns of uv_sem_wait + successful uv_sem_trywait  <=  value-- executed
                                                       <=  initial value + value++ executed,
   and the counter never underflows *)
Theorem custom_sem_safe value progs sched :
  0 <= value < two32 ->
  let s := srun (sinit value progs) sched in
  passes (s_trace s) <= decs (s_trace s) /\
  decs (s_trace s) + s_value s <= value + incs (s_trace s) /\
  passes (s_trace s) <= value + incs (s_trace s) /\
  0 <= s_value s.
Proof.
  intros H. cbv zeta.
  destruct (srun_inv value sched _ (sinit_inv value progs H)) as [V B R].
  pose proof (scnt_nonneg spend (s_ths (srun (sinit value progs) sched))).
  repeat split; lia.
Qed.

(* Observation outside the property (liveness): the semaphore can lose a wake-up.  Two
   waiters, two posts from a third thread: only the first post signals (value == 1), the
   second waiter stays blocked although value is 1 and nobody else will ever run. *)
Definition lost_wakeup_sched : list choice :=
  map (fun t => mkChoice t 0) [0; 0; 1; 1; 2; 2; 2; 2; 2; 0; 0; 1; 1; 2; 0]%nat.

Theorem custom_sem_lost_wakeup :
  let s := srun (sinit 0 [[SWait]; [SWait]; [SPost; SPost]]) lost_wakeup_sched in
  sverdict s = 2 /\ s_value s = 1 /\
  (exists th, nth_error (s_ths s) 1 = Some th /\ st_pc th = SWw false).
Proof. vm_compute. repeat split; eauto. Qed.

Example custom_sem_example :
  let s := srun (sinit 1 [[SWait; SWait]; [STry; SPost]])
                (map (fun t => mkChoice t 0) [0; 1; 0; 0; 0; 1; 1; 1; 0; 0; 1]%nat) in
  sverdict s = 0 /\ passes (s_trace s) = 2 /\ incs (s_trace s) = 1.
Proof. vm_compute. auto. Qed.
