(* C20: the mutex/condvar barrier of thread-common.c (Model/Thread.v, barrier part) is
   correct for every schedule: invariant + induction over the schedule. *)
From UV Require Import Lib.Base Model.Thread.

Local Open Scope Z_scope.

(* ---------------- counting ---------------- *)
Definition b2z (b : bool) : Z := if b then 1 else 0.

Fixpoint cnt (f : bpc -> bool) (l : list bthread) : Z :=
  match l with
  | [] => 0
  | th :: r => b2z (f (bt_pc th)) + cnt f r
  end.

Lemma cnt_nonneg f l : 0 <= cnt f l.
Proof. induction l as [|th r IH]; cbn [cnt]; [lia|]. unfold b2z. destruct (f (bt_pc th)); lia. Qed.

Lemma cnt_upd f t g l th :
  nth_error l t = Some th ->
  cnt f (upd t g l) = cnt f l - b2z (f (bt_pc th)) + b2z (f (bt_pc (g th))).
Proof.
  revert t; induction l as [|x r IH]; intros [|t] H; cbn [nth_error upd cnt] in *; try discriminate.
  - inversion H; subst. lia.
  - rewrite (IH _ H). lia.
Qed.

Lemma cnt_map f g l :
  (forall th, f (bt_pc (g th)) = f (bt_pc th)) -> cnt f (map g l) = cnt f l.
Proof. intros H. induction l as [|x r IH]; cbn [map cnt]; [reflexivity|]. rewrite H, IH. reflexivity. Qed.

Lemma cnt_ge_one f l t th :
  nth_error l t = Some th -> f (bt_pc th) = true -> 1 <= cnt f l.
Proof.
  revert t; induction l as [|x r IH]; intros [|t] H Hf; cbn [nth_error cnt] in *; try discriminate.
  - inversion H; subst. rewrite Hf. pose proof (cnt_nonneg f r). unfold b2z. lia.
  - pose proof (IH _ H Hf). unfold b2z. destruct (f (bt_pc x)); lia.
Qed.

Lemma cnt_le f g l : (forall p, f p = true -> g p = true) -> cnt f l <= cnt g l.
Proof.
  intros H. induction l as [|x r IH]; cbn [cnt]; [lia|]. unfold b2z.
  destruct (f (bt_pc x)) eqn:E; [rewrite (H _ E)|destruct (g (bt_pc x))]; lia.
Qed.

(* ---------------- trace counters ---------------- *)
Fixpoint ecount (p : bevent -> bool) (tr : list bevent) : Z :=
  match tr with [] => 0 | e :: r => b2z (p e) + ecount p r end.
Definition is_call e := match e with BECall _ => true | _ => false end.
Definition is_join e := match e with BEJoin _ => true | _ => false end.
Definition is_leave e := match e with BELeave _ _ => true | _ => false end.
Definition is_lastleave e := match e with BELeave _ true => true | _ => false end.
Definition is_ret e := match e with BERet _ _ => true | _ => false end.
Definition is_nzret e := match e with BERet _ true => true | _ => false end.
Definition calls := ecount is_call.
Definition joins := ecount is_join.
Definition leaves := ecount is_leave.
Definition lastleaves := ecount is_lastleave.
Definition rets := ecount is_ret.
Definition nzrets := ecount is_nzret.

(* ---------------- classification of program points ---------------- *)
Definition holds (p : bpc) : bool :=
  match p with BW1e | BBc1 | BW2e | BBc2 | BUnl _ => true | _ => false end.
Definition joined (p : bpc) : bool :=          (* did ++in, not yet --out *)
  match p with BBc1 | BW2e | BW2w _ => true | _ => false end.
Definition pre (p : bpc) : bool :=             (* inside the call, not yet ++in *)
  match p with BW1e | BW1w _ => true | _ => false end.
Definition pendp (p : bpc) : bool :=           (* did --out, has not returned yet *)
  match p with BBc2 | BUnl _ => true | _ => false end.
Definition pendl (p : bpc) : bool :=
  match p with BBc2 | BUnl true => true | _ => false end.

Definition pc_ok (s : bstate) (p : bpc) : Prop :=
  match p with
  | BBc1 => b_in s = 0 /\ b_out s = b_thr s
  | BW2e => b_in s <> 0
  | BBc2 => b_out s = 0
  | BUnl true => b_out s = 0
  | BUnl false => b_out s <> 0 /\ b_out s < b_thr s
  | _ => True
  end.

Lemma pc_ok_idle s p : holds p = false -> pc_ok s p.
Proof. destruct p as [| | | | | | |[]|]; cbn; try discriminate; auto. Qed.

Lemma holds_bwake th : holds (bt_pc (bwake th)) = holds (bt_pc th).
Proof. destruct th as [[] r]; reflexivity. Qed.
Lemma joined_bwake th : joined (bt_pc (bwake th)) = joined (bt_pc th).
Proof. destruct th as [[] r]; reflexivity. Qed.
Lemma pre_bwake th : pre (bt_pc (bwake th)) = pre (bt_pc th).
Proof. destruct th as [[] r]; reflexivity. Qed.
Lemma pendp_bwake th : pendp (bt_pc (bwake th)) = pendp (bt_pc th).
Proof. destruct th as [[] r]; reflexivity. Qed.
Lemma pendl_bwake th : pendl (bt_pc (bwake th)) = pendl (bt_pc th).
Proof. destruct th as [[] r]; reflexivity. Qed.

(* ---------------- the invariant ---------------- *)
Record Inv (s : bstate) : Prop := mkInv {
  i_thr : 0 < b_thr s < two32;
  i_in : 0 <= b_in s < b_thr s;
  i_out : 0 <= b_out s <= b_thr s;
  i_mix : b_in s <> 0 -> b_out s = 0;
  i_gen : 0 <= b_gen s;
  i_joins : joins (b_trace s) = b_thr s * b_gen s + b_in s;
  i_leaves : leaves (b_trace s) + b_out s = b_thr s * b_gen s;
  i_last : lastleaves (b_trace s) = if b_out s =? 0 then b_gen s else b_gen s - 1;
  i_pw : forall t th, nth_error (b_ths s) t = Some th ->
           (holds (bt_pc th) = true -> b_owner s = Some t) /\ pc_ok s (bt_pc th);
  i_hold : cnt holds (b_ths s) = if is_free (b_owner s) then 0 else 1;
  i_joined : cnt joined (b_ths s) = if b_in s =? 0 then b_out s else b_in s;
  i_rets : rets (b_trace s) + cnt pendp (b_ths s) = leaves (b_trace s);
  i_nz : nzrets (b_trace s) + cnt pendl (b_ths s) = lastleaves (b_trace s);
  i_calls : calls (b_trace s) = joins (b_trace s) + cnt pre (b_ths s)
}.

(* pointwise part of the invariant after a step of thread t: the other threads hold
   nothing, so whatever happened to in/out/owner cannot concern them *)
Lemma pw_step s s' t (g : bthread -> bthread) :
  Inv s ->
  (b_owner s = None \/ b_owner s = Some t) ->
  (forall th, holds (bt_pc (g th)) = holds (bt_pc th)) ->
  (forall t', t' <> t -> nth_error (b_ths s') t' = option_map g (nth_error (b_ths s) t')) ->
  (forall th', nth_error (b_ths s') t = Some th' ->
      (holds (bt_pc th') = true -> b_owner s' = Some t) /\ pc_ok s' (bt_pc th')) ->
  forall t' th', nth_error (b_ths s') t' = Some th' ->
      (holds (bt_pc th') = true -> b_owner s' = Some t') /\ pc_ok s' (bt_pc th').
Proof.
  intros I Ho Hg Hoth Hme t' th' Hn.
  destruct (Nat.eq_dec t' t) as [->|Hne]; [auto|].
  rewrite (Hoth _ Hne) in Hn.
  destruct (nth_error (b_ths s) t') as [th0|] eqn:E0; cbn in Hn; [|discriminate].
  inversion Hn; subst th'.
  assert (Hidle : holds (bt_pc th0) = false).
  { destruct (holds (bt_pc th0)) eqn:Hh; auto.
    destruct (i_pw s I _ _ E0) as [A _]. specialize (A Hh).
    destruct Ho as [Ho|Ho]; rewrite Ho in A; [discriminate|]. inversion A. congruence. }
  rewrite Hg. split; [rewrite Hidle; discriminate|].
  apply pc_ok_idle. rewrite Hg. exact Hidle.
Qed.

Lemma nth_upd_other {A} (l : list A) t t' (f : A -> A) :
  t' <> t -> nth_error (upd t f l) t' = option_map (fun x => x) (nth_error l t').
Proof. intros H. rewrite nth_error_upd_other by congruence. destruct (nth_error l t'); reflexivity. Qed.

Lemma nth_upd_map_other {A} (l : list A) t t' (f g : A -> A) :
  t' <> t -> nth_error (upd t f (map g l)) t' = option_map g (nth_error l t').
Proof. intros H. rewrite nth_error_upd_other by congruence. apply nth_error_map. Qed.

(* the same with the new state spelled out, as it appears after simplification *)
Lemma pw_step' s t (g : bthread -> bthread) i o th ow ths' gn tr :
  Inv s ->
  (b_owner s = None \/ b_owner s = Some t) ->
  (forall x, holds (bt_pc (g x)) = holds (bt_pc x)) ->
  (forall t', t' <> t -> nth_error ths' t' = option_map g (nth_error (b_ths s) t')) ->
  (forall th', nth_error ths' t = Some th' ->
      (holds (bt_pc th') = true -> ow = Some t) /\ pc_ok (mkB i o th ow ths' gn tr) (bt_pc th')) ->
  forall t' th', nth_error ths' t' = Some th' ->
      (holds (bt_pc th') = true -> ow = Some t') /\ pc_ok (mkB i o th ow ths' gn tr) (bt_pc th').
Proof.
  intros I Ho Hg Hoth Hme.
  exact (pw_step s (mkB i o th ow ths' gn tr) t g I Ho Hg Hoth Hme).
Qed.

(* ---------------- preservation, one program point at a time ---------------- *)
Ltac inv_facts I :=
  pose proof (i_thr _ I); pose proof (i_in _ I); pose proof (i_out _ I); pose proof (i_mix _ I);
  pose proof (i_gen _ I); pose proof (i_joins _ I); pose proof (i_leaves _ I); pose proof (i_last _ I);
  pose proof (i_hold _ I); pose proof (i_joined _ I); pose proof (i_rets _ I); pose proof (i_nz _ I);
  pose proof (i_calls _ I).

Ltac unf_counts :=
  unfold calls, joins, leaves, lastleaves, rets, nzrets in *;
  cbn [ecount is_call is_join is_leave is_lastleave is_ret is_nzret b2z] in *.

Lemma wrap32_small z : 0 <= z < two32 -> wrap32 z = z.
Proof. intros. unfold wrap32. apply Z.mod_small; lia. Qed.

Ltac split_ifs :=
  repeat match goal with
         | |- context[if ?c then _ else _] => destruct c eqn:?
         | H : context[if ?c then _ else _] |- _ => destruct c eqn:?
         end.

(* build Inv of an explicit state; the pointwise goal is left in the shape of pw_step' *)
Ltac mk_inv Hn :=
  constructor; cbn [b_in b_out b_thr b_owner b_ths b_gen b_trace is_free];
  rewrite ?(cnt_upd _ _ _ _ _ Hn); cbn [bt_pc holds joined pre pendp pendl b2z]; unf_counts; try lia;
  try solve [split_ifs; lia].

(* the pointwise goal when only thread t's pc changed (Hn: its old entry) *)
Ltac pw_self I t Hn :=
  eapply (pw_step' _ t (fun x => x)); [exact I | auto | reflexivity
    | intros ? ?; apply nth_upd_other; assumption
    | intros ?; rewrite (nth_error_upd_same _ _ _ _ Hn);
      let E := fresh in intros E; inversion E; subst; cbn; auto; try (split; auto; lia) ].

Lemma step_BLock s t th :
  Inv s -> nth_error (b_ths s) t = Some th -> bt_pc th = BLock -> b_owner s = None ->
  Inv (bgate (bemit (bset_owner s (Some t)) (BECall t)) t).
Proof.
  intros I Hn Hpc Hfree. inv_facts I.
  destruct th as [p r]; cbn [bt_pc] in Hpc; subst p.
  rewrite Hfree in *. cbn [is_free] in *.
  unfold bgate, bemit, bset_owner; cbn [b_in b_out b_thr b_owner b_ths b_gen b_trace].
  destruct (b_out s =? 0) eqn:Eo; cbn [negb].
  2:{ unfold bset_pc; cbn [b_in b_out b_thr b_owner b_ths b_gen b_trace].
      mk_inv Hn. pw_self I t Hn. }
  assert (b_out s = 0) by lia.
  rewrite wrap32_small by lia.
  destruct (b_in s + 1 =? b_thr s) eqn:Ei;
    unfold bset_pc; cbn [b_in b_out b_thr b_owner b_ths b_gen b_trace];
    mk_inv Hn; pw_self I t Hn.
Qed.

Ltac simpl_state := cbn [b_in b_out b_thr b_owner b_ths b_gen b_trace].

Lemma owner_of_holder s t th :
  Inv s -> nth_error (b_ths s) t = Some th -> holds (bt_pc th) = true -> b_owner s = Some t.
Proof. intros I Hn Hh. destruct (i_pw s I _ _ Hn) as [A _]. auto. Qed.

Lemma step_BW1e s t th :
  Inv s -> nth_error (b_ths s) t = Some th -> bt_pc th = BW1e ->
  Inv (bset_pc (bset_owner s None) t (BW1w false)).
Proof.
  intros I Hn Hpc. inv_facts I.
  pose proof (owner_of_holder s t th I Hn) as Ho. rewrite Hpc in Ho. specialize (Ho eq_refl).
  destruct th as [p r]; cbn [bt_pc] in Hpc; subst p.
  rewrite Ho in *. cbn [is_free] in *.
  unfold bset_pc, bset_owner; simpl_state.
  mk_inv Hn. pw_self I t Hn.
Qed.

Lemma step_BW2e s t th :
  Inv s -> nth_error (b_ths s) t = Some th -> bt_pc th = BW2e ->
  Inv (bset_pc (bset_owner s None) t (BW2w false)).
Proof.
  intros I Hn Hpc. inv_facts I.
  pose proof (owner_of_holder s t th I Hn) as Ho. rewrite Hpc in Ho. specialize (Ho eq_refl).
  destruct th as [p r]; cbn [bt_pc] in Hpc; subst p.
  rewrite Ho in *. cbn [is_free] in *.
  unfold bset_pc, bset_owner; simpl_state.
  mk_inv Hn. pw_self I t Hn.
Qed.

Lemma step_BW1w s t th sg :
  Inv s -> nth_error (b_ths s) t = Some th -> bt_pc th = BW1w sg -> b_owner s = None ->
  Inv (bgate (bset_owner s (Some t)) t).
Proof.
  intros I Hn Hpc Hfree. inv_facts I.
  destruct th as [p r]; cbn [bt_pc] in Hpc; subst p.
  rewrite Hfree in *. cbn [is_free] in *.
  unfold bgate, bset_owner; simpl_state.
  destruct (b_out s =? 0) eqn:Eo; cbn [negb].
  2:{ unfold bset_pc; simpl_state. mk_inv Hn. pw_self I t Hn. }
  assert (b_out s = 0) by lia.
  rewrite wrap32_small by lia.
  destruct (b_in s + 1 =? b_thr s) eqn:Ei;
    unfold bset_pc; simpl_state; mk_inv Hn; pw_self I t Hn.
Qed.

Lemma step_BW2w s t th sg :
  Inv s -> nth_error (b_ths s) t = Some th -> bt_pc th = BW2w sg -> b_owner s = None ->
  Inv (let s1 := bset_owner s (Some t) in
       if negb (b_in s1 =? 0) then bset_pc s1 t BW2e else bleave s1 t).
Proof.
  intros I Hn Hpc Hfree. inv_facts I.
  destruct th as [p r]; cbn [bt_pc] in Hpc; subst p.
  pose proof (cnt_ge_one joined _ _ _ Hn eq_refl) as Hj.
  rewrite Hfree in *. cbn [is_free] in *.
  cbv zeta. unfold bset_owner; simpl_state.
  destruct (b_in s =? 0) eqn:Ein; cbn [negb].
  2:{ unfold bset_pc; simpl_state. mk_inv Hn. pw_self I t Hn. }
  assert (1 <= b_out s) by lia.
  unfold bleave; simpl_state. rewrite wrap32_small by lia.
  destruct (b_out s - 1 =? 0) eqn:El;
    unfold bset_pc; simpl_state; mk_inv Hn; pw_self I t Hn.
Qed.

Ltac mk_inv_b Hn' :=
  constructor; cbn [b_in b_out b_thr b_owner b_ths b_gen b_trace];
  try match goal with H : b_owner _ = _ |- _ => rewrite ?H end; cbn [is_free];
  rewrite ?(cnt_upd _ _ _ _ _ Hn');
  rewrite ?(cnt_map holds bwake _ holds_bwake), ?(cnt_map joined bwake _ joined_bwake),
          ?(cnt_map pre bwake _ pre_bwake), ?(cnt_map pendp bwake _ pendp_bwake),
          ?(cnt_map pendl bwake _ pendl_bwake);
  cbn [bwake bt_pc holds joined pre pendp pendl b2z]; unf_counts; try lia;
  try solve [split_ifs; lia].

Ltac pw_bcast I t Hn' :=
  eapply (pw_step' _ t bwake); [exact I | auto | exact holds_bwake
    | intros ? ?; apply nth_upd_map_other; assumption
    | intros ?; rewrite (nth_error_upd_same _ _ _ _ Hn');
      let E := fresh in intros E; inversion E; subst; cbn; auto; try (split; auto; lia) ].

Lemma step_BBc1 s t th :
  Inv s -> nth_error (b_ths s) t = Some th -> bt_pc th = BBc1 ->
  Inv (bleave (bbroadcast s) t).
Proof.
  intros I Hn Hpc. inv_facts I.
  pose proof (owner_of_holder s t th I Hn) as Ho. rewrite Hpc in Ho. specialize (Ho eq_refl).
  destruct (i_pw s I _ _ Hn) as [_ Hok]. rewrite Hpc in Hok. cbn in Hok. destruct Hok as [Hi0 Hot].
  destruct th as [p r]; cbn [bt_pc] in Hpc; subst p.
  assert (Hn' : nth_error (map bwake (b_ths s)) t = Some (bwake (mkBT BBc1 r)))
    by (rewrite nth_error_map, Hn; reflexivity).
  rewrite Ho in *. cbn [is_free] in *.
  unfold bleave, bbroadcast; simpl_state. rewrite wrap32_small by lia.
  destruct (b_out s - 1 =? 0) eqn:El;
    unfold bset_pc; simpl_state; mk_inv_b Hn'; pw_bcast I t Hn'.
Qed.

Lemma step_BBc2 s t th :
  Inv s -> nth_error (b_ths s) t = Some th -> bt_pc th = BBc2 ->
  Inv (bset_pc (bbroadcast s) t (BUnl true)).
Proof.
  intros I Hn Hpc. inv_facts I.
  pose proof (owner_of_holder s t th I Hn) as Ho. rewrite Hpc in Ho. specialize (Ho eq_refl).
  destruct (i_pw s I _ _ Hn) as [_ Hok]. rewrite Hpc in Hok. cbn in Hok.
  destruct th as [p r]; cbn [bt_pc] in Hpc; subst p.
  assert (Hn' : nth_error (map bwake (b_ths s)) t = Some (bwake (mkBT BBc2 r)))
    by (rewrite nth_error_map, Hn; reflexivity).
  rewrite Ho in *. cbn [is_free] in *.
  unfold bbroadcast, bset_pc; simpl_state. mk_inv_b Hn'. pw_bcast I t Hn'.
Qed.

Lemma step_BUnl s t th last p' r' :
  Inv s -> nth_error (b_ths s) t = Some th -> bt_pc th = BUnl last ->
  holds p' = false ->
  joined p' = false -> pre p' = false -> pendp p' = false -> pendl p' = false ->
  Inv (mkB (b_in s) (b_out s) (b_thr s) None
           (upd t (fun _ => mkBT p' r') (b_ths s)) (b_gen s) (BERet t last :: b_trace s)).
Proof.
  intros I Hn Hpc F1 F2 F3 F4 F5. inv_facts I.
  pose proof (owner_of_holder s t th I Hn) as Ho. rewrite Hpc in Ho. specialize (Ho eq_refl).
  destruct (i_pw s I _ _ Hn) as [_ Hok]. rewrite Hpc in Hok.
  destruct th as [p r]; cbn [bt_pc] in Hpc; subst p.
  rewrite Ho in *. cbn [is_free] in *.
  constructor; cbn [b_in b_out b_thr b_owner b_ths b_gen b_trace is_free];
  rewrite ?(cnt_upd _ _ _ _ _ Hn); cbn [bt_pc]; rewrite ?F1, ?F2, ?F3, ?F4, ?F5;
  cbn [holds joined pre pendp pendl b2z]; unf_counts; try lia.
  eapply (pw_step' _ t (fun x => x)); [exact I | auto | reflexivity
      | intros ? ?; apply nth_upd_other; assumption |].
  intros th'. rewrite (nth_error_upd_same _ _ _ _ Hn). intros E; inversion E; subst.
  cbn [bt_pc]. rewrite F1. split; [discriminate | apply pc_ok_idle; exact F1].
Qed.

(* ---------------- every step, every schedule ---------------- *)
Lemma bstep_inv s c s' op : Inv s -> bstep s c = Some (s', op) -> Inv s'.
Proof.
  intros I. unfold bstep, bget.
  destruct (nth_error (b_ths s) (who c)) as [th|] eqn:Hn; [|discriminate].
  destruct (bt_pc th) eqn:Hpc.
  - destruct (is_free (b_owner s)) eqn:Hf; [|discriminate].
    intros E; inversion E; subst. destruct (b_owner s) eqn:Ho; [discriminate|].
    eapply step_BLock; eauto.
  - intros E; inversion E; subst. eapply step_BW1e; eauto.
  - destruct ((sg || (aux c =? 1)%nat) && is_free (b_owner s)) eqn:Hc; [|discriminate].
    apply andb_prop in Hc. destruct Hc as [_ Hf].
    intros E; inversion E; subst. destruct (b_owner s) eqn:Ho; [discriminate|].
    eapply step_BW1w; eauto.
  - intros E; inversion E; subst. eapply step_BBc1; eauto.
  - intros E; inversion E; subst. eapply step_BW2e; eauto.
  - destruct ((sg || (aux c =? 1)%nat) && is_free (b_owner s)) eqn:Hc; [|discriminate].
    apply andb_prop in Hc. destruct Hc as [_ Hf].
    intros E; inversion E; subst. destruct (b_owner s) eqn:Ho; [discriminate|].
    eapply (step_BW2w s (who c) th sg); eauto.
  - intros E; inversion E; subst. eapply step_BBc2; eauto.
  - intros E; inversion E; subst.
    unfold bemit, bset_owner; simpl_state.
    eapply step_BUnl; eauto; destruct (pred (bt_rem th)); reflexivity.
  - discriminate.
Qed.

Lemma bstep_state_inv s c : Inv s -> Inv (bstep_state s c).
Proof.
  intros I. unfold bstep_state. destruct (bstep s c) as [[s' op]|] eqn:E; auto.
  eapply bstep_inv; eauto.
Qed.

Lemma brun_inv sched : forall s, Inv s -> Inv (brun s sched).
Proof.
  induction sched as [|c r IH]; intros s I; cbn; auto.
  apply IH. apply bstep_state_inv; auto.
Qed.

Lemma cnt_init f rems :
  f BLock = false -> f BDone = false ->
  cnt f (map (fun r => mkBT (match r with O => BDone | _ => BLock end) r) rems) = 0.
Proof.
  intros A B. induction rems as [|r l IH]; cbn [map cnt]; [reflexivity|].
  cbn [bt_pc]. destruct r; rewrite ?A, ?B, IH; reflexivity.
Qed.

Lemma binit_inv thr rems : 0 < thr < two32 -> Inv (binit thr rems).
Proof.
  intros H. unfold binit.
  constructor; simpl_state; rewrite ?cnt_init by reflexivity; unf_counts; cbn [is_free]; try lia;
    try reflexivity.
  intros t th Hn. apply nth_error_In in Hn. apply in_map_iff in Hn. destruct Hn as (r & <- & _).
  cbn [bt_pc]. destruct r; cbn; split; auto; discriminate.
Qed.

Theorem barrier_reachable_inv thr rems sched :
  0 < thr < two32 -> Inv (brun (binit thr rems) sched).
Proof. intros. apply brun_inv, binit_inv; auto. Qed.

(* ---------------- what the invariant says about the trace ---------------- *)
Lemma cnt_pos_exists f l : 0 < cnt f l -> exists t th, nth_error l t = Some th /\ f (bt_pc th) = true.
Proof.
  induction l as [|x r IH]; cbn [cnt]; [lia|]. intros H.
  destruct (f (bt_pc x)) eqn:E.
  - exists O, x. auto.
  - cbn [b2z] in H. destruct IH as (t & th & A & B); [lia|]. exists (S t), th. auto.
Qed.

Lemma div_block thr g x : 0 < thr -> 0 <= x < thr ->
  (thr * g + x) / thr = g /\ (thr * g + x) mod thr = x.
Proof.
  intros Ht Hx. split.
  - symmetry. apply (Z.div_unique _ _ g x); lia.
  - symmetry. apply (Z.mod_unique _ _ g x); lia.
Qed.

(* The property, on the events of a run (newest first):
   (1) at most count * (complete groups of arrivals) threads have returned: nobody is
       released before the count-th thread of its round has arrived;
   (2) among the first k returns exactly floor(k / count) are non-zero: one per round,
       namely the last leaver's;
   (3) a round is joined (++in) only when every thread of the earlier rounds has passed
       the exit (--out): rounds do not mix; and never more exits than complete rounds. *)
Definition barrier_safe (thr : Z) (tr : list bevent) : Prop :=
  rets tr <= thr * (calls tr / thr) /\
  nzrets tr = rets tr / thr /\
  leaves tr <= thr * (joins tr / thr) /\
  (joins tr mod thr <> 0 -> leaves tr = thr * (joins tr / thr)) /\
  joins tr <= calls tr /\ rets tr <= leaves tr.

Lemma inv_safe s : Inv s -> barrier_safe (b_thr s) (b_trace s) /\ (b_in s <> 0 -> b_out s = 0).
Proof.
  intros I. inv_facts I. split; [|auto].
  pose proof (cnt_nonneg pendp (b_ths s)) as Pp0.
  pose proof (cnt_nonneg pendl (b_ths s)) as Pl0.
  pose proof (cnt_nonneg pre (b_ths s)) as Pr0.
  assert (Pp1 : cnt pendp (b_ths s) <= 1).
  { pose proof (cnt_le pendp holds (b_ths s)) as L.
    assert (forall p, pendp p = true -> holds p = true) as X by (intros []; cbn; auto).
    specialize (L X). destruct (is_free (b_owner s)); lia. }
  assert (Plp : cnt pendl (b_ths s) <= cnt pendp (b_ths s)).
  { apply cnt_le. intros [| | | | | | |[]|]; cbn; auto. }
  destruct (div_block (b_thr s) (b_gen s) (b_in s)) as [Dj Mj]; [lia|lia|].
  rewrite <- H4 in Dj, Mj.
  unfold barrier_safe. repeat split.
  - (* (1) *)
    assert (b_gen s <= calls (b_trace s) / b_thr s) by (apply Z.div_le_lower_bound; lia).
    assert (b_thr s * b_gen s <= b_thr s * (calls (b_trace s) / b_thr s))
      by (apply Z.mul_le_mono_nonneg_l; lia).
    lia.
  - (* (2) *)
    assert (C : cnt pendp (b_ths s) = 0 \/ cnt pendp (b_ths s) = 1) by lia.
    destruct C as [C|C].
    + assert (cnt pendl (b_ths s) = 0) by lia.
      destruct (b_out s =? 0) eqn:Eo.
      * assert (rets (b_trace s) = b_thr s * b_gen s + 0) by lia.
        destruct (div_block (b_thr s) (b_gen s) 0); try lia. rewrite H13. lia.
      * assert (rets (b_trace s) = b_thr s * (b_gen s - 1) + (b_thr s - b_out s)) by lia.
        destruct (div_block (b_thr s) (b_gen s - 1) (b_thr s - b_out s)); try lia. rewrite H13. lia.
    + destruct (cnt_pos_exists pendp (b_ths s)) as (t & th & Hn & Hp); [lia|].
      destruct (i_pw s I _ _ Hn) as [Ho Hok].
      destruct (bt_pc th) eqn:Hpc; try discriminate.
      * (* BBc2: last leaver *)
        cbn in Hok.
        pose proof (cnt_ge_one pendl _ _ _ Hn) as G. rewrite Hpc in G. specialize (G eq_refl).
        assert (E : (b_out s =? 0) = true) by lia. rewrite E in *.
        assert (rets (b_trace s) = b_thr s * (b_gen s - 1) + (b_thr s - 1)) by lia.
        destruct (div_block (b_thr s) (b_gen s - 1) (b_thr s - 1)); try lia. rewrite H12. lia.
      * destruct last; cbn in Hok.
        -- pose proof (cnt_ge_one pendl _ _ _ Hn) as G. rewrite Hpc in G. specialize (G eq_refl).
           assert (E : (b_out s =? 0) = true) by lia. rewrite E in *.
           assert (rets (b_trace s) = b_thr s * (b_gen s - 1) + (b_thr s - 1)) by lia.
           destruct (div_block (b_thr s) (b_gen s - 1) (b_thr s - 1)); try lia. rewrite H12. lia.
        -- assert (Pl : cnt pendl (b_ths s) = 0).
           { destruct (Z.eq_dec (cnt pendl (b_ths s)) 0) as [|N]; auto.
             destruct (cnt_pos_exists pendl (b_ths s)) as (t2 & th2 & Hn2 & Hp2); [lia|].
             destruct (i_pw s I _ _ Hn2) as [_ Hok2].
             destruct (bt_pc th2) as [| | | | | | |[]|]; cbn in Hp2, Hok2; try discriminate; lia. }
           assert (E : (b_out s =? 0) = false) by lia. rewrite E in *.
           assert (rets (b_trace s) = b_thr s * (b_gen s - 1) + (b_thr s - b_out s - 1)) by lia.
           destruct (div_block (b_thr s) (b_gen s - 1) (b_thr s - b_out s - 1)); try lia.
           rewrite H12. lia.
  - rewrite Dj. lia.
  - intros Hm. rewrite Mj in Hm. rewrite Dj. specialize (H2 Hm). lia.
  - lia.
  - lia.
Qed.

Lemma bstep_state_thr s c : b_thr (bstep_state s c) = b_thr s.
Proof.
  unfold bstep_state, bstep, bget.
  destruct (nth_error (b_ths s) (who c)) as [th|]; auto.
  destruct (bt_pc th); auto;
    repeat match goal with |- context[if ?c then _ else _] => destruct c end;
    try reflexivity; unfold bgate, bleave, bset_pc, bemit, bset_owner, bbroadcast; cbn;
    repeat match goal with |- context[if ?c then _ else _] => destruct c end; reflexivity.
Qed.

Lemma brun_thr sched : forall s, b_thr (brun s sched) = b_thr s.
Proof.
  induction sched as [|c r IH]; intros s; [reflexivity|].
  change (brun s (c :: r)) with (brun (bstep_state s c) r).
  rewrite IH. apply bstep_state_thr.
Qed.

(* the final theorem: for every number of threads, every number of rounds per thread,
   every count and EVERY schedule (including spurious wake-ups), after every step *)
Theorem barrier_fallback_correct thr rems sched :
  0 < thr < two32 ->
  let s := brun (binit thr rems) sched in
  barrier_safe thr (b_trace s) /\ (b_in s <> 0 -> b_out s = 0).
Proof.
  intros H. cbv zeta.
  pose proof (inv_safe _ (barrier_reachable_inv thr rems sched H)) as S.
  rewrite brun_thr in S. exact S.
Qed.

(* mutual exclusion inside the model: at most one thread is between lock and unlock *)
Theorem barrier_mutex_exclusive thr rems sched :
  0 < thr < two32 -> cnt holds (b_ths (brun (binit thr rems) sched)) <= 1.
Proof.
  intros H. pose proof (i_hold _ (barrier_reachable_inv thr rems sched H)) as E.
  destruct (is_free _) in E; lia.
Qed.

(* a reachable, non-trivial run: 3 threads, count 3, two rounds each, run round-robin
   to completion: 6 calls, 6 returns, exactly 2 of them non-zero *)
Definition rr (n reps : nat) : list choice :=
  concat (repeat (map (fun t => mkChoice t 0) (seq 0 n)) reps).

Example barrier_example :
  let s := brun (binit 3 [2; 2; 2]%nat) (rr 3 20) in
  bverdict s = 0 /\ calls (b_trace s) = 6 /\ rets (b_trace s) = 6 /\ nzrets (b_trace s) = 2.
Proof. vm_compute. auto. Qed.
