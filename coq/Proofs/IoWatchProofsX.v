(* C14: level-triggered dispatch, the meaning of the ghost fields, and the scripts
   that refuted the kernel-in-sync clause before src/unix/poll.c was repaired. *)
From UV Require Import Lib.Base Model.IoWatch Proofs.IoWatchProofs Proofs.IoWatchProofsN Proofs.IoWatchProofsK.
Local Open Scope Z_scope.

(* ---- keeps firing ------------------------------------------------------------------- *)
(* an entry of the batch that has not been invalidated, whose descriptor has a
   poll watcher, and that reports a requested event or POLLERR/POLLHUP, always
   reaches the user's callback *)
Definition hits (rep pev : mask) : bool := negb (mzero (mand rep (mor pev ERRHUP))).

Lemma disp_ev_hits rep pev : hits rep pev = true -> mzero (disp_ev rep pev) = false.
Proof.
  unfold hits, disp_ev, mzero. mk_destruct rep; mk_destruct pev.
  destruct m_in, m_pri, m_out, m_err, m_hup, m_rdhup, m_in0, m_pri0, m_out0, m_err0, m_hup0, m_rdhup0; cbn;
    intros; try discriminate; reflexivity.
Qed.

Theorem dispatch_fires fdo beh s fd orig rep i s' evs :
  dispatch_one fdo beh s (fd, orig, rep) = (s', evs) ->
  fd <> -1 -> reg s fd = Some i -> h_kind (hget s i) = KPoll ->
  hits rep (h_pev (hget s i)) = true ->
  exists st ev req efd r hfd gs n tl, evs = ECb i st ev req efd r hfd gs n :: tl.
Proof.
  intros H Hfd Hr Hk Hh. unfold dispatch_one, dispatch_target in H.
  destruct (Z.eqb_spec fd (-1)); [contradiction|]. rewrite Hr in H.
  fold (disp_ev rep (h_pev (hget s i))) in H. rewrite (disp_ev_hits _ _ Hh) in H.
  unfold watcher_cb, cb_pre in H. rewrite Hk in H.
  destruct (m_err _ && negb (m_pri _)); destruct (user_cb fdo beh _) as [s2 e2]; inversion H; subst; eauto 12.
Qed.

(* the first entry of an epoll_pwait answer: whatever the script did before, a
   started poll handle whose descriptor is reported with a requested condition
   is called back in this poll phase *)
Theorem poll_phase_fires fdo pw beh s fd rep rest i s' evs :
  io_poll fdo pw beh s = (s', evs) -> aborted (poll_prepare s) = false ->
  pw (npw (poll_prepare s)) = (fd, rep) :: rest -> fd <> -1 ->
  reg (poll_prepare s) fd = Some i -> h_kind (hget (poll_prepare s) i) = KPoll ->
  hits rep (h_pev (hget (poll_prepare s) i)) = true ->
  exists a st ev req efd r hfd gs n tl, evs = EPwait (poll_prepare s) a :: ECb i st ev req efd r hfd gs n :: tl.
Proof.
  intros H Ha Hp Hfd Hr Hk Hh. unfold io_poll in H. rewrite Ha, Hp in H. cbn [length dispatch] in H.
  unfold poll_fetch in H. cbn [map fst snd] in H.
  set (s2 := poll_prepare s) in *.
  change (aborted (set_batch (set_npw s2 (S (npw s2))) ((fd, fd, rep) :: map (fun a => (fst a, fst a, snd a)) rest)))
    with (aborted s2) in H. rewrite Ha in H. cbn [batch set_batch] in H.
  destruct (dispatch_one fdo beh _ (fd, fd, rep)) as [s3 e3] eqn:Hd.
  destruct (dispatch (length rest) fdo beh s3) as [s4 e4]. inversion H; subst.
  eapply dispatch_fires in Hd; eauto.
  destruct Hd as [st [ev [req [efd [r [hfd [gs [n [tl ->]]]]]]]]]. cbn. eauto 15.
Qed.

(* ---- what the ghost fields record ------------------------------------------------------ *)
Lemma ghost_after_stop s i : NI s -> (i < length (hs s))%nat ->
  g_start (hget (poll_stop s i) i) = None.
Proof. intros Hn Hl. apply (NI_poll_stop s i Hn Hl). Qed.

Lemma ghost_after_start s i m s' : NI s -> (i < length (hs s))%nat ->
  poll_start s i m = (s', 0) -> mzero m = false ->
  g_start (hget s' i) = Some (npw s) /\ g_req (hget s' i) = mand m ALLEV.
Proof.
  intros Hn Hl H Hz. unfold poll_start in H.
  destruct (match reg s (h_fd (hget s i)) with Some j => negb (Nat.eqb i j) | None => false end); [discriminate|].
  rewrite Hz in H. inversion H; subst. clear H.
  destruct (NI_poll_stop s i Hn Hl) as [_ [_ [_ [H4 [H5 _]]]]]. cbv zeta in *.
  rewrite hget_hupd_same by (rewrite io_start_length; lia). cbn.
  destruct (io_start_same (poll_stop s i) i (mand m ALLEV)) as [[_ [Sn _]] _]. rewrite Sn, H5. auto.
Qed.

(* ---- probes of the state at the k-th epoll_pwait; the scripts that were counter-examples
   before the repairs 4af929c / 2caaa44 of src/unix/poll.c ---------------------------------- *)
Fixpoint nth_pwait (evs : list event) (k : nat) : option state :=
  match evs with
  | [] => None
  | EPwait s _ :: r => match k with O => Some s | S k' => nth_pwait r k' end
  | _ :: r => nth_pwait r k
  end.

Lemma nth_pwait_sync evs : Forall EK evs -> forall k s, nth_pwait evs k = Some s -> SYNC s.
Proof.
  induction 1 as [|e r He Hr IH]; intros k s Hk; cbn in Hk; [discriminate|].
  destruct e; eauto. destruct k; eauto. inversion Hk; subst. exact He.
Qed.

(* what the kernel has for the descriptor of a watched handle at the k-th epoll_pwait *)
Definition probe_watched (evs : list event) (k : nat) (fd : Z) : option (option mask * mask) :=
  match nth_pwait evs k with
  | Some s => match reg s fd, fdt s fd with
              | Some i, Some o => Some (ep s fd o, h_pev (hget s i))
              | _, _ => None
              end
  | None => None
  end.

Lemma probe_watched_sync evs k fd e m :
  Forall EK evs -> probe_watched evs k fd = Some (e, m) -> e = Some m.
Proof.
  intros H. unfold probe_watched. destruct (nth_pwait evs k) as [s|] eqn:Hk; [|discriminate].
  destruct (nth_pwait_sync _ H _ _ Hk) as [A _].
  destruct (reg s fd) as [i|] eqn:Hr; [|discriminate]. destruct (fdt s fd) as [o|] eqn:Hf; [|discriminate].
  intros X. inversion X; subst. destruct (A _ _ Hr) as [o' [F G]]. congruence.
Qed.

(* a kernel registration and what the descriptor table says about its number *)
Definition probe_entry (evs : list event) (k : nat) (fd : Z) (o : nat) : option (option mask * option nat) :=
  match nth_pwait evs k with
  | Some s => Some (ep s fd o, fdt s fd)
  | None => None
  end.

Lemma probe_entry_sync evs k fd o m t :
  Forall EK evs -> probe_entry evs k fd o = Some (Some m, t) -> t = Some o.
Proof.
  intros H. unfold probe_entry. destruct (nth_pwait evs k) as [s|] eqn:Hk; [|discriminate].
  destruct (nth_pwait_sync _ H _ _ Hk) as [_ B]. intros X. inversion X; subst.
  destruct (B _ _ _ H1) as [F _]. auto.
Qed.

Definition UVM (r w : bool) : mask := mkM r false w false false false.

(* two poll handles on one descriptor number; closing the one that was never
   started removes the kernel registration of the started one *)
Definition script_shared : list op :=
  [OOpen 0; OInit 0; OInit 0; OStart 1 (UVM true false); ORun; OClose 0; ORun].

(* repaired: the started handle keeps its kernel registration *)
Example shared_in_sync :
  probe_watched (snd (run (fun _ => 5) (fun _ => []) (fun _ => []) (sinit true false) script_shared)) 1 5
  = Some (Some ONLY_IN, ONLY_IN).
Proof. vm_compute. reflexivity. Qed.

(* POLLERR auto-stop (UV_EBADF) leaves the registration; the user keeps a dup,
   closes the descriptor and then the handle inside the callback *)
Definition script_ebadf : list op := [OOpen 0; OInit 0; OStart 0 (UVM false true); ORun; ORun].
Definition beh_ebadf (k : nat) : list op :=
  match k with O => [ODup 0 1; OCloseFd 0; OClose 0] | _ => [] end.
Definition pw_ebadf (k : nat) : list (Z * mask) :=
  match k with O => [(5, mkM false false true true false false)] | _ => [] end.
Definition fdo_ebadf (k : nat) : Z := match k with O => 5 | _ => 6 end.

(* repaired: nothing is left in the kernel under the closed number *)
Example ebadf_in_sync :
  probe_entry (snd (run fdo_ebadf pw_ebadf beh_ebadf (sinit false false) script_ebadf)) 1 5 0%nat
  = Some (None, None).
Proof. vm_compute. reflexivity. Qed.

(* ---- the flag tables and uv__poll_stop for every one of the 16 UV masks ---------------- *)
Definition uv_masks : list Z := [0; 1; 2; 3; 4; 5; 6; 7; 8; 9; 10; 11; 12; 13; 14; 15].

(* uv_poll_start's translation: READABLE->POLLIN(1), WRITABLE->POLLOUT(4),
   DISCONNECT->POLLRDHUP(0x2000), PRIORITIZED->POLLPRI(2), for every combination *)
Lemma flag_table :
  map poll_of_uv uv_masks =
  [0; 1; 4; 5; 8192; 8193; 8196; 8197; 2; 3; 6; 7; 8194; 8195; 8198; 8199].
Proof. vm_compute. reflexivity. Qed.

(* uv__poll_io's translation is its inverse on what can be requested *)
Lemma flag_roundtrip : forall v, In v uv_masks ->
  uv_of_poll (poll_of_uv v) = v /\ uv_of_mask (mask_of_uv v) = v /\
  mand (mask_of_uv v) ALLEV = mask_of_uv v.
Proof. intros v H. cbn in H. repeat (destruct H as [<-|H]; [vm_compute; auto|]). contradiction. Qed.

(* in every reachable state uv__poll_stop leaves no requested event, whatever was requested *)
Lemma stop_clears_all s i : NI s -> (i < length (hs s))%nat ->
  h_pev (hget (poll_stop s i) i) = m0 /\ h_ev (hget (poll_stop s i) i) = m0 /\
  forall fd, reg (poll_stop s i) fd <> Some i.
Proof.
  intros Hn Hl. destruct (NI_poll_stop s i Hn Hl) as [_ [H2 [_ [_ [_ [_ [_ [H8 [H9 _]]]]]]]]]. auto.
Qed.

(* the finite sweep: start with each of the 16 masks, let the registration reach the kernel,
   stop: the kernel had exactly the translation of the request, and afterwards the watcher
   requests nothing, is out of the registry, inactive, and gone from the kernel *)
Definition sweep_script (v : Z) : list op :=
  [OOpen 0; OInit 0; OStart 0 (mask_of_uv v); ORun; OStop 0 m0; ORun].

Definition sweep_ok (rng strct : bool) (v : Z) : bool :=
  let r := run (fun _ => 5) (fun _ => []) (fun _ => []) (sinit rng strct) (sweep_script v) in
  let s := fst r in
  let before := probe_watched (snd r) 0 5 in
  mzero (h_pev (hget s 0)) && mzero (h_ev (hget s 0)) && negb (h_active (hget s 0)) &&
  match reg s 5 with None => true | Some _ => false end &&
  match ep s 5 0 with None => true | Some _ => false end &&
  match before with
  | Some (Some k, w) => meqb k (mask_of_uv v) && meqb w (mask_of_uv v)
  | Some (None, _) => false
  | None => v =? 0                       (* an empty request registers nothing *)
  end &&
  match probe_entry (snd r) 1 5 0%nat with Some (None, _) => true | _ => false end.

Lemma stop_sweep : forall rng strct v, In v uv_masks -> sweep_ok rng strct v = true.
Proof.
  intros rng strct v H. cbn in H.
  destruct rng, strct; repeat (destruct H as [<-|H]; [vm_compute; reflexivity|]); contradiction.
Qed.

(* ---- the UV_EEXIST rule holds for every descriptor number (0 included) ------------------- *)
Lemma poll_init_refuses s fd i : reg s fd = Some i ->
  snd (poll_init s fd) = UV_EEXIST /\ ep (fst (poll_init s fd)) = ep s /\
  reg (fst (poll_init s fd)) = reg s /\ wq (fst (poll_init s fd)) = wq s.
Proof. intros H. unfold poll_init, fd_exists. rewrite H. cbn. auto. Qed.

Lemma foreign_open_refused fdo s k sl i : aborted s = false -> slots s sl <> -1 ->
  reg s (slots s sl) = Some i ->
  api fdo s (OForeign k sl) = (s, [EForeign k (slots s sl) true]).
Proof.
  intros Ha Hs Hr. unfold api. rewrite Ha. destruct (Z.eqb_spec (slots s sl) (-1)); [contradiction|].
  unfold fd_exists. rewrite Hr. reflexivity.
Qed.

(* finite sweep over descriptor numbers: a started handle on number fd; a second uv_poll_init
   and a uv_pipe_open on it are refused and the first handle's kernel registration stays *)
Definition eexist_ok (rng : bool) (fd : Z) : bool :=
  let r := run (fun _ => fd) (fun _ => []) (fun _ => []) (sinit rng false)
               [OOpen 0; OInit 0; OStart 0 ONLY_IN; ORun; OInit 0; OForeign 0 0; ORun] in
  match probe_watched (snd r) 1 fd with
  | Some (Some k, w) => meqb k ONLY_IN && meqb w ONLY_IN
  | _ => false
  end &&
  existsb (fun e => match e with EInit 1 KPoll c _ => c =? UV_EEXIST | _ => false end) (snd r) &&
  existsb (fun e => match e with EForeign _ _ true => true | _ => false end) (snd r).

Lemma eexist_sweep : forall rng fd, In fd [0; 1; 2; 3; 7; 1023; 1024; 65535] -> eexist_ok rng fd = true.
Proof.
  intros rng fd H. cbn in H. destruct rng; repeat (destruct H as [<-|H]; [vm_compute; reflexivity|]); contradiction.
Qed.
